"""In-process driver of ssh_audit.output()/build_struct() for a synthetic SSH-2 peer, the shared peer generator of
C01-C04/C13/C15, and the Coq literal of a `peer` (coq/model/Report.v)."""
import contextlib
import io
import json
import os
import sys

from coqlit import cstr, cz, cbool, clist, copt, cpair, cstrs
import canon

LEVELS = {'fail': 'LFail', 'warn': 'LWarn', 'info': 'LInfo'}


def tables():
    from ssh_audit.ssh2_kexdb import SSH2_KexDB
    return SSH2_KexDB.MASTER_DB


def reset_db():
    from ssh_audit.ssh2_kexdb import SSH2_KexDB
    from ssh_audit.ssh1_kexdb import SSH1_KexDB
    SSH2_KexDB.thread_exit()
    SSH1_KexDB.thread_exit()


def make_kex(peer):
    from ssh_audit.ssh2_kex import SSH2_Kex
    from ssh_audit.ssh2_kexparty import SSH2_KexParty
    from ssh_audit.outputbuffer import OutputBuffer
    cli = SSH2_KexParty(list(peer.get('enc_c', peer['enc'])), list(peer.get('mac_c', peer['mac'])), list(peer.get('comp', ['none'])), [''])
    srv = SSH2_KexParty(list(peer['enc']), list(peer['mac']), list(peer.get('comp', ['none'])), [''])
    kex = SSH2_Kex(OutputBuffer(), bytes(16), list(peer['kex']), list(peer['key']), cli, srv, False, 0)
    for t, (blob, size, ca_type, ca_size) in (peer.get('hostkeys') or {}).items():
        kex.set_host_key(t, blob, size, ca_type, ca_size)
    for a, sz in (peer.get('dh') or {}).items():
        kex.set_dh_modulus_size(a, sz)
    return kex


def run_output(peer, batch=False, verbose=False, level='info', colors=False, js=0, db_edits=None):
    """Calls the real output() for the peer.  Returns dict(ret, text, exc)."""
    from ssh_audit.ssh_audit import output
    from ssh_audit.auditconf import AuditConf
    from ssh_audit.outputbuffer import OutputBuffer
    from ssh_audit.banner import Banner
    from ssh_audit.ssh2_kexdb import SSH2_KexDB
    reset_db()
    if db_edits:
        db_edits(SSH2_KexDB.get_db())
    out = OutputBuffer()
    out.batch, out.verbose, out.level, out.use_colors = batch, verbose, level, colors
    aconf = AuditConf('target.example', 22)
    aconf.batch, aconf.verbose, aconf.level, aconf.colors = batch, verbose, level, colors
    if js:
        aconf.json = True
        aconf.json_print_indent = js > 1
        out.json = True
        out.use_colors = False
    banner = Banner.parse(peer['banner']) if peer.get('banner') is not None else None
    kex = make_kex(peer)
    client_host = '192.0.2.7' if peer.get('client_audit') else None
    buf = io.StringIO()
    try:
        with contextlib.redirect_stdout(buf):
            ret = output(out, aconf, banner, [], client_host=client_host, kex=kex, print_target=False, dh_rate_test_notes=peer.get('rate_notes', ''))
        text = out.get_buffer()
        return {'ret': ret, 'text': text, 'exc': None, 'stdout': buf.getvalue()}
    except Exception as e:  # noqa
        import traceback
        return {'ret': None, 'text': '', 'exc': type(e).__name__, 'trace': traceback.format_exc()}
    finally:
        reset_db()


def availability(peer):
    """(product, [(version token, available?)]) for the software the banner identifies, over every token in the DB."""
    from ssh_audit.banner import Banner
    from ssh_audit.software import Software
    from ssh_audit.algorithm import Algorithm
    if peer.get('banner') is None:
        return None
    b = Banner.parse(peer['banner'])
    if b is None:
        return None
    sw = Software.parse(b)
    if sw is None:
        return None
    toks = set()
    for cat, ents in tables().items():
        for n, d in ents.items():
            if d[0] and d[0][0] is not None:
                for v in d[0][0].split(','):
                    _, ver, _ = Algorithm.get_ssh_version(v)
                    if ver:
                        toks.add(ver)
    return sw.product, sorted((t, sw.compare_version(t) >= 0) for t in toks)


def banner_software(peer):
    from ssh_audit.banner import Banner
    if peer.get('banner') is None:
        return None
    b = Banner.parse(peer['banner'])
    return None if b is None else b.software


def general_levels(peer):
    """Coq literal of the levelled findings of the general section, from the banner text itself (not from the tool's output)."""
    b = peer.get('banner')
    if b is None:
        return '[]'
    import re as _re
    m = _re.match(r'^SSH-(\d)\.', b)
    ssh1 = bool(m) and m.group(1) == '1'
    nonpr = any(not (32 <= ord(ch) <= 126) for ch in b)
    return '(general_levels %s %s)' % ('true' if ssh1 else 'false', 'true' if nonpr else 'false')


def coq_peer(peer):
    av = availability(peer)
    sw = 'None' if av is None else '(Some {| sw_product := %s; sw_available := avail_table %s |})' % (cstr(av[0]), clist(av[1], lambda x: cpair(cstr(x[0]), cbool(x[1]))))
    hk = clist((peer.get('hostkeys') or {}).items(), lambda kv: cpair(cstr(kv[0]), '{| hk_size := %s; hk_ca_type := %s; hk_ca_size := %s |}' % (cz(kv[1][1]), cstr(kv[1][2]), cz(kv[1][3]))))
    dh = clist((peer.get('dh') or {}).items(), lambda kv: cpair(cstr(kv[0]), cz(kv[1])))
    k = '{| kl_kex := %s; kl_key := %s; kl_enc := %s; kl_mac := %s; kl_enc_c := %s; kl_mac_c := %s; kl_comp := %s |}' % (
        cstrs(peer['kex']), cstrs(peer['key']), cstrs(peer['enc']), cstrs(peer['mac']), cstrs(peer.get('enc_c', peer['enc'])), cstrs(peer.get('mac_c', peer['mac'])), cstrs(peer.get('comp', ['none'])))
    return '{| pr_client_audit := %s; pr_banner_software := %s; pr_software := %s; pr_k := %s; pr_hostkeys := %s; pr_dh := %s; pr_rate_notes := %s; pr_general := %s |}' % (
        cbool(bool(peer.get('client_audit'))), copt(banner_software(peer), cstr), sw, k, hk, dh, cstr(peer.get('rate_notes', '')), general_levels(peer))


def coq_items(algs):
    return clist(algs, lambda a: '(%s, %s, %s, %s)' % (cstr(a['cat']), cstr(a['name']), cstr(a['shown']), clist(a['notes'], lambda n: cpair(LEVELS[n[0]], cstr(n[1])))))


def coq_recs(recs):
    L = {'critical': 'Critical', 'warning': 'Warning', 'informational': 'Informational'}
    A = {'add': 'Add', 'del': 'Del', 'chg': 'Chg'}
    return clist(recs, lambda r: '(mk_rec %s %s %s %s %s)' % (L[r[0]], A[r[1]], cstr(r[2]), cstr(r[3]), cstr(r[4])))


# ---------------------------------------------------------------- peer generator
GSS_SUFFIXES = ['toWM5Slw5Ew8Mqkay+al2g==', 'vz8J1E9PzLr8b1K+0remTg==', 'A/vxljAEU54gt9a48EiANQ==', 'abc=', 'x+/y==', 'Z']


class Gen:
    def __init__(self, rng):
        self.rng = rng
        self.db = tables()
        self.names = {c: list(v.keys()) for c, v in self.db.items()}

    def sev(self, cat, n):
        d = self.db[cat].get(n)
        if d is None: return 'unknown'
        if len(d) > 1 and d[1]: return 'fail'
        if len(d) > 2 and d[2]: return 'warn'
        return 'clean'

    def by_sev(self, cat, s):
        return [n for n in self.names[cat] if self.sev(cat, n) == s and not n.endswith('-*')]

    def gss_instances(self):
        return [n[:-1] + self.rng.choice(GSS_SUFFIXES) for n in self.names['kex'] if n.endswith('-*')]

    def unknown(self, cat):
        r = self.rng
        base = r.choice(['foo', 'bar-x', 'made-up@example.com', 'aes999', 'zz'])
        if cat == 'enc':
            return r.choice([base + '-cbc', base + '-ctr', 'chacha20-poly1305-x@example.com', base + '-cbc@ssh.com', base])
        if cat == 'mac':
            return r.choice([base + '-etm@openssh.com', 'hmac-' + base, base])
        if cat == 'kex':
            return r.choice([base, 'gss-' + base + '-' + r.choice(GSS_SUFFIXES), 'kex-' + base])
        return r.choice([base, 'ssh-' + base, base + '-cert-v01@openssh.com'])

    def namelist(self, cat, mix=None):
        """A list for one category with a chosen severity mix, ordering shuffled."""
        r = self.rng
        mix = mix or r.choice(['clean', 'warn', 'fail', 'failwarn', 'all', 'unknown', 'single', 'dup', 'random'])
        pool = {s: self.by_sev(cat, s) for s in ('clean', 'warn', 'fail')}
        pick = lambda s, k: [r.choice(pool[s]) for _ in range(k)] if pool[s] else []
        if mix == 'clean': l = pick('clean', r.randint(1, 3)) or pick('warn', 1)
        elif mix == 'warn': l = pick('warn', r.randint(1, 3)) + pick('clean', r.randint(0, 2))
        elif mix == 'fail': l = pick('fail', r.randint(1, 3)) + pick('clean', r.randint(0, 2))
        elif mix == 'failwarn': l = pick('fail', r.randint(1, 2)) + pick('warn', r.randint(1, 2))
        elif mix == 'all': l = pick('fail', 1) + pick('warn', 1) + pick('clean', 1) + [self.unknown(cat)]
        elif mix == 'unknown': l = [self.unknown(cat) for _ in range(r.randint(1, 2))] + pick('clean', r.randint(0, 1))
        elif mix == 'single': l = [r.choice(self.names[cat])] if not self.names[cat][0].endswith('*') else pick('clean', 1)
        elif mix == 'dup':
            x = r.choice(pool['warn'] or pool['clean']); l = [x, x] + pick('clean', 1)
        else: l = [r.choice(self.names[cat]) for _ in range(r.randint(1, 6))]
        l = [n for n in l if not n.endswith('-*')] or pick('clean', 1) or pick('warn', 1)
        if cat == 'kex' and r.random() < 0.3:
            l.append(r.choice(self.gss_instances()))
        r.shuffle(l)
        # empty names: an empty name-list decodes to [''], a trailing comma or 'a,,b' yields '' elements
        k = r.random()
        if k < 0.04: l = ['']
        elif k < 0.12: l.insert(r.randrange(len(l) + 1), '')
        elif k < 0.16: l.append('')
        return l

    def banner(self):
        r = self.rng
        return r.choice(['SSH-2.0-OpenSSH_8.9', 'SSH-2.0-OpenSSH_7.4', 'SSH-2.0-OpenSSH_6.6.1p1 Ubuntu-2ubuntu2', 'SSH-2.0-OpenSSH_9.9', 'SSH-2.0-OpenSSH_10.0',
                         'SSH-2.0-dropbear_2020.81', 'SSH-2.0-dropbear_2014.66', 'SSH-2.0-libssh_0.10.6', 'SSH-2.0-libssh-0.7.0', 'SSH-2.0-tinyssh_noversion',
                         'SSH-2.0-PuTTY_Release_0.80', 'SSH-2.0-Cisco-1.25', 'SSH-2.0-SomethingElse_1.0', 'SSH-2.0-OpenSSH_3.9p1', 'SSH-1.99-OpenSSH_5.3', 'SSH-1.5-OpenSSH_2.3.0', 'SSH-2.0-OpenSSH_8.9 caf\u00e9', 'SSH-1.99-dropbear_0.52 \x07', None])

    def peer(self, terrapin=None):
        r = self.rng
        p = {'banner': self.banner(), 'kex': self.namelist('kex'), 'key': self.namelist('key'), 'enc': self.namelist('enc'), 'mac': self.namelist('mac'),
             'client_audit': r.random() < 0.3, 'comp': r.choice([['none'], ['none', 'zlib@openssh.com'], ['zlib']])}
        # Terrapin context
        t = terrapin or r.choice(['none', 'chacha', 'cbc', 'etm', 'cbc+etm', 'all', 'random'])
        if t in ('chacha', 'all'): p['enc'].insert(r.randrange(len(p['enc']) + 1), r.choice(['chacha20-poly1305@openssh.com', 'chacha20-poly1305']))
        if t in ('cbc', 'cbc+etm', 'all'): p['enc'].insert(r.randrange(len(p['enc']) + 1), r.choice([n for n in self.names['enc'] if n.endswith('-cbc')] + ['unknown1-cbc']))
        if t in ('etm', 'cbc+etm', 'all'): p['mac'].insert(r.randrange(len(p['mac']) + 1), r.choice([n for n in self.names['mac'] if n.endswith('-etm@openssh.com')] + ['unknown2-etm@openssh.com']))
        m = r.choice(['none', 'none', 'own', 'other', 'both'])
        own, other = ('kex-strict-c-v00@openssh.com', 'kex-strict-s-v00@openssh.com') if p['client_audit'] else ('kex-strict-s-v00@openssh.com', 'kex-strict-c-v00@openssh.com')
        if m in ('own', 'both'): p['kex'].append(own)
        if m in ('other', 'both'): p['kex'].append(other)
        if r.random() < 0.15:   # asymmetric directions (explored, reported in evidence)
            p['enc_c'] = self.namelist('enc'); p['mac_c'] = self.namelist('mac')
        # measured attributes
        hk, dh = {}, {}
        for n in p['key']:
            if n in ('ssh-rsa', 'rsa-sha2-256', 'rsa-sha2-512') and r.random() < 0.6:
                sz = r.choice([1024, 2048, 3072, 4096])
                for f in ('ssh-rsa', 'rsa-sha2-256', 'rsa-sha2-512'):
                    hk.setdefault(f, (b'blob' + bytes([sz % 251]), sz, '', 0))
            elif n.endswith('-cert-v01@openssh.com') and r.random() < 0.6:
                hk[n] = (b'cert', r.choice([256, 2048, 3072]), r.choice(['ssh-rsa', 'ssh-ed25519', 'ecdsa-sha2-nistp256', 'rsa-sha2-512']), r.choice([256, 1024, 2048, 4096]))
            elif n == 'ssh-ed25519' and r.random() < 0.6:
                hk[n] = (b'ed', 256, '', 0)
        for n in p['kex']:
            if n.startswith('diffie-hellman-group-exchange-sha') and n in self.db['kex'] and r.random() < 0.7:
                dh[n] = r.choice([1024, 1536, 2048, 3072, 4096])
        p['hostkeys'], p['dh'] = hk, dh
        if r.random() < 0.3:   # the note of the connection-rate check, as audit() passes it to output()
            p['rate_notes'] = 'Potentially insufficient connection throttling detected, resulting in possible vulnerability to the DHEat DoS attack (CVE-2002-20001).  38 connections were created in %.3f seconds, or %.1f conns/sec; server must respond with a rate less than 20.0 conns/sec per IPv4/IPv6 source address to be considered safe.' % (r.random(), 38 / (0.1 + r.random()))
        return p
