"""Shared machinery of the checks: translator call, Coq build, Print Assumptions capture, gate grep,
case-file evaluation of the model (vm_compute inside coqc), verdict protocol, evidence writer."""
import concurrent.futures
import fcntl
import hashlib
import json
import os
import random
import re
import subprocess
import sys
import time

VERIF = os.path.dirname(os.path.dirname(os.path.abspath(__file__)))
REPO = os.environ.get('VERIF_REPO', '/repo')
COQ = os.path.join(VERIF, 'coq')
PY = '/venv/bin/python'
NCPU = os.cpu_count() or 4

sys.path[0:0] = [os.path.join(REPO, 'src')]

BASE_ENV = dict(os.environ, PYTHONPATH=os.path.join(REPO, 'src'), PYTHONHASHSEED='0', VERIF_REPO=REPO)

TRUSTED_BASE = [
    'Coq 8.16.1 kernel incl. vm_compute (no native_compute); coqchk re-check in thorough tier',
    'no axioms declared; Print Assumptions output captured in this evidence per theorem',
    'harness/translate.py on every run: import-and-dump of the tables + fail-closed ast patterns (T1) and the statement-by-statement translators of integer kernels (T1b) and of decision kernels over strings, booleans and lists (T1c) -> coq/gen/Tables.v; harness/codectrans.py: message codecs SSH2_Kex / SSH1_PublicKeyMessage parse/write with symbolic evaluation of the constructors (T1d) -> coq/gen/Codecs.v; the translators\' reading of the Python subset they accept is trusted',
    'hand-written Gallina models under coq/model tied to the code by differential correspondence (model evaluated by coqc vm_compute on the same inputs as the implementation)',
    'harness code: generators, scripted TCP peers, CLI fork runner, output canonicalisers, Python oracles, known-finding matchers',
    'CPython semantics of primitives named in DESIGN.md section 3 (struct, slices, str.split, re, json, hashlib, socket, threading, time) are modelled or observed, not verified',
]

GATE_RE = re.compile(r'\b(Admitted|admit|Axiom|Axioms|Parameter|Parameters|Conjecture|Hypothesis|Variable|Unset\s+Guard|bypass_check|Admit\s+Obligations|type-in-type|impredicative-set|native_compute)\b')


class CheckError(Exception):
    """Harness failure (not a property verdict)."""


def sh(cmd, timeout=600, cwd=None, env=None, inp=None):
    p = subprocess.run(cmd, cwd=cwd, env=env or BASE_ENV, input=inp, capture_output=True, text=True, timeout=timeout)
    return p.returncode, p.stdout + p.stderr


class BuildLock:
    """Exclusive for builds (make rewrites .vo files), shared for readers (coqc on case files loads them)."""

    def __init__(self, shared=False):
        self.shared = shared

    def __enter__(self):
        self.f = open(os.path.join(VERIF, '.build.lock'), 'a')
        fcntl.flock(self.f, fcntl.LOCK_SH if self.shared else fcntl.LOCK_EX)
        return self

    def __exit__(self, *a):
        fcntl.flock(self.f, fcntl.LOCK_UN)
        self.f.close()


def translate():
    """Regenerate coq/gen/Tables.v from the working tree.  Returns (ok, text)."""
    rc, out = sh([PY, os.path.join(VERIF, 'harness', 'translate.py')], timeout=120)
    # a compiled generated file must come from the generated source that is on disk now: the hash of the source is kept beside the .vo, and a .vo whose
    # source hash is not the current one is removed (make only compares time stamps, which two runs in one checkout can get wrong)
    import hashlib
    for f in ('Tables', 'Codecs'):
        v, vo, st = (os.path.join(COQ, 'gen', f + e) for e in ('.v', '.vo', '.srchash'))
        if not os.path.exists(v):
            continue
        h = hashlib.sha256(open(v, 'rb').read()).hexdigest()
        old = open(st).read().strip() if os.path.exists(st) else None
        if old != h:
            for x in (vo, os.path.join(COQ, 'gen', f + '.vos'), os.path.join(COQ, 'gen', f + '.vok'), os.path.join(COQ, 'gen', f + '.glob')):
                if os.path.exists(x):
                    os.unlink(x)
            open(st, 'w').write(h)
    return rc == 0, out.strip()


def vfiles():
    res = []
    for d in ('gen', 'model', 'proofs', 'props'):
        p = os.path.join(COQ, d)
        for f in sorted(os.listdir(p)):
            if f.endswith('.v'):
                res.append(d + '/' + f)
    return res


def ensure_makefile():
    files = vfiles()
    stamp = os.path.join(COQ, '.Makefile.files')
    want = '\n'.join(files)
    have = open(stamp).read() if os.path.exists(stamp) else None
    if have != want or not os.path.exists(os.path.join(COQ, 'Makefile')):
        rc, out = sh(['coq_makefile', '-f', '_CoqProject'] + files + ['-o', 'Makefile'], cwd=COQ)
        if rc != 0:
            raise CheckError('coq_makefile failed: ' + out)
        open(stamp, 'w').write(want)


def enclosing_lemma(path, line):
    try:
        lines = open(path, encoding='utf-8').read().split('\n')
    except OSError:
        return None
    for i in range(min(line, len(lines)) - 1, -1, -1):
        m = re.match(r'\s*(?:Theorem|Lemma|Corollary|Example|Definition|Fixpoint|Fact|Remark|Proposition)\s+([A-Za-z0-9_\']+)', lines[i])
        if m:
            return m.group(1)
    return None


def coq_build(targets, timeout=1500):
    """make -k the given .vo targets (paths relative to coq/).  Returns dict(ok, failures, log)."""
    with BuildLock():
        ensure_makefile()
        rc, out = sh(['timeout', str(timeout), 'make', '-k', '-j%d' % NCPU] + targets, cwd=COQ, timeout=timeout + 30)
    failures = []
    for m in re.finditer(r'File "\./([^"]+)", line (\d+), characters [^\n]*\n((?:(?!File ")[^\n]*\n){0,12})', out):
        f, ln, rest = m.group(1), int(m.group(2)), m.group(3)
        if 'Error' not in rest:
            continue
        failures.append({'file': f, 'line': ln, 'lemma': enclosing_lemma(os.path.join(COQ, f), ln), 'error': rest.strip()[:600]})
    missing = [t for t in targets if not os.path.exists(os.path.join(COQ, t))]
    ok = rc == 0 and not missing
    if not ok and not failures:
        failures.append({'file': ','.join(missing) or '?', 'line': 0, 'lemma': None, 'error': out[-800:]})
    return {'ok': ok, 'failures': failures, 'log': out[-4000:]}


COQ_ARGS = ['-Q', 'gen', 'VGen', '-Q', 'model', 'VModel', '-Q', 'proofs', 'VProofs', '-Q', 'props', 'VProps', '-w', '-notation-overridden,-deprecated-hint-without-locality']


def coqc_text(name, text, timeout=600):
    """Compile a scratch file under coq/cases; returns (rc, output)."""
    d = os.path.join(COQ, 'cases')
    os.makedirs(d, exist_ok=True)
    path = os.path.join(d, name + '.v')
    with open(path, 'w', encoding='utf-8') as f:
        f.write(text)
    try:
      with BuildLock(shared=True):
        rc, out = sh(['bash', '-c', 'ulimit -s unlimited 2>/dev/null || ulimit -s 1000000; exec timeout %d coqc -noglob "$@"' % timeout, 'coqc'] + COQ_ARGS + ['cases/' + name + '.v'], cwd=COQ, timeout=timeout + 30)
    finally:
        if os.environ.get('VERIF_KEEP'):
            import shutil
            shutil.copy(path, '/tmp/keep_' + name + '.v')
        for ext in ('.v', '.vo', '.vok', '.vos', '.glob'):
            try:
                os.remove(os.path.join(d, name + ext))
            except OSError:
                pass
        try:
            os.remove(os.path.join(d, '.' + name + '.aux'))
        except OSError:
            pass
    return rc, out


def theorems_of(prop_file):
    txt = open(os.path.join(COQ, prop_file), encoding='utf-8').read()
    return re.findall(r'^\s*Theorem\s+([A-Za-z0-9_\']+)', txt, re.M)


def print_assumptions(prop_mod, theorems, tag):
    """Returns dict theorem -> assumptions text ('Closed under the global context' when axiom-free)."""
    text = 'From VProps Require Import %s.\n' % prop_mod
    for t in theorems:
        text += 'Print Assumptions %s.\n' % t
    rc, out = coqc_text('PA_%s_%d' % (tag, os.getpid()), text)
    if rc != 0:
        raise CheckError('Print Assumptions failed: ' + out[-600:])
    parts = re.split(r'(?=Closed under the global context|Axioms:)', out)
    parts = [p.strip() for p in parts if p.strip()]
    if len(parts) != len(theorems):
        raise CheckError('Print Assumptions output count mismatch: %r' % out[-600:])
    return dict(zip(theorems, parts))


def gate_grep():
    """Forbidden vernacular anywhere in the development (comments stripped)."""
    bad = []
    for f in vfiles():
        if f.startswith('gen/'):
            continue
        txt = open(os.path.join(COQ, f), encoding='utf-8').read()
        txt = re.sub(r'\(\*.*?\*\)', lambda m: '\n' * m.group(0).count('\n'), txt, flags=re.S)
        txt = re.sub(r'"(?:[^"]|"")*"', '""', txt)
        for i, line in enumerate(txt.split('\n'), 1):
            m = GATE_RE.search(line)
            if m:
                # `Variable`/`Hypothesis` are allowed inside a Section only
                if m.group(1) in ('Variable', 'Hypothesis'):
                    pre = '\n'.join(txt.split('\n')[:i])
                    if len(re.findall(r'^\s*Section\s', pre, re.M)) > len(re.findall(r'^\s*End\s', pre, re.M)):
                        continue
                bad.append('%s:%d: %s' % (f, i, line.strip()[:120]))
    return bad


def parse_nat_list(out):
    m = re.search(r'=\s*\[(.*?)\]\s*(?:%nat)?\s*:\s*list nat', out, re.S)
    if not m:
        return None
    body = m.group(1).strip()
    if not body:
        return []
    return [int(x) for x in re.findall(r'\d+', body)]


SHARD_TIMES = []


def coq_cases(tag, imports, preamble, terms, shard=300, timeout=int(os.environ.get('VERIF_CASE_TIMEOUT', '400'))):
    """Evaluate boolean terms inside Coq (vm_compute); returns sorted list of indices whose term is false."""
    if not terms:
        return []
    shards = []
    cur, size, start = [], 0, 0
    for i, t in enumerate(terms):
        if cur and (len(cur) >= shard or size + len(t) > 120000):
            shards.append((start, cur)); cur, size, start = [], 0, i
        cur.append(t); size += len(t)
    if cur:
        shards.append((start, cur))

    def run(job):
        k, ts = job
        text = ''.join('From %s Require Import %s.\n' % tuple(i.split(':')) for i in imports)
        text += 'Open Scope string_scope. Open Scope list_scope. Open Scope Z_scope.\n' + preamble + '\n'
        text += 'Definition cases : list bool := [\n' + ';\n'.join(ts) + '\n].\n'
        text += 'Eval vm_compute in (failing cases).\n'
        t1 = time.time()
        rc, out = coqc_text('K_%s_%d_%d' % (re.sub(r'[^A-Za-z0-9_]', '_', tag), os.getpid(), k), text, timeout)
        SHARD_TIMES.append((round(time.time() - t1, 1), tag, k))
        if rc != 0:
            raise CheckError('case file %s shard %d failed to compile: %s' % (tag, k, out[-1500:]))
        idx = parse_nat_list(out)
        if idx is None:
            raise CheckError('case file %s shard %d: cannot parse output %r' % (tag, k, out[-400:]))
        return [k + i for i in idx]
    res = []
    with concurrent.futures.ThreadPoolExecutor(max_workers=NCPU) as ex:
        for r in ex.map(run, shards):
            res.extend(r)
    return sorted(res)


def coq_eval(tag, imports, preamble, term, timeout=300):
    """Raw `Eval vm_compute` text of one term (for diagnostics / model-side failure lists)."""
    text = ''.join('From %s Require Import %s.\n' % tuple(i.split(':')) for i in imports)
    text += 'Open Scope string_scope. Open Scope list_scope. Open Scope Z_scope.\n' + preamble + '\n'
    text += 'Eval vm_compute in (%s).\n' % term
    rc, out = coqc_text('E_%s_%d' % (tag, os.getpid()), text, timeout)
    return rc, out.strip()


class Ctx:
    """One check run of one property."""

    def __init__(self, prop, tier, seed):
        self.prop, self.tier, self.seed = prop, tier, seed
        self.rng = random.Random(seed * 1000003 + int(prop[1:]))
        self.t0 = time.time()
        self.violations = []      # dicts: key, what, replay
        self.broken = []          # dicts: kind ('proof'|'correspondence'|'translator'|'gate'), name, detail
        self.obligations = []
        self.discharged = []
        self.assumptions_text = {}
        self.checker_cmds = []
        self.evaluations = 0
        self.nontrivial = set()
        self.samples = []
        self.rules = []
        self.extra = {}
        self.notes = []
        self.exhaustive = None

    quick = property(lambda self: self.tier == 'quick')

    # ---- proof side ----
    def proofs(self, prop_mods):
        """Translator + build + gate + Print Assumptions for the property files (module names under props/)."""
        ok, msg = translate()
        if not ok:
            self.broken.append({'kind': 'translator', 'name': 'harness/translate.py', 'detail': msg[-600:]})
        targets = ['props/%s.vo' % m for m in prop_mods]
        self.checker_cmds.append('cd coq && make -k -j%d %s  (full .vo build via coq_makefile; coqc 8.16.1)' % (NCPU, ' '.join(targets)))
        res = coq_build(targets)
        failed_files = {f['file'] for f in res['failures']}
        for m in prop_mods:
            ths = theorems_of('props/%s.v' % m)
            self.obligations += ['%s.%s' % (m, t) for t in ths]
            if os.path.exists(os.path.join(COQ, 'props/%s.vo' % m)) and res['ok']:
                pa = print_assumptions(m, ths, self.prop + m)
                for t in ths:
                    self.assumptions_text['%s.%s' % (m, t)] = pa[t]
                    if pa[t].startswith('Closed under the global context'):
                        self.discharged.append('%s.%s' % (m, t))
                    else:
                        self.broken.append({'kind': 'proof', 'name': '%s.%s' % (m, t), 'detail': 'depends on axioms: ' + pa[t][:300]})
        if not res['ok']:
            for f in res['failures']:
                self.broken.append({'kind': 'proof', 'name': '%s:%s' % (f['file'], f['lemma'] or '?'), 'detail': 'line %d: %s' % (f['line'], f['error'])})
        bad = gate_grep()
        for b in bad:
            self.broken.append({'kind': 'gate', 'name': b, 'detail': 'forbidden vernacular'})
        if self.tier == 'thorough' and res['ok']:
            self.coqchk(prop_mods)
        return res['ok']

    def coqchk(self, prop_mods):
        cmd = ['timeout', '1200', 'coqchk', '-silent', '-o'] + COQ_ARGS[:8] + ['VProps.%s' % m for m in prop_mods]
        self.checker_cmds.append('cd coq && ' + ' '.join(cmd))
        rc, out = sh(cmd, cwd=COQ, timeout=1300)
        self.extra['coqchk_rc'] = rc
        self.extra['coqchk_tail'] = out[-1500:]
        if rc != 0:
            self.broken.append({'kind': 'proof', 'name': 'coqchk', 'detail': out[-600:]})

    # ---- correspondence ----
    def correspond(self, name, imports, preamble, terms, describe):
        """terms: Coq bool terms `model(input) =? impl_output`; describe(i) -> replay dict of case i."""
        self.checker_cmds.append('correspondence %s: %d cases evaluated by coqc (vm_compute) against the implementation' % (name, len(terms)))
        dirs = {'VModel': 'model', 'VGen': 'gen', 'VProofs': 'proofs', 'VProps': 'props'}
        tg = ['%s/%s.vo' % (dirs[i.split(':')[0]], i.split(':')[1]) for i in imports]
        res = coq_build(tg)
        if not res['ok']:
            for f in res['failures']:
                self.broken.append({'kind': 'correspondence', 'name': name, 'detail': 'model does not build: %s line %d: %s' % (f['file'], f['line'], f['error'])})
            return [-1]
        try:
            bad = coq_cases(self.prop + '_' + name, imports, preamble, terms)
        except CheckError as e:
            self.broken.append({'kind': 'correspondence', 'name': name, 'detail': str(e)[-1500:]})
            return [-1]
        self.extra.setdefault('correspondence', {})[name] = {'cases': len(terms), 'mismatches': len(bad), 'slowest_shards': sorted(SHARD_TIMES)[-3:]}
        for i in bad[:5]:
            self.broken.append({'kind': 'correspondence', 'name': name, 'detail': json.dumps(describe(i), default=repr)[:1500]})
        if len(bad) > 5:
            self.broken.append({'kind': 'correspondence', 'name': name, 'detail': '... and %d more mismatches' % (len(bad) - 5)})
        return bad

    # ---- coverage / verdict ----
    def cover(self, n, nontrivial_keys, samples=(), rule=None):
        self.evaluations += n
        self.nontrivial.update(nontrivial_keys)
        for s in samples:
            if len(self.samples) < 12:
                self.samples.append(s)
        if rule and rule not in self.rules:
            self.rules.append(rule)

    def violation(self, key, what, replay):
        self.violations.append({'key': key, 'what': what, 'replay': replay})

    def finish(self):
        known = load_known()
        lines = []
        new = []
        seen_known = set()
        for v in self.violations:
            k = known.get((self.prop, v['key']))
            if k and k['status'] == 'known':
                if v['key'] not in seen_known:
                    seen_known.add(v['key'])
                    lines.append('KNOWN-FINDING: property=%s %s [%s]' % (self.prop, k['what'], v['key']))
            else:
                new.append(v)
        rc = 0
        rdir = os.path.join(VERIF, 'replays', self.prop)
        emitted = set()
        for v in new:
            if v['key'] in emitted:
                continue
            emitted.add(v['key'])
            os.makedirs(rdir, exist_ok=True)
            h = hashlib.sha1(json.dumps(v, sort_keys=True, default=repr).encode()).hexdigest()[:12]
            path = os.path.join(rdir, '%s.json' % h)
            with open(path, 'w') as f:
                json.dump({'property': self.prop, 'key': v['key'], 'what': v['what'], 'replay': v['replay'], 'broken': self.broken,
                           'reproduce': 'VERIF_SEED=%d bin/check %s --tier %s   (deterministic: the same generated case fails again; `replay` above is the failing input itself)' % (self.seed, self.prop, self.tier)}, f, indent=1, default=repr)
            lines.append('VIOLATION property=%s replay=%s' % (self.prop, os.path.relpath(path, VERIF)))
            print('  violation: %s -- %s' % (v['key'], v['what'][:300]))
            rc = 1
        if self.broken and not new:
            os.makedirs(rdir, exist_ok=True)
            h = hashlib.sha1(json.dumps(self.broken, sort_keys=True, default=repr).encode()).hexdigest()[:12]
            path = os.path.join(rdir, 'broken_%s.json' % h)
            with open(path, 'w') as f:
                json.dump({'property': self.prop, 'no_longer_checks': self.broken, 'reproduce': 'VERIF_SEED=%d bin/check %s --tier %s' % (self.seed, self.prop, self.tier),
                           'note': 'a proof obligation / correspondence / translator pattern no longer checks and the search found no concrete failing input'}, f, indent=1, default=repr)
            for b in self.broken[:8]:
                print('  broken %s: %s -- %s' % (b['kind'], b['name'], b['detail'][:400].replace('\n', ' ')))
            lines.append('VIOLATION property=%s replay=%s no-failing-input-found' % (self.prop, os.path.relpath(path, VERIF)))
            rc = 1
        elif self.broken:
            for b in self.broken[:8]:
                print('  broken %s: %s -- %s' % (b['kind'], b['name'], b['detail'][:400].replace('\n', ' ')))
        self.write_evidence(len(new) + (1 if self.broken and not new else 0), sorted(seen_known))
        for ln in lines:
            print(ln)
        print('%s %s: obligations %d/%d, evaluations %d, distinct non-trivial %d, %.1fs -> exit %d' % (
            self.prop, self.tier, len(self.discharged), len(self.obligations), self.evaluations, len(self.nontrivial), time.time() - self.t0, rc))
        return rc

    def write_evidence(self, nviol, known_keys):
        cov = {
            'obligations': len(self.obligations),
            'discharged': len(self.discharged),
            'checker_cmd': ' ; '.join(self.checker_cmds) or 'none',
            'trusted_base': TRUSTED_BASE,
            'evaluations': self.evaluations,
            'distinct_nontrivial': len(self.nontrivial),
            'rule': ' | '.join(self.rules),
            'samples': self.samples or ['(no cases generated)'],
            'theorems': self.obligations,
            'print_assumptions': self.assumptions_text,
            'no_longer_checks': self.broken,
            'known_findings_reproduced': known_keys,
        }
        if not self.discharged:
            # schema: a proof-level file with discharged=0 is not valid; fall back to the generic keys and say so
            del cov['discharged']
            cov['discharged_none'] = True
        if self.exhaustive is not None:
            cov['exhaustive'] = self.exhaustive
        cov.update(self.extra)
        ev = {
            'property_id': self.prop, 'tier': self.tier, 'seed': self.seed, 'level': 'proof',
            'coverage': cov,
            'assumptions': TRUSTED_BASE + self.notes,
            'wall_s': round(time.time() - self.t0, 2),
            'violations': nviol,
        }
        # evidence/ only ever describes runs against /repo itself; a run against another tree (VERIF_REPO, used to evaluate seeded changes) writes elsewhere
        edir = os.path.join(VERIF, 'evidence') if os.path.realpath(REPO) == '/repo' else os.path.join(VERIF, 'scratch', 'evidence_other_tree')
        os.makedirs(edir, exist_ok=True)
        tmp = os.path.join(edir, '%s.json.tmp%d' % (self.prop, os.getpid()))
        with open(tmp, 'w') as f:
            json.dump(ev, f, indent=1, default=repr)
        os.replace(tmp, os.path.join(edir, '%s.json' % self.prop))


def load_known():
    p = os.path.join(VERIF, 'known_findings.json')
    if not os.path.exists(p):
        return {}
    d = json.load(open(p))
    res = {(e['property'], e['key']): e for e in d.get('findings', [])}
    frag = os.path.join(VERIF, 'known_findings.d')
    if os.path.isdir(frag):
        for f in sorted(os.listdir(frag)):
            if f.endswith('.json'):
                for e in json.load(open(os.path.join(frag, f))).get('findings', []):
                    res[(e['property'], e['key'])] = e
    return res


def known_status(prop, key):
    e = load_known().get((prop, key))
    return e['status'] if e else None
