#!/venv/bin/python
"""Final confirmation of the kept seeded changes by the prescribed method: apply each patch to /repo itself, run the check(s), undo at once.
usage: seed_confirm.py [seed-id ...]   (default: all of /verif/seeded/*)"""
import json
import os
import subprocess
import sys
import time

V = '/verif'
ids = sys.argv[1:] or sorted(os.listdir(os.path.join(V, 'seeded')))


def sh(cmd, cwd=None, timeout=3000):
    p = subprocess.run(cmd, shell=True, cwd=cwd, capture_output=True, text=True, timeout=timeout)
    return p.returncode, p.stdout + p.stderr


assert sh('git -C /repo status --porcelain')[1].strip() == '', '/repo is not clean'
for sid in ids:
    d = os.path.join(V, 'seeded', sid)
    meta = json.load(open(os.path.join(d, 'meta.json')))
    checks = sorted(set([meta['property']] + list(meta['results'].get('caught_by') or [])))
    rc, o = sh('git -C /repo apply %s' % os.path.join(d, 'patch.diff'))
    if rc != 0:
        print(sid, 'PATCH DOES NOT APPLY', o[-200:]); continue
    res = {}
    try:
        for c in checks:
            t0 = time.time()
            rc, o = sh('bin/check %s --tier quick' % c, cwd=V)
            res[c] = {'exit': rc, 'wall_s': round(time.time() - t0, 1), 'violation_lines': [l[:200] for l in o.split('\n') if l.startswith('VIOLATION')][:3]}
    finally:
        sh('git -C /repo checkout -- .')
    assert sh('git -C /repo status --porcelain')[1].strip() == '', '/repo not restored'
    meta['confirmed_on_repo'] = {'method': 'git -C /repo apply <patch>; bin/check <id> --tier quick; git -C /repo checkout -- .', 'checks': res}
    json.dump(meta, open(os.path.join(d, 'meta.json'), 'w'), indent=1)
    print(sid, {c: r['exit'] for c, r in res.items()}, flush=True)
print('repo clean:', sh('git -C /repo status --porcelain')[1].strip() == '')
