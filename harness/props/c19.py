"""C19 - a standard audit's footprint on the target is small and bounded: server-side connection logs vs the model and the bounds."""
import random
import time

import peers as P
import runner
from coqlit import cstr, cz, cbool, clist, cstrs, cbytes

HK_TYPES = None


def tables():
    from ssh_audit.hostkeytest import HostKeyTest
    return list(HostKeyTest.HOST_KEY_TYPES.keys()), list(HostKeyTest.RSA_FAMILY)


def gen_case(rng, i):
    hk_types, rsa = tables()
    key = rng.sample(hk_types, rng.randint(1, 6)) + rng.choice([[], ['unknown-key-type']])
    rng.shuffle(key)
    kexpool = ['curve25519-sha256', 'diffie-hellman-group14-sha256', 'ecdh-sha2-nistp256', 'sntrup761x25519-sha512@openssh.com', 'no-such-kex']
    kex = rng.sample(kexpool, rng.randint(1, 3))
    gex = rng.choice(['none', 'sha256', 'sha1', 'both', 'both'])
    if gex in ('sha256', 'both'): kex.insert(rng.randrange(len(kex) + 1), 'diffie-hellman-group-exchange-sha256')
    if gex in ('sha1', 'both'): kex.insert(rng.randrange(len(kex) + 1), 'diffie-hellman-group-exchange-sha1')
    # behaviour of each probe
    hk_beh = {t: rng.choice(['ok', 'ok', 'ok', 'close', 'garbage', 'stall']) for t in key}
    gex_style = rng.choice(['all', 'all', 'min2048', 'min2048', 'refuse', 'refuse', 'only1024', 'only1024', 'stall-once', 'garbage'] if i % 9 == 4 else ['all', 'min2048', 'refuse', 'only1024'])
    banner = rng.choice([b'SSH-2.0-OpenSSH_8.9', b'SSH-2.0-dropbear_2022.83'])
    return {'key': key, 'kex': kex, 'hk_beh': hk_beh, 'gex_style': gex_style, 'banner': banner, 'rate': (i % 6 == 0), 'rate_answer': rng.choice(['ssh', 'garbage', 'close']),
            'multi': (i % 7 == 3)}    # the target is a host NAME with several addresses, all of them answering


# run in the audit process before the tool starts: one synthetic host name that resolves to three loopback addresses
MULTI_NAME = 'multi.verif.test'
MULTI_PRE = '''
import socket
_real_gai = socket.getaddrinfo
def _gai(host, port, family=0, type=0, proto=0, flags=0):
    if host == %r:
        if family not in (0, socket.AF_INET):
            raise socket.gaierror(-9, 'Address family for hostname not supported')
        return [(socket.AF_INET, socket.SOCK_STREAM, 6, '', (a, port)) for a in ('127.0.0.1', '127.0.0.2', '127.0.0.3')]
    return _real_gai(host, port, family, type, proto, flags)
socket.getaddrinfo = _gai
''' % MULTI_NAME


def gex_fn(style):
    def f(mn, pf, mx):
        if style == 'all': return max(mn, min(mx, pf))
        if style == 'min2048': return max(2048, pf) if mx >= 2048 else None
        if style == 'only1024': return 1024 if mn <= 1024 <= mx else None
        if style == 'refuse': return None
        if style == 'garbage': return 'garbage'
        if style == 'stall-once': return 'stall' if (mn, pf, mx) == (768, 768, 768) else (max(mn, min(mx, pf)))
        raise ValueError(style)
    return f


def blob_for(t):
    ca = P.rsa_blob(3072)
    if t in ('ssh-rsa', 'rsa-sha2-256', 'rsa-sha2-512'): return P.rsa_blob(3072)
    if t == 'ssh-ed25519': return P.ed25519_blob()
    if t == 'ssh-ed448': return P.ed448_blob()
    if t.startswith('ssh-rsa-cert') or t.startswith('rsa-sha2'): return P.rsa_cert_blob(3072, ca, ktype=t.encode())
    if t.startswith('ssh-ed25519-cert'): return P.ed25519_cert_blob(ca)
    if t.startswith('ecdsa-sha2-nistp') and 'cert' not in t: return P.ecdsa_blob(t.split('-')[-1].encode())
    if t == 'ssh-dss': return P.sstr(b'ssh-dss') + P.mpint(3) + P.mpint(5) + P.mpint(7) + P.mpint(11)
    return P.sstr(t.encode()) + P.sstr(bytes(40))


class RateAwareServer(P.Ssh2Server):
    """Like the cooperative server, but rate-check connections (which never send anything) can be answered with garbage or closed."""

    def __init__(self, spec, rate_answer):
        super().__init__(spec)
        self.rate_answer = rate_answer


def run(ctx):
    ctx.proofs(['C19'])
    q = ctx.quick
    rng = ctx.rng
    cases = [gen_case(rng, i) for i in range(70 if q else 1200)]

    def do(z, c):
        hostkeys = {}
        faults = []
        for t, b in c['hk_beh'].items():
            if b == 'ok': hostkeys[t.encode()] = blob_for(t)
        spec = dict(banner=c['banner'], kex=c['kex'], key=c['key'], enc=['aes128-ctr'], mac=['hmac-sha2-256'], hostkeys=hostkeys, gex=gex_fn(c['gex_style']))
        if c['rate'] and c['rate_answer'] != 'ssh':
            # answer everything after the probe phases (i.e. the rate-check connections) with garbage / an immediate close
            n_probe = 1 + len([t for t in tables()[0] if t in c['key']]) + 18
            spec['garbage_from'] = c.get('n_before_rate', n_probe)
            spec['garbage_bytes'] = b'0123456789' if c['rate_answer'] == 'garbage' else b''
        srv = P.new_ssh2_server(spec, stall_limit=3.0, bind_addr='0.0.0.0' if c.get('multi') else '127.0.0.1')
        # garbage / stall host-key replies: faults keyed on the probe's reply message of the connection that asks for that type
        orig = srv.behaviour

        def beh(conn):
            return orig(conn)
        srv.behaviour = beh
        # per-type behaviours other than ok/close are injected through hostkeys with a marker blob handled by faults on 'kexdh_reply'
        for t, b in c['hk_beh'].items():
            if b == 'garbage': hostkeys[t.encode()] = b'\xff' * 7
            if b == 'stall': hostkeys[t.encode()] = b'STALL'
        args = ['-n', '-t', '1'] + ([] if c['rate'] else ['--skip-rate-test']) + ['%s:%d' % (MULTI_NAME if c.get('multi') else '127.0.0.1', srv.port)]
        t0 = time.time()
        try:
            res = z.run(args, timeout=90, pre=MULTI_PRE if c.get('multi') else None)
            time.sleep(0.15)
            log = list(srv.log)
            return {'rc': res['rc'], 'out': res['out'][-300:], 'err': res['err'][-300:], 'timed_out': res['timed_out'], 'conns': srv.conns(), 'phases': dict(srv.phases), 'log': log,
                    'gex_requests': list(srv.gex_requests), 'maxconc': srv.max_concurrency(), 'wall': time.time() - t0}
        finally:
            srv.shutdown()

    with runner.Pool() as pool:
        results = pool.map(do, cases)

    hk_types, rsa = tables()
    terms, descs = [], []
    nontriv = set()
    for c, r in zip(cases, results):
        desc = {'op': 'cli-footprint', 'case': {k: (v.decode() if isinstance(v, bytes) else v) for k, v in c.items()}, 'conns': r['conns'], 'phases': {str(k): v for k, v in r['phases'].items()}}
        if r['timed_out'] or r['rc'] not in (0, 1, 2, 3):
            ctx.violation('audit-failed', 'status %r timed_out %r: %s' % (r['rc'], r['timed_out'], r['err']), desc)
            continue
        phases = [r['phases'].get(i, 'rate') for i in range(r['conns'])]
        n_first = phases.count('first')
        n_hk = phases.count('hostkey')
        n_gex = phases.count('gex')
        n_rate = sum(1 for p in phases if p in ('rate', 'silent-client'))
        nontriv.add((n_hk, n_gex, min(n_rate, 40), c['gex_style']))
        adv_probe_types = [t for t in hk_types if t in c['key']]
        n_gex_algs = sum(1 for a in ('diffie-hellman-group-exchange-sha1', 'diffie-hellman-group-exchange-sha256') if a in c['kex'])
        if n_first != 1:
            ctx.violation('handshake-conns', '%d connections carried the initial handshake' % n_first, desc)
        if n_hk > len(adv_probe_types):
            ctx.violation('hostkey-conns-exceed', '%d host-key probe connections for %d advertised probe-table types' % (n_hk, len(adv_probe_types)), desc)
        if n_gex > 9 * n_gex_algs:
            ctx.violation('gex-conns-exceed', '%d GEX probe connections for %d offered GEX algorithms' % (n_gex, n_gex_algs), desc)
        if not c['rate'] and n_rate > 0:
            ctx.violation('rate-conns-when-skipped', '%d rate-check connections although --skip-rate-test was given' % n_rate, desc)
        if c['rate'] and n_rate > 38 + 3:
            ctx.violation('rate-conns-exceed', '%d rate-check connections (cap is 38)' % n_rate, desc)
        if r['maxconc'] > 8:   # server-side view of overlapping closes; the rate check keeps 3 sockets pending
            ctx.violation('concurrency', 'up to %d connections were open at the same time' % r['maxconc'], desc)
        # key-exchange computation requests: only in probe phases, at most one per connection
        for i in range(r['conns']):
            rx = [e[3] for e in r['log'] if e[1] == i and e[2] == 'rx']
            inits = [t for t in rx if t in (30, 32)]
            reqs = [t for t in rx if t == 34]
            if len(inits) > 1 or len(reqs) > 1:
                ctx.violation('kex-requests-per-conn', 'connection %d (%s) carried %d KEXDH/GEX init and %d GEX request messages' % (i, phases[i], len(inits), len(reqs)), desc)
            if inits and phases[i] not in ('hostkey', 'gex'):
                ctx.violation('kex-request-outside-probe', 'connection %d of phase %s carried a key-exchange init' % (i, phases[i]), desc)
        # every connection closed by the tool before it exited (server saw EOF)
        for i in range(r['conns']):
            ev = [e[2] for e in r['log'] if e[1] == i]
            if 'eof' not in ev and 'no-eof' in ev:
                ctx.violation('connection-left-open', 'connection %d (%s) was not closed by the tool before it exited' % (i, phases[i]), desc)
        # ---- correspondence with the AuditSM skeleton ----
        hk_env = []
        from ssh_audit.hostkeytest import HostKeyTest  # noqa
        groups = ['diffie-hellman-group1-sha1', 'diffie-hellman-group14-sha1', 'diffie-hellman-group14-sha256', 'curve25519-sha256', 'curve25519-sha256@libssh.org',
                  'diffie-hellman-group16-sha512', 'diffie-hellman-group18-sha512', 'diffie-hellman-group-exchange-sha1', 'diffie-hellman-group-exchange-sha256',
                  'ecdh-sha2-nistp256', 'ecdh-sha2-nistp384', 'ecdh-sha2-nistp521']
        hk_kex = next((k for k in c['kex'] if k in groups), None)
        # when the host-key probe itself runs over a group exchange, the server's GEX behaviour decides whether a reply arrives
        gex_ok = True
        if hk_kex is not None and hk_kex.startswith('diffie-hellman-group-exchange'):
            gex_ok = isinstance(gex_fn(c['gex_style'])(1024, 2048, 8192), int)
        for t in c['key']:
            b = c['hk_beh'].get(t)
            hk_env.append((t, 'HkOk' if (b == 'ok' and gex_ok) else 'HkProbeFailed'))
        # observed sequence of probes
        obs_hk = []
        for i in range(r['conns']):
            if phases[i] == 'hostkey':
                ph = [e for e in r['log'] if e[1] == i and e[2] == 'phase']
                obs_hk.append(ph[0][5][0] if ph and ph[0][5] else '?')
        obs_gex = [(a, mn, pf, mx) for (_i, a, mn, pf, mx) in r['gex_requests'] if r['phases'].get(_i) == 'gex']
        gstyle = c['gex_style']
        ans = {'all': 'fun r => match r with (mn, pf, mx) => GSize (Z.max mn (Z.min mx pf)) end',
               'min2048': 'fun r => match r with (mn, pf, mx) => if 2048 <=? mx then GSize (Z.max 2048 pf) else GNoSize end',
               'only1024': 'fun r => match r with (mn, pf, mx) => if (mn <=? 1024) && (1024 <=? mx) then GSize 1024 else GNoSize end',
               'refuse': 'fun _ => GNoSize', 'garbage': 'fun _ => GNoSize',
               'stall-once': 'fun r => match r with (mn, pf, mx) => if (mn =? 768) && (pf =? 768) then GNoSize else GSize (Z.max mn (Z.min mx pf)) end'}[gstyle]
        env = 'fun t => match assoc t %s with Some o => o | None => HkProbeFailed end' % clist(hk_env, lambda x: '(%s, %s)' % (cstr(x[0]), x[1]))
        openssh = cbool(b'OpenSSH' in c['banner'])
        exp_hk = clist(obs_hk, cstr)
        exp_gex = clist(obs_gex, lambda g: '(%s, (%s, %s, %s))' % (cstr(g[0]), cz(g[1]), cz(g[2]), cz(g[3])))
        terms.append('let cs := hostkey_conns %s %s (%s) ++ gex_all gex_algs %s (fun _ => %s) %s in '
                     'strs_eqb (flat_map (fun c => match c with CHostKey t _ => [t] | _ => [] end) cs) %s && '
                     'list_eqb (fun a b => String.eqb (fst a) (fst b) && (match snd a, snd b with (x, y, z), (x2, y2, z2) => (x =? x2) && (y =? y2) && (z =? z2) end)) '
                     '(flat_map (fun c => match c with CGex a r _ => [(a, r)] | _ => [] end) cs) %s' % (cstrs(c['kex']), cstrs(c['key']), env, cstrs(c['kex']), ans, openssh, exp_hk, exp_gex))
        descs.append(desc)
    # ---- protocol-version fallback: at most one retry, whatever the peer keeps answering ----
    mm = b'Protocol major versions differ.\n'
    fb = []
    for second in ('mismatch', 'ssh1', 'close', 'garbage'):
        for opts in ([], ['-1', '-2'], ['-2'], ['-1']):
            fb.append({'second': second, 'opts': opts})

    def do_fb(z, c):
        first = P.RawServer([b'SSH-1.99-OpenSSH_3.0\r\n', ('sleep', 0.05), mm], then='close-now')
        nxt = {'mismatch': first, 'ssh1': P.Ssh1Server({}), 'close': P.RawServer([], then='close-now'), 'garbage': P.RawServer([b'SSH-1.99-OpenSSH_3.0\r\n', bytes(range(40, 80))], then='close-now')}[c['second']]
        srv = P.Server(P.PerConn([first, nxt]), stall_limit=3.0)
        try:
            res = z.run(['-n', '--skip-rate-test', '-t', '1'] + c['opts'] + ['127.0.0.1:%d' % srv.port], timeout=60)
            time.sleep(0.1)
            return {'rc': res['rc'], 'timed_out': res['timed_out'], 'conns': srv.conns(), 'err': res['err'][-200:]}
        finally:
            srv.shutdown()
    with runner.Pool() as pool:
        fres = pool.map(do_fb, fb)
    for c, r in zip(fb, fres):
        d = {'op': 'cli-fallback-footprint', 'second_connection': c['second'], 'opts': c['opts'], 'conns': r['conns'], 'rc': r['rc']}
        nontriv.add(('fallback', c['second'], tuple(c['opts']), r['conns']))
        if r['timed_out'] or r['rc'] not in (0, 1, 2, 3):
            ctx.violation('audit-failed/fallback', 'status %r timed_out %r against a peer answering the protocol-mismatch text: %s' % (r['rc'], r['timed_out'], r['err']), d)
        if r['conns'] > 2:
            ctx.violation('fallback-conns-exceed', '%d connections to a peer that answers %r (then: %s); the SSH-1 retry is one more connection at most' % (r['conns'], mm.decode().strip(), c['second']), d)
    # ---- the same bounds per target when the targets come from a file (-T), in standard and policy audits, with the rate check skipped or not ----
    import os, tempfile
    tcases = [{'opts': o, 'skip': sk, 'n': n} for o in ([], ['-P', 'Hardened OpenSSH Server v9.9 (version 1)']) for sk in (True, False) for n in (1, 2)]
    if q:
        tcases = [c for c in tcases if c['skip'] or c['n'] == 1]

    def do_t(z, c):
        srvs = [P.new_ssh2_server(dict(banner=b'SSH-2.0-OpenSSH_8.9', kex=['curve25519-sha256', 'diffie-hellman-group14-sha256'], key=['ssh-ed25519'], enc=['aes128-ctr'], mac=['hmac-sha2-256'],
                                       hostkeys={b'ssh-ed25519': P.ed25519_blob()}), stall_limit=3.0) for _ in range(c['n'])]
        fd, tf = tempfile.mkstemp(prefix='verif_c19_')
        try:
            os.write(fd, ''.join('127.0.0.1:%d\n' % sv.port for sv in srvs).encode()); os.close(fd)
            res = z.run(['-n', '-t', '1'] + (['--skip-rate-test'] if c['skip'] else []) + c['opts'] + ['-T', tf], timeout=120)
            time.sleep(0.15)
            out = []
            for sv in srvs:
                ph = [sv.phases.get(i, 'rate') for i in range(sv.conns())]
                out.append({'conns': sv.conns(), 'rate': sum(1 for p in ph if p in ('rate', 'silent-client')), 'first': ph.count('first'), 'hostkey': ph.count('hostkey')})
            return {'rc': res['rc'], 'timed_out': res['timed_out'], 'targets': out, 'err': res['err'][-200:]}
        finally:
            for sv in srvs:
                sv.shutdown()
            os.unlink(tf)
    with runner.Pool() as pool:
        tres = pool.map(do_t, tcases)
    for c, r in zip(tcases, tres):
        d = {'op': 'cli-footprint-targets-file', 'opts': c['opts'], 'skip_rate_test': c['skip'], 'targets': r['targets'], 'rc': r['rc']}
        if r['timed_out'] or r['rc'] not in (0, 1, 2, 3):
            ctx.violation('audit-failed/targets-file', 'status %r timed_out %r: %s' % (r['rc'], r['timed_out'], r['err']), d)
            continue
        for t in r['targets']:
            nontriv.add(('targets-file', bool(c['opts']), c['skip'], t['conns']))
            if t['first'] != 1 or t['hostkey'] > 1:
                ctx.violation('targets-file/probe-conns', 'a target of a -T run saw %d handshake and %d host-key probe connections (one host-key type advertised)' % (t['first'], t['hostkey']), d)
            if c['skip'] and t['rate'] > 0:
                ctx.violation('rate-conns-when-skipped', '%d rate-check connections to a target of a -T run although --skip-rate-test was given' % t['rate'], d)
            if not c['skip'] and t['rate'] > 38 + 3:
                ctx.violation('rate-conns-exceed', '%d rate-check connections to a target of a -T run (cap is 38)' % t['rate'], d)
    ctx.correspond('conn-log', ['VModel:AuditSM'], '', terms, lambda i: descs[i])
    ctx.cover(len(cases), nontriv, [{'key': cases[0]['key'], 'kex': cases[0]['kex'], 'gex_style': cases[0]['gex_style'], 'conns': results[0]['conns']}],
              'real CLI over TCP against scripted servers: random host-key lists (probe-table types, ok/close/garbage/stall replies), GEX styles (answer all / >=2048 / refuse / garbage / stall once / only 1024), with and without --skip-rate-test (rate connections answered by SSH banner); server-side log of every connection, its phase, messages and EOF; non-trivial = distinct (hostkey conns, gex conns, rate conns, gex style)')
