"""C07 - each target's result is independent of the other targets in the run (multi-target scans vs single-target scans)."""
import itertools
import json
import os
import re
import shutil
import tempfile
import threading
import time

import canon
import peers as P
import runner
from coqlit import cstr, clist, cz

ED = P.ed25519_blob()


def archetypes():
    """One archetype per channel through which a scan edits the shared rating state."""
    ca_small = P.rsa_blob(1024, seed=9)
    a = {}
    # twins: the same banner and the same KEXINIT lists, different MEASURED attributes (RSA host key of 2048 / 4096 bits) - anything keyed by banner and lists
    # alone (a cache of recommendations, of ratings) hands one twin the other's result
    for bits in (2048, 4096):
        a['twin-rsa-%d' % bits] = dict(banner=b'SSH-2.0-OpenSSH_8.9', kex=['curve25519-sha256', 'kex-strict-s-v00@openssh.com'], key=['rsa-sha2-512', 'ssh-ed25519'], enc=['aes256-ctr'], mac=['hmac-sha2-512-etm@openssh.com'],
                                       hostkeys={b'rsa-sha2-512': P.rsa_blob(bits), b'ssh-ed25519': ED})
    a['clean'] = dict(banner=b'SSH-2.0-OpenSSH_9.6', kex=['sntrup761x25519-sha512@openssh.com', 'kex-strict-s-v00@openssh.com'], key=['ssh-ed25519'], enc=['aes256-gcm@openssh.com'], mac=['hmac-sha2-512-etm@openssh.com'], hostkeys={b'ssh-ed25519': ED})
    a['terrapin-enc'] = dict(banner=b'SSH-2.0-OpenSSH_9.0', kex=['curve25519-sha256'], key=['ssh-ed25519'], enc=['chacha20-poly1305@openssh.com', 'aes256-ctr'], mac=['hmac-sha2-256'], hostkeys={b'ssh-ed25519': ED})
    a['terrapin-mac'] = dict(banner=b'SSH-2.0-OpenSSH_8.0', kex=['curve25519-sha256'], key=['ssh-ed25519'], enc=['aes256-cbc', 'aes256-ctr'], mac=['hmac-sha2-256-etm@openssh.com'], hostkeys={b'ssh-ed25519': ED})
    a['small-rsa'] = dict(banner=b'SSH-2.0-OpenSSH_7.4', kex=['curve25519-sha256'], key=['rsa-sha2-512', 'ssh-rsa'], enc=['aes256-ctr'], mac=['hmac-sha2-256'], hostkeys={b'rsa-sha2-512': P.rsa_blob(1024), b'ssh-rsa': P.rsa_blob(1024)})
    a['rsa-2048'] = dict(banner=b'SSH-2.0-OpenSSH_7.4', kex=['curve25519-sha256'], key=['rsa-sha2-512'], enc=['aes256-ctr'], mac=['hmac-sha2-256'], hostkeys={b'rsa-sha2-512': P.rsa_blob(2048)})
    a['small-ca'] = dict(banner=b'SSH-2.0-OpenSSH_8.8', kex=['curve25519-sha256'], key=['ssh-ed25519-cert-v01@openssh.com'], enc=['aes256-ctr'], mac=['hmac-sha2-256'], hostkeys={b'ssh-ed25519-cert-v01@openssh.com': P.ed25519_cert_blob(ca_small)})
    a['small-gex'] = dict(banner=b'SSH-2.0-Srv_1', kex=['diffie-hellman-group-exchange-sha256', 'curve25519-sha256'], key=['ssh-ed25519'], enc=['aes256-ctr'], mac=['hmac-sha2-256'], hostkeys={b'ssh-ed25519': ED}, gex=lambda mn, pf, mx: 1024 if mn <= 1024 <= mx else (mn if mn > 1024 else None))
    a['gex-2048'] = dict(banner=b'SSH-2.0-Srv_1', kex=['diffie-hellman-group-exchange-sha256'], key=['ssh-ed25519'], enc=['aes256-ctr'], mac=['hmac-sha2-256'], hostkeys={b'ssh-ed25519': ED}, gex=lambda mn, pf, mx: 2048 if mn <= 2048 <= mx else None)
    a['openssh-2048'] = dict(banner=b'SSH-2.0-OpenSSH_8.9', kex=['diffie-hellman-group-exchange-sha256'], key=['ssh-ed25519'], enc=['aes256-ctr'], mac=['hmac-sha2-256'], hostkeys={b'ssh-ed25519': ED}, gex=lambda mn, pf, mx: 2048 if mx >= 2048 else None)
    # peers that offer a measurable algorithm but never yield a measurement: a size left behind by an earlier target would show on them
    a['gex-refused'] = dict(banner=b'SSH-2.0-Srv_2', kex=['diffie-hellman-group-exchange-sha256', 'diffie-hellman-group-exchange-sha1', 'curve25519-sha256'], key=['ssh-ed25519'], enc=['aes256-ctr'], mac=['hmac-sha2-256'], hostkeys={b'ssh-ed25519': ED}, gex=lambda mn, pf, mx: None)
    a['rsa-unprobed'] = dict(banner=b'SSH-2.0-OpenSSH_7.4', kex=['curve25519-sha256'], key=['rsa-sha2-512', 'ssh-rsa', 'ssh-ed25519-cert-v01@openssh.com'], enc=['aes256-ctr'], mac=['hmac-sha2-256'], hostkeys={})
    # an SSH-1-only peer whose SSH-1 side is broken: the tool's automatic retry fails inside the worker
    a['ssh1-retry-broken'] = dict(behaviour=P.Ssh1OnlyBroken('badcrc'))
    a['unknown-algs'] = dict(banner=b'SSH-2.0-Weird_0.1', kex=['curve25519-sha256', 'made-up-kex'], key=['ssh-ed25519'], enc=['aes256-ctr', 'made-up-cbc'], mac=['hmac-sha2-256', 'made-up-etm@openssh.com'], hostkeys={b'ssh-ed25519': ED})
    return a


def strip_target(text):
    """Remove what legitimately differs between a -T block and a single-target run: the target line."""
    lines = [l for l in canon.strip_ansi(text).split('\n') if not l.startswith('(gen) target: ')]
    while lines and lines[-1] == '':
        lines.pop()
    return lines


def split_blocks(out):
    return out.split('-' * 80 + '\n\n') if out else []


def model_traces(ctx, n):
    """Correspondence of the per-thread database life cycle: random interleaved traces executed on the REAL
    SSH2_KexDB.get_db()/thread_exit() (thread identity simulated by patching threading.get_ident) vs Multi.run_trace."""
    import threading as th
    from ssh_audit.ssh2_kexdb import SSH2_KexDB
    rng = ctx.rng
    terms, descs = [], []
    real_ident = th.get_ident
    try:
        for _ in range(n):
            nthreads = rng.randint(1, 3)
            ntargets = rng.randint(1, 5)
            pending = list(range(ntargets))
            running = {}
            trace = []
            step = 0
            while pending or running:
                choices = []
                idle = [t for t in range(nthreads) if t not in running]
                if pending and idle: choices.append('start')
                if running: choices += ['edit', 'edit', 'render', 'finish']
                c = rng.choice(choices)
                if c == 'start':
                    t = rng.choice(idle); g = pending.pop(0); running[t] = g; trace.append(('start', t, g))
                else:
                    t = rng.choice(list(running)); g = running[t]
                    if c == 'edit':
                        step += 1; trace.append(('edit', t, g, 'note%d' % step))
                    elif c == 'render': trace.append(('render', t, g))
                    else:
                        trace.append(('finish', t, g)); del running[t]
            # real execution
            SSH2_KexDB.DB_PER_THREAD.clear()
            renders = []
            for ev in trace:
                th.get_ident = lambda t=ev[1]: 1000 + t
                if ev[0] == 'edit':
                    db = SSH2_KexDB.get_db()
                    e = db['enc']['aes128-ctr']
                    while len(e) < 4: e.append([])
                    e[3].append(ev[3])
                elif ev[0] == 'render':
                    e = SSH2_KexDB.get_db()['enc']['aes128-ctr']
                    renders.append((ev[2], list(e[3]) if len(e) > 3 else []))
                elif ev[0] == 'finish':
                    SSH2_KexDB.thread_exit()
            SSH2_KexDB.DB_PER_THREAD.clear()
            evs = []
            for ev in trace:
                if ev[0] == 'start': evs.append('EStart _ %d %d' % (ev[1], ev[2]))
                elif ev[0] == 'edit': evs.append('EEdit _ %d %d (fun d => d ++ [%s])' % (ev[1], ev[2], cstr(ev[3])))
                elif ev[0] == 'render': evs.append('ERender _ %d %d' % (ev[1], ev[2]))
                else: evs.append('EFinish _ %d %d' % (ev[1], ev[2]))
            exp = clist(renders, lambda r: '(%d%%nat, %s)' % (r[0], clist(r[1], cstr)))
            terms.append('list_eqb (fun a b => Nat.eqb (fst a) (fst b) && strs_eqb (snd a) (snd b)) (run_trace (list string) [] [] [%s]%%nat) %s' % ('; '.join(evs), exp))
            descs.append({'op': 'db-trace', 'trace': trace, 'renders': renders})
    finally:
        th.get_ident = real_ident
    ctx.correspond('db-life-cycle', ['VModel:Multi'], 'Local Open Scope nat_scope.', terms, lambda i: descs[i])
    ctx.cover(len(terms), {(len(d['trace']), len(d['renders'])) for d in descs}, [descs[0]], 'random interleaved traces (start/edit/render/finish over 1-3 re-used thread ids, 1-5 targets) run on the real SSH2_KexDB.get_db/thread_exit vs Multi.run_trace')


def run(ctx):
    ctx.proofs(['C07'])
    q = ctx.quick
    rng = ctx.rng
    model_traces(ctx, 150 if q else 3000)
    arch = archetypes()
    names = list(arch)
    combos = list(itertools.permutations(names, 2))
    if q:
        combos = rng.sample(combos, 14)
        combos += [c for c in (('ssh1-retry-broken', 'clean'), ('small-rsa', 'ssh1-retry-broken', 'terrapin-mac'), ('small-gex', 'gex-refused'), ('openssh-2048', 'gex-refused'), ('small-rsa', 'rsa-unprobed'), ('small-ca', 'rsa-unprobed'), ('terrapin-enc', 'clean'), ('twin-rsa-2048', 'twin-rsa-4096'), ('twin-rsa-4096', 'twin-rsa-2048')) if c not in combos]
    else:
        combos = combos + rng.sample(list(itertools.permutations(names, 3)), 120)
    tmp = tempfile.mkdtemp(prefix='verif_c07_')
    try:
        # one long-lived server per archetype instance; single-target baselines first
        servers = {}
        for n in names:
            servers[n] = P.Server(arch[n]['behaviour'], stall_limit=3.0) if 'behaviour' in arch[n] else P.new_ssh2_server(dict(arch[n]), stall_limit=3.0)
        polfile = os.path.join(tmp, 'pol.txt')
        with open(polfile, 'w') as f:
            f.write('name = "p"\nversion = 1\nkey exchanges = curve25519-sha256\nciphers = aes256-ctr\nmacs = hmac-sha2-256\nhost keys = ssh-ed25519\n')
        modes = [('text', ['-n']), ('json', ['-j']), ('policy', ['-n', '-P', polfile])]
        with runner.Pool(8) as pool:
            base = {}
            jobs = [(n, m) for n in names for m in modes]
            res = pool.map(lambda z, j: z.run(j[1][1] + ['--skip-rate-test', '-t', '2', '127.0.0.1:%d' % servers[j[0]].port], timeout=90), jobs)
            for (n, m), r in zip(jobs, res):
                base[(n, m[0])] = r
            cases = []
            for k, combo in enumerate(combos):
                for threads in ([1, 2] if q else [1, 2, len(combo), 32]):
                    m = modes[k % 3] if q else None
                    for mode in ([m] if m else modes):
                        # half of the lists write one entry as a bare host that takes its port from -p (both notations are legal in one file)
                        cases.append({'combo': combo, 'threads': threads, 'mode': mode, 'bare': (len(cases) % len(combo)) if len(cases) % 2 else None})

            def do(z, c):
                tf = os.path.join(tmp, 't%d_%d.txt' % (threading.get_ident() % 100000, int(time.time() * 1e6) % 10 ** 9))
                with open(tf, 'w') as f:
                    f.write('\n'.join(('127.0.0.1' if i == c['bare'] else '127.0.0.1:%d' % servers[n].port) for i, n in enumerate(c['combo'])) + '\n')
                try:
                    return z.run(c['mode'][1] + ([] if c['bare'] is None else ['-p', str(servers[c['combo'][c['bare']]].port)]) + ['--skip-rate-test', '-t', '2', '--threads', str(c['threads']), '-T', tf], timeout=180)
                finally:
                    os.unlink(tf)
            results = pool.map(do, cases)
            # a list entry at the edge of the legal port range (nothing listens there) beside an ordinary target: the ordinary target's JSON element is its single-target result
            import socket as _sock
            edge = []
            for port in (65535, 1):
                t = _sock.socket()
                try:
                    t.settimeout(0.3); t.connect(('127.0.0.1', port)); t.close()
                    continue      # something listens there on this machine: skip
                except OSError:
                    t.close()
                for order in (0, 1):
                    for threads in (1, 2):
                        edge.append({'port': port, 'order': order, 'threads': threads})

            def do_edge(z, c):
                tf = os.path.join(tmp, 'e%d_%d.txt' % (threading.get_ident() % 100000, int(time.time() * 1e6) % 10 ** 9))
                ents = ['127.0.0.1:%d' % c['port'], '127.0.0.1:%d' % servers['clean'].port]
                with open(tf, 'w') as f:
                    f.write('\n'.join(ents if c['order'] == 0 else ents[::-1]) + '\n')
                try:
                    return z.run(['-j', '--skip-rate-test', '-t', '2', '--threads', str(c['threads']), '-T', tf], timeout=120)
                finally:
                    os.unlink(tf)
            edge_res = pool.map(do_edge, edge)
        for c, r in zip(edge, edge_res):
            desc = {'op': 'cli-multi-edge-port', 'port': c['port'], 'order': c['order'], 'threads': c['threads']}
            try:
                arr = json.loads(r['out'])
                el = [e for e in arr if e.get('target') == '127.0.0.1:%d' % servers['clean'].port]
                want = json.loads(base[('clean', 'json')]['out'])
                if len(el) != 1 or el[0] != want:
                    ctx.violation('leak/edge-port/json', 'beside an entry at port %d the ordinary target\'s JSON element is %r, its single-target result differs' % (c['port'], (el or [None])[0] and sorted(el[0])[:4]), desc)
            except (ValueError, AttributeError, TypeError) as e:
                ctx.violation('lost/edge-port', 'run over [port %d entry, ordinary target] (order %d, threads %d): exit %r, stdout is not the JSON array of both results: %s: %s' % (
                    c['port'], c['order'], c['threads'], r['rc'], type(e).__name__, (r['out'] + r['err'])[-200:]), desc)
        ctx.evaluations += len(edge)
        nontriv = set()
        for c, r in zip(cases, results):
            desc = {'op': 'cli-multi', 'combo': c['combo'], 'threads': c['threads'], 'mode': c['mode'][0], 'bare_entry': c['bare']}
            nontriv.add((c['combo'], min(c['threads'], 3), c['mode'][0], c['bare']))
            mode = c['mode'][0]
            if mode == 'json':
                try:
                    arr = json.loads(r['out'])
                except ValueError as e:
                    ctx.violation('multi-json-malformed', 'stdout of -T -j is not JSON: %s' % e, desc)
                    continue
                got = {}
                for el in arr:
                    got[el.get('target')] = el
                for n in c['combo']:
                    el = got.get('127.0.0.1:%d' % servers[n].port)
                    try:
                        want = json.loads(base[(n, 'json')]['out'])
                    except ValueError:
                        # a single-target -j run that ends in a plain-text error line: in the array the same text is carried by an {"target", "error"} element
                        txt = canon.strip_ansi(base[(n, 'json')]['out']).strip()
                        if el is None or canon.strip_ansi(str(el.get('error', ''))).strip() != txt:
                            ctx.violation('leak/json/%s' % n, 'JSON entry of failing target %s in a run with %r (threads=%d) is %r, its single-target run prints %r' % (n, c['combo'], c['threads'], el, txt), desc)
                        continue
                    if el != want:
                        diff = [k for k in want if (el or {}).get(k) != want[k]]
                        ctx.violation('leak/json/%s' % n, 'JSON entry of target %s in a run with %r (threads=%d) differs from its single-target result in %r' % (n, c['combo'], c['threads'], diff), desc)
            else:
                blocks = split_blocks(r['out'])
                if len(blocks) != len(c['combo']):
                    ctx.violation('multi-block-count', '%d blocks for %d targets' % (len(blocks), len(c['combo'])), desc)
                    continue
                by_port = {}
                for b in blocks:
                    m = re.search(r'(?:\(gen\) target: |Host:\s+)127\.0\.0\.1:(\d+)', canon.strip_ansi(b))
                    if m: by_port[int(m.group(1))] = b
                unassigned = [b for b in blocks if b not in by_port.values()]
                for n in c['combo']:
                    b = by_port.get(servers[n].port)
                    want = strip_target(base[(n, mode)]['out'])
                    if b is None:    # a block without a target line (an error before the report header): attribute it by content
                        b = next((u for u in unassigned if strip_target(u) == want), None)
                        if b is not None:
                            unassigned.remove(b)
                    if b is None or strip_target(b) != want:
                        gotl = strip_target(b or '')
                        diff = [l for l in gotl if l not in want][:3] + ['MISSING: ' + l for l in want if l not in gotl][:3]
                        ctx.violation('leak/%s/%s' % (mode, n), '%s block of target %s in a run with %r (threads=%d) differs from its single-target report: %r' % (mode, n, c['combo'], c['threads'], diff), desc)
        ctx.cover(len(cases), nontriv, [{'combo': cases[0]['combo'], 'threads': cases[0]['threads'], 'mode': cases[0]['mode'][0]}],
                  'real CLI -T runs over ordered pairs (thorough: also triples) of archetypes, one per edit channel (Terrapin enc/mac, small RSA, 2048 RSA, small CA, small/2048 GEX modulus, OpenSSH-2048 note, unknown names, clean), threads 1/2/n/32, text, JSON and policy audits; each block compared with the single-target run against the same server; non-trivial = distinct (ordered combination, threads, mode)')
    finally:
        for s in servers.values():
            s.shutdown()
        shutil.rmtree(tmp, ignore_errors=True)
    ctx.notes.append('PARTIAL: real CPython thread interleavings are exercised (threads 2/n, overlapping scans) but not enumerated; the theorem covers every interleaving of the model events')
