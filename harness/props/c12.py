"""C12 - group-exchange modulus size is measured and rated correctly.

Three layers (see harness/README.md):
  * proofs: coq/props/C12.v (model coq/model/Gex.v = gextest.GEXTest.run for ANY server oracle + the table edit).
  * correspondence: (a) the literal texts of gextest.py (ast) = the model's; (b) the real GEXTest.run with a scripted
    `_send_init` (arbitrary stateful answers, reconnect failures, both algorithms) = Gex.gex_run: probe sequence,
    recorded sizes, raw table entries; (c) the real CLI over TCP against scripted servers of the quantifier's family
    (and faulty servers) = Gex.gex_run + Terrapin.post_process + Report.items_of: probe sequence seen by the server,
    answers, the (kex) lines of the report / the JSON notes and key sizes.
  * oracle, written from the property statement (independent of the model): expected size = smallest modulus the
    family policy hands out over the fixed probe sequence (OpenSSH banner + fallback 2048 -> answer of 2048-4096),
    rating thresholds, fallback note, reported size was handed out in this run, faulty servers get no size.
"""
import ast
import copy
import itertools
import json
import os

import common
import canon
import inproc
import peers as P
import runner
from coqlit import cstr, cz, cbool, clist, copt, cpair, cstrs

IMPORTS = ['VModel:Gex', 'VModel:Report']
PREAMBLE = '''
Definition desc_eqb : desc -> desc -> bool := list_eqb (list_eqb (opt_eqb String.eqb)).
Definition kex_items (its : list item) : list item := filter (fun it => match it with (c, _, _, _) => String.eqb c "kex" end) its.
Definition kex_jitems (its : list (string * string * jnotes)) := filter (fun it => match it with (c, _, _) => String.eqb c "kex" end) its.
Definition dh_eqb : list (string * Z) -> list (string * Z) -> bool := list_eqb (pair_eqb String.eqb Z.eqb).
Definition traces_eqb : list (string * trace) -> list (string * trace) -> bool := list_eqb (pair_eqb String.eqb trace_eqb).
Definition script (l1 l256 : list answer) : string -> oracle :=
  fun a k _ => nth k (if String.eqb a "diffie-hellman-group-exchange-sha1" then l1 else l256) NoSize.
Definition mkpeer (sw : option string) (k : kexlists) (dh : list (string * Z)) : peer :=
  {| pr_client_audit := false; pr_banner_software := sw; pr_software := None; pr_k := k; pr_hostkeys := []; pr_dh := dh; pr_rate_notes := ""; pr_general := [] |}.
Definition final_db (sw : option string) (k : kexlists) (dh : list (string * Z)) (d : db) : db := p_db (post_process false sw k dh "" d).
'''

SHA1 = 'diffie-hellman-group-exchange-sha1'
SHA256 = 'diffie-hellman-group-exchange-sha256'
ALGS = [SHA1, SHA256]
NINE = [512, 768, 1024, 1536, 2048, 3072, 4096, 6144, 8192]
STYLES = ['strict', 'round_up', 'openssh_fallback']
COQ_STYLE = {'strict': 'Strict', 'round_up': 'RoundUp', 'openssh_fallback': 'OpenSSHFallback'}
# the property statement's constants (NOT taken from the code or the translator)
FIXED_SEQUENCE = [(512, 1024, 1536)] + [(b, b, b) for b in (512, 768, 1024, 1536, 2048, 3072, 4096)]
FOLLOW_UP = (2048, 3072, 4096)
WARN_2048 = '2048-bit modulus only provides 112-bits of symmetric strength'
OPENSSH_BANNERS = [b'SSH-2.0-OpenSSH_8.9', b'SSH-2.0-OpenSSH_9.6p1 Ubuntu-3ubuntu13', b'SSH-2.0-OpenSSH_7.4']
OTHER_BANNERS = [b'SSH-2.0-dropbear_2022.83', b'SSH-2.0-libssh_0.9.6', b'SSH-2.0-Cisco-1.25']
KNOWN_KEY = 'openssh-banner-configured-2048'


# ---------------------------------------------------------------- family policies (harness side)
def pick(pref, cands):
    ge = [m for m in cands if m >= pref]
    return ge[0] if ge else (cands[-1] if cands else None)


def py_serve(style, S, mn, pf, mx):
    """The selection styles of the quantifier over a configured moduli set S (see the comment on Gex.serve)."""
    S = sorted(S)
    if style == 'strict':
        return pick(pf, [m for m in S if mn <= m <= mx])
    if style == 'round_up':
        return pick(pf, S)
    if style == 'openssh_fallback':
        mn2, mx2, pf2 = max(2048, mn), min(8192, mx), min(8192, max(2048, pf))
        if mx2 < mn2 or pf2 < mn2 or mx2 < pf2:
            return None
        r = pick(pf2, [m for m in S if mn2 <= m <= mx2])
        return r if r is not None else (2048 if mx2 < 3072 else 4096 if mx2 < 6144 else 8192)
    raise AssertionError(style)


def statement_expected(style, S, openssh):
    """(size, fallback note) the statement asks for."""
    handed = [a for a in (py_serve(style, S, *r) for r in FIXED_SEQUENCE) if a is not None]
    m = min(handed) if handed else None
    if openssh and style == 'openssh_fallback' and m == 2048 and 2048 not in S:
        return py_serve(style, S, *FOLLOW_UP), True, m
    return m, False, m


# ---------------------------------------------------------------- Coq literals
def canswer(a):
    if a == 'rf': return 'ReconnFail'
    if a is None or isinstance(a, str): return 'NoSize'
    return '(Bits %s)' % cz(a)


def creq(r):
    return '(%s, %s, %s)' % tuple(cz(x) for x in r)


def ctrace(t):
    return clist(t, lambda x: cpair(creq(x[0]), canswer(x[1])))


def ctraces(ts):
    return clist(ts, lambda x: cpair(cstr(x[0]), ctrace(x[1])))


def cdesc(e):
    return clist(e, lambda comp: clist(comp, lambda s: copt(s, cstr)))


def cdh(d):
    return clist(list(d.items()), lambda kv: cpair(cstr(kv[0]), cz(kv[1])))


def ckexlists(spec):
    return '{| kl_kex := %s; kl_key := %s; kl_enc := %s; kl_mac := %s; kl_enc_c := %s; kl_mac_c := %s; kl_comp := %s |}' % (
        cstrs(spec['kex']), cstrs(spec['key']), cstrs(spec['enc']), cstrs(spec['mac']), cstrs(spec['enc']), cstrs(spec['mac']), cstrs(['none']))


def software_of(banner_bytes):
    return inproc.banner_software({'banner': banner_bytes.decode()}) if banner_bytes is not None else None


# ---------------------------------------------------------------- (a) literal texts of gextest.py
def literal_terms():
    src = open(os.path.join(common.REPO, 'src', 'ssh_audit', 'gextest.py'), encoding='utf-8').read()
    tree = ast.parse(src)
    run = [n for n in ast.walk(tree) if isinstance(n, ast.FunctionDef) and n.name == 'run']
    if len(run) != 1:
        raise common.CheckError('gextest.py: GEXTest.run not found exactly once')
    lits = [n.value for n in ast.walk(run[0]) if isinstance(n, ast.Constant) and isinstance(n.value, str)]
    small = [s for s in lits if s.startswith('using small') and '%d' in s]
    warn = [s for s in lits if 'symmetric strength' in s]
    fb = [s for s in lits if 'fallback mechanism was triggered' in s and '%u' in s]
    if len(small) != 1 or len(warn) != 1 or len(fb) != 1 or small[0].count('%') != 1 or fb[0].count('%') != 1:
        raise common.CheckError('gextest.py: note literals not in the expected shape: %r %r %r' % (small, warn, fb))
    sp, ss = small[0].split('%d')
    fp, fs = fb[0].split('%u')
    terms = ['String.eqb gex_small_prefix %s && String.eqb gex_small_suffix %s' % (cstr(sp), cstr(ss)),
             'String.eqb gex_warn_text %s' % cstr(warn[0]),
             'String.eqb gex_fallback_prefix %s && String.eqb gex_fallback_suffix %s' % (cstr(fp), cstr(fs)),
             'String.eqb gex_warn_text %s' % cstr(WARN_2048)]
    descs = [{'op': 'literal', 'which': w} for w in ('small-modulus failure text', '2048-bit warning text', 'fallback note text', 'warning text of the oracle')]
    return terms, descs


# ---------------------------------------------------------------- (b) in-process GEXTest.run with a scripted _send_init
class FakeSocket:
    def is_connected(self): return False
    def close(self): pass


def run_inproc(offered, banner_str, answer_fn):
    """answer_fn(alg, k, request) -> int>0 | None | 'rf'.  Returns dict(dh, entries, traces, exc)."""
    from ssh_audit.gextest import GEXTest
    from ssh_audit.ssh2_kexdb import SSH2_KexDB
    from ssh_audit.banner import Banner
    from ssh_audit.outputbuffer import OutputBuffer
    inproc.reset_db()
    kex = inproc.make_kex({'kex': offered, 'key': ['ssh-ed25519'], 'enc': ['aes256-ctr'], 'mac': ['hmac-sha2-256']})
    banner = Banner.parse(banner_str) if banner_str is not None else None
    traces, counters = [], {}

    def fake(out, s, kex_group, kx, gex_alg, mn, pf, mx):
        k = counters.get(gex_alg, 0)
        counters[gex_alg] = k + 1
        a = answer_fn(gex_alg, k, (mn, pf, mx))
        if not traces or traces[-1][0] != gex_alg:
            traces.append((gex_alg, []))
        traces[-1][1].append(((mn, pf, mx), a))
        if a == 'rf': return -1, True
        if a is None: return -1, False
        return a, False
    orig = GEXTest.__dict__['_send_init']
    GEXTest._send_init = staticmethod(fake)
    out = OutputBuffer()
    out.batch = True
    exc = None
    try:
        GEXTest.run(out, FakeSocket(), banner, kex)
    except Exception as e:  # noqa
        exc = type(e).__name__
    finally:
        GEXTest._send_init = orig
    db = SSH2_KexDB.get_db()
    master = SSH2_KexDB.MASTER_DB
    entries = {a: copy.deepcopy(db['kex'][a]) for a in ALGS}
    others_changed = [(c, n) for c in master for n in master[c] if not (c == 'kex' and n in ALGS) and db[c][n] != master[c][n]]
    res = {'dh': dict(kex.dh_modulus_sizes()), 'entries': entries, 'traces': traces, 'exc': exc, 'others_changed': others_changed}
    inproc.reset_db()
    return res


POOL_SIZES = [1, 511, 512, 513, 767, 768, 1023, 1024, 1025, 1535, 1536, 2047, 2048, 2049, 3071, 3072, 3073, 4095, 4096, 4097, 6144, 8192, 16384]


def gen_inproc_case(rng):
    offered = rng.choice([[SHA1, SHA256], [SHA256], [SHA1], [SHA256, SHA1, 'curve25519-sha256'], ['curve25519-sha256'], []])
    banner = rng.choice(['SSH-2.0-OpenSSH_8.9', 'SSH-2.0-OpenSSH_8.9', 'SSH-2.0-dropbear_2020.81', None, 'SSH-2.0-NotOpenSSH_1.0', 'SSH-2.0-openssh_7.0', 'SSH-1.99-OpenSSH_5.3', 'SSH-2.0-x OpenSSH'])
    mode = rng.choice(['random', 'random', 'family', 'family', 'const', 'late-refusal', 'rf', 'second-pass'])
    script = {a: [] for a in ALGS}
    if mode == 'family':
        style, S = rng.choice(STYLES), [m for m in NINE if rng.random() < 0.4]
        fn = lambda a, k, r: py_serve(style, S, *r)
        info = {'style': style, 'S': S}
    elif mode == 'const':
        n = rng.choice(POOL_SIZES)
        fn = lambda a, k, r: n
        info = {'n': n}
    elif mode == 'late-refusal':
        n, cut = rng.choice(POOL_SIZES), rng.randrange(1, 6)
        fn = lambda a, k, r: n if k < cut else rng.choice([None, None, 'rf'] if rng.random() < 0.2 else [None])
        info = {'n': n, 'cut': cut}
    elif mode == 'rf':
        at, n = rng.randrange(0, 9), rng.choice(POOL_SIZES)
        fn = lambda a, k, r: 'rf' if k == at else (n if rng.random() < 0.5 else None)
        info = {'rf_at': at}
    elif mode == 'second-pass':
        nxt = rng.choice([None, 'rf', 2048, 2047, 2049, 3072, 4096, 1024, 1])
        first = rng.choice([None, 2048, 4096, 1024])
        fn = lambda a, k, r: (nxt if r == FOLLOW_UP else (2048 if r == (2048, 2048, 2048) else (first if k == 0 else None)))
        info = {'first': first, 'second': nxt}
    else:
        p_none = rng.choice([0.1, 0.5, 0.8])
        fn = lambda a, k, r: None if rng.random() < p_none else ('rf' if rng.random() < 0.05 else rng.choice(POOL_SIZES))
        info = {}
    return offered, banner, fn, dict(info, mode=mode)


def inproc_term(offered, banner, res):
    sw = inproc.banner_software({'banner': banner}) if banner is not None else None
    ans = {a: [] for a in ALGS}
    for a, t in res['traces']:
        ans[a] = [x[1] for x in t]
    return ('match gex_run (script %s %s) (is_openssh %s) %s ssh2_db with '
            '| Ok (d, dh, ts) => dh_eqb dh %s && traces_eqb ts %s && opt_eqb desc_eqb (db_get d "kex" %s) (Some %s) && opt_eqb desc_eqb (db_get d "kex" %s) (Some %s) '
            '| Raise _ => false end') % (
        clist(ans[SHA1], canswer), clist(ans[SHA256], canswer), copt(sw, cstr), cstrs(offered),
        cdh(res['dh']), ctraces(res['traces']), cstr(SHA1), cdesc(res['entries'][SHA1]), cstr(SHA256), cdesc(res['entries'][SHA256]))


# ---------------------------------------------------------------- (c) real CLI against scripted servers
KEXVARIANTS = {
    'both': ['curve25519-sha256', SHA1, SHA256],
    'sha256': ['curve25519-sha256', SHA256],
    'sha1': [SHA1, 'curve25519-sha256'],
    'gex-first': [SHA256, SHA1],            # the host-key probes then use group exchange too (filtered out by phase)
}


def cli_case(z, case):
    """case: dict(kind 'family'|'fault', style, S, banner, kexv, js, fault, timeout).  Runs the real tool once."""
    answers = []
    if case['kind'] == 'family':
        def cb(mn, pf, mx):
            a = py_serve(case['style'], case['S'], mn, pf, mx)
            answers.append(((mn, pf, mx), a))
            return a
    else:
        f = case['fault']
        state = {'n': 0}

        def cb(mn, pf, mx):
            k = state['n']
            state['n'] += 1
            a = f['seq'][k] if k < len(f['seq']) else f['then']
            answers.append(((mn, pf, mx), a))
            return a
    spec = dict(banner=case['banner'], kex=KEXVARIANTS[case['kexv']], key=['ssh-ed25519', 'rsa-sha2-512'], enc=['aes256-ctr'], mac=['hmac-sha2-256'],
                hostkeys={b'ssh-ed25519': P.ed25519_blob(), b'rsa-sha2-512': P.rsa_blob(3072)}, gex=cb)
    srv = P.new_ssh2_server(spec, stall_limit=4.0, segment=case.get('segment', 0))
    try:
        r = z.run(['-n', '--skip-rate-test', '-t', str(case.get('timeout', 2))] + (['-j'] if case.get('js') else []) + ['127.0.0.1:%d' % srv.port], timeout=150)
    finally:
        srv.shutdown()
    reqs = list(srv.gex_requests)
    phases = dict(srv.phases)
    ok = len(reqs) == len(answers) and all(tuple(q[2:5]) == a[0] for q, a in zip(reqs, answers))
    traces = []
    if ok:
        for (idx, alg, mn, pf, mx), (_, a) in zip(reqs, answers):
            if phases.get(idx) != 'gex':
                continue
            if not traces or traces[-1][0] != alg:
                traces.append((alg, []))
            traces[-1][1].append(((mn, pf, mx), a))
    return {'rc': r['rc'], 'out': r['out'], 'err': r['err'][-400:], 'timed_out': r['timed_out'], 'wall': r['wall'], 'log_ok': ok, 'traces': traces,
            'spec': {k: spec[k] for k in ('kex', 'key', 'enc', 'mac')}, 'raw_requests': reqs[:40]}


def case_replay(case):
    c = {k: v for k, v in case.items() if k != 'banner'}
    c['banner'] = case['banner'].decode('latin1')
    return c


def cli_term(case, res, view):
    """Coq term: model of the whole scan's group-exchange part = what the server saw and what the report shows."""
    sw = software_of(case['banner'])
    k = ckexlists(res['spec'])
    if case['kind'] == 'family':
        orc = '(fun _ _ => serve %s %s)' % (COQ_STYLE[case['style']], clist(sorted(case['S']), cz))
    else:
        ans = {a: [] for a in ALGS}
        for a, t in res['traces']:
            ans[a] = [x[1] for x in t]
        orc = '(script %s %s)' % (clist(ans[SHA1], canswer), clist(ans[SHA256], canswer))
    if view[0] == 'text':
        shown = 'list_eqb item_eqb (kex_items (items_of (final_db sw k dh d) (mkpeer sw k dh))) %s' % inproc.coq_items(view[1])
    else:
        lit = clist(view[1], lambda a: '(%s, %s, {| j_fail := %s; j_warn := %s; j_info := %s |})' % (
            cstr(a['cat']), cstr(a['name']),
            clist([t for (l, t) in a['notes'] if l == 'fail'], cstr), clist([t for (l, t) in a['notes'] if l == 'warn'], cstr), clist([t for (l, t) in a['notes'] if l == 'info'], cstr)))
        by = {a['name']: a['size'] for a in view[1] if a['size'] is not None}
        sizes = {n: by[n] for n in ALGS if n in by}   # probe order (GEX_ALGS), not advertised order
        if set(by) - set(ALGS):
            raise common.CheckError('JSON keysize on a non-group-exchange kex: %r' % by)
        shown = 'list_eqb jitem_eqb (kex_jitems (json_items (final_db sw k dh d) (mkpeer sw k dh))) %s && dh_eqb dh %s' % (lit, cdh(sizes))
    return ('let sw := %s in let k := %s in match gex_run %s (is_openssh sw) (kl_kex k) ssh2_db with '
            '| Ok (d, dh, ts) => traces_eqb ts %s && (%s) | Raise _ => false end') % (copt(sw, cstr), k, orc, ctraces(res['traces']), shown)


def kex_view(case, res):
    """('text'|'json', [alg dicts of the kex category]) or raises CanonError."""
    if case.get('js'):
        js = canon.load_json(res['out'])
        return ('json', [a for a in canon.json_algs(js) if a['cat'] == 'kex'])
    pt = canon.parse_text(res['out'])
    return ('text', [a for a in pt['algs'] if a['cat'] == 'kex'])


def size_class(n):
    return 'none' if n is None else '<2048' if n < 2048 else '2048..3071' if n < 3072 else '>=3072'


def rating_problems(n, notes):
    """Thresholds of the statement on one reported (kex) line."""
    small = [t for (l, t) in notes if l == 'fail' and t.startswith('using small') and t.endswith('-bit modulus')]
    warn = [t for (l, t) in notes if l == 'warn' and t == WARN_2048]
    bad = []
    if n is None:
        if small or warn: bad.append('size note without a size')
    elif n < 2048:
        if small != ['using small %d-bit modulus' % n]: bad.append('no failure naming the %d-bit modulus: %r' % (n, small))
    elif n < 3072:
        if len(warn) != 1 or small: bad.append('expected exactly the 2048-bit warning, got warn=%r fail=%r' % (warn, small))
    else:
        if warn or small: bad.append('size note on a %d-bit modulus: %r' % (n, warn + small))
    return bad


def run(ctx):
    ctx.proofs(['C12'])
    q, rng = ctx.quick, ctx.rng
    terms, descs = [], []

    # ---- (a) literals
    lit_terms, lit_descs = literal_terms()
    terms += lit_terms; descs += lit_descs

    # ---- (b) in-process, scripted _send_init
    nontriv_b = set()
    n_b = 0
    for i in range(2000 if q else 25000):
        offered, banner, fn, info = gen_inproc_case(rng)
        res = run_inproc(offered, banner, fn)
        n_b += 1
        rep = {'op': 'GEXTest.run with scripted _send_init', 'offered': offered, 'banner': banner, 'info': info, 'traces': res['traces'], 'dh': res['dh']}
        if res['exc']:
            ctx.violation('gextest-exception/%s' % res['exc'], 'GEXTest.run raised %s with a scripted _send_init' % res['exc'], rep)
            continue
        if res['others_changed']:
            ctx.violation('unrelated-table-entry-edited', 'GEXTest.run changed table entries of other algorithms: %r' % res['others_changed'][:3], rep)
        terms.append(inproc_term(offered, banner, res)); descs.append(dict(rep, entries=res['entries']))
        # oracle on any server: <= 9 probes per algorithm, a recorded size was handed out to that algorithm in this run,
        # no answers -> no size, thresholds on the raw entry
        for a, tr in res['traces']:
            handed = [x[1] for x in tr if isinstance(x[1], int)]
            nontriv_b.add((info['mode'], len(tr), size_class(res['dh'].get(a)), banner is not None and 'OpenSSH' in (banner or '')))
            if len(tr) > 9:
                ctx.violation('more-than-9-probes', '%d probes for %s' % (len(tr), a), rep)
            if a in res['dh'] and res['dh'][a] not in handed:
                ctx.violation('reported-size-never-handed-out', '%s reported as %r, handed out: %r' % (a, res['dh'][a], handed), rep)
        for a in ALGS:
            n = res['dh'].get(a)
            e = res['entries'][a]
            notes = [('fail', t) for t in (e[1] if len(e) > 1 else []) if t] + [('warn', t) for t in (e[2] if len(e) > 2 else []) if t]
            for b in rating_problems(n, notes):
                ctx.violation('rating/%s' % size_class(n), '%s with %r bits: %s' % (a, n, b), rep)
        if set(res['dh']) - {a for a, _ in res['traces']}:
            ctx.violation('size-without-probe', 'sizes %r recorded without probes' % res['dh'], rep)
    ctx.cover(n_b, nontriv_b, [descs[len(lit_terms)]] if len(descs) > len(lit_terms) else [],
              'real GEXTest.run with a scripted _send_init: random/stateful answers (boundary sizes 1..16384, refusals, reconnect failures at every position), family policies, late refusals, second-pass answers; both/one/no group-exchange algorithm offered; 8 banner shapes; non-trivial = distinct (mode, probes sent, size class, OpenSSH banner)')

    # ---- (c) the family through the real CLI
    fam = [(st, tuple(S), ob) for st in STYLES for r in range(len(NINE) + 1) for S in itertools.combinations(NINE, r) for ob in (False, True)]
    assert len(fam) == 3 * 512 * 2
    if getattr(ctx, 'replay', None):
        rp = json.load(open(ctx.replay))['replay']
        if rp.get('op') == 'cli' and 'kind' in rp:
            cases = [dict(rp, banner=rp['banner'].encode('latin1'), S=tuple(rp.get('S', ())))]
        else:
            ctx.notes.append('replay file is not a CLI case; the in-process cases of this seed were re-run')
            cases = []
    else:
        if q:
            chosen = [('strict', (2048, 3072), True), ('round_up', (2048, 6144), True), ('openssh_fallback', (3072,), True), ('openssh_fallback', (3072,), False),
                      ('strict', (1024,), False), ('strict', (), True), ('round_up', (768,), False), ('strict', (6144,), True)]
            rest = [x for x in fam if x not in chosen]
            chosen += rng.sample(rest, 260 - len(chosen))
        else:
            chosen = fam
        cases = []
        for i, (st, S, ob) in enumerate(chosen):
            cases.append({'kind': 'family', 'style': st, 'S': S, 'banner': rng.choice(OPENSSH_BANNERS if ob else OTHER_BANNERS), 'kexv': 'both', 'js': (i % 5 == 4)})
        extra = rng.sample(fam, 40 if q else 600)
        for i, (st, S, ob) in enumerate(extra):
            cases.append({'kind': 'family', 'style': st, 'S': S, 'banner': rng.choice(OPENSSH_BANNERS if ob else OTHER_BANNERS), 'kexv': ['sha256', 'sha1', 'gex-first'][i % 3], 'js': (i % 4 == 3)})
        # the same answers however TCP delivers them: every packet cut into 1-byte and 5-byte segments (a reader that takes a packet for complete before its padding
        # has arrived misreads the next one); measured size and rating are those of whole-packet delivery, which the model and the oracle below state
        for i, (st, S, ob) in enumerate([('strict', (1024, 2048, 4096), False), ('strict', (2048,), True), ('round_up', (3072,), False), ('openssh_fallback', (3072,), True)] + ([] if q else rng.sample(fam, 12))):
            cases.append({'kind': 'family', 'style': st, 'S': S, 'banner': rng.choice(OPENSSH_BANNERS if ob else OTHER_BANNERS), 'kexv': 'sha256', 'js': (i % 2 == 1), 'segment': (1, 5)[i % 2], 'timeout': 3})
        # faulty servers: refuse / disconnect / garbage / stall always, and after some answers
        for kind in ('close', 'disconnect', 'garbage', 'stall', 'debug-disconnect', 'debug-ignore'):
            cases.append({'kind': 'fault', 'fault': {'seq': [], 'then': kind}, 'banner': OPENSSH_BANNERS[0], 'kexv': 'sha256' if kind == 'stall' else 'both', 'timeout': 1, 'js': False})
        for j in range(6 if q else 60):
            seq = [rng.choice([None, 'garbage', 'disconnect', 'debug-disconnect', 1024, 2048, 3072, 4096, 1536, 2047]) for _ in range(rng.randrange(1, 12))]
            cases.append({'kind': 'fault', 'fault': {'seq': seq, 'then': rng.choice(['close', 'garbage', 'disconnect'])}, 'banner': rng.choice(OPENSSH_BANNERS + OTHER_BANNERS), 'kexv': rng.choice(['both', 'sha256']), 'timeout': 1, 'js': (j % 3 == 2)})
    with runner.Pool() as pool:
        results = pool.map(cli_case, cases)
    nontriv_c = set()
    behaviours = set()
    walls = []
    for case, res in zip(cases, results):
        rep = dict(case_replay(case), op='cli', traces=res['traces'], rc=res['rc'])
        walls.append(res['wall'])
        if res['timed_out'] or res['rc'] not in (0, 2, 3) or not res['log_ok']:
            ctx.broken.append({'kind': 'correspondence', 'name': 'cli-run', 'detail': json.dumps(dict(rep, err=res['err'], out=res['out'][-300:], raw=res['raw_requests']), default=repr)[:1500]})
            continue
        try:
            view = kex_view(case, res)
        except canon.CanonError as e:
            ctx.broken.append({'kind': 'correspondence', 'name': 'cli-output', 'detail': '%s: %s' % (e, json.dumps(rep, default=repr)[:800])})
            continue
        terms.append(cli_term(case, res, view)); descs.append(dict(rep, view=view[0], kex_lines=[(a['name'], a['size'], a['notes']) for a in view[1]]))
        openssh = b'OpenSSH' in case['banner']
        by_name = {a['name']: a for a in view[1]}
        tr = dict(res['traces'])
        for alg in [a for a in KEXVARIANTS[case['kexv']] if a in ALGS]:
            line = by_name.get(alg)
            if line is None:
                ctx.violation('gex-line-missing', 'no (kex) line for %s' % alg, rep)
                continue
            got = line['size']
            got_note = any(l == 'info' and 'GEX fallback mechanism was triggered' in t for (l, t) in line['notes'])
            handed = [x[1] for x in tr.get(alg, []) if isinstance(x[1], int)]
            if len(tr.get(alg, [])) > 9:
                ctx.violation('more-than-9-probes', '%d probes for %s' % (len(tr[alg]), alg), rep)
            if got is not None and got not in handed:
                ctx.violation('reported-size-never-handed-out', '%s reported as %r-bit, the server handed out %r to its probes' % (alg, got, handed), rep)
            for b in rating_problems(got, line['notes']):
                ctx.violation('rating/%s' % size_class(got), '%s (%r-bit): %s' % (alg, got, b), rep)
            if got_note and not ('modern clients will use %d.' % (got or 0)) in ' '.join(t for (_, t) in line['notes']):
                ctx.violation('fallback-note-wrong-size', 'fallback note of %s does not name the reported size %r' % (alg, got), rep)
            if case['kind'] == 'family':
                exp, exp_note, smallest = statement_expected(case['style'], case['S'], openssh)
                behaviours.add((case['style'], case['S'], openssh, alg))
                nontriv_c.add((case['style'], openssh, exp, exp_note, got == exp))
                if got != exp or got_note != exp_note:
                    follow = py_serve(case['style'], case['S'], *FOLLOW_UP)
                    # the recorded deviation, exactly: configured 2048 is the smallest, the follow-up probe answers another size,
                    # and the tool reports that answer with the note (anything else in this corner is a NEW finding)
                    if openssh and smallest == 2048 and 2048 in case['S'] and follow != 2048 and got == follow and got_note:
                        key = KNOWN_KEY
                    else:
                        key = 'family-size/%s/%s/expected-%s-got-%s' % (case['style'], 'openssh' if openssh else 'other', exp, got) if got != exp else 'family-note/%s/%s' % (case['style'], 'openssh' if openssh else 'other')
                    ctx.violation(key, '%s server with moduli %r, %s banner: %s reported as %r-bit%s; the statement expects %r-bit%s (smallest handed out over the fixed probe sequence: %r)' % (
                        case['style'], list(case['S']), 'OpenSSH' if openssh else 'other', alg, got, ' with the fallback note' if got_note else '', exp, ' with the fallback note' if exp_note else '', smallest), rep)
            else:
                nontriv_c.add(('fault', case['fault']['then'], len(case['fault']['seq']), size_class(got)))
                if not handed and got is not None:
                    ctx.violation('size-from-faulty-server/%s' % case['fault']['then'], '%s reported as %r-bit although the server never handed out a group' % (alg, got), rep)
    ctx.extra['family'] = {'behaviours_total': 6144, 'behaviours_run': len(behaviours), 'cli_runs': len(cases), 'cli_wall_max': max(walls) if walls else None}
    ctx.exhaustive = (len(behaviours) == 6144)
    ctx.extra['op_histogram'] = {'literal': len(lit_terms), 'inproc': n_b, 'cli': len(cases)}
    ctx.correspond('gex', IMPORTS, PREAMBLE, terms, lambda i: descs[i])
    ctx.cover(len(cases), nontriv_c | behaviours, [dict(case_replay(cases[0]), traces=results[0]['traces'])] if cases else [],
              'real CLI over TCP against scripted servers: the family {every subset of the nine sizes} x {strict, round_up, openssh_fallback} x {OpenSSH, other banner} x {sha1, sha256} '
              '(thorough: all 6144 behaviours, quick: seeded sample incl. the known witnesses) with text and JSON views, single-algorithm and gex-first kex lists, plus servers that refuse/disconnect/send garbage/stall '
              'always or after some answers; non-trivial = distinct behaviours and (style, banner, expected size, note, agreement)')
