"""C15 - output options change presentation only, never findings or verdict."""
import contextlib
import io
import itertools
import json
import os

import canon
import inproc
import peers as P
import runner
from coqlit import cstr, cbool, clist
from props import reportfam

LV = {'head': 'OHead', 'good': 'OGood', 'info': 'OInfo', 'warn': 'OWarn', 'fail': 'OFail'}


def run_program(cfg, prog):
    """Real OutputBuffer driven by a program of buffer operations; returns the lines printed to stdout."""
    from ssh_audit.outputbuffer import OutputBuffer
    out = OutputBuffer()
    out.batch, out.verbose, out.use_colors, out.level, out.json = cfg['batch'], cfg['verbose'], cfg['colors'], ['info', 'warn', 'fail'][cfg['level']], cfg['json']
    buf = io.StringIO()
    with contextlib.redirect_stdout(buf):
        for op in prog:
            if op[0] == 'line':
                _, lv, s, al = op
                if lv == 'head': out.head(s)
                else: getattr(out, lv)(s, always_print=al)
            elif op[0] == 'section':
                _, body, title, srt = op
                with out:
                    for (lv, s, al) in body:
                        getattr(out, lv)(s, always_print=al)
                if not out.is_section_empty():
                    out.head(title)
                    out.flush_section(sort_section=srt)
                    out.sep()
            elif op[0] == 'vnow':
                out.v(op[1], write_now=True)
            elif op[0] == 'write':
                out.write()
    text = buf.getvalue()
    return text.split('\n')[:-1] if text else []


def coq_prog(prog):
    def line(l): return '(%s, %s, %s)' % (LV[l[0]], cstr(l[1]), cbool(l[2]))
    ops = []
    for op in prog:
        if op[0] == 'line':
            if op[1] == 'head':   # head() respects batch: model it as a one-line section-less head via OSection with empty body is wrong; use OLine only when not batch
                ops.append('OLine (OHead, %s, false)' % cstr(op[2]))
            else:
                ops.append('OLine ' + line(op[1:]))
        elif op[0] == 'section': ops.append('OSection %s %s %s' % (clist(op[1], line), cstr(op[2]), cbool(op[3])))
        elif op[0] == 'vnow': ops.append('OVNow %s' % cstr(op[1]))
        else: ops.append('OWrite')
    return '[' + '; '.join(ops) + ']'


def gen_program(rng):
    words = ['(kex) a -- [fail] x', '(kex) b', 'zeta', 'Alpha', '(rec) -x', '(rec) +y', '', 'm']
    def ln(levels=('good', 'info', 'warn', 'fail')): return (rng.choice(levels), rng.choice(words), rng.random() < 0.1)
    prog = []
    for _ in range(rng.randint(1, 6)):
        k = rng.random()
        if k < 0.3: prog.append(('line',) + ln())
        elif k < 0.8: prog.append(('section', [ln() for _ in range(rng.randint(0, 4))], rng.choice(['# title', '# other']), rng.random() < 0.4))
        elif k < 0.9: prog.append(('vnow', 'Starting audit of x...'))
        else: prog.append(('write',))
    prog.append(('write',))
    return prog


def findings_of(pt, minlevel='info'):
    order = {'info': 0, 'warn': 1, 'fail': 2}
    return sorted({(a['cat'], a['name'], l, t) for a in pt['algs'] for (l, t) in a['notes'] if l in ('fail', 'warn') and order[l] >= order[minlevel]})


def is_subsequence(a, b):
    it = iter(b)
    return all(x in it for x in a)


def run(ctx):
    ctx.proofs(['C15'])
    q = ctx.quick
    rng = ctx.rng
    # ---- correspondence: the OutputBuffer model on random programs ----
    terms, descs = [], []
    for _ in range(300 if q else 6000):
        cfg = {'batch': rng.random() < 0.4, 'verbose': rng.random() < 0.5, 'colors': rng.random() < 0.5, 'level': rng.randrange(3), 'json': rng.random() < 0.15}
        prog = gen_program(rng)
        if cfg['batch']:
            prog = [op for op in prog if not (op[0] == 'line' and op[1] == 'head')]
        got = run_program(cfg, prog)
        c = '{| c_batch := %s; c_verbose := %s; c_colors := %s; c_level := %d%%nat; c_json := %s |}' % (cbool(cfg['batch']), cbool(cfg['verbose']), cbool(cfg['colors']), cfg['level'], cbool(cfg['json']))
        terms.append('strs_eqb (stdout_lines isort %s %s) %s' % (c, coq_prog(prog), clist(got, cstr)))
        descs.append({'op': 'outputbuffer-program', 'cfg': cfg, 'prog': prog, 'impl': got})
    ctx.correspond('outbuf', ['VModel:OutBuf'], '', terms, lambda i: descs[i])
    ctx.cover(len(terms), {(d['cfg']['batch'], d['cfg']['colors'], d['cfg']['level'], len(d['prog'])) for d in descs}, [descs[0]],
              'random programs of OutputBuffer operations (lines, with-sections with head/flush/sep incl. sorted ones, immediate writes) under random batch/verbose/colour/level/json settings vs the model; non-trivial = distinct (batch, colours, level, program length)')

    # ---- oracle on the real report (in-process output()) ----
    g = inproc.Gen(rng)
    peers_ = [g.peer() for _ in range(40 if q else 600)]
    nontriv = set()
    n = 0
    for p in peers_:
        pj = reportfam.jsonable_peer(p)
        base = inproc.run_output(p)
        pb = canon.parse_text(base['text'])
        for batch, verbose, colors in itertools.product([False, True], repeat=3):
            prev_lines = None
            for level in ('info', 'warn', 'fail'):
                x = inproc.run_output(p, batch=batch, verbose=verbose, colors=colors, level=level)
                n += 1
                key = 'b%dv%dc%d-%s' % (batch, verbose, colors, level)
                if x['exc'] or x['ret'] != base['ret']:
                    ctx.violation('status-differs/' + key, 'status %r under %s but %r in the plain view' % (x['ret'], key, base['ret']), {'op': 'output', 'peer': pj, 'opts': key})
                    continue
                px = canon.parse_text(x['text'], verbose=verbose)
                if findings_of(px, level) != findings_of(pb, level):
                    ctx.violation('findings-differ/' + ('verbose' if verbose else 'batch' if batch else 'colors' if colors else 'level'),
                                  'findings at level>=%s under %s differ from the plain view: %r vs %r' % (level, key, findings_of(px, level)[:4], findings_of(pb, level)[:4]), {'op': 'output', 'peer': pj, 'opts': key})
                lines = x['text'].split('\n') if x['text'] else []
                if prev_lines is not None and not is_subsequence(lines, prev_lines):
                    extra = [l for l in lines if l not in prev_lines][:3]
                    ctx.violation('level-adds-lines', 'raising the level to %s under %s adds or alters lines: %r' % (level, key, extra), {'op': 'output', 'peer': pj, 'opts': key})
                prev_lines = lines
            nontriv.add((reportfam.sev_mix({'ptext': pb}), batch, verbose, colors))
        # JSON: one document, compact == indented, findings == text findings for names the database knows
        j1, j2 = inproc.run_output(p, js=1), inproc.run_output(p, js=2)
        jl = inproc.run_output(p, js=1, level='fail')
        n += 3
        try:
            d1, d2, d3 = canon.load_json(j1['text']), canon.load_json(j2['text']), canon.load_json(jl['text'])
        except canon.CanonError as e:
            ctx.violation('json-malformed', str(e), {'op': 'output', 'peer': pj})
            continue
        if d1 != d2 or d1 != d3:
            ctx.violation('json-variants-differ', 'compact / indented / -l fail JSON documents differ', {'op': 'output', 'peer': pj})
        db = inproc.tables()
        def known(c, nm):
            ln = nm[:nm.rindex('-')] + '-*' if (c == 'kex' and nm.startswith('gss-')) else nm
            return ln in db.get(c, {})
        jf = sorted({(a['cat'], a['name'], l, t) for a in canon.json_algs(d1) for (l, t) in a['notes'] if l in ('fail', 'warn') and known(a['cat'], a['name'])})
        tf = [f for f in findings_of(pb) if known(f[0], f[1])]
        if jf != tf or j1['ret'] != base['ret']:
            ctx.violation('json-findings-differ', 'JSON findings/status differ from text: %r vs %r' % (jf[:3], tf[:3]), {'op': 'output', 'peer': pj})
    ctx.cover(n, nontriv, [reportfam.jsonable_peer(peers_[0])], 'in-process output() of generated peers under all 2x2x2x3 option sets + JSON compact/indented/-l fail; non-trivial = distinct (severity mix, batch, verbose, colours)')

    # ---- CLI: repeatability under hash seeds, -v -l warn immediate write, JSON over TCP ----
    cases = [g.peer() for _ in range(6 if q else 40)]
    # archetypes whose report carries text assembled from several algorithm names (Terrapin notes): any set/dict-order
    # dependence of such text shows up as a difference between hash seeds
    cbc, etm = ['aes128-cbc', 'aes192-cbc', 'aes256-cbc', '3des-cbc'], ['hmac-sha2-256-etm@openssh.com', 'hmac-sha2-512-etm@openssh.com', 'umac-128-etm@openssh.com', 'hmac-sha1-etm@openssh.com']
    for kexs, encs, macs in ((['curve25519-sha256', 'kex-strict-s-v00@openssh.com'], ['chacha20-poly1305@openssh.com'] + cbc + ['aes128-ctr'], etm + ['hmac-sha2-256']),
                             (['diffie-hellman-group14-sha256', 'kex-strict-s-v00@openssh.com'], cbc + cbc[:2], etm[:2] + etm[:1]),
                             (['curve25519-sha256'], ['chacha20-poly1305@openssh.com'] + cbc, etm)):
        a = dict(cases[0]); a.update(kex=kexs, key=['ssh-ed25519', 'rsa-sha2-512'], enc=encs, mac=macs, banner='SSH-2.0-OpenSSH_9.3')
        cases.append(a)
    for p in cases:
        p['client_audit'] = False; p['banner'] = p['banner'] or 'SSH-2.0-OpenSSH_8.0'
    outs = {}
    for seed in ([0, 1, 7] if q else [0, 1, 2, 3, 7, 99]):
        with runner.Pool(8, hashseed=seed) as pool:
            def do(z, p):
                hk = {}
                if 'ssh-ed25519' in p['key']: hk[b'ssh-ed25519'] = P.ed25519_blob()
                for t in ('ssh-rsa', 'rsa-sha2-256', 'rsa-sha2-512'):
                    if t in p['key']: hk[t.encode()] = P.rsa_blob(3072)
                srv = P.new_ssh2_server(dict(banner=p['banner'].encode(), kex=p['kex'], key=p['key'], enc=p['enc'], mac=p['mac'], hostkeys=hk, gex=lambda a, b, c: max(a, min(c, 4096))))
                try:
                    r = []
                    for opts in (['-n'], ['-j'], ['-n', '-b', '-v', '-l', 'warn'], ['-v', '-j'], ['-b', '-v', '-jj', '-l', 'fail']):
                        r.append(z.run(opts + ['--skip-rate-test', '-t', '2', '127.0.0.1:%d' % srv.port], timeout=60))
                    return [(x['rc'], x['out'].replace(str(srv.port), 'PORT')) for x in r]
                finally:
                    srv.shutdown()
            outs[seed] = pool.map(do, cases)
    os.environ['PYTHONHASHSEED'] = '0'
    seeds = sorted(outs)
    for i, p in enumerate(cases):
        for s in seeds[1:]:
            for k, name in enumerate(('text', 'json', 'verbose-warn')):
                if outs[s][i][k] != outs[seeds[0]][i][k]:
                    ctx.violation('not-repeatable/' + name, '%s output differs between PYTHONHASHSEED=%d and %d' % (name, seeds[0], s), {'op': 'cli', 'peer': reportfam.jsonable_peer(p)})
        try:
            j0 = canon.load_json(outs[seeds[0]][i][1][1])
        except canon.CanonError as e:
            ctx.violation('cli-json-malformed', str(e), {'op': 'cli', 'peer': reportfam.jsonable_peer(p)})
            j0 = None
        for k, o in ((3, '-v -j'), (4, '-b -v -jj -l fail')):     # every option combination of the quantifier: stdout is still one JSON document, the same one
            try:
                jk = canon.load_json(outs[seeds[0]][i][k][1])
                if j0 is not None and jk != j0:
                    ctx.violation('cli-json-differs/' + o, 'the JSON document printed with %s differs from the one printed with -j' % o, {'op': 'cli', 'opts': o, 'peer': reportfam.jsonable_peer(p)})
            except canon.CanonError as e:
                ctx.violation('cli-json-malformed/' + o, '%s: %s' % (o, e), {'op': 'cli', 'opts': o, 'peer': reportfam.jsonable_peer(p)})
        vw = outs[seeds[0]][i][2][1].split('\n')
        if vw and vw[0] == '':
            ctx.violation('blank-line-from-immediate-write', "with -b -v -l warn the filtered 'Starting audit' line is printed as an empty line (a line added by raising the level)", {'op': 'cli', 'opts': '-n -b -v -l warn', 'peer': reportfam.jsonable_peer(p)})
    # JSON mode when the audit ends before the report: stdout is still one JSON document, whatever way the handshake fails
    kex_pkt = P.frame2(P.kexinit(['curve25519-sha256'], ['ssh-ed25519'], ['aes256-ctr'], ['hmac-sha2-256']))
    broken = {'banner-then-close': [b'SSH-2.0-OpenSSH_8.0\r\n'], 'bad-blocksize': [b'SSH-2.0-OpenSSH_8.0\r\n', b'\x00\x00\x00\x0d\x04' + bytes(20)],
              'truncated-kexinit': [b'SSH-2.0-OpenSSH_8.0\r\n', kex_pkt[:len(kex_pkt) // 2]], 'kexinit-cut-inside-lists': [b'SSH-2.0-OpenSSH_8.0\r\n', P.frame2(bytes([20]) + bytes(16) + b'\x00\x00\x00\x05abc')],
              'wrong-type': [b'SSH-2.0-OpenSSH_8.0\r\n', P.frame2(bytes([21]) + bytes(11))], 'no-banner': [b'hello\r\n'],
              'ssh1-truncated-key-message': [b'SSH-1.5-OpenSSH_3.0\r\n', P.frame1(P.pkm_payload(0x4c, 0x0c)[:40])]}
    bcases = [(k, o) for k in broken for o in (['-j'], ['-jj', '-v'])] + [('refused', ['-j'])]

    def do_broken(z, c):
        kind, o = c
        if kind == 'refused':
            import socket as _s
            t = _s.socket(); t.bind(('127.0.0.1', 0)); port = t.getsockname()[1]; t.close()
            return z.run(o + ['--skip-rate-test', '-t', '1', '127.0.0.1:%d' % port], timeout=60)
        srv = P.Server(P.RawServer(broken[kind], then='close'))
        try:
            return z.run(o + (['-1'] if kind.startswith('ssh1') else []) + ['--skip-rate-test', '-t', '1', '127.0.0.1:%d' % srv.port], timeout=60)
        finally:
            srv.shutdown()
    with runner.Pool(8) as pool:
        bres = pool.map(do_broken, bcases)
    for (kind, o), r in zip(bcases, bres):
        try:
            d = canon.load_json(r['out'])
            if not isinstance(d, dict) or 'error' not in d or any(k in d for k in ('kex', 'key', 'enc', 'mac', 'fingerprints')):
                ctx.violation('json-on-error/shape', 'handshake failure %s with %s: the JSON document is %r' % (kind, ' '.join(o), str(d)[:200]), {'op': 'cli-broken-json', 'kind': kind, 'opts': o})
        except canon.CanonError as e:
            ctx.violation('json-on-error/not-one-document', 'handshake failure %s with %s: %s' % (kind, ' '.join(o), e), {'op': 'cli-broken-json', 'kind': kind, 'opts': o})
    ctx.evaluations += len(bcases)
    ctx.cover(len(cases) * len(seeds) * 3, {('seed', s) for s in seeds}, [], 'real CLI over TCP, text/JSON/verbose-warn, repeated under several PYTHONHASHSEED values (byte identity is observed, not proved)')
