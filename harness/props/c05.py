"""C05 - a policy made from a target passes on that target and fails on any drift.

Implementation side: the real `Policy.create` -> `Policy(policy_data=...)` -> `Policy.evaluate` in-process on real
`SSH2_Kex` objects (helpers of props.c06), and the real CLI end to end: `ssh-audit.py -M file` against a scripted TCP
server (harness/peers.py), then `-P file` against the same and against perturbed servers; `-P "<built-in name>"` against
a server configured exactly as each built-in policy lists.
Model side: `PolicyIO.create_text` / `parse_text` (coq/model/PolicyIO.v) and `PolicyM.evaluate`, evaluated by coqc on
the same inputs; json.dumps / json.loads are observed on the implementation side and handed to the model as tables.
Oracle: written from the property statement (loads, passes, every single-attribute drift fails naming the field)."""
import contextlib
import copy
import datetime
import io
import json
import os
import shutil
import tempfile

import common
from coqlit import cz, cbool, clist, copt, cstr
from props import c06
from props.c06 import new_peer, mk_kex, mk_banner, str_hash, pol_of_object

IMPORTS = ['VModel:PolicyIO']
GEX = ('diffie-hellman-group-exchange-sha1', 'diffie-hellman-group-exchange-sha256')

# ----------------------------------------------------------------------------- Coq literals
CONST_LINES = {}


def cs(s):
    return cstr(s)


def cstrs(xs):
    return clist(xs, cs)


def build_preamble():
    """The constant lines of the policy template are defined once per case file (string literals are slow to elaborate)."""
    text = ''
    CONST_LINES.clear()
    sample = real_create('S', new_peer(host_keys={'a': (1, '', 0)}, dh={'b': 2}), True)[0]
    for ln in sample.split('\n'):
        if (ln.startswith('#') and ' S ' not in ln and 'banner =' not in ln and 'compressions =' not in ln and len(ln) > 1) or ln in (
                'version = 1', 'allow_larger_keys = false', 'allow_algorithm_subset_and_reordering = false', 'client policy = true'):
            if ln not in CONST_LINES:
                CONST_LINES[ln] = 'k%d' % len(CONST_LINES)
                text += 'Definition %s : string := %s.\n' % (CONST_LINES[ln], cs(ln))
    return text


def ctext(text):
    return '(join nl %s)' % clist(text.split('\n'), lambda l: CONST_LINES.get(l) or cs(l))


def chkj(d):
    return '(HKJ %s %s %s)' % (cz(d['hostkey_size']), copt(d.get('ca_key_type'), cs), copt(d.get('ca_key_size'), cz))


def is_hk_obj(o):
    return isinstance(o, dict) and all(isinstance(k, str) and isinstance(v, dict) and set(v) <= {'hostkey_size', 'ca_key_type', 'ca_key_size'} and
                                       type(v.get('hostkey_size')) is int and type(v.get('ca_key_type', '')) is str and type(v.get('ca_key_size', 0)) is int
                                       for k, v in o.items())


def is_dh_obj(o):
    return isinstance(o, dict) and all(isinstance(k, str) and type(v) is int for k, v in o.items())


def chk_dict(o):
    return clist(o.items(), lambda kv: '(%s, %s)' % (cs(kv[0]), chkj(kv[1])))


def cdh_dict(o):
    return clist(o.items(), lambda kv: '(%s, %s)' % (cs(kv[0]), cz(kv[1])))


class JsonSpy:
    """Records every json.loads / json.dumps call made by policy.py while active (the model takes them as tables)."""

    def __enter__(self):
        self.loads, self.dumps = [], []
        self.o_loads, self.o_dumps = json.loads, json.dumps

        def loads(s, *a, **kw):
            try:
                r = self.o_loads(s, *a, **kw)
            except ValueError:
                self.loads.append((s, 'ValueError'))
                raise
            self.loads.append((s, copy.deepcopy(r)))
            return r

        def dumps(o, *a, **kw):
            r = self.o_dumps(o, *a, **kw)
            self.dumps.append((copy.deepcopy(o), r))
            return r
        json.loads, json.dumps = loads, dumps
        return self

    def __exit__(self, *a):
        json.loads, json.dumps = self.o_loads, self.o_dumps

    def supported(self):
        return all(r == 'ValueError' or is_hk_obj(r) or is_dh_obj(r) for _, r in self.loads)

    def loads_tables(self):
        hk, dh = [], []
        seen = set()
        for s, r in self.loads:
            if s in seen:
                continue
            seen.add(s)
            if r == 'ValueError':
                hk.append('(%s, Raise ValueError)' % cs(s)); dh.append('(%s, Raise ValueError)' % cs(s))
            else:
                if is_hk_obj(r):
                    hk.append('(%s, Ok %s)' % (cs(s), chk_dict(r)))
                if is_dh_obj(r):
                    dh.append('(%s, Ok %s)' % (cs(s), cdh_dict(r)))
        return '(tbl_loads [%s])' % '; '.join(hk), '(tbl_loads [%s])' % '; '.join(dh)

    def dumps_tables(self):
        hk = ['(%s, %s)' % (chk_dict(o), cs(t)) for o, t in self.dumps if is_hk_obj(o) and o]
        dh = ['(%s, %s)' % (cdh_dict(o), cs(t)) for o, t in self.dumps if is_dh_obj(o) and o]
        return '(tbl_dumps hkj_eqb [%s])' % '; '.join(hk), '(tbl_dumps Z.eqb [%s])' % '; '.join(dh)


def today_str():
    return datetime.date.today().strftime('%Y/%m/%d')


def real_create(src, peer, client):
    """Policy.create on real objects -> (text, today, spy)."""
    from ssh_audit.policy import Policy
    for _ in range(3):
        t0 = today_str()
        with JsonSpy() as spy:
            text = Policy.create(src, mk_banner(peer), mk_kex(peer), client)
        if today_str() == t0:
            return text, t0, spy
    raise common.CheckError('date changed three times during Policy.create')


EXN = {'ValueError': 'ValueError', 'JSONDecodeError': 'ValueError', 'UnboundLocalError': 'RuntimeError', 'TypeError': 'TypeError', 'KeyError': 'KeyError', 'AttributeError': 'RuntimeError'}


def real_load(text):
    """Policy(policy_data=text) -> ('ok', Policy) | ('raise', name), spy."""
    from ssh_audit.policy import Policy
    buf = io.StringIO()
    with JsonSpy() as spy, contextlib.redirect_stdout(buf), contextlib.redirect_stderr(buf):
        try:
            P = Policy(policy_data=text)
            res = ('ok', P)
        except Exception as e:  # noqa: the parser's failure modes are what is compared
            res = ('raise', type(e).__name__)
    return res, spy


def cpol_full(P):
    pol = pol_of_object(P)
    hs = copt(pol['hostkey_sizes'], lambda d: clist(d.items(), lambda kv: '(%s, %s)' % (cs(kv[0]), c_hk(kv[1]))))
    dh = copt(pol['dh'], lambda d: clist(d.items(), lambda kv: '(%s, %s)' % (cs(kv[0]), cz(kv[1]))))
    return '(Build_policy %s %s %s %s %s %s %s %s %s %s %s %s %s %s)' % (
        copt(P._name, cs), copt(P._version, cs), copt(pol['banner'], cs), copt(pol['compressions'], cstrs), copt(pol['host_keys'], cstrs),
        copt(pol['optional_host_keys'], cstrs), copt(pol['kex'], cstrs), copt(pol['ciphers'], cstrs), copt(pol['macs'], cstrs), hs, dh,
        cbool(P._server_policy), cbool(pol['subset']), cbool(pol['larger']))


def c_hk(v):
    return '(HK %s %s %s)' % (cz(v[0]), cs(v[1]), cz(v[2]))


def cpeer5(peer, bstr):
    return '(Build_peer %s %s %s %s %s %s %s %s)' % (
        cs(bstr), cstrs(peer['compression']), cstrs(peer['kex']), cstrs(peer['key']), cstrs(peer['enc']), cstrs(peer['mac']),
        clist(peer['host_keys'].items(), lambda kv: '(%s, %s)' % (cs(kv[0]), c_hk(kv[1]))),
        clist(peer['dh'].items(), lambda kv: '(%s, %s)' % (cs(kv[0]), cz(kv[1]))))


def cres_policy(res):
    if res[0] == 'ok':
        return '(Ok %s)' % cpol_full(res[1])
    return '(Raise %s)' % EXN.get(res[1], 'OSError')


def cerrs(errs):
    return clist(errs, lambda e: '(PErr %s %s %s %s)' % (cs(e['mismatched_field']), cstrs(e['expected_required']), cstrs(e['expected_optional']), cstrs(e['actual'])))


def eval_term(P, peer, bstr, res):
    """PolicyM.evaluate_full on the loaded policy and a peer against the implementation's result."""
    ret, errs, s = res
    return 'result_hash_eqb (evaluate_full %s %s) %s %s %d %d %d' % ((cpol_full(P), cpeer5(peer, bstr), cbool(ret), cerrs(errs)) + str_hash(s))


# ----------------------------------------------------------------------------- generators
REAL = c06.BIGU + ['gss-gex-sha1-toWM5Slw5Ew8Mqkay+al2g==', 'gss-group1-sha1-toWM5Slw5Ew8Mqkay+al2g==', 'gss-nistp256-sha256-eipGX3TCiQSrx573bT1o1Q==',
                   'kexguess2@matt.ucc.asn.au', 'ecdh-sha2-1.3.132.0.10', 'ssh-rsa-cert-v01@openssh.com', 'rijndael-cbc@lysator.liu.se',
                   'aes128-gcm@openssh.com', 'hmac-sha1', 'umac-64@openssh.com', 'diffie-hellman-group-exchange-sha1', 'a=b', '=', '==', 'x=', '=x',
                   'a+b/c@d', '#hash', 'name', 'version=2', '"quoted"', "it's", 'back\\slash', '\\n', 'true', '{}', '[1]', '007', '-']
RFC_CHARS = [chr(c) for c in range(33, 127) if chr(c) != ',']
HKTYPES = ['ssh-rsa', 'rsa-sha2-256', 'rsa-sha2-512', 'ssh-ed25519', 'ssh-rsa-cert-v01@openssh.com', 'rsa-sha2-512-cert-v01@openssh.com',
           'ssh-ed25519-cert-v01@openssh.com', 'ecdsa-sha2-nistp256', 'ssh-dss', 'k=1', 'x']
CATYPES = ['ssh-rsa', 'ssh-ed25519', 'ecdsa-sha2-nistp256', 'c=a', 'rsa "q"']
SIZES = [256, 1024, 2048, 3072, 4096, 8192, 521, 1, 0]


def rfc_name(rng):
    if rng.random() < 0.6:
        return rng.choice(REAL)
    n = rng.choice([1, 1, 2, 3, 5, 8, 20, 64])
    return ''.join(rng.choice(RFC_CHARS if rng.random() < 0.7 else '=+/@-.') for _ in range(n))


def rfc_list(rng, distinct=True):
    r = rng.random()
    if r < 0.04:
        return ['']                 # an empty name-list on the wire
    n = rng.choice([1, 1, 2, 3, 4, 6, 9])
    out = []
    for _ in range(n):
        x = rfc_name(rng)
        if not distinct or x not in out:
            out.append(x)
    if rng.random() < 0.05:
        out.insert(rng.randrange(len(out) + 1), rng.choice(out))       # a duplicate
    return out


def gen_peer(rng):
    """An auditable peer: RFC 4251 name-lists, host-key / CA size map, group-exchange modulus sizes."""
    peer = new_peer(banner=rng.choice(['SSH-2.0-OpenSSH_9.6', 'SSH-2.0-OpenSSH_8.9p1 Ubuntu-3', 'SSH-2.0-dropbear_2022.83', 'SSH-2.0-x "y" = z', 'SSH-1.99-Cisco-1.25']),
                    banner_kind=rng.choice(['str', 'obj']), compression=rng.choice([['none'], ['none', 'zlib@openssh.com'], ['zlib', 'none'], ['']]),
                    kex=rfc_list(rng), key=rfc_list(rng), enc=rfc_list(rng), mac=rfc_list(rng))
    hk = {}
    for t in rng.sample(HKTYPES, rng.choice([0, 1, 2, 3, 5])) + (rng.sample(peer['key'], 1) if rng.random() < 0.4 else []):
        r = rng.random()
        if r < 0.5:
            ca = ('', 0)
        elif r < 0.9:
            ca = (rng.choice(CATYPES), rng.choice(SIZES[:-1]))
        else:
            ca = rng.choice([('', 256), ('ssh-rsa', 0)])     # half-empty CA information
        hk[t] = (rng.choice(SIZES), ca[0], ca[1])
    peer['host_keys'] = hk
    peer['dh'] = {t: rng.choice(SIZES[:-2] + [1536, 7680]) for t in rng.sample(list(GEX) + ['g=x'], rng.choice([0, 0, 1, 2, 3]))}
    return peer


def in_domain(peer):
    """The quantifier of the property: RFC 4251 names (printable US-ASCII, no comma / blank / control character)."""
    def ok(n):
        return all(33 <= ord(c) <= 126 and c != ',' for c in n)
    return all(ok(n) for f in ('kex', 'key', 'enc', 'mac') for n in peer[f]) and all(len(peer[f]) > 0 for f in ('kex', 'key', 'enc', 'mac'))


ODD = ['', ' ', 'a b', ' lead', 'trail ', 'tab\there', '\tx', 'x\t', 'a,b', ',', 'new\nline', 'cr\rhere', 'x\r', '\x0bvt', 'fs\x1c', 'café', 'é', 'nbsp\u00a0', '\u2003em',
       'nel\u0085', 'a\x00b', '\x7f', '# c', 'k = v', 'name = "x"']


def odd_peer(rng):
    """Outside the quantifier (names no SSH peer may send): the model must still agree with the code."""
    peer = gen_peer(rng)
    for f in ('kex', 'key', 'enc', 'mac', 'compression'):
        if rng.random() < 0.5:
            l = list(peer[f])
            for _ in range(rng.choice([1, 1, 2])):
                l.insert(rng.randrange(len(l) + 1), rng.choice(ODD))
            if rng.random() < 0.1:
                l = []
            peer[f] = l
    if rng.random() < 0.3:
        peer['banner'], peer['banner_kind'] = rng.choice(['two\nlines', ' padded ', '', 'café', 'x\ry']), 'str'
    if rng.random() < 0.3:
        peer['host_keys'] = {rng.choice(ODD + ['ssh-rsa']): (2048, rng.choice(['', 'ssh-rsa', 'a\nb']), rng.choice([0, 2048]))}
    return peer


def unicode_space(peer):
    """str.strip() of NON-ASCII white space is outside the model."""
    bad = '\u0085\u00a0\u1680\u2000\u2001\u2002\u2003\u2004\u2005\u2006\u2007\u2008\u2009\u200a\u2028\u2029\u202f\u205f\u3000'
    return any(c in bad for f in ('kex', 'key', 'enc', 'mac', 'compression') for n in peer[f] for c in n) or any(c in bad for c in peer['banner']) or \
        any(c in bad for t in peer['host_keys'] for c in t)


def perturbations(rng, peer, budget):
    """Every kind of single-attribute drift of the statement -> (kind, expected field, perturbed peer, expected, actual)."""
    out = []
    FIELD = {'kex': 'Key exchanges', 'key': 'Host keys', 'enc': 'Ciphers', 'mac': 'MACs'}
    for f in ('kex', 'key', 'enc', 'mac'):
        l = peer[f]
        cands = []
        for i in range(len(l) + 1):
            cands.append(('add', l[:i] + [rng.choice(['extra-alg@example.com', 'x=', rfc_name(rng)])] + l[i:]))
            if l:
                cands.append(('add-dup', l[:i] + [rng.choice(l)] + l[i:]))
        for i in range(len(l)):
            cands.append(('remove', l[:i] + l[i + 1:]))
            for j in range(i + 1, len(l)):
                sw = list(l); sw[i], sw[j] = sw[j], sw[i]
                cands.append(('reorder', sw))
        if len(l) > 2:
            cands.append(('reorder', l[1:] + l[:1]))
            cands.append(('reorder', list(reversed(l))))
        for kind, nl in cands:
            if nl == l:
                continue        # swapping equal names is no drift
            if kind == 'remove' and nl == []:
                nl = ['']       # a peer cannot send [] : the empty name-list is ['']
                if nl == l:
                    continue
            p2 = dict(peer); p2[f] = nl
            out.append(('%s/%s' % (f, kind), FIELD[f], p2, l, nl))
    for t, (size, ct, cs_) in peer['host_keys'].items():
        for ns in {size + 1, size - 1, size * 2 + 7, 0} - {size}:
            p2 = dict(peer); p2['host_keys'] = dict(peer['host_keys']); p2['host_keys'][t] = (ns, ct, cs_)
            out.append(('hostkey-size', 'Host key (%s) sizes' % t, p2, [str(size)], [str(ns)]))
        if ct != '' and cs_ > 0:
            for ns in {cs_ + 1, cs_ - 1, cs_ * 2, 0} - {cs_}:
                p2 = dict(peer); p2['host_keys'] = dict(peer['host_keys']); p2['host_keys'][t] = (size, ct, ns)
                out.append(('ca-size', 'CA signature size (%s)' % ct, p2, [str(cs_)], [str(ns)]))
            for nt in {'ssh-rsa', 'ssh-ed25519', '', ct + 'x', ct[:-1]} - {ct}:
                p2 = dict(peer); p2['host_keys'] = dict(peer['host_keys']); p2['host_keys'][t] = (size, nt, cs_)
                out.append(('ca-type', 'CA signature type', p2, [ct], [nt]))
    for t, size in peer['dh'].items():
        for ns in {size + 1, size - 1, size * 2, 1024} - {size}:
            p2 = dict(peer); p2['dh'] = dict(peer['dh']); p2['dh'][t] = ns
            out.append(('gex-modulus', 'Group exchange (%s) modulus sizes' % t, p2, [str(size)], [str(ns)]))
    if budget is not None and len(out) > budget:
        # keep every kind represented
        kinds = {}
        for p in out:
            kinds.setdefault(p[0], []).append(p)
        keep = [rng.choice(v) for v in kinds.values()]
        rest = [p for p in out if p not in keep]
        keep += rng.sample(rest, max(0, min(len(rest), budget - len(keep))))
        out = keep
    return out


# ----------------------------------------------------------------------------- hand-written policy texts (parser correspondence)
def rand_policy_text(rng):
    W = ['', ' ', '  ', '\t', ' \t ', '\r', '\x0b', '\x1c ']
    names = ['a', 'aes128-ctr', 'x=y', 'gss-group14-sha256-toWM5Slw5Ew8Mqkay+al2g==', '', ' ', 'a b', '#', 'TRUE']
    ints = ['2048', ' 4096 ', '0', '-1', '+7', '1_000', '1__0', 'abc', '', '12.5', '0x10', '007', '\t3072\n'.strip('\n'), '4096 # c', '9' * 25]

    def lst():
        return rng.choice([',', ', ', ' , ', ',,']).join(rng.choice(names) for _ in range(rng.choice([0, 1, 2, 3, 5])))

    def hkjson():
        d = {}
        for t in rng.sample(['ssh-rsa', 'ssh-ed25519', 'x=y', 'rsa-sha2-512-cert-v01@openssh.com'], rng.choice([0, 1, 2])):
            e = {'hostkey_size': rng.choice([256, 2048, 4096])}
            r = rng.random()
            if r < 0.4:
                e.update(ca_key_type=rng.choice(['ssh-rsa', 'ssh-ed25519', '']), ca_key_size=rng.choice([0, 256, 4096]))
            elif r < 0.5:
                e.update(ca_key_type='ssh-rsa')
            elif r < 0.6:
                e.update(ca_key_size=1024)
            d[t] = e
        s = json.dumps(d, indent=rng.choice([None, None, 0])).replace('\n', ' ')
        return rng.choice([s, s, s, s[:-1], s + ' x', '', 'null' if False else s, s.replace(': ', ' :  ')])

    def dhjson():
        d = {t: rng.choice([1024, 2048, 3072]) for t in rng.sample(list(GEX) + ['g=x'], rng.choice([0, 1, 2]))}
        s = json.dumps(d)
        return rng.choice([s, s, s, s[1:], '{"a" 1}', s + '}'])
    makers = [
        lambda: '', lambda: rng.choice(W), lambda: '# comment = 1', lambda: '  #indented', lambda: '#',
        lambda: 'name = "%s"' % rng.choice(['T', 'a = b', 'q\\"uote\\"', 'n\\nl', '\\\\n', '', ' sp ', '"', 'x\\', '\\"\\n\\"']),
        lambda: 'name = %s' % rng.choice(['T', '"', '""', '', ' ', '"a', 'a"', "'a'", '"a" b', 'x"y"']),
        lambda: 'name="N"', lambda: 'name = "N"', lambda: 'name = "N"', lambda: 'version = 1', lambda: 'version = 1', lambda: 'version = %s' % rng.choice(['', 'a = b', '2 ', '"1"']),
        lambda: 'banner = %s' % rng.choice(['"SSH-2.0-OpenSSH_9.6"', '""', '', 'x', '"a\\"b"', '"', ' "pad" ']),
        lambda: '%s = %s' % (rng.choice(['compressions', 'host keys', 'optional host keys', 'key exchanges', 'ciphers', 'macs']), lst()),
        lambda: '%s=%s' % (rng.choice(['host keys', 'key exchanges', 'ciphers', 'macs']), lst()),
        lambda: 'client policy = %s' % rng.choice(['true', 'TRUE', 'True', 'false', 'yes', '', ' true ', 'tru e']),
        lambda: '%s = %s' % (rng.choice(['allow_larger_keys', 'allow_algorithm_subset_and_reordering']), rng.choice(['true', 'tRuE', 'false', '1', '', 'TRUE '])),
        lambda: 'host_key_sizes = %s' % hkjson(), lambda: 'dh_modulus_sizes = %s' % dhjson(),
        lambda: 'hostkey_size_%s = %s' % (rng.choice(['ssh-rsa', 'rsa-sha2-256', '', 'x=y'.split('=')[0]]), rng.choice(ints)),
        lambda: 'cakey_size_%s = %s' % (rng.choice(['ssh-rsa-cert-v01@openssh.com', 'rsa-sha2-512-cert-v01@openssh.com', 'ssh-ed25519-cert-v01@openssh.com', 'ssh-rsa', '']), rng.choice(ints)),
        lambda: 'dh_modulus_size_%s = %s' % (rng.choice(list(GEX) + ['']), rng.choice(ints)),
        lambda: rng.choice(['foo = bar', 'Name = "x"', 'hostkey_size = 1', 'client policy extra = true', 'garbage', '= x', ' = ', '=', 'host  keys = a', 'hostkey_sizes = {}',
                            'dh_modulus_size = 1', 'cakey_size = 2', 'host_key_size_x = 1']),
    ]
    n = rng.choice([0, 1, 2, 3, 5, 8, 12])
    lines = []
    for _ in range(n):
        m = rng.choice(makers)
        if rng.random() < 0.12:
            m = makers[-1]
        ln = m()
        if rng.random() < 0.3:
            ln = rng.choice(W) + ln + rng.choice(W)
        if '\n' in ln:
            continue
        lines.append(ln)
    if rng.random() < 0.75:
        lines.insert(rng.randrange(len(lines) + 1), 'name = "N"')
    if rng.random() < 0.75:
        lines.insert(rng.randrange(len(lines) + 1), 'version = 1')
    return '\n'.join(lines) + rng.choice(['', '\n', '\n\n'])


# ----------------------------------------------------------------------------- the in-process part
class InProc:
    def __init__(self, ctx):
        self.ctx = ctx
        self.terms, self.descs = [], []
        self.n = 0
        self.nontriv = set()
        self.hist = {}
        self.samples = []
        self.corr = True

    def add(self, term, desc):
        if not self.corr:
            return          # oracle-only stretch of the thorough tier
        self.terms.append(term)
        self.descs.append(desc)
        self.hist[desc['op']] = self.hist.get(desc['op'], 0) + 1

    def viol(self, key, what, replay):
        self.ctx.violation(key, what, replay)

    def one_peer(self, rng, peer, src, client, domain, n_pert, n_eval_terms, exact_text):
        """create -> load -> evaluate -> drift.  domain: 'rfc' (the property's quantifier; oracle applies) or 'odd' (correspondence only)."""
        from ssh_audit.policy import Policy
        text, today, spy = real_create(src, peer, client)
        bstr = str(mk_banner(peer))
        replay = {'op': 'create', 'src': src, 'client': client, 'peer': peer}
        modelled = not unicode_space(peer) and src.isascii()
        # the JSON hypothesis of the theorems, on the real json module
        for o, t in spy.dumps:
            self.n += 1
            if json.loads(t) != o or t.strip() != t or '\n' in t:
                self.viol('json-hypothesis', 'json.loads(json.dumps(m)) != m, or the dumped text has a line feed / outer blank, for m = %r' % (o,), replay)
        dk, dd = spy.dumps_tables()
        cpr = cpeer5(peer, bstr)
        args = '%s %s %s %s %s %s' % (dk, dd, cs(src), cs(today), cbool(client), cpr)
        desc = {'op': 'create', 'domain': domain, 'src': src, 'client': client, 'peer': peer, 'impl_text': text}
        if exact_text:
            self.add('String.eqb (create_text %s) %s' % (args, ctext(text)), desc)
        else:
            self.add('text_hash_eqb (create_text %s) %d %d %d' % ((args,) + str_hash(text)), desc)
        settings = [l for l in text.split('\n') if l.strip() != '' and not l.strip().startswith('#')]
        if '\n' not in ''.join(sum((peer[f] for f in ('kex', 'key', 'enc', 'mac', 'compression')), [])) + bstr + src and modelled:
            self.add('strs_eqb (setting_lines (create_lines %s)) %s' % (args, cstrs(settings)), dict(desc, op='create settings', impl=settings))
        # ---- load
        res, lspy = real_load(text)
        lk, ld = lspy.loads_tables()
        if modelled and lspy.supported():
            self.add('res_eqb policy_eqb (parse_text %s %s %s) %s' % (lk, ld, ctext(text), cres_policy(res)),
                     {'op': 'parse created', 'domain': domain, 'text': text, 'impl': res[1] if res[0] == 'raise' else pol_of_object(res[1])})
        self.n += 1
        shape = (domain, client, bool(peer['host_keys']), bool(peer['dh']), tuple(min(len(peer[f]), 3) for f in ('kex', 'key', 'enc', 'mac')),
                 any('=' in n for f in ('kex', 'key', 'enc', 'mac') for n in peer[f]), res[0])
        self.nontriv.add(shape)
        if domain != 'rfc':
            return
        # ---- oracle 1: the written policy loads without error
        if res[0] != 'ok':
            cls = 'name-with-equals' if any('=' in n for f in ('kex', 'key', 'enc', 'mac') for n in peer[f]) else 'other'
            self.viol('create-load/%s/%s' % (res[1], cls), 'the policy made from the peer does not load: %s' % res[1], replay)
            return
        P = res[1]
        # the SPEC function of the theorems against the real object
        self.add('policy_eqb (policy_of %s %s %s %s) %s' % (cs(src), cs(today), cbool(client), cpr, cpol_full(P)),
                 {'op': 'policy_of', 'peer': peer, 'impl': pol_of_object(P)})
        # the precondition of the theorems holds on every generated peer of the property's domain
        self.add('wf_peer %s && wf_text %s && wf_text %s' % (cpr, cs(src), cs(today)), {'op': 'wf_peer', 'peer': peer, 'src': src})
        # the policy lists exactly what the peer has (statement: "made from a target")
        pol = pol_of_object(P)
        for pf, af in (('kex', 'kex'), ('host_keys', 'key'), ('ciphers', 'enc'), ('macs', 'mac')):
            if pol[pf] != peer[af]:
                self.viol('create-load/list-changed/%s' % af, 'the loaded policy lists %r for %s, the peer has %r' % (pol[pf], af, peer[af]), replay)
        if pol['subset'] or pol['larger'] or P._server_policy != (not client):
            self.viol('create-load/flags', 'the loaded policy has subset=%r larger=%r server=%r' % (pol['subset'], pol['larger'], P._server_policy), replay)
        # ---- oracle 2: evaluated against the same peer it passes with no errors
        ret, errs, estr = P.evaluate(mk_banner(peer), mk_kex(peer))
        errs = [dict(e) for e in errs]
        self.n += 1
        if not (ret is True and errs == [] and estr == ''):
            self.viol('self-evaluate/%s' % (c06.field_class(errs[0]['mismatched_field']) if errs else 'no-error'),
                      'the policy made from the peer does not pass on it: passed=%r errors=%r' % (ret, errs), replay)
        self.add(eval_term(P, peer, bstr, (ret, errs, estr)), {'op': 'evaluate self', 'peer': peer, 'impl': [ret, errs]})
        if len(self.samples) < 6:
            self.samples.append({'peer': {k: peer[k] for k in ('kex', 'key', 'enc', 'mac', 'host_keys', 'dh')}, 'settings': settings, 'passed_on_self': ret})
        # ---- oracle 3: every single-attribute drift fails, naming the field
        perts = perturbations(rng, peer, n_pert)
        term_idx = set(rng.sample(range(len(perts)), min(n_eval_terms, len(perts))))
        for k, (kind, field, p2, exp, act) in enumerate(perts):
            P2 = Policy(policy_data=text)
            ret2, errs2, estr2 = P2.evaluate(mk_banner(p2), mk_kex(p2))
            errs2 = [dict(e) for e in errs2]
            self.n += 1
            self.nontriv.add(('drift', kind, ret2, len(errs2)))
            rp = {'op': 'drift', 'kind': kind, 'peer': peer, 'perturbed': p2, 'src': src, 'client': client}
            named = [e for e in errs2 if e['mismatched_field'] == field]
            if ret2 is not False:
                self.viol('drift-undetected/%s' % kind, 'peer perturbed (%s: %r -> %r) still passes the policy made from the original' % (kind, exp, act), rp)
            elif not named:
                self.viol('drift-field-not-named/%s' % kind, 'drift %s fails but no error names %r: %r' % (kind, field, [e['mismatched_field'] for e in errs2]), rp)
            else:
                e = named[0]
                if e['expected_required'] != exp or e['actual'] != act:
                    self.viol('drift-wrong-values/%s' % kind, 'error %r does not show expected %r / actual %r' % (e, exp, act), rp)
                if len(errs2) != 1:
                    self.viol('drift-extra-errors/%s' % kind, 'a single drift (%s) is reported with %d errors: %r' % (kind, len(errs2), [x['mismatched_field'] for x in errs2]), rp)
                if ('  * %s did not match.\n' % field) not in estr2:
                    self.viol('drift-text/%s' % kind, 'the error text does not name %r' % field, rp)
            if k in term_idx:
                self.add(eval_term(P2, p2, str(mk_banner(p2)), (ret2, errs2, estr2)), {'op': 'evaluate drift', 'kind': kind, 'peer': p2, 'impl': [ret2, errs2]})

    def one_text(self, text, why):
        res, spy = real_load(text)
        self.n += 1
        self.nontriv.add(('parse', why, res[0] if res[0] == 'ok' else res[1]))
        if not spy.supported() or not text.isascii():
            return
        lk, ld = spy.loads_tables()
        self.add('res_eqb policy_eqb (parse_text %s %s %s) %s' % (lk, ld, ctext(text), cres_policy(res)),
                 {'op': 'parse text', 'why': why, 'text': text, 'impl': res[1] if res[0] == 'raise' else dict(pol_of_object(res[1]), name=res[1]._name, version=res[1]._version, server=res[1]._server_policy)})


def builtin_inproc(ctx, ip):
    """Every built-in policy, loaded by the real load_builtin_policy, against a peer built exactly from its lists (in-process)."""
    from ssh_audit.policy import Policy
    from ssh_audit.builtin_policies import BUILTIN_POLICIES
    for name, p in BUILTIN_POLICIES.items():
        for variant in ('required', 'with-optional'):
            P = Policy.load_builtin_policy(name)
            pol = pol_of_object(P)
            peer = new_peer(banner=pol['banner'] or 'SSH-2.0-OpenSSH_9.9', banner_kind='str', compression=pol['compressions'] or ['none', 'zlib@openssh.com'],
                            kex=list(pol['kex'] or []), key=list(pol['host_keys'] or []) + (list(pol['optional_host_keys'] or []) if variant == 'with-optional' else []),
                            enc=list(pol['ciphers'] or []), mac=list(pol['macs'] or []), host_keys=dict(pol['hostkey_sizes'] or {}), dh=dict(pol['dh'] or {}))
            ret, errs, estr = P.evaluate(mk_banner(peer), mk_kex(peer))
            ip.n += 1
            ip.nontriv.add(('builtin', variant, ret))
            if not (ret is True and not errs):
                ctx.violation('builtin-self/%s' % variant, 'built-in policy %r is not passed by a peer configured exactly as it lists (%s): %r' % (name, variant, [dict(e) for e in errs]),
                              {'op': 'builtin', 'policy': name, 'variant': variant})
        # the table the Coq theorem is about is this very policy
        ip.add('policy_eqb (policy_of_raw (nth %d builtin_policies (EmptyString, (EmptyString, true, (None, None, None, None, None, None, None, None, None))))) %s' % (
            list(BUILTIN_POLICIES).index(name), cpol_full_named(Policy.load_builtin_policy(name), name)), {'op': 'builtin table', 'policy': name})


def cpol_full_named(P, name):
    """load_builtin_policy cuts the version suffix off the name; the model keeps the table's name (not read by evaluate)."""
    class Q:
        pass
    q = Q()
    q.__dict__.update(P.__dict__)
    q._name = name
    return cpol_full(q)


# ----------------------------------------------------------------------------- end to end: the real CLI over TCP
DHKEX = ['curve25519-sha256', 'curve25519-sha256@libssh.org', 'diffie-hellman-group14-sha256', 'diffie-hellman-group16-sha512', 'ecdh-sha2-nistp256',
         'diffie-hellman-group14-sha1']
OTHERKEX = ['sntrup761x25519-sha512@openssh.com', 'kex-strict-s-v00@openssh.com', 'ext-info-s', 'gss-group14-sha256-toWM5Slw5Ew8Mqkay+al2g==',
            'gss-gex-sha1-toWM5Slw5Ew8Mqkay+al2g==', 'gss-nistp256-sha256-eipGX3TCiQSrx573bT1o1Q==', 'x=y@example.com', 'mlkem768x25519-sha256']
RSA_FAMILY = ['ssh-rsa', 'rsa-sha2-256', 'rsa-sha2-512']
RSA_CERTS = ['ssh-rsa-cert-v01@openssh.com', 'rsa-sha2-256-cert-v01@openssh.com', 'rsa-sha2-512-cert-v01@openssh.com']
ED_CERT = 'ssh-ed25519-cert-v01@openssh.com'
WIRE_KEYS = RSA_FAMILY + RSA_CERTS + ['ssh-ed25519', ED_CERT, 'ecdsa-sha2-nistp256', 'sk-ssh-ed25519@openssh.com', 'unknown=key@example.com']
WIRE_ENC = ['chacha20-poly1305@openssh.com', 'aes256-gcm@openssh.com', 'aes128-gcm@openssh.com', 'aes256-ctr', 'aes192-ctr', 'aes128-ctr', 'aes128-cbc', '3des-cbc', 'enc=x@example.com']
WIRE_MAC = ['hmac-sha2-256-etm@openssh.com', 'hmac-sha2-512-etm@openssh.com', 'umac-128-etm@openssh.com', 'hmac-sha2-256', 'hmac-sha1', 'mac+x/y@example.com']
RSA_BITS = [1024, 2048, 3072, 4096]
GEX_BITS = [1024, 1536, 2048, 3072, 4096]


def gen_wire(rng, client=False):
    """A scripted peer as it is on the wire."""
    kex = rng.sample(DHKEX, rng.choice([0, 1, 1, 2, 3])) + rng.sample(OTHERKEX, rng.choice([0, 1, 2, 3])) + rng.sample(list(GEX), rng.choice([0, 0, 1, 2]))
    rng.shuffle(kex)
    if not kex:
        kex = ['curve25519-sha256']
    key = rng.sample(WIRE_KEYS, rng.choice([1, 2, 3, 4, 6]))
    w = dict(banner=rng.choice(['SSH-2.0-OpenSSH_9.6', 'SSH-2.0-OpenSSH_8.9p1 Ubuntu-3ubuntu0.6', 'SSH-2.0-dropbear_2022.83', 'SSH-2.0-libssh_0.9.6', 'SSH-2.0-OpenSSH_for_Windows_9.5']),
             kex=kex, key=key, enc=rng.sample(WIRE_ENC, rng.choice([1, 2, 4])), mac=rng.sample(WIRE_MAC, rng.choice([1, 2, 3])),
             rsa_bits=rng.choice(RSA_BITS), cert_bits=rng.choice(RSA_BITS), ca_kind=rng.choice(['rsa', 'ed25519']), ca_bits=rng.choice(RSA_BITS),
             gex_bits=rng.choice(GEX_BITS), client=client)
    # OpenSSH-style servers answer requests they have no modulus for with a built-in fallback group instead of refusing; the tool's follow-up
    # request recovers the configured size for every peer that calls itself OpenSSH (whatever follows the name in the banner)
    w['gex_style'] = 'openssh_fallback' if ('OpenSSH' in w['banner'] and w['gex_bits'] >= 3072 and rng.random() < 0.6) else 'strict'
    if 'OpenSSH' not in w['banner'] and rng.random() < 0.35:
        # an implementation with ONE group that it hands out whatever range the client names (sizes outside the probe sequence included): measured on the first request
        w['gex_style'] = 'fixed'
        w['gex_bits'] = rng.choice([1536, 3072, 6144, 7680, 8192])
    return w


def wire_spec(w):
    import peers as P
    ca = P.rsa_blob(w['ca_bits'], seed=5) if w['ca_kind'] == 'rsa' else P.ed25519_blob(seed=9)
    hk = {}
    for t in w['key']:
        if t in RSA_FAMILY:
            hk[t.encode()] = P.rsa_blob(w['rsa_bits'])
        elif t in RSA_CERTS:
            hk[t.encode()] = P.rsa_cert_blob(w['cert_bits'], ca)
        elif t == 'ssh-ed25519':
            hk[t.encode()] = P.ed25519_blob()
        elif t == ED_CERT:
            hk[t.encode()] = P.ed25519_cert_blob(ca)
        elif t == 'ecdsa-sha2-nistp256':
            hk[t.encode()] = P.ecdsa_blob()
    bits = w['gex_bits']
    from props import c12
    style = w.get('gex_style', 'strict')
    return dict(banner=w['banner'].encode(), kex=w['kex'], key=w['key'], enc=w['enc'], mac=w['mac'], hostkeys=hk,
                gex=(lambda mn, pf, mx: bits) if style == 'fixed' else (lambda mn, pf, mx: c12.py_serve(style, [bits], mn, pf, mx)))


def probing_possible(w):
    from ssh_audit.hostkeytest import HostKeyTest  # noqa: F401
    return any(k in DHKEX + list(GEX) for k in w['kex'])


def wire_perturbations(rng, w):
    """Single-attribute drifts of a wire peer -> (kind, set of field names an error may carry, perturbed wire)."""
    out = []
    FIELD = {'kex': 'Key exchanges', 'key': 'Host keys', 'enc': 'Ciphers', 'mac': 'MACs'}
    POOL = {'kex': DHKEX + OTHERKEX + list(GEX), 'key': WIRE_KEYS, 'enc': WIRE_ENC, 'mac': WIRE_MAC}
    for f in ('kex', 'key', 'enc', 'mac'):
        l = w[f]
        new = [x for x in POOL[f] if x not in l]
        if new:
            i = rng.randrange(len(l) + 1)
            out.append((f + '/add', {FIELD[f]}, dict(w, **{f: l[:i] + [rng.choice(new)] + l[i:]})))
        if len(l) > 1:
            i = rng.randrange(len(l))
            out.append((f + '/remove', {FIELD[f]}, dict(w, **{f: l[:i] + l[i + 1:]})))
            i, j = rng.sample(range(len(l)), 2)
            sw = list(l); sw[i], sw[j] = sw[j], sw[i]
            out.append((f + '/reorder', {FIELD[f]}, dict(w, **{f: sw})))
    if w['client']:
        return out          # a client audit probes no host key and no group exchange
    probe = any(k in DHKEX + list(GEX) for k in w['kex'])
    other = lambda l, v: rng.choice([x for x in l if x != v])
    if probe and any(t in RSA_FAMILY for t in w['key']):
        out.append(('hostkey-size', {'Host key (%s) sizes' % t for t in RSA_FAMILY}, dict(w, rsa_bits=other(RSA_BITS, w['rsa_bits']))))
    certs = [t for t in w['key'] if t in RSA_CERTS]
    if probe and certs:
        out.append(('hostkey-size/cert', {'Host key (%s) sizes' % t for t in certs}, dict(w, cert_bits=other(RSA_BITS, w['cert_bits']))))
    if probe and (certs or ED_CERT in w['key']):
        if w['ca_kind'] == 'rsa':
            out.append(('ca-size', {'CA signature size (ssh-rsa)'}, dict(w, ca_bits=other(RSA_BITS, w['ca_bits']))))
        out.append(('ca-type', {'CA signature type'}, dict(w, ca_kind='ed25519' if w['ca_kind'] == 'rsa' else 'rsa')))
    gex = [k for k in w['kex'] if k in GEX]
    if gex:
        # an OpenSSH-style server ignores groups below 2048 bits (it then serves its built-in groups, as a server with another unusable configuration would): only a
        # change among the usable sizes is a drift of the observable modulus there
        pool_ = [b for b in GEX_BITS if b >= 2048] if w.get('gex_style') == 'openssh_fallback' else GEX_BITS
        out.append(('gex-modulus', {'Group exchange (%s) modulus sizes' % k for k in gex}, dict(w, gex_bits=other(pool_, w['gex_bits']))))
    return out


def free_port():
    import socket
    s = socket.socket()
    s.bind(('127.0.0.1', 0))
    p = s.getsockname()[1]
    s.close()
    return p


def cli_against(z, w, opts):
    """One run of the real CLI against the wire peer `w` (a scripted server, or a scripted client for a client audit)."""
    import threading
    import peers as P
    if w['client']:
        port = free_port()
        kx = P.kexinit(w['kex'], w['key'], w['enc'], w['mac'])
        def client():
            try:
                P.scripted_client(port, w['banner'].encode(), kx)
            except OSError:
                pass        # the tool never listened: its exit status and output are judged
        th = threading.Thread(target=client, daemon=True)
        th.start()
        res = z.run(['-n', '-c', '-p', str(port), '-t', '5'] + opts, timeout=60)
        th.join(timeout=10)
        return res
    srv = P.new_ssh2_server(wire_spec(w), io_timeout=8.0, stall_limit=4.0)
    try:
        return z.run(['-n', '--skip-rate-test', '-t', '5'] + opts + ['127.0.0.1:%d' % srv.port], timeout=120)
    finally:
        srv.shutdown()


def cli_multi(z, ws, opts, tmp, tag):
    """One run of the real CLI over several scripted servers listed in a targets file (-T), one worker thread: the targets are audited in file order."""
    import peers as P
    srvs = [P.new_ssh2_server(wire_spec(w), io_timeout=8.0, stall_limit=4.0) for w in ws]
    tf = os.path.join(tmp, 'targets_%s.txt' % tag)
    try:
        with open(tf, 'w') as f:
            f.write(''.join('127.0.0.1:%d\n' % sv.port for sv in srvs))
        res = z.run(['-n', '--skip-rate-test', '-t', '5', '--threads', '1'] + opts + ['-T', tf], timeout=240)
        res['ports'] = [sv.port for sv in srvs]
        return res
    finally:
        for sv in srvs:
            sv.shutdown()


def errors_of(res, as_json):
    """(passed, [mismatched fields]) from the CLI output, or None when the output is not a policy verdict."""
    import re
    import canon
    out = canon.strip_ansi(res['out'])
    if as_json:
        try:
            js = json.loads(out)
            return js['passed'], [e['mismatched_field'] for e in js['errors']]
        except (ValueError, KeyError, TypeError):
            return None
    if 'Passed' in out and 'Failed!' not in out:
        return True, []
    if 'Failed!' in out:
        return False, re.findall(r'^  \* (.*) did not match\.$', out, re.M)
    return None


def e2e_case(z, case):
    """-M file against the peer, -P file against the same peer, -P file against perturbed peers."""
    tmp, idx, w, perts = case
    pf = os.path.join(tmp, 'policy_%d.txt' % idx)
    r = {'make': cli_against(z, w, ['-M', pf])}
    r['written'] = os.path.exists(pf)
    if r['written']:
        with open(pf, encoding='utf-8') as f:
            r['text'] = f.read()
        r['again'] = cli_against(z, w, ['-M', pf])                 # must refuse to overwrite
        with open(pf, encoding='utf-8') as f:
            r['text_after'] = f.read()
        r['self'] = cli_against(z, w, ['-P', pf] + (['-j'] if idx % 3 == 0 else []))
        r['drift'] = [cli_against(z, w2, ['-P', pf] + (['-j'] if (idx + k) % 2 == 0 else [])) for k, (_, _, w2) in enumerate(perts)]
        if perts and not w['client'] and idx % 2 == 0:
            # one run over [drifted peer, the peer itself]: the peer the policy was made from still passes with no errors
            r['multi'] = cli_multi(z, [perts[0][2], w], ['-P', pf, '-j'], tmp, str(idx))
    return r


def builtin_case(z, case):
    name, p = case[0], case[1]
    variant = case[2] if len(case) > 2 else 0
    w = dict(banner=('SSH-2.0-OpenSSH_9.9', 'SSH-2.0-OpenSSH_for_Windows_9.5')[variant], gex_style=('strict', 'openssh_fallback')[variant], kex=list(p['kex']), key=list(p['host_keys']), enc=list(p['ciphers']), mac=list(p['macs']),
             rsa_bits=4096, cert_bits=4096, ca_kind='rsa', ca_bits=4096, gex_bits=3072, client=not p['server_policy'])
    for t, d in (p['hostkey_sizes'] or {}).items():
        if t in RSA_FAMILY and t in w['key']:
            w['rsa_bits'] = d['hostkey_size']
    for _, v in (p['dh_modulus_sizes'] or {}).items():
        w['gex_bits'] = v
    return w, cli_against(z, w, ['-P', name, '-j'])


def judge_case(case, r):
    """Oracle of one end-to-end case -> (list of (key, what, replay), non-trivial items, evaluations)."""
    _, idx, w, perts = case
    v, nt, n = [], set(), 1
    rp = {'op': 'e2e', 'wire': w}
    mk = r['make']
    if mk['rc'] != 0 or not r['written'] or 'Wrote policy to' not in mk['out']:
        v.append(('e2e/make-policy-failed', '-M against a scripted peer: exit status %r, file written %r: %s' % (mk['rc'], r['written'], (mk['out'] + mk['err'])[-300:]), rp))
        return v, nt, n
    if r['text_after'] != r['text'] or 'already exists' not in r['again']['out']:
        v.append(('e2e/make-policy-overwrote', 'a second -M onto the same file changed it or did not refuse: %s' % r['again']['out'][-200:], rp))
    sv = errors_of(r['self'], idx % 3 == 0)
    n += 1
    nt.add(('self', w['client'], r['self']['rc'], bool([k for k in w['kex'] if k in GEX]), any('=' in x for x in w['kex'] + w['key'] + w['enc'] + w['mac'])))
    if sv is None or r['self']['rc'] not in (0, 3):
        v.append(('e2e/policy-load-error', '-P with the file -M wrote does not give a verdict: exit status %r: %s' % (r['self']['rc'], (r['self']['out'] + r['self']['err'])[-400:]),
                  dict(rp, policy_text=r['text'])))
        return v, nt, n
    if not (sv[0] is True and r['self']['rc'] == 0):
        v.append(('e2e/self-fails/%s' % (c06.field_class(sv[1][0]) if sv[1] else 'no-error'),
                  'the policy -M made from the peer fails on the same peer: exit status %r, errors about %r' % (r['self']['rc'], sv[1]), dict(rp, policy_text=r['text'])))
    if 'multi' in r:
        n += 1
        m = r['multi']
        rp3 = {'op': 'e2e multi-target', 'wire': w, 'first_target': perts[0][2], 'drift': perts[0][0], 'policy_text': r['text']}
        try:
            arr = {el['port']: el for el in json.loads(m['out'])}
            own = arr[m['ports'][1]]
            other = arr[m['ports'][0]]
            nt.add(('multi', own['passed'], len(own['errors']), other['passed']))
            if own['passed'] is not True or own['errors']:
                v.append(('e2e/multi-target/self-not-clean', 'audited after a drifted peer in one -P -T run, the peer the policy was made from is reported passed=%r with errors about %r' % (
                    own['passed'], [e['mismatched_field'] for e in own['errors']]), rp3))
            if other['passed'] is not False or [e['mismatched_field'] for e in other['errors'] if e['mismatched_field'] not in perts[0][1]]:
                v.append(('e2e/multi-target/drift-verdict', 'the drifted peer (%s) in a -P -T run is reported passed=%r with errors about %r' % (perts[0][0], other['passed'], [e['mismatched_field'] for e in other['errors']]), rp3))
        except (ValueError, KeyError, TypeError, IndexError) as e:
            v.append(('e2e/multi-target/no-verdicts', '-P -T -j over two targets: exit status %r, %s: %s' % (m['rc'], type(e).__name__, (m['out'] + m['err'])[-300:]), rp3))
    for k, ((kind, fields, w2), dr) in enumerate(zip(perts, r['drift'])):
        n += 1
        dv = errors_of(dr, (idx + k) % 2 == 0)
        rp2 = {'op': 'e2e drift', 'kind': kind, 'wire': w, 'perturbed': w2, 'policy_text': r['text']}
        nt.add(('drift', kind, dr['rc'], None if dv is None else len(dv[1])))
        if dv is None or dr['rc'] not in (0, 3):
            v.append(('e2e/policy-load-error', '-P against a perturbed peer gives no verdict: exit status %r: %s' % (dr['rc'], (dr['out'] + dr['err'])[-400:]), rp2))
        elif dv[0] is not False or dr['rc'] != 3:
            v.append(('e2e/drift-undetected/%s' % kind, 'peer perturbed (%s) still passes the policy -M made from the original (exit status %r)' % (kind, dr['rc']), rp2))
        elif not [f for f in dv[1] if f in fields]:
            v.append(('e2e/drift-field-not-named/%s' % kind, 'drift %s fails but no error names any of %r: %r' % (kind, sorted(fields), dv[1]), rp2))
        elif [f for f in dv[1] if f not in fields]:
            v.append(('e2e/drift-extra-errors/%s' % kind, 'a single drift (%s) is also reported as %r' % (kind, [f for f in dv[1] if f not in fields]), rp2))
    return v, nt, n


def judge_builtin(name, p, w, res):
    bv = errors_of(res, True)
    if bv is None or not (bv[0] is True and res['rc'] == 0):
        return [('e2e/builtin-self/%s' % ('server' if p['server_policy'] else 'client'),
                 '-P %r against a peer configured exactly as the policy lists: exit status %r, errors about %r: %s' % (name, res['rc'], None if bv is None else bv[1], '' if bv else (res['out'] + res['err'])[-300:]),
                 {'op': 'e2e builtin', 'policy': name, 'wire': w})]
    return []


def run_e2e(ctx, n_cases, n_pert):
    import runner
    from ssh_audit.builtin_policies import BUILTIN_POLICIES
    rng = ctx.rng
    tmp = tempfile.mkdtemp(prefix='verif_c05_')
    nontriv = set()
    n = 0
    reruns = 0
    try:
        cases = []
        for i in range(n_cases):
            w = gen_wire(rng, client=(i % 8 == 5))
            perts = wire_perturbations(rng, w)
            kinds = {}
            for pz in perts:
                kinds.setdefault(pz[0], []).append(pz)
            # size / CA / modulus drifts first (they need the probes) on odd cases, list drifts first on even ones
            pick = [rng.choice(v) for k, v in kinds.items() if k[:3] not in ('kex', 'key', 'enc', 'mac')]
            rng.shuffle(pick)
            lists = [pz for pz in perts if pz[0][:3] in ('kex', 'key', 'enc', 'mac')]
            rng.shuffle(lists)
            cases.append((tmp, i, w, (pick + lists)[:n_pert] if i % 2 else (lists + pick)[:n_pert]))
        bcases = [(k, v, 0) for k, v in BUILTIN_POLICIES.items()]
        # the same peers as an OpenSSH build whose banner does not continue with a version number, serving the configured modulus the OpenSSH way (fallback group for requests it cannot satisfy)
        bcases += [(k, v, 1) for k, v in BUILTIN_POLICIES.items() if v['server_policy'] and v['dh_modulus_sizes']]
        with runner.Pool(min(8, common.NCPU)) as pool:
            results = pool.map(e2e_case, cases)
            bresults = pool.map(builtin_case, bcases)
            for case, r in zip(cases, results):
                v, nt, k = judge_case(case, r)
                n += k
                nontriv |= nt
                if v:
                    # a loaded machine can time a probe out: a finding counts only when a second, serial run shows it again
                    reruns += 1
                    case2 = (tmp, case[1] + 1000000, case[2], case[3])
                    # same JSON/text alternation as the first run (idx parity and idx % 3 preserved by the offset being a multiple of 6)
                    case2 = (tmp, case[1] + 6000000, case[2], case[3])
                    v2, _, _ = judge_case(case2, e2e_case(pool.zs[0], case2))
                    keys2 = {x[0] for x in v2}
                    for key, what, rp in v:
                        if key in keys2:
                            ctx.violation(key, what, rp)
            for (name, p, variant), (w, res) in zip(bcases, bresults):
                n += 1
                nontriv.add(('builtin-e2e', p['server_policy'], res['rc'], variant))
                v = judge_builtin(name, p, w, res)
                if v:
                    reruns += 1
                    w2, res2 = builtin_case(pool.zs[0], (name, p, variant))
                    if judge_builtin(name, p, w2, res2):
                        ctx.violation(*v[0])
    finally:
        shutil.rmtree(tmp, ignore_errors=True)
    ctx.extra['e2e'] = {'cases': n_cases, 'cli_runs': sum(3 + len(c[3]) for c in cases) + len(bcases), 'builtin': len(bcases), 'confirmation_reruns': reruns}
    ctx.cover(n, nontriv, [{'wire': cases[0][2], 'perturbations': [pz[0] for pz in cases[0][3]]}] if cases else [],
              'end to end: `-M file` against a scripted TCP peer (servers answering host-key and group-exchange probes with RSA / Ed25519 / certificate blobs and a modulus; '
              'clients for client audits), a second -M (must refuse), `-P file` against the same peer and against single-attribute perturbations (list add / remove / reorder, RSA key size, '
              'certificate key size, CA size, CA type, modulus size); `-P "<name>"` for every built-in policy against a peer configured as it lists; non-trivial = distinct (step, kind, exit status, #errors)')


def run(ctx):
    ctx.proofs(['C05'])
    rng = ctx.rng
    q = ctx.quick
    preamble = build_preamble()
    ip = InProc(ctx)
    # ---- replay of one recorded case
    if getattr(ctx, 'replay', None):
        rp = json.load(open(ctx.replay))['replay']
        if 'wire' in rp:
            import runner
            tmp = tempfile.mkdtemp(prefix='verif_c05_')
            try:
                w = rp['wire']
                allp = wire_perturbations(rng, w)
                if 'perturbed' in rp:
                    fields = next((f for k, f, _ in allp if k == rp['kind']), set())
                    perts = [(rp['kind'], fields, rp['perturbed'])]
                else:
                    perts = allp[:6]
                with runner.Pool(1) as pool:
                    case = (tmp, 0, w, perts)
                    v, nt, n = judge_case(case, e2e_case(pool.zs[0], case))
                for key, what, r2 in v:
                    ctx.violation(key, what, r2)
                ctx.cover(n, nt, [{'wire': w}], 'replay of one recorded end-to-end case')
            finally:
                shutil.rmtree(tmp, ignore_errors=True)
        elif 'peer' in rp:
            peer = new_peer(**rp['peer'])
            peer['host_keys'] = {t: tuple(v) for t, v in peer['host_keys'].items()}
            ip.one_peer(rng, peer, rp.get('src', 'host.example'), rp.get('client', False), 'rfc' if in_domain(peer) else 'odd', None, 8, True)
            ctx.correspond('policyio', IMPORTS + ['VGen:Tables'], preamble, ip.terms, lambda i: ip.descs[i])
            ctx.cover(ip.n + len(ip.terms), ip.nontriv, ip.samples, 'replay of one recorded peer')
        elif rp.get('op') == 'builtin' or rp.get('op') == 'e2e builtin':
            builtin_inproc(ctx, ip)
            ctx.correspond('policyio', IMPORTS + ['VGen:Tables'], preamble, ip.terms, lambda i: ip.descs[i])
            ctx.cover(ip.n + len(ip.terms), ip.nontriv, [], 'replay: built-in policies in-process')
        return
    # ---- 1. generated peers in the property's domain (thorough: Coq correspondence on the first 8000, the oracle on all)
    n_rfc = 500 if q else 20000
    for i in range(n_rfc):
        peer = gen_peer(rng)
        assert in_domain(peer), peer
        src = rng.choice(['127.0.0.1', 'host.example', 'fe80::1', 'a=b', 'x "y"', 'back\\"n\\n'])
        ip.corr = q or i < 8000
        ip.one_peer(rng, peer, src, client=(i % 7 == 3), domain='rfc', n_pert=(24 if q else 40) if i % 10 else None,
                    n_eval_terms=2 if q else (3 if i % 4 == 0 else 0), exact_text=(i % 25 == 0))
    ip.corr = True
    # deterministic witnesses: every gss-* key exchange of the tool's own database, '=' at each position, the empty name-list
    from ssh_audit.ssh2_kexdb import SSH2_KexDB
    gss = [k.replace('*', 'toWM5Slw5Ew8Mqkay+al2g==') for k in SSH2_KexDB.get_db()['kex'] if k.startswith('gss-')]
    for kexl in [gss, gss[:1], ['='], ['a=', '=b', 'c=d=e'], [''], ['curve25519-sha256', gss[0]]]:
        for field in ('kex', 'key', 'enc', 'mac'):
            peer = new_peer(kex=['curve25519-sha256'], key=['ssh-ed25519'], enc=['aes128-ctr'], mac=['hmac-sha2-256'])
            peer[field] = list(kexl)
            ip.one_peer(rng, peer, 'host.example', False, 'rfc', None, 1, True)
    # ---- 2. peers outside the quantifier: the model must agree with the code on them too (no oracle)
    for i in range(150 if q else 3000):
        ip.one_peer(rng, odd_peer(rng), rng.choice(['h', 'two\nlines', ' x ']), i % 5 == 0, 'odd', 0, 0, i % 10 == 0)
    # ---- 3. hand-written policy texts: the parser alone
    for i in range(400 if q else 8000):
        ip.one_text(rand_policy_text(rng), 'random')
    for t in ['', '\n', 'name = "N"', 'version = 1', 'name = "N"\nversion = 1', 'name = "N"\nversion = 1\nkey exchanges = gss-group14-sha256-toWM5Slw5Ew8Mqkay+al2g==, a',
              'name = "N"\nversion = 1\ncakey_size_x = 5', 'name = "N"\nversion = 1\nhostkey_size_x = 5\ncakey_size_ssh-rsa-cert-v01@openssh.com = 7\ncakey_size_y = 8',
              'name = "N"\nversion = 1\nhost_key_sizes = {"a": {"hostkey_size": 1}}\nhostkey_size_b = 2\nhostkey_size_a = 3',
              'name = "N"\nversion = 1\ndh_modulus_size_a = 1\ndh_modulus_sizes = {"b": 2}\ndh_modulus_size_c = 3\ndh_modulus_size_b = 4']:
        ip.one_text(t, 'witness')
    # ---- 4. built-in policies in-process
    builtin_inproc(ctx, ip)
    # ---- 5. end to end
    run_e2e(ctx, 40 if q else 1000, 2 if q else 3)
    ctx.extra['op_histogram'] = ip.hist
    ctx.correspond('policyio', IMPORTS + ['VGen:Tables'], preamble, ip.terms, lambda i: ip.descs[i])
    ctx.cover(ip.n + len(ip.terms), ip.nontriv, ip.samples,
              'in-process: generated peers over RFC 4251 names (real names, every gss-* name, random printable names with = + / @ # quotes), size maps with / without / half-empty CA, '
              'server and client policies; per peer create -> load -> evaluate on itself and on single-attribute perturbations (add / duplicate / remove at every position, swaps, rotations, '
              'host-key / CA size, CA type, modulus size); peers outside the quantifier and hand-written / mutated policy texts for the parser (correspondence only); '
              'non-trivial = distinct (domain, client, maps present, list lengths, = present, load outcome) | (drift kind, verdict, #errors) | (parse outcome)')
