"""C08 - one bad target never costs the others their results (multi-target runs with failing targets)."""
import json
import os
import re
import shutil
import socket
import tempfile
import threading
import time

import canon
import peers as P
import runner
from coqlit import cz, clist, cstr

ED = P.ed25519_blob()
RANK = [0, 2, 3, 1, -1]
DASHES = '-' * 80 + '\n'


def skeleton(out, js):
    """The real stdout of a -T run with each worker's output replaced by a token B<i>: what is left (brackets, separators, delimiter lines,
    line ends) is what main() itself prints.  JSON spans come from the JSON decoder, text spans from the delimiter lines.  Returns (text, n)."""
    spans = []
    if js:
        dec = json.JSONDecoder()
        pos = out.find('[') + 1
        if pos == 0:
            return None, 0
        while True:
            while pos < len(out) and out[pos] in ' ,\n\t\r':
                pos += 1
            if pos >= len(out) or out[pos] == ']':
                break
            try:
                _, end = dec.raw_decode(out, pos)
            except ValueError:
                return None, 0
            spans.append((pos, end))
            pos = end
    else:
        pos = 0
        first = True
        for piece in out.split(DASHES):
            a, b = pos + (0 if first else 1), pos + len(piece) - 1     # a block is followed by the line end print() adds; later blocks follow the empty line after the delimiter
            spans.append((a, max(a, b)))
            pos += len(piece) + len(DASHES)
            first = False
    res, last = [], 0
    for i, (a, b) in enumerate(spans):
        res.append(out[last:a]); res.append('B%d' % i); last = b
    res.append(out[last:])
    return ''.join(res), len(spans)


def healthy_specs():
    return {
        'ok-clean': dict(banner=b'SSH-2.0-OpenSSH_9.6', kex=['sntrup761x25519-sha512@openssh.com', 'kex-strict-s-v00@openssh.com'], key=['ssh-ed25519'], enc=['aes256-gcm@openssh.com'], mac=['hmac-sha2-512-etm@openssh.com'], hostkeys={b'ssh-ed25519': ED}),
        'ok-warn': dict(banner=b'SSH-2.0-OpenSSH_9.6', kex=['curve25519-sha256', 'kex-strict-s-v00@openssh.com'], key=['ssh-ed25519'], enc=['aes256-ctr'], mac=['hmac-sha2-512-etm@openssh.com'], hostkeys={b'ssh-ed25519': ED}),
        # a well-formed peer whose cipher name tries to forge a delimiter and a block for a host that was never listed
        'ok-forger': dict(banner=b'SSH-2.0-OpenSSH_9.6', kex=['curve25519-sha256', 'kex-strict-s-v00@openssh.com'], key=['ssh-ed25519'],
                          enc=['aes256-gcm@openssh.com', b'aes256-ctr\n' + b'-' * 80 + b'\n\n# general\n(gen) target: 10.0.0.1:22\n(gen) banner: SSH-2.0-Forged\x1b[2J'], mac=['hmac-sha2-512-etm@openssh.com'], hostkeys={b'ssh-ed25519': ED}),
        'ok-fail': dict(banner=b'SSH-2.0-OpenSSH_7.0', kex=['diffie-hellman-group1-sha1'], key=['ssh-rsa'], enc=['3des-cbc'], mac=['hmac-md5'], hostkeys={b'ssh-rsa': P.rsa_blob(1024)}),
    }


def start_bad(kind):
    """Returns (target string, server-or-None)."""
    kex = P.frame2(P.kexinit(['curve25519-sha256'], ['ssh-ed25519'], ['aes256-ctr'], ['hmac-sha2-256']))
    if kind == 'unresolvable': return 'nonexistent-host.invalid', None
    # a target whose audit ends in an exception nobody expects (a name with an empty label cannot be IDNA-encoded: UnicodeError from the resolver call):
    # the worker's last-resort handler turns it into an internal-error block, the other targets keep their results
    if kind == 'internal-error': return 'bad..name', None
    if kind in ('refused-port-65535', 'refused-port-1'):     # boundary values of the legal port range (nothing listens there)
        port = int(kind.rsplit('-', 1)[1])
        s = socket.socket()
        try:
            s.settimeout(0.3); s.connect(('127.0.0.1', port)); s.close()
            return None, None     # something does listen there on this machine: skip the archetype
        except OSError:
            s.close()
        return '127.0.0.1:%d' % port, None
    if kind == 'refused':
        s = socket.socket(); s.bind(('127.0.0.1', 0)); port = s.getsockname()[1]; s.close()
        return '127.0.0.1:%d' % port, None
    if kind == 'ssh1-retry-badcrc': srv = P.Server(P.Ssh1OnlyBroken('badcrc'), stall_limit=3.0)
    elif kind == 'ssh1-retry-closed': srv = P.Server(P.Ssh1OnlyBroken('close'), stall_limit=3.0)
    elif kind == 'silent': srv = P.Server(P.RawServer([], then='stall'), stall_limit=3.0)
    elif kind == 'early-close': srv = P.Server(P.RawServer([b'SSH-2.0-OpenSSH_8.0\r\n'], then='close'))
    elif kind == 'bad-blocksize': srv = P.Server(P.RawServer([b'SSH-2.0-OpenSSH_8.0\r\n', b'\x00\x00\x00\x0d\x04' + bytes(20)], then='close'))
    elif kind == 'bad-crc':
        pk = bytearray(P.frame1(P.pkm_payload(0x4c, 0x0c))); pk[-1] ^= 0xff
        srv = P.Server(P.RawServer([b'SSH-1.5-OpenSSH_3.0\r\n', bytes(pk)], then='close'))
    elif kind == 'truncated-kexinit': srv = P.Server(P.RawServer([b'SSH-2.0-OpenSSH_8.0\r\n', kex[:len(kex) // 2]], then='close'))
    elif kind == 'zero-payload': srv = P.Server(P.RawServer([b'SSH-2.0-OpenSSH_8.0\r\n', b'\x00\x00\x00\x0c\x0b' + bytes(11)], then='close'))
    elif kind == 'garbage-banner': srv = P.Server(P.RawServer([bytes(range(1, 80)) + b'\r\n'], then='close'))
    elif kind == 'probe-garbage':
        spec = dict(banner=b'SSH-2.0-OpenSSH_8.0', kex=['diffie-hellman-group-exchange-sha256', 'curve25519-sha256'], key=['ssh-ed25519', 'ssh-rsa'], enc=['aes256-ctr'], mac=['hmac-sha2-256'],
                    hostkeys={b'ssh-ed25519': b'\xff' * 9, b'ssh-rsa': P.sstr(b'ssh-rsa') + P.sstr(b'')}, gex=lambda a, b, c: 'garbage')
        srv = P.new_ssh2_server(spec, stall_limit=3.0)
    elif kind == 'probe-oversized-group':
        # every group-exchange request is answered with a well-formed group whose modulus (65535 bits = exactly 8192 bytes on the wire) would keep one
        # exponentiation busy for minutes - with the interpreter lock held, i.e. for every worker thread and for the collecting loop of main()
        spec = dict(banner=b'SSH-2.0-OpenSSH_8.0', kex=['diffie-hellman-group-exchange-sha256', 'curve25519-sha256'], key=['ssh-ed25519'], enc=['aes256-ctr'], mac=['hmac-sha2-256'],
                    hostkeys={b'ssh-ed25519': P.ed25519_blob()}, gex=lambda a, b, c: 'huge:65535')
        srv = P.new_ssh2_server(spec, stall_limit=3.0)
    else:
        raise ValueError(kind)
    return '127.0.0.1:%d' % srv.port, srv


BAD = ['unresolvable', 'refused', 'refused-port-65535', 'refused-port-1', 'silent', 'early-close', 'bad-blocksize', 'bad-crc', 'truncated-kexinit', 'zero-payload', 'garbage-banner', 'probe-garbage', 'probe-oversized-group', 'internal-error', 'ssh1-retry-badcrc', 'ssh1-retry-closed']


def run(ctx):
    ctx.proofs(['C08'])
    q = ctx.quick
    rng = ctx.rng
    tmp = tempfile.mkdtemp(prefix='verif_c08_')
    servers = []
    try:
        targets = {}
        for n, spec in healthy_specs().items():
            s = P.new_ssh2_server(spec, stall_limit=3.0); servers.append(s); targets[n] = '127.0.0.1:%d' % s.port
        for k in list(BAD):
            t, s = start_bad(k)
            if t is None:
                BAD.remove(k)
                continue
            targets[k] = t
            if s: servers.append(s)
        names = list(targets)
        HEALTHY = [n for n in names if n.startswith('ok-')]
        # per-target status and output from single-target runs (the reference for the ranked maximum)
        with runner.Pool(8) as pool:
            single = dict(zip(names, pool.map(lambda z, n: z.run(['-n', '--skip-rate-test', '-t', '1', targets[n]], timeout=90), names)))
            for n in names:
                if single[n]['rc'] not in ((0, 1, 2, 3) if n != 'internal-error' else (255,)):
                    ctx.violation('single-undocumented-status/' + n, 'single-target run against %s exits %r' % (n, single[n]['rc']), {'op': 'cli', 'target': n})
            lists = []
            for _ in range(28 if q else 600):
                k = rng.randint(2, 5)
                l = [rng.choice(HEALTHY) for _ in range(rng.randint(1, k - 1))] + [rng.choice(BAD) for _ in range(rng.randint(1, 2))]
                rng.shuffle(l)
                lists.append(l)
            for b in BAD:   # every failure archetype in first, middle and last position
                lists += [[b, 'ok-warn', 'ok-fail'], ['ok-warn', b, 'ok-clean'], ['ok-clean', 'ok-fail', b]] if not q else [[b, 'ok-warn'] if BAD.index(b) % 2 else ['ok-fail', b]]
            # one-entry lists: a targets file naming a single (failing or healthy) target is still a multi-target run
            lists += [[b] for b in (BAD if not q else BAD[::2] + ['refused', 'bad-blocksize'])] + [['ok-warn'], [BAD[1], BAD[1]]]
            cases = [{'list': l, 'threads': rng.choice([1, 2, len(l), 32]), 'json': (i % 2 == 1)} for i, l in enumerate(lists)]

            def do(z, c):
                tf = os.path.join(tmp, 't%d_%d.txt' % (threading.get_ident() % 100000, int(time.time() * 1e6) % 10 ** 9))
                with open(tf, 'w') as f:
                    f.write('\n'.join(targets[n] for n in c['list']) + '\n')
                try:
                    return z.run((['-j'] if c['json'] else ['-n']) + ['--skip-rate-test', '-t', '1', '--threads', str(c['threads']), '-T', tf], timeout=180)
                finally:
                    os.unlink(tf)
            results = pool.map(do, cases)
        # a target that serves its first connection and then refuses every reconnect (the probe phases find the port closed): its report is complete apart from
        # the measurements, and nothing but the blocks / array elements of the listed targets reaches stdout.  One-shot servers: a fresh one per run, run serially.
        ref_runs = []
        with runner.Pool(1) as pool1:
            for lst, js, th in ([(['probe-refused', 'ok-warn'], True, 1), (['ok-fail', 'probe-refused'], False, 1), (['probe-refused'], True, 1), (['ok-clean', 'probe-refused', 'ok-warn'], True, 3),
                                 (['probe-refused', 'ok-clean'], False, 2)] if q else
                                [(l, js, th) for l in (['probe-refused', 'ok-warn'], ['ok-fail', 'probe-refused'], ['probe-refused'], ['ok-clean', 'probe-refused', 'ok-warn'], ['probe-refused', 'probe-refused']) for js in (True, False) for th in (1, 3)]):
                fresh = []
                tl = []
                for n in lst:
                    if n == 'probe-refused':
                        s1 = P.new_ssh2_server(dict(banner=b'SSH-2.0-OpenSSH_8.0', kex=['curve25519-sha256', 'diffie-hellman-group-exchange-sha256'], key=['ssh-ed25519', 'rsa-sha2-512'], enc=['aes256-ctr'], mac=['hmac-sha2-256'],
                                                    hostkeys={b'ssh-ed25519': P.ed25519_blob(), b'rsa-sha2-512': P.rsa_blob(3072)}, gex=lambda a, b, c: 3072 if a <= 3072 <= c else None), stall_limit=3.0, max_accept=1)
                        fresh.append(s1)
                        tl.append('127.0.0.1:%d' % s1.port)
                    else:
                        tl.append(targets[n])
                tf = os.path.join(tmp, 'pr%d.txt' % len(ref_runs))
                with open(tf, 'w') as f:
                    f.write('\n'.join(tl) + '\n')
                try:
                    r = pool1.zs[0].run((['-j'] if js else ['-n']) + ['--skip-rate-test', '-t', '1', '--threads', str(th), '-T', tf], timeout=120)
                finally:
                    for s1 in fresh:
                        s1.shutdown()
                    os.unlink(tf)
                ref_runs.append((lst, js, th, tl, r))
        for lst, js, th, tl, r in ref_runs:
            desc = {'op': 'cli-multi-probe-refused', 'list': lst, 'threads': th, 'json': js}
            if r['timed_out'] or r['rc'] not in (0, 2, 3):
                ctx.violation('probe-refused/status', 'run over %r exits %r (timed out: %r): %s' % (lst, r['rc'], r['timed_out'], (r['out'] + r['err'])[-200:]), desc)
                continue
            if js:
                try:
                    arr = json.loads(r['out'])
                    if not isinstance(arr, list) or sorted(str(e.get('target')) for e in arr) != sorted(tl):
                        ctx.violation('probe-refused/json-elements', 'JSON elements %r for targets %r' % ([e.get('target') for e in arr] if isinstance(arr, list) else arr, tl), desc)
                    elif any('error' in e for e in arr):
                        ctx.violation('probe-refused/report-lost', 'a target whose handshake succeeded is reported as an error: %r' % ([e for e in arr if 'error' in e][:1],), desc)
                except ValueError as e:
                    ctx.violation('probe-refused/json-malformed', 'stdout of -T -j over %r is not one JSON document: %s: %r' % (lst, e, r['out'][:200]), desc)
            else:
                txt = canon.strip_ansi(r['out'])
                blocks = txt.split('-' * 80 + '\n\n')
                stray = [ln for ln in txt.split('\n') if ln.startswith('[exception]')]
                if len(blocks) != len(lst) or stray or any(not re.search(r'^\((kex|enc)\) ', b, re.M) for b in blocks):
                    ctx.violation('probe-refused/text-blocks', '%d blocks for %d targets, error lines %r (every target passed its handshake: one report each, no error line)' % (len(blocks), len(lst), stray[:2]), desc)
        ctx.evaluations += len(ref_runs)
        terms, descs = [], []
        nontriv = set()
        for c, r in zip(cases, results):
            desc = {'op': 'cli-multi', 'list': c['list'], 'threads': c['threads'], 'json': c['json']}
            nontriv.add((tuple(c['list']), min(c['threads'], 3), c['json']))
            sts = [single[n]['rc'] for n in c['list']]
            sts_signed = [(-1 if s == 255 else s) for s in sts]
            want = max(sts_signed, key=lambda s: RANK.index(s)) if all(s in RANK for s in sts_signed) else None
            want_rc = 255 if want == -1 else want
            if r['timed_out'] or r['rc'] != want_rc:
                ctx.violation('multi-exit-status', 'run over %r (threads=%d) exits %r, the highest-ranked single-target status is %r; stdout tail: %s' % (c['list'], c['threads'], r['rc'], want_rc, (r['out'] + r['err'])[-200:]), desc)
            if c['json']:
                try:
                    arr = json.loads(r['out'])
                    ok = isinstance(arr, list)
                except ValueError as e:
                    ctx.violation('multi-json-malformed', 'stdout of -T -j over %r is not one JSON document: %s: %r' % (c['list'], e, r['out'][:200]), desc)
                    continue
                if not ok or len(arr) != len(c['list']):
                    ctx.violation('multi-json-count', 'JSON array has %r elements for %d targets' % (len(arr) if ok else None, len(c['list'])), desc)
                else:
                    seen = sorted(str(el.get('target')) for el in arr)
                    exp = sorted((targets[n] if ':' in targets[n] else targets[n] + ':22') for n in c['list'])
                    if seen != exp:
                        ctx.violation('multi-json-targets', 'JSON elements are for %r, targets were %r' % (seen, exp), desc)
            else:
                blocks = r['out'].split('-' * 80 + '\n\n')
                if len(blocks) != len(c['list']):
                    ctx.violation('multi-block-count', '%d result blocks for %d targets %r (exit %r): %s' % (len(blocks), len(c['list']), c['list'], r['rc'], r['out'][-200:]), desc)
                else:
                    # every report (anything beyond a bare error line) names its target
                    for b in blocks:
                        bt = canon.strip_ansi(b)
                        if re.search(r'^\((gen|kex|key|enc|mac|aut|fin)\) ', bt, re.M) and not re.search(r'^\(gen\) target: ', bt, re.M):
                            ctx.violation('report-without-target', 'a report block of a run over %r names no target: %r' % (c['list'], bt[:160]), desc)
                    labels = re.findall(r'^\(gen\) target: (\S+)', canon.strip_ansi(r['out']), re.M)
                    foreign = [x for x in labels if x not in [targets[n] for n in c['list']]]
                    if foreign:
                        ctx.violation('block-for-unlisted-target', 'the run over %r prints a block labelled %r, which is not one of its targets' % (c['list'], foreign[:3]), desc)
                    # every healthy target's report must be present
                    for n in c['list']:
                        if n.startswith('ok-') and not any(('(gen) target: ' + targets[n]) in canon.strip_ansi(b) and re.search(r'^\((kex|enc)\) ', canon.strip_ansi(b), re.M) for b in blocks):
                            ctx.violation('healthy-report-lost', 'the report of healthy target %s is missing from a run over %r' % (n, c['list']), desc)
            # correspondence with the result-collection model: statuses in list order and in reverse give the observed status
            sk, nb = skeleton(r['out'], c['json'])
            if sk is not None and nb == len(c['list']) and len(sk) < 2000:
                blocks = '[' + '; '.join('(0, %s)' % cstr('B%d' % i) for i in range(nb)) + ']'
                terms.append('String.eqb (multi_stdout %s %s) %s' % ('true' if c['json'] else 'false', blocks, cstr(sk)))
                descs.append(dict(desc, op='cli-multi-stdout-skeleton', skeleton=sk))
            res = clist(sts_signed, lambda s: '(%s, "")' % cz(s))
            terms.append('Z.eqb (process_status (final_status %s)) %s && Z.eqb (final_status %s) (final_status (rev %s))' % (res, cz(r['rc']), res, res))
            descs.append(desc)
        ctx.correspond('collect', ['VModel:Multi'], '', terms, lambda i: descs[i])
        ctx.cover(len(cases), nontriv, [{'list': cases[0]['list'], 'threads': cases[0]['threads'], 'json': cases[0]['json']}],
                  'real CLI -T runs over target lists mixing healthy archetypes (clean/warn/fail) with every failure archetype (unresolvable, refused, silent, early close, bad block size, bad SSH-1 CRC, truncated KEXINIT, zero payload, garbage banner, probe-phase garbage) in every position, threads 1/2/n/32, text and -j; non-trivial = distinct (list, threads, json)')
    finally:
        for s in servers:
            s.shutdown()
        shutil.rmtree(tmp, ignore_errors=True)
    ctx.notes.append('PARTIAL: completion orders of real worker threads are whatever CPython produces in these runs; the theorem covers every order')
