"""C18 - the tool connects to, and reports on, exactly the target that was named.

Implementation side: harness/c18_launcher.py runs the real command line (forked children, synthetic resolver,
in-memory sockets) and the pure functions are imported from /repo/src.  Model side: coq/model/Target.v evaluated by
coqc (vm_compute) on the same inputs.  Oracle: written from the property text (the generator knows which host and port
each spelling names), independent of the model.
"""
import io
import ipaddress
import json
import os
import re
import shutil
import socket
import subprocess
import tempfile
import concurrent.futures
import contextlib

import common
from coqlit import cstr, cz, cbool, clist, copt

IMPORTS = ['VModel:Target']
LAUNCHER = os.path.join(common.VERIF, 'harness', 'c18_launcher.py')
AF4, AF6 = 2, 10
BASE = ['--skip-rate-test', '-n', '-t', '1']
POLICY_TEXT = 'name = "c18"\nversion = 1\n'

VALID_PORTS = [1, 2, 21, 22, 23, 80, 443, 1023, 1024, 2222, 8022, 32767, 32768, 65534, 65535]
BAD_PORTS = [0, 65536, 65537, 65558, 70000, 99999, 100000, 2 ** 32 + 22]
NAMES = ['a', 'localhost', 'example.com', 'h-1.example.org', 'xn--bcher-kva.example', 'ex_ample', 'UPPER.Example', 'münchen.example',
         'a.b.c.d.e', '1.2.3', '256.1.1.1', 'host.', '0', 'dead.beef', 'fe80']
V6_FIXED = ['::1', '::', '2001:db8::1', '2001:0db8:0000:0000:0000:0000:0000:0001', '2001:db8:0:0:0:0:0:1', '1:2:3:4:5:6:7:8', '1::8',
            '1:2:3:4:5:6:7::', '::2:3:4:5:6:7:8', 'FE80::ABCD', '::ffff:1.2.3.4', '64:ff9b::192.0.2.33', '2001:4860:4860::8888',
            'fe80::1%eth0', '1:2:3:4:5:6:1.2.3.4', '::1:22', '0:0:0:0:0:0:0:0']
FLAG_SPELLINGS = [([], []), (['-4'], [4]), (['-6'], [6]), (['-46'], [4, 6]), (['-64'], [6, 4]), (['-4', '-6'], [4, 6]), (['-6', '-4'], [6, 4]),
                  (['--ipv6', '--ipv4'], [6, 4]), (['--ipv4', '--ipv6'], [4, 6]), (['-4', '-4'], [4]), (['-66'], [6])]


# ---------------------------------------------------------------- Coq literals
def centry(e):
    return '{| e_fam := %s; e_type := %s; e_ip := %s |}' % (cz(e[0]), cz(e[1]), cstr(e[2]))


def cresolver(table):
    return clist(sorted(table.items()), lambda kv: '(%s, %s)' % (cstr(kv[0]), clist(kv[1], centry)))


def cgai(g):
    return '(%s, %s, %s)' % (cstr(g[0]), cz(g[1]), cz(g[2]))


def cconn(c):
    return '(%s, %s, %s)' % (cz(c[0]), cstr(c[1]), cz(c[2]))


# ---------------------------------------------------------------- generators
def gen_name(rng):
    if rng.random() < 0.5:
        return rng.choice(NAMES)
    labels = []
    for _ in range(rng.choice([1, 2, 2, 3])):
        labels.append(''.join(rng.choice('abcdefxyz0123456789-_') for _ in range(rng.choice([1, 2, 5, 9]))))
    h = '.'.join(labels)
    return h if not h.startswith('-') else 'x' + h


def gen_v4(rng):
    return '.'.join(str(rng.choice([0, 1, 9, 10, 99, 100, 127, 192, 200, 255, rng.randrange(256)])) for _ in range(4))


def gen_v6(rng):
    """A valid IPv6 literal in one of many spellings (full, compressed at any zero run, upper case, v4 suffix, zone)."""
    if rng.random() < 0.3:
        return rng.choice(V6_FIXED)
    hx = [rng.choice([0, 0, 0, 1, 0xdb8, 0xffff, 0x22, rng.getrandbits(16)]) for _ in range(8)]
    style = rng.choice(['exploded', 'plain', 'canon', 'anyrun', 'anyrun', 'upper', 'v4', 'zone'])
    n = int.from_bytes(b''.join(h.to_bytes(2, 'big') for h in hx), 'big')
    if style == 'exploded':
        return ipaddress.IPv6Address(n).exploded
    if style == 'plain':
        return ':'.join('%x' % h for h in hx)
    if style == 'canon':
        return ipaddress.IPv6Address(n).compressed
    if style == 'upper':
        return ipaddress.IPv6Address(n).compressed.upper()
    if style == 'zone':
        return ipaddress.IPv6Address(n).compressed + '%' + rng.choice(['eth0', '1', 'en-0'])
    if style == 'v4':
        head = [':'.join('%x' % h for h in hx[:6]), '::ffff', '::', '64:ff9b::'][rng.randrange(4)]
        return head + (':' if not head.endswith(':') else '') + gen_v4(rng)
    # compress an arbitrary run of zero hextets (not necessarily the longest); zero-pad some hextets
    runs = [(i, j) for i in range(8) for j in range(i + 1, 9) if all(h == 0 for h in hx[i:j])]
    fmt = lambda h: ('%04x' if rng.random() < 0.3 else '%x') % h  # noqa: E731
    if not runs:
        return ':'.join(fmt(h) for h in hx)
    i, j = rng.choice(runs)
    return ':'.join(fmt(h) for h in hx[:i]) + '::' + ':'.join(fmt(h) for h in hx[j:])


def spell_port(rng, p):
    s = str(p)
    if p >= 0 and rng.random() < 0.1:
        s = '0' * rng.choice([1, 3]) + s
    return s


def gen_form(rng, port_pool):
    """(kind, host, explicit port or None, spelling)"""
    kind = rng.choice(['host', 'host', 'host:port', 'host:port', 'v6', '[v6]', '[v6]:port', '[v6]:port'])
    if kind in ('host', 'host:port'):
        h = gen_v4(rng) if rng.random() < 0.3 else gen_name(rng)
    else:
        h = gen_v6(rng)
        if kind != 'v6':
            h = h.split('%')[0] if rng.random() < 0.7 else h
    p = rng.choice(port_pool) if kind.endswith(':port') else None
    if kind == 'host': s = h
    elif kind == 'host:port': s = h + ':' + spell_port(rng, p)
    elif kind == 'v6': s = h
    elif kind == '[v6]': s = '[' + h + ']'
    else: s = '[' + h + ']:' + spell_port(rng, p)
    return (kind, h, p, s)


class Addr:
    n = 0

    @classmethod
    def v4(cls):
        cls.n += 1
        return '10.%d.%d.%d' % (cls.n >> 16 & 255, cls.n >> 8 & 255, cls.n & 255)

    @classmethod
    def v6(cls):
        cls.n += 1
        return 'fd00::%x' % cls.n


def host_kind(h):
    try:
        ipaddress.IPv4Address(h)
        return 'v4'
    except ValueError:
        pass
    try:
        ipaddress.IPv6Address(h)
        return 'v6'
    except ValueError:
        return 'name'


def gen_table(rng, hosts):
    table = {}
    for h in hosts:
        k = host_kind(h)
        if k == 'v4':
            table[h] = [[AF4, 1, h]]
        elif k == 'v6':
            table[h] = [[AF6, 1, h.split('%')[0]]]
        else:
            mode = rng.choice(['dual', 'dual', 'dual', 'v4', 'v6', 'none', 'dgram'])
            es = []
            if mode in ('dual', 'v4', 'dgram'):
                es += [[AF4, 1, Addr.v4()] for _ in range(rng.choice([1, 1, 2]))]
            if mode in ('dual', 'v6', 'dgram'):
                es += [[AF6, 1, Addr.v6()] for _ in range(rng.choice([1, 1, 2]))]
            rng.shuffle(es)
            if mode == 'dgram':
                es.insert(rng.randrange(len(es) + 1), rng.choice([[AF4, 2, Addr.v4()], [AF6, 2, Addr.v6()]]))
            table[h] = es
    return table


# ---------------------------------------------------------------- scenarios for the launcher
def gen_cli_scenario(rng, mode):
    bad = rng.random() < 0.15
    kind, h, p, s = gen_form(rng, BAD_PORTS if bad and rng.random() < 0.6 else VALID_PORTS)
    oport = None
    if rng.random() < 0.45:
        oport = rng.choice(BAD_PORTS + [-1, -22]) if bad and (p is None or p in VALID_PORTS) and rng.random() < 0.8 else rng.choice(VALID_PORTS)
    fl_argv, fl = rng.choice(FLAG_SPELLINGS)
    argv = list(BASE) + list(fl_argv)
    popt = [] if oport is None else (['--port=%d' % oport] if oport < 0 or rng.random() < 0.3 else ['-p', str(oport)])
    argv = argv + popt + [s] if rng.random() < 0.6 else argv + [s] + popt
    sc = {'where': 'cli', 'mode': mode, 'targets': [{'kind': kind, 'host': h, 'port': p, 'spell': s}], 'oport': oport, 'flags': fl, 'flag_argv': fl_argv,
          'arg': s, 'table': gen_table(rng, [h])}
    if mode == 'peer':
        sc['out'] = rng.choice(['json', 'policy-text', 'policy-json'])
        argv += {'json': ['-j'], 'policy-text': ['-P', '@POLICY@'], 'policy-json': ['-P', '@POLICY@', '-j']}[sc['out']]
    sc['argv'] = argv
    return sc


def gen_file_scenario(rng, mode, allow_odd=True):
    """A targets file: documented spellings with padding, blank lines, optionally the odd lines the statement mentions."""
    n = rng.choice([1, 1, 2, 3, 4])
    bad = rng.random() < 0.12
    lines, targets, used = [], [], set()
    odd = None
    if allow_odd and rng.random() < 0.22:
        odd = rng.choice(['ws-line', 'ws-line', 'only-blank'])
    for i in range(n):
        while True:
            kind, h, p, s = gen_form(rng, BAD_PORTS if bad and i == n - 1 and rng.random() < 0.8 else VALID_PORTS)
            if h.split('%')[0].lower() not in used:
                break
        used.add(h.split('%')[0].lower())
        pad1 = rng.choice(['', '', '', ' ', '\t', '  \t'])
        pad2 = rng.choice(['', '', '', ' ', '\t ', '   '])
        for _ in range(rng.choice([0, 0, 0, 1, 2])):
            lines.append('')
        lines.append(pad1 + s + pad2)
        targets.append({'kind': kind, 'host': h, 'port': p, 'spell': s, 'padded': bool(pad1 or pad2)})
    if odd == 'only-blank':
        lines, targets = [''] * rng.choice([0, 1, 3]), []
    elif odd == 'ws-line':
        lines.insert(rng.randrange(len(lines) + 1), rng.choice([' ', '\t', '   ', ' \t ']))
    eol = rng.choice(['\n', '\n', '\n', '\r\n'])
    content = eol.join(lines) + (eol if rng.random() < 0.8 or not lines else '')
    if odd == 'only-blank' and not content and rng.random() < 0.5:
        content = '\n'
    oport = None
    if rng.random() < 0.45:
        oport = rng.choice(BAD_PORTS) if bad and rng.random() < 0.3 else rng.choice(VALID_PORTS)
    fl_argv, fl = rng.choice(FLAG_SPELLINGS)
    argv = list(BASE) + list(fl_argv) + ['-T', '@FILE@', '--threads', '1'] + ([] if oport is None else ['-p', str(oport)])
    sc = {'where': 'file', 'mode': mode, 'targets': targets, 'oport': oport, 'flags': fl, 'flag_argv': fl_argv, 'content': content, 'odd': odd,
          'table': gen_table(rng, [t['host'] for t in targets])}
    if mode == 'peer':
        sc['out'] = rng.choice(['text', 'text', 'json', 'policy-text', 'policy-json'])
        argv += {'text': [], 'json': ['-j'], 'policy-text': ['-P', '@POLICY@'], 'policy-json': ['-P', '@POLICY@', '-j']}[sc['out']]
        if sc['out'] == 'text':
            # the label is part of every text report of a -T run, whatever the presentation options (it is printed regardless of the minimum level)
            argv += rng.choice([[], [], ['-l', 'warn'], ['-l', 'fail'], ['-b'], ['-b', '-l', 'warn']])
    sc['argv'] = argv
    return sc


def run_launcher(cases, tmpdir):
    """cases: scenario dicts (argv with @FILE@/@POLICY@ placeholders).  Returns the launcher results in order."""
    pol = os.path.join(tmpdir, 'policy.txt')
    with open(pol, 'w') as f:
        f.write(POLICY_TEXT)
    jobs = []
    for i, sc in enumerate(cases):
        argv = list(sc['argv'])
        if 'content' in sc:
            path = os.path.join(tmpdir, 't%d.txt' % i)
            with open(path, 'wb') as f:
                f.write(sc['content'].encode('utf-8'))
            argv = [path if a == '@FILE@' else a for a in argv]
        argv = [pol if a == '@POLICY@' else a for a in argv]
        jobs.append({'argv': argv, 'resolver': sc['table'], 'mode': sc['mode']})
    nproc = max(1, min(common.NCPU, 12, len(jobs) // 40 + 1))
    size = (len(jobs) + nproc - 1) // nproc
    chunks = [jobs[i:i + size] for i in range(0, len(jobs), size)]

    def one(chunk):
        p = subprocess.run([common.PY, LAUNCHER], input=json.dumps(chunk), capture_output=True, text=True, env=common.BASE_ENV, timeout=1800)
        if p.returncode != 0:
            raise common.CheckError('launcher failed: ' + p.stderr[-800:])
        return json.loads(p.stdout)
    res = []
    with concurrent.futures.ThreadPoolExecutor(max_workers=nproc) as ex:
        for r in ex.map(one, chunks):
            res.extend(r)
    return res


# ---------------------------------------------------------------- observation of one run
MSG_RE = r'\[exception\] (?:cannot connect to .*? port \d+: \[Errno -?\d+\] (?:Name or service not known|Connection refused)|host .*? has no DNS records)'


def observe(sc, r):
    """Canonical view of a launcher result."""
    st, out = r['status'], r['out']
    if not isinstance(st, int):
        raise common.CheckError('launcher: unexpected status %r for %r: %s' % (st, sc['argv'], r['err'][-400:]))
    tb = 'Traceback (most recent call last)' in out or 'Traceback (most recent call last)' in r['err']
    if tb:
        kind = 1
    elif st in (-1, 2) and not r['gai'] and not r['conn'] and '[exception]' not in out:
        kind = 0
    else:
        kind = 2
    labels = []
    okind = sc.get('out')
    if okind == 'text':
        labels = [ln[len('(gen) target: '):] for ln in out.split('\n') if ln.startswith('(gen) target: ')]
    elif okind == 'json':
        labels = [json.loads('"%s"' % m) for m in re.findall(r'"target": "((?:[^"\\]|\\.)*)"', out)]
    elif okind == 'policy-text':
        labels = [ln[len('Host:   '):] for ln in out.split('\n') if ln.startswith('Host:   ')]
    elif okind == 'policy-json':
        for m in re.finditer(r'\{"errors".*?"warnings": \[[^\]]*\]\}', out):
            d = json.loads(m.group(0))
            labels.append('%s|%d' % (d['host'], d['port']))
    # error reports; in JSON single-target mode they are plain lines
    msgs2 = re.findall(MSG_RE, out)
    wlabels = []
    if okind in ('json', 'policy-json') and kind == 2:
        # -T with -j prints ONE JSON array; an element with an 'error' key wraps the report of a target that could not be audited.
        # A single target that could not be audited is the same kind of document on its own (fix 3d5c3d7).
        try:
            arr = json.loads(out)
        except ValueError:
            arr = None
        if sc['where'] != 'file':
            arr = [arr] if isinstance(arr, dict) and 'error' in arr else None
        if isinstance(arr, list):
            labels, msgs2 = [], []
            for el in arr:
                if isinstance(el, dict) and 'error' in el:
                    wlabels.append(el.get('target'))
                    msgs2 += re.findall(MSG_RE, el['error'])
                elif okind == 'json':
                    labels.append(el.get('target'))
                else:
                    labels.append('%s|%d' % (el['host'], el['port']))
    uniq = []
    for c in r['conn']:
        if not uniq or uniq[-1] != c:
            uniq.append(c)
    return {'kind': kind, 'gai': [[g[0], g[1], g[2]] for g in r['gai']], 'conn': r['conn'], 'uconn': uniq, 'msgs': msgs2, 'labels': labels, 'wlabels': wlabels, 'status': st}


# ---------------------------------------------------------------- the property statement, evaluated on a run
def doc_decode(label):
    """The documented target grammar (hostname, IPv4, bare IPv6, host:port, [IPv6], [IPv6]:port), written from the statement."""
    if label.startswith('['):
        i = label.find(']')
        if i < 0:
            return None
        rest = label[i + 1:]
        if rest == '':
            return (label[1:i], None)
        if rest.startswith(':') and rest[1:].isdigit():
            return (label[1:i], int(rest[1:]))
        return None
    if label.count(':') == 1:
        h, ps = label.split(':')
        if not ps.isdigit():
            return None
        return (h, int(ps))
    return (label, None)


def expected(sc):
    """What the statement demands for the scenario: list of (target dict, host, port, valid)."""
    d = sc['oport'] if sc['oport'] is not None else 22
    res = []
    for t in sc['targets']:
        p = t['port'] if t['port'] is not None else d
        res.append((t, t['host'], p, 1 <= p <= 65535))
    return res


def want_dial(sc, host, port):
    """First address of the requested families in the requested order (None: nothing may be dialled)."""
    fl = sc['flags']
    es = [e for e in sc['table'].get(host, []) if e[1] == 1]
    if fl:
        es = [e for e in es if (4 if e[0] == AF4 else 6) in fl]
    if len(fl) == 2:
        first = AF4 if fl[0] == 4 else AF6
        es = [e for e in es if e[0] == first] + [e for e in es if e[0] != first]
    return [es[0][0], es[0][2], port] if es else None


def oracle(ctx, sc, ob):
    """Reports every way in which the run deviates from the statement; keys name the input class."""
    exp = expected(sc)
    where = sc['where']
    popt = '-p' if sc['oport'] is not None else 'no-p'
    fam = {(): 0, (4,): AF4, (6,): AF6}.get(tuple(sc['flags']), 0)
    replay = {'op': 'run', 'scenario': sc, 'observed': {k: ob[k] for k in ('kind', 'gai', 'conn', 'msgs', 'labels', 'wlabels', 'status')}}
    bad_opt = sc['oport'] is not None and not 1 <= sc['oport'] <= 65535
    bad_targets = [e for e in exp if not e[3]]
    n = 0
    # -- a port outside 1..65535 is rejected before any connection is made
    if bad_opt or bad_targets:
        n += 1
        if ob['gai'] or ob['conn']:
            what = 'option' if bad_opt else '%s/%s' % (bad_targets[0][0]['kind'], popt)
            key = 'file/bad-port/others-dialled-before-rejection' if where == 'file' and not bad_opt else 'cli/bad-port/%s/resolved-or-dialled-before-rejection' % what
            ctx.violation(key,
                          'a port outside 1-65535 is named (%s) but the run resolved %r and dialled %r before it was rejected (exit status %r, %s)' % (
                              'option -p %d' % sc['oport'] if bad_opt else bad_targets[0][0]['spell'], ob['gai'], ob['conn'], ob['status'],
                              'crash with traceback, reports of the other targets lost' if ob['kind'] == 1 else 'no crash'), replay)
        if ob['status'] == 0:
            ctx.violation('%s/bad-port/accepted' % where, 'exit status 0 although a port outside 1-65535 was named', replay)
        return n
    # -- every named target is resolved as (host, port) and nothing else is
    want_gai = [[h, p, fam] for (_t, h, p, _v) in exp]
    got = [g for g in ob['gai']]
    ugot = []
    for g in got:
        if g not in ugot:
            ugot.append(g)
    for (t, h, p, _v) in exp:
        n += 1
        if [h, p, fam] not in ugot:
            near = [g for g in ugot if g not in want_gai]
            ctx.violation('%s/%s/%s/not-resolved-as-named' % (where, t['kind'], popt),
                          'target %r names host %r port %d (family %d) but the run resolved %r' % (t['spell'], h, p, fam, near or ugot), replay)
    extras = [g for g in ugot if g not in want_gai]
    missing = [e for e in exp if [e[1], e[2], fam] not in ugot]
    if len(extras) > len(missing):      # otherwise the extras are the mis-resolutions reported above
        cls = 'empty-host' if any(g[0] == '' for g in extras) else 'other'
        ctx.violation('%s/%s/unnamed-target-resolved/%s' % (where, sc.get('odd') or 'regular', cls), 'the run resolved %r which no line/argument names' % (extras,), replay)
    # -- only addresses of the requested families, in the requested order
    for (t, h, p, _v) in exp:
        if [h, p, fam] not in ugot:
            continue
        n += 1
        w = want_dial(sc, h, p)
        mine = [c for c in ob['uconn'] if c[2] == p and any(c[1] == e[2] for e in sc['table'].get(h, []))]
        if w is None:
            if mine:
                ctx.violation('ipversion/%s/dialled-excluded-family' % ''.join(map(str, sc['flags'])), 'no address of the requested families exists for %r but %r was dialled' % (h, mine), replay)
        elif not mine or mine[0] != w:
            both = len(sc['flags']) == 2
            ctx.violation('ipversion/%s/%s' % (''.join(map(str, sc['flags'])) or 'none', 'order-ignored' if both and mine else 'wrong-address'),
                          'options %r: the first connection for %r should go to %r, observed %r' % (sc['flag_argv'], h, w, mine), replay)
    others = [c for c in ob['uconn'] if not any(c[2] == p and any(c[1] == e[2] for e in sc['table'].get(h, [])) for (_t, h, p, _v) in exp)]
    if others:
        ctx.violation('%s/dialled-unnamed-endpoint' % where, 'connections to %r belong to no named target' % (others,), replay)
    # -- the report is labelled with the same target
    if sc['mode'] == 'peer':
        for (t, h, p, _v) in exp:
            if want_dial(sc, h, p) is None or [h, p, fam] not in ugot:
                continue
            n += 1
            if sc['out'] == 'policy-json':
                ok = ('%s|%d' % (h, p)) in ob['labels']
                dec = ob['labels']
            else:
                dec = [doc_decode(lb) for lb in ob['labels']]
                ok = any(d is not None and d[0] == h and (d[1] if d[1] is not None else 22) == p for d in dec)
            if not ok:
                v6 = 'ipv6' if host_kind(h) == 'v6' else host_kind(h)
                ctx.violation('label/%s/%s/%s' % (sc['out'], v6, 'missing' if not ob['labels'] else 'does-not-denote-target'),
                              'target host %r port %d: the %s report carries the labels %r which read as %r under the documented target grammar' % (h, p, sc['out'], ob['labels'], dec), replay)
        if sc['out'] in ('json', 'policy-json'):
            # a target that could not be audited is reported as a JSON element (single target: as the document) {"target": ..., "error": ...}
            for (t, h, p, _v) in exp:
                if want_dial(sc, h, p) is not None or [h, p, fam] not in ugot:
                    continue
                n += 1
                dec = [doc_decode(lb) for lb in ob['wlabels'] if isinstance(lb, str)]
                if not any(d is not None and d[0] == h and (d[1] if d[1] is not None else 22) == p for d in dec):
                    v6 = 'ipv6' if host_kind(h) == 'v6' else host_kind(h)
                    ctx.violation('label/json/%s/%s' % (v6, 'missing' if not ob['wlabels'] else 'does-not-denote-target'),
                                  'target host %r port %d could not be audited: its JSON error element carries the targets %r which read as %r under the documented target grammar' % (h, p, ob['wlabels'], dec), replay)
    else:
        for (t, h, p, _v) in exp:
            if [h, p, fam] not in ugot:
                continue
            n += 1
            if not any(('%s port %d:' % (h, p)) in m or ('host %s has no DNS records' % h) in m for m in ob['msgs']):
                ctx.violation('%s/report-missing' % where, 'no report line for target %r (%r:%d); messages %r' % (t['spell'], h, p, ob['msgs']), replay)
    return n


# ---------------------------------------------------------------- direct calls into the implementation
def impl_parse(s, d):
    from ssh_audit.utils import Utils
    try:
        h, p = Utils.parse_host_and_port(s, d) if d is not None else Utils.parse_host_and_port(s)
        return ('ok', h, p)
    except ValueError:
        return ('raise', 'ValueError')


def cparse(r):
    return '(Ok (%s, %s))' % (cstr(r[1]), cz(r[2])) if r[0] == 'ok' else '(Raise %s)' % r[1]


def impl_cli(argv):
    from ssh_audit.ssh_audit import process_commandline
    from ssh_audit.outputbuffer import OutputBuffer
    buf = io.StringIO()
    try:
        with contextlib.redirect_stdout(buf), contextlib.redirect_stderr(buf):
            conf = process_commandline(OutputBuffer(), argv)
        return ('ok', conf.host, conf.port, list(conf.ip_version_preference), list(conf.target_list))
    except SystemExit:
        return ('exit',)
    except ValueError:
        return ('raise', 'ValueError')


def ccli(r):
    if r[0] == 'ok': return '(COk %s %s)' % (cstr(r[1]), cz(r[2]))
    if r[0] == 'exit': return 'CExit'
    return '(CRaise %s)' % r[1]


class FakeGAI:
    """socket.getaddrinfo replaced inside this process for the direct _resolve calls."""

    def __init__(self, table):
        self.table, self.calls = table, []

    def __call__(self, host, port, family=0, type=0, proto=0, flags=0):  # pylint: disable=redefined-builtin
        self.calls.append((host, port, int(family)))
        res = []
        for fam, st, ip in self.table.get(host, []):
            if family not in (0, fam):
                continue
            res.append((socket.AddressFamily(fam), socket.SocketKind(st), 6, '', (ip, port) if fam == AF4 else (ip, port, 0, 0)))
        if not res:
            raise socket.gaierror(-2, 'Name or service not known')
        return res


def impl_resolve(table, host, port, pref):
    from ssh_audit.ssh_socket import SSH_Socket
    from ssh_audit.outputbuffer import OutputBuffer
    from ssh_audit.dheat import DHEat
    real = socket.getaddrinfo
    socket.getaddrinfo = FakeGAI(table)
    try:
        s = SSH_Socket(OutputBuffer(), host, port, list(pref), 1.0, True)
        try:
            a = [[int(af), addr[0]] for af, addr in s._resolve()]
        except socket.gaierror:
            a = None
        try:
            f, ip = DHEat._resolve_hostname(host, list(pref))
            b = [int(f), ip]
        except socket.gaierror:
            b = None
        return a, b
    finally:
        socket.getaddrinfo = real


def eval_scenarios(ctx, scs, tmpdir, add):
    """Runs the scenarios through the launcher; adds one correspondence term per run and evaluates the oracle."""
    results = run_launcher(scs, tmpdir)
    n_or = 0
    for sc, r in zip(scs, results):
        ob = observe(sc, r)
        R = cresolver(sc['table'])
        FL = clist(sc['flags'], cz)
        OP = copt(sc['oport'], cz)
        desc = {'op': 'run-%s-%s' % (sc['where'], sc['mode']), 'argv': sc['argv'], 'content': sc.get('content'), 'table': sc['table'],
                'observed': {k: ob[k] for k in ('kind', 'gai', 'uconn', 'msgs', 'labels', 'wlabels', 'status')}}
        src = ('run_single %s %s' % (cstr(sc['arg']), OP)) if sc['where'] == 'cli' else ('run_file %s %s' % (cstr(sc['content']), OP))
        nt = (sc['where'], sc['mode'], tuple(t['kind'] for t in sc['targets'])[:3], sc['oport'] is not None, tuple(sc['flags']), ob['kind'], sc.get('odd'), sc.get('out'))
        if sc['mode'] == 'refuse':
            add('chk_run (%s %s %s) %s %s %s %s' % (src, FL, R, cz(ob['kind']), clist(ob['gai'], cgai), clist(ob['conn'], cconn), clist(ob['msgs'], cstr)), desc, nt)
        else:
            lab = {'text': 'text_label', 'json': 'json_label', 'policy-text': 'text_label', 'policy-json': 'pj_label'}[sc['out']]
            tsrc = ('targets_single %s %s' % (cstr(sc['arg']), OP)) if sc['where'] == 'cli' else ('targets_file %s %s' % (cstr(sc['content']), OP))
            add('chk_peer %s (%s) (pref_of_flags %s) %s %s %s %s %s %s' % (lab, tsrc, FL, R, cbool(ob['kind'] == 2), clist(ob['labels'] + ob['msgs'], cstr), clist(ob['uconn'], cconn),
                cbool(sc['out'] in ('json', 'policy-json')), clist(ob['wlabels'], cstr)), desc, nt)
        n_or += oracle(ctx, sc, ob)
    return n_or


def replay_case(ctx, rp, add):
    """Re-evaluates one recorded failing input (bin/check C18 --replay file)."""
    op = rp.get('op')
    if op == 'run':
        tmpdir = tempfile.mkdtemp(prefix='c18_')
        try:
            return eval_scenarios(ctx, [rp['scenario']], tmpdir, add)
        finally:
            shutil.rmtree(tmpdir, ignore_errors=True)
    if op == 'parse':
        r = impl_parse(rp['s'], rp['default'])
        add('res_eqb ep_eqb (parse_host_and_port %s %s) %s' % (cstr(rp['s']), cz(22 if rp['default'] is None else rp['default']), cparse(r)), dict(rp, impl=repr(r)))
        if 'want' in rp and list(r) != list(rp['want']):
            ctx.violation(rp['key'], 'parse_host_and_port(%r, %r) = %r, the spelling names %r' % (rp['s'], rp['default'], r, rp['want'][1:]), rp)
        return 1
    if op == 'flags':
        r = impl_cli(rp['argv'])
        if r[0] != 'ok' or r[3] != rp['want']:
            ctx.violation(rp['key'], 'options %r give the family preference %r, the options name %r' % (rp['argv'][:-1], r[3] if r[0] == 'ok' else r, rp['want']), rp)
        return 1
    if op == 'rate_resolve':
        a, b = impl_resolve(rp['table'], rp['host'], 22, rp['pref'])
        if a and b and b != [0, ''] and a[0] != b:
            ctx.violation(rp['key'], 'preference %r, resolver answers %r: the audit dials %r, the connection rate test dials %r' % (rp['pref'], rp['table'][rp['host']], a[0], b), rp)
        return 1
    if op == 'port-setter':
        from ssh_audit.auditconf import AuditConf
        conf = AuditConf()
        try:
            conf.port = rp['port']
            acc = True
        except ValueError:
            acc = False
        if acc != (1 <= rp['port'] <= 65535):
            ctx.violation('port-setter/%s' % ('accepts-out-of-range' if acc else 'rejects-valid'), 'AuditConf.port = %d is %s' % (rp['port'], 'accepted' if acc else 'rejected'), rp)
        return 1
    raise common.CheckError('unknown replay op %r' % (op,))


def mutate(rng, s, alphabet):
    if not s or rng.random() < 0.15:
        return ''.join(rng.choice(alphabet) for _ in range(rng.randrange(0, 10)))
    for _ in range(rng.choice([1, 1, 2, 3])):
        i = rng.randrange(len(s) + 1)
        op = rng.randrange(3)
        if op == 0:
            s = s[:i] + rng.choice(alphabet) + s[i:]
        elif op == 1 and s:
            s = s[:i] + s[i + 1:]
        elif s:
            i = min(i, len(s) - 1)
            s = s[:i] + rng.choice(alphabet) + s[i + 1:]
    return s


# ---------------------------------------------------------------- the check
def run(ctx):
    ctx.proofs(['C18'])
    rng = ctx.rng
    q = ctx.quick
    terms, descs = [], []
    nontriv = set()
    hist = {}
    samples = []

    def add(term, desc, nt=None):
        terms.append(term); descs.append(desc)
        hist[desc['op']] = hist.get(desc['op'], 0) + 1
        if nt is not None:
            nontriv.add(nt)

    from ssh_audit.utils import Utils

    if getattr(ctx, 'replay', None):
        rp = json.load(open(ctx.replay))['replay']
        n = replay_case(ctx, rp, add)
        if terms:
            ctx.correspond('target', IMPORTS, '', terms, lambda i: descs[i])
        ctx.cover(n + len(terms), nontriv, [{'op': 'replay', 'impl': descs[0].get('observed', descs[0].get('impl')) if descs else None}], 'replay of one recorded failing input')
        return

    # ---- int() / str() / strip() ----
    ialpha = '0123456789012345_+- \t\n\r\x0b\x0c\x1c\x1fa'
    ints = ['', ' ', '0', '22', ' 22', '22\n', '+22', '-22', '- 22', '2_2', '_22', '22_', '2__2', '+', '-', '0x16', '00022', '\x1f22\x1c', '2 2', '1' * 30, '+_1', '6_5_5_3_5']
    ints += [''.join(rng.choice(ialpha) for _ in range(rng.randrange(1, 8))) for _ in range(150 if q else 4000)]
    for s in ints:
        try:
            r = '(Ok %s)' % cz(int(s))
        except ValueError:
            r = '(Raise ValueError)'
        add('res_eqb Z.eqb (int_of_string %s) %s' % (cstr(s), r), {'op': 'int', 's': s, 'impl': r}, ('int', r[:6], min(len(s), 4)))
    for nval in [0, 1, 9, 10, 11, 22, 99, 100, 101, 255, 256, 999, 1000, 65535, 65536, 99999, 100000, 2 ** 31, 2 ** 32 + 22, 10 ** 20, -1, -22, -65536] + [rng.randrange(0, 70000) for _ in range(60 if q else 2000)]:
        add('String.eqb (dec %s) %s' % (cz(nval), cstr(str(nval))), {'op': 'str', 'n': nval}, ('dec', len(str(nval))))
    walpha = ' \t\n\r\x0b\x0c\x1c\x1d\x1e\x1fab:\x00\x7f\x08'
    for _ in range(120 if q else 3000):
        s = ''.join(rng.choice(walpha) for _ in range(rng.randrange(0, 9)))
        add('String.eqb (strip %s) %s' % (cstr(s), cstr(s.strip())), {'op': 'strip', 's': s}, ('strip', len(s) - len(s.strip()) > 0, bool(s.strip())))

    # ---- parse_host_and_port: documented spellings and mutations ----
    palpha = 'ab.019:::[]]_- \t\n%/+ü'
    n_parse = 500 if q else 20000
    n_forms_ok = 0
    for i in range(n_parse):
        kind, h, p, s = gen_form(rng, VALID_PORTS + BAD_PORTS)
        d = rng.choice([None, 22, 22, 2222, 65535, 0, 70000])
        mut = i % 3 == 2
        if mut:
            s = mutate(rng, s, palpha)
        r = impl_parse(s, d)
        add('res_eqb ep_eqb (parse_host_and_port %s %s) %s' % (cstr(s), cz(22 if d is None else d), cparse(r)),
            {'op': 'parse', 's': s, 'default': d, 'impl': repr(r)}, ('parse', 'mut' if mut else kind, r[0], (r[2] == d) if r[0] == 'ok' else None))
        if not mut:
            # oracle: the documented spelling yields exactly the host and port it names
            n_forms_ok += 1
            want = ('ok', h, p if p is not None else (22 if d is None else d))
            if r != want:
                ctx.violation('parse/%s/wrong-endpoint' % kind, 'parse_host_and_port(%r, %r) = %r, the spelling names %r' % (s, d, r, want[1:]), {'op': 'parse', 's': s, 'default': d, 'want': list(want), 'key': 'parse/%s/wrong-endpoint' % kind})
    # every port value (thorough) / every 37th and the boundaries (quick), implementation side only: spelling -> port, and the
    # port setter of AuditConf accepts exactly 1..65535
    from ssh_audit.auditconf import AuditConf
    sweep = range(0, 65600) if not q else sorted(set(range(0, 65600, 37)) | {0, 1, 2, 21, 22, 23, 65534, 65535, 65536, 65537})
    for pv in sweep:
        for kind, h, sp in (('host:port', 'h.example', 'h.example:%d' % pv), ('[v6]:port', '2001:db8::1', '[2001:db8::1]:%d' % pv)):
            r = impl_parse(sp, 22)
            if r != ('ok', h, pv):
                ctx.violation('parse/%s/wrong-endpoint' % kind, 'parse_host_and_port(%r, 22) = %r' % (sp, r), {'op': 'parse', 's': sp, 'default': 22, 'want': ['ok', h, pv], 'key': 'parse/%s/wrong-endpoint' % kind})
        conf = AuditConf()
        try:
            conf.port = pv
            acc = conf.port == pv
        except ValueError:
            acc = False
        if acc != (1 <= pv <= 65535):
            ctx.violation('port-setter/%s' % ('accepts-out-of-range' if acc else 'rejects-valid'), 'AuditConf.port = %d is %s' % (pv, 'accepted' if acc else 'rejected'), {'op': 'port-setter', 'port': pv})
        n_forms_ok += 3
    ctx.evaluations += n_forms_ok
    samples.append({'op': 'parse', 's': '[2001:db8::1]:2222', 'impl': repr(impl_parse('[2001:db8::1]:2222', 22))})

    # ---- is_ipv6_address ----
    v6alpha = '0123456789abcdefABCDEFg:::..%/[] '
    v6cases = list(V6_FIXED) + ['', ':', '::', ':::', '1::2::3', '1:2:3:4:5:6:7:8:9', '::1:2:3:4:5:6:7:8', '1:2:3:4:5:6:7:8::', '12345::', 'g::', '::1%', '::1%a%b', '::1/64',
                                '1.2.3.4', '::1.2.3', '::01.2.3.4', '::256.1.1.1', '::1.2.3.4.5', '1:2:3:4:5:6:7:1.2.3.4', '1:2:3:4:5:1.2.3.4', '::ffff:1.2.3.4%x', ':1:2:3:4:5:6:7', '1:2:3:4:5:6:7:',
                                '::%]', '[::1]', 'localhost', 'a:b', '::\n', ' ::1']
    for _ in range(300 if q else 12000):
        s = gen_v6(rng) if rng.random() < 0.4 else (gen_name(rng) if rng.random() < 0.1 else gen_v4(rng) if rng.random() < 0.1 else mutate(rng, gen_v6(rng), v6alpha))
        v6cases.append(s)
    for s in v6cases:
        b = Utils.is_ipv6_address(s)
        add('Bool.eqb (is_ipv6 %s) %s' % (cstr(s), cbool(b)), {'op': 'is_ipv6', 's': s, 'impl': b}, ('v6', b, min(s.count(':'), 9), '.' in s, '%' in s))

    # ---- labels as functions of (host, port) through the real output code is done by the launcher (peer mode) ----

    # ---- process_commandline: single target, flags, -p ----
    n_cli = 400 if q else 14000
    for i in range(n_cli):
        sc = gen_cli_scenario(rng, 'refuse')
        arg = sc['arg']
        if i % 4 == 3:
            arg = mutate(rng, arg, palpha.replace('\n', '')) or 'x'
        if arg.startswith('-'):
            arg = 'x' + arg
        argv = list(sc['flag_argv']) + ([] if sc['oport'] is None else ['--port=%d' % sc['oport']]) + [arg]
        r = impl_cli(argv)
        add('cli_eqb (cli_single %s %s) %s' % (cstr(arg), copt(sc['oport'], cz), ccli(r)), {'op': 'cli', 'argv': argv, 'impl': repr(r[:3])},
            ('cli', sc['targets'][0]['kind'] if i % 4 != 3 else 'mut', sc['oport'] is not None, r[0]))
        if r[0] == 'ok':
            add('list_eqb Z.eqb (pref_of_flags %s) %s' % (clist(sc['flags'], cz), clist(r[3], cz)), {'op': 'flags', 'argv': argv, 'impl': r[3]}, ('flags', tuple(sc['flag_argv'])))
    for fl_argv, fl in FLAG_SPELLINGS:
        r = impl_cli(list(fl_argv) + ['h'])
        # oracle: the options name the families and their order of precedence
        ctx.evaluations += 1
        if r[0] != 'ok' or r[3] != fl:
            ctx.violation('ipversion/%s/order-ignored' % ''.join(map(str, fl)), 'options %r give the family preference %r, the options name %r' % (fl_argv, r[3] if r[0] == 'ok' else r, fl),
                          {'op': 'flags', 'argv': list(fl_argv) + ['h'], 'want': fl, 'key': 'ipversion/%s/order-ignored' % ''.join(map(str, fl))})

    # ---- targets file -> target_list (process_commandline) ----
    tmpdir = tempfile.mkdtemp(prefix='c18_')
    try:
        falpha = 'ab1: \t\n\n\n\r[]\x0b\x0c'
        fpath = os.path.join(tmpdir, 'direct.txt')
        for i in range(200 if q else 6000):
            if i % 2:
                content = gen_file_scenario(rng, 'refuse')['content']
            else:
                content = ''.join(rng.choice(falpha) for _ in range(rng.randrange(0, 14)))
            with open(fpath, 'wb') as f:
                f.write(content.encode('utf-8'))
            r = impl_cli(['-T', fpath])
            if r[0] != 'ok':    # no target left or a port out of range: usage exit; an unparsable port: ValueError
                want = 'VExit' if r[0] == 'exit' else 'VCrash'
                add('match file_lines %s with [] => %s | ts => match validate ts 22 with %s => true | _ => false end end' % (cstr(content), cbool(r[0] == 'exit'), want),
                    {'op': 'file_lines', 'content': content, 'impl': repr(r)}, ('file_lines', r[0]))
                continue
            add('strs_eqb (file_lines %s) %s && match validate (file_lines %s) 22 with VOk => true | _ => false end' % (cstr(content), clist(r[4], cstr), cstr(content)), {'op': 'file_lines', 'content': content, 'impl': r[4]},
                ('file_lines', len(r[4]), '' in r[4], '\r' in content))

        # ---- _resolve (audit) and _resolve_hostname (rate test) with a synthetic resolver ----
        prefs = [[], [4], [6], [4, 6], [6, 4]]
        for i in range(250 if q else 8000):
            h = gen_name(rng)
            table = gen_table(rng, [h])
            if rng.random() < 0.5 and table[h]:
                extra = [(lambda f: [f, rng.choice([1, 1, 2]), Addr.v4() if f == AF4 else Addr.v6()])(rng.choice([AF4, AF6])) for _ in range(rng.randrange(0, 4))]
                table[h] = table[h] + extra
                rng.shuffle(table[h])
            pref = rng.choice(prefs)
            a, b = impl_resolve(table, h, 22, pref)
            R = cresolver(table)
            exp_a = 'None' if a is None else '(Some %s)' % clist(a, lambda x: '(%s, %s)' % (cz(x[0]), cstr(x[1])))
            add('opt_eqb (list_eqb (pair_eqb Z.eqb String.eqb)) (option_map (fun l => map (fun e => (e_fam e, e_ip e)) (resolve_list %s l)) (gai %s %s (gai_family %s))) %s' % (
                clist(pref, cz), R, cstr(h), clist(pref, cz), exp_a), {'op': 'resolve', 'table': table, 'host': h, 'pref': pref, 'impl': a},
                ('resolve', tuple(pref), None if a is None else tuple(x[0] for x in a)[:4]))
            exp_b = 'None' if b is None else ('(Some (0, ""))' if b == [0, ''] else '(Some (%s, %s))' % (cz(b[0]), cstr(b[1])))
            add('opt_eqb (pair_eqb Z.eqb String.eqb) (option_map (fun l => match rate_first %s l with Some e => (e_fam e, e_ip e) | None => (0, "") end) (gai %s %s (gai_family %s))) %s' % (
                clist(pref, cz), R, cstr(h), clist(pref, cz), exp_b), {'op': 'rate_resolve', 'table': table, 'host': h, 'pref': pref, 'impl': b}, ('rate', tuple(pref), None if b is None else b[0]))
            # oracle: the rate test must talk to the same address as the audit (requested families in the requested order)
            ctx.evaluations += 1
            if a and b and b != [0, ''] and a[0] != b:
                ctx.violation('rate-test/%s/family-order-ignored' % ''.join(map(str, pref)), 'preference %r, resolver answers %r: the audit dials %r, the connection rate test dials %r' % (pref, table[h], a[0], b),
                              {'op': 'rate_resolve', 'table': table, 'host': h, 'pref': pref, 'key': 'rate-test/%s/family-order-ignored' % ''.join(map(str, pref))})

        # ---- end-to-end runs of the real command line ----
        n_run = 600 if q else 30000
        scs = []
        for i in range(n_run):
            mode = 'peer' if i % 3 == 2 else 'refuse'
            scs.append(gen_file_scenario(rng, mode, allow_odd=(mode == 'refuse')) if i % 2 else gen_cli_scenario(rng, mode))
        n_or = eval_scenarios(ctx, scs, tmpdir, add)
        ctx.evaluations += n_or
        samples.append({'op': 'run', 'argv': scs[0]['argv'], 'impl': descs[-len(scs)]['observed']})
    finally:
        shutil.rmtree(tmpdir, ignore_errors=True)

    ctx.extra['op_histogram'] = hist
    ctx.correspond('target', IMPORTS, '', terms, lambda i: descs[i])
    ctx.cover(len(terms), nontriv, samples,
              'hosts: names (incl. UTF-8, numeric-looking), IPv4, IPv6 in exploded/plain/canonical/any-run-compressed/upper-case/v4-suffix/zone spellings; ports: boundary '
              '(1,22,65535 / 0,65536,65558,2^32+22) and common; spellings host, host:port, bare v6, [v6], [v6]:port and their single-character mutations; command line and targets files '
              '(padding, blank and whitespace-only lines, CRLF, missing final newline); -p absent/present/out of range; -4,-6,-46,-64 in short, split and long spellings; synthetic resolver '
              'answers single/dual stack in both orders, NXDOMAIN, datagram entries; refused and answering peers (text, JSON, policy reports). Only ASCII digits and ASCII whitespace are '
              'generated (Python also accepts Unicode digits/spaces; not modelled). non-trivial = distinct (op, form kind(s), option presence, flag spelling, outcome class)')
