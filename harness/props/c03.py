"""C03 - an algorithm's rating depends only on the algorithm (+ documented measured attributes), in every view."""
import canon
import inproc
import runner
from props import reportfam

TW = 'vulnerable to the Terrapin attack'
O2048 = 'A bug in OpenSSH causes it to fall back'


def run(ctx):
    ctx.proofs(['C03'])
    q = ctx.quick
    rng = ctx.rng
    g = inproc.Gen(rng)
    db = inproc.tables()
    peers = []
    # every database name (and a gss instantiation) in several placements: alone, first, last, among random neighbours, both roles
    allnames = [(c, n) for c, ents in db.items() for n in ents]
    placements = ['alone', 'first', 'last', 'middle'] if q else ['alone', 'first', 'last', 'middle', 'middle', 'dup-neighbours', 'middle', 'last']
    for (c, n) in allnames:
        name = n[:-1] + rng.choice(inproc.GSS_SUFFIXES) if n.endswith('-*') else n
        for pl in (rng.sample(placements, 2) if q else placements):
            base = {'banner': g.banner(), 'kex': ['curve25519-sha256'], 'key': ['ssh-ed25519'], 'enc': ['aes128-ctr'], 'mac': ['hmac-sha2-256'], 'client_audit': rng.random() < 0.4}
            neigh = [] if pl == 'alone' else g.namelist(c, 'random')
            neigh = [x for x in neigh if x != name]
            if pl == 'alone': lst = [name]
            elif pl == 'first': lst = [name] + neigh
            elif pl == 'last': lst = neigh + [name]
            else:
                k = rng.randrange(len(neigh) + 1); lst = neigh[:k] + [name] + neigh[k:]
            base[c] = lst
            peers.append(base)
    # the rating is per (category, name): the same name in the lists of two categories (a shared name such as 'none', or a name of one category listed
    # in another, where it is unknown) is rated from each category's own table, whatever the other lists hold
    shared = sorted({n for c, ents in db.items() for n in ents if sum(1 for c2 in db if n in db[c2]) > 1})
    CATS = ['kex', 'key', 'enc', 'mac']
    cross = []
    for n in shared:
        cs = [c for c in CATS if n in db[c]]
        cross.append({c: [n] for c in cs})
        cross.append({cs[0]: [n]})
        cross.append({cs[-1]: [n]})
    for _ in range(8 if q else 200):
        a, b = rng.sample(CATS, 2)
        n = rng.choice(sorted(db[a]))
        if n.endswith('-*') or n in db[b]:
            continue
        cross.append({a: [n], b: [n]})                                 # known in a, unknown in b, both listed
        cross.append({b: [n] + g.namelist(b, 'random')[:2]})            # only listed where it is unknown
    for extra in cross:
        base = {'banner': g.banner(), 'kex': ['curve25519-sha256'], 'key': ['ssh-ed25519'], 'enc': ['aes128-ctr'], 'mac': ['hmac-sha2-256'], 'client_audit': rng.random() < 0.3}
        for c, l in extra.items():
            base[c] = (base[c] + l) if rng.random() < 0.5 else (l + base[c])
        peers.append(base)
    peers += [g.peer() for _ in range(60 if q else 2000)]
    recs = reportfam.standard(ctx, 0, peers=peers, parts=('items', 'json'))
    recs += reportfam.cli_records(ctx, rng.sample(peers, min(len(peers), 16 if q else 300)), parts=('items', 'json'))   # end to end, both roles
    seen = {}
    nontriv = set()
    n_unknown = 0
    for r in recs:
        p = r['peer']
        pj = reportfam.jsonable_peer(p)
        jal = canon.json_algs(r['pjson'])
        tal = r['ptext']['algs']
        # text vs JSON: same names in the same order; same notes for names the database knows
        tnames = [(a['cat'], a['name']) for a in tal]
        jnames = [(a['cat'], a['name']) for a in jal if a['name'].strip() != '']
        if tnames != jnames:
            ctx.violation('text-json-names-differ', 'text lists %r, JSON lists %r' % (tnames[:8], jnames[:8]), {'op': 'output', 'peer': pj})
            continue
        jal = [a for a in jal if a['name'].strip() != '']
        for a, b in zip(tal, jal):
            c, n = a['cat'], a['name']
            ln = n[:n.rindex('-')] + '-*' if (c == 'kex' and n.startswith('gss-')) else n
            known = ln in db.get(c, {})
            tn = sorted((l, t) for (l, t) in a['notes'] if t != '')
            jn = sorted(b['notes'])
            if known:
                if tn != jn:
                    ctx.violation('text-json-notes-differ/%s' % c, '%s %r: text notes %r, JSON notes %r' % (c, n, tn, jn), {'op': 'output', 'peer': pj})
                marked = any(TW in t for (l, t) in a['notes'])
                o2048 = any(O2048 in t for (l, t) in a['notes'])
                key = (c, ln, a['size'], a['ca_size'], a['ca_type'], marked, o2048)
                nontriv.add((c, ln))
                prev = seen.get(key)
                notes_wo_dup = list(a['notes'])
                if prev is None:
                    seen[key] = (notes_wo_dup, pj)
                elif prev[0] != notes_wo_dup:
                    ctx.violation('notes-depend-on-context/%s' % c, '%s %r shows notes %r here but %r for another peer with the same measured attributes' % (c, n, notes_wo_dup, prev[0]),
                                  {'op': 'output', 'peer': pj, 'other_peer': prev[1]})
                if sum(1 for x in a['notes'] if TW in x[1]) > 1:
                    ctx.violation('terrapin-note-repeated', '%s %r carries the Terrapin note more than once (the notes of an algorithm do not depend on how often the peer lists it)' % (c, n), {'op': 'output', 'peer': pj})
            else:
                n_unknown += 1
                if a['notes'] != [('warn', 'unknown algorithm')] or b['notes'] != [('fail', 'using unknown algorithm')]:
                    ctx.violation('unknown-not-flagged/%s' % c, 'unknown %s name %r: text notes %r, JSON notes %r' % (c, n, a['notes'], b['notes']), {'op': 'output', 'peer': pj})
                if r['text']['ret'] not in (2, 3):
                    ctx.violation('unknown-presented-as-good', 'peer with unknown %s %r got status %r' % (c, n, r['text']['ret']), {'op': 'output', 'peer': pj})
    ctx.extra['unknown_name_items'] = n_unknown
    # a database name with surrounding blanks is another name: the database does not know it, and every view says so (the report shows the name the peer sent;
    # blanks inside a name-list element are legal bytes of the name).  Judged on the raw report text, not through the name parser.
    padded = []
    for c in ('kex', 'key', 'enc', 'mac'):
        for n in rng.sample(sorted(x for x in db[c] if not x.endswith('-*')), 2 if q else 8):
            for form in (n + ' ', ' ' + n, n + '\t'):
                base = {'banner': 'SSH-2.0-OpenSSH_8.9', 'kex': ['curve25519-sha256'], 'key': ['ssh-ed25519'], 'enc': ['aes256-ctr'], 'mac': ['hmac-sha2-256'], 'client_audit': False}
                base[c] = base[c] + [form]
                padded.append((c, form, base))
    for c, form, p in padded:
        r = reportfam.run_case(p)
        ctx.evaluations += 1
        if r['text']['exc'] is not None or r['json']['exc'] is not None:
            ctx.violation('output-exception/padded-name', 'output() raised for a name with surrounding blanks: %r' % form, {'op': 'output', 'peer': reportfam.jsonable_peer(p)})
            continue
        txt = canon.strip_ansi(r['text']['text'])
        lines = [ln for ln in txt.split('\n') if ln.startswith('(%s) ' % c) and form.strip() in ln]
        jn = [a for a in canon.json_algs(r['pjson']) if a['cat'] == c and a['name'] == form]
        t_unknown = any('unknown algorithm' in ln for ln in lines)
        j_unknown = bool(jn) and any('unknown algorithm' in t for (l, t) in jn[0]['notes'])
        nontriv.add(('padded-name', c))
        if not t_unknown or not j_unknown:
            ctx.violation('padded-name-rated-as-known/%s' % c, '%s name %r (a database name with surrounding blanks: unknown to the database) - text says unknown: %r, JSON says unknown: %r' % (c, form, t_unknown, j_unknown),
                          {'op': 'output', 'peer': reportfam.jsonable_peer(p)})
    # --lookup agrees with the report for every database name (incl. concrete gss instantiations)
    names = []
    for (c, n) in allnames:
        names.append((c, n, n[:-1] + rng.choice(inproc.GSS_SUFFIXES) if n.endswith('-*') else n))
    chunks = [names[i:i + 40] for i in range(0, len(names), 40)]

    def do(z, chunk):
        return z.run(['-n', '--lookup', ','.join(x[2] for x in chunk)], timeout=60)
    with runner.Pool(8) as pool:
        outs = pool.map(do, chunks)
    nl = 0
    for chunk, res in zip(chunks, outs):
        pt = canon.parse_text(res['out'])
        got = {}
        for a in pt['algs']:
            got.setdefault((a['cat'], a['name']), a['notes'])
        for (c, n, asked) in chunk:
            nl += 1
            e = db[c][n]
            want = [('fail', t) for t in (e[1] if len(e) > 1 else [])] + [('warn', t) for t in (e[2] if len(e) > 2 else [])]
            shown = got.get((c, n)) or got.get((c, asked))
            if shown is None:
                ctx.violation('lookup-missing' + ('-gss' if asked != n else ''), '--lookup %s does not print an entry for %s %r' % (asked, c, n), {'op': 'lookup', 'name': asked})
                continue
            sf = [x for x in shown if x[0] in ('fail', 'warn')]
            if sf != want:
                ctx.violation('lookup-differs/%s' % c, '--lookup %s shows %r, the database says %r' % (asked, sf, want), {'op': 'lookup', 'name': asked})
    # measured attributes over TCP: the notes of each host-key algorithm in a real audit (host-key probes run) are those of the same
    # algorithm with the same measured size in isolation; sizes measured for one key type never colour another type
    import peers as P
    hk_cases = []
    fam = ['rsa-sha2-512', 'rsa-sha2-256', 'ssh-rsa']
    for size in ((1024, 2048, 3072) if q else (1024, 2048, 3072, 4096, 1536)):
        for keys in ([fam[0], 'ssh-ed25519'], ['ssh-ed25519'] + fam, fam[:2] + ['ssh-ed25519', 'ecdsa-sha2-nistp256'], ['ssh-ed25519', 'ssh-rsa']):
            hk_cases.append({'size': size, 'key': keys, 'ca': None, 'banner': rng.choice(['SSH-2.0-OpenSSH_8.4', 'SSH-2.0-OpenSSH_9.6', 'SSH-2.0-dropbear_2020.81'])})
    # certificate host keys: what is learnt about the signing CA of one certificate must not colour the keys probed after it
    RC, EC = 'ssh-rsa-cert-v01@openssh.com', 'ssh-ed25519-cert-v01@openssh.com'
    for ca in ('ecdsa', 'rsa1024', 'rsa2048', 'ed25519'):
        for keys in ([RC, 'ssh-ed25519'], ['ssh-ed25519', RC, 'rsa-sha2-512'], [EC, 'ssh-rsa', 'ssh-ed25519'], [RC, EC, 'ecdsa-sha2-nistp256', 'ssh-ed25519']):
            hk_cases.append({'size': 3072, 'key': keys, 'ca': ca, 'banner': 'SSH-2.0-OpenSSH_8.4'})

    def do_hk(z, c):
        hk = {}
        cab = {None: None, 'ecdsa': P.ecdsa_blob(), 'rsa1024': P.rsa_blob(1024, seed=7), 'rsa2048': P.rsa_blob(2048, seed=7), 'ed25519': P.ed25519_blob(seed=7)}.get(c.get('ca'))
        for t in c['key']:
            if t in fam: hk[t.encode()] = P.rsa_blob(c['size'])
            elif t == 'ssh-ed25519': hk[t.encode()] = P.ed25519_blob()
            elif t == 'ssh-rsa-cert-v01@openssh.com' and cab: hk[t.encode()] = P.rsa_cert_blob(c['size'], cab)
            elif t == 'ssh-ed25519-cert-v01@openssh.com' and cab: hk[t.encode()] = P.ed25519_cert_blob(cab)
            elif t == 'ecdsa-sha2-nistp256' and c.get('ca'): hk[t.encode()] = P.ecdsa_blob()
        srv = P.new_ssh2_server(dict(banner=c['banner'].encode(), kex=['curve25519-sha256', 'diffie-hellman-group14-sha256'], key=c['key'], enc=['aes256-ctr'], mac=['hmac-sha2-512-etm@openssh.com'], hostkeys=hk))
        try:
            return z.run(['-j', '--skip-rate-test', '-t', '2', '127.0.0.1:%d' % srv.port], timeout=90)
        finally:
            srv.shutdown()
    refkey = lambda c, t: (c['banner'], t, c['size'] if (t in fam or 'rsa-cert' in t) else 0, c.get('ca') if '-cert-' in t else ('x' if (t.startswith('ecdsa') and c.get('ca')) else None))
    refs = sorted({refkey(c, t) for c in hk_cases for t in c['key']}, key=repr)
    ref_cases = [{'size': sz, 'key': [t], 'banner': ban, 'ca': ca} for (ban, t, sz, ca) in refs]
    with runner.Pool(8) as pool:
        hk_out = pool.map(do_hk, hk_cases)
        ref_out = pool.map(do_hk, ref_cases)

    def key_notes(res, desc):
        try:
            js = canon.load_json(res['out'])
        except canon.CanonError as e:
            ctx.violation('cli-hostkeys/no-report', 'exit %r, %s: %s' % (res['rc'], e, (res['out'] + res['err'])[-300:]), desc)
            return None
        return {a['name']: sorted(a['notes']) for a in canon.json_algs(js) if a['cat'] == 'key'}
    ref_notes = {}
    for k, c, res in zip(refs, ref_cases, ref_out):
        d = key_notes(res, {'op': 'cli-hostkeys', 'case': c})
        if d is not None:
            ref_notes[k] = d.get(k[1])
    for c, res in zip(hk_cases, hk_out):
        desc = {'op': 'cli-hostkeys', 'case': c}
        got = key_notes(res, desc)
        if got is None:
            continue
        for t in c['key']:
            k = refkey(c, t)
            if k not in ref_notes:
                continue
            want = ref_notes[k]
            nontriv.add(('hostkey-over-tcp', t, k[2]))
            if got.get(t) != want:
                ctx.violation('measured-notes-depend-on-neighbours/key', 'host key %r audited beside %r (RSA %d bits) shows notes %r; audited alone with the same key it shows %r' % (
                    t, [x for x in c['key'] if x != t], c['size'], got.get(t), want), desc)
    nl += len(hk_cases) + len(ref_cases)
    # measured sizes at or above the documented good size add nothing: a group-exchange modulus of exactly 3072 / 4096 bits, an RSA host key of exactly 3072 / 4096 bits -
    # the algorithm's notes are then the database's own, i.e. what the same name shows when nothing could be measured (probes refused)
    GEXN = ['diffie-hellman-group-exchange-sha256', 'diffie-hellman-group-exchange-sha1']
    good_cases = [{'gex': sz, 'rsa': rs} for sz in (3072, 4096) for rs in (3072, 4096)] + [{'gex': None, 'rsa': None}]

    def do_good(z, c):
        hk = {b'rsa-sha2-512': P.rsa_blob(c['rsa']), b'ssh-rsa': P.rsa_blob(c['rsa'])} if c['rsa'] else {}
        srv = P.new_ssh2_server(dict(banner=b'SSH-2.0-dropbear_2022.83', kex=GEXN + ['curve25519-sha256'], key=['rsa-sha2-512', 'ssh-rsa'], enc=['aes256-ctr'], mac=['hmac-sha2-512-etm@openssh.com'], hostkeys=hk,
                                     gex=(lambda sz: (lambda a, b, cc: sz if (sz and a <= sz <= cc) else None))(c['gex'])), stall_limit=3.0)
        try:
            return z.run(['-j', '--skip-rate-test', '-t', '2', '127.0.0.1:%d' % srv.port], timeout=120)
        finally:
            srv.shutdown()
    with runner.Pool(8) as pool:
        good_out = pool.map(do_good, good_cases)
    base = None
    notes_of = []
    for c, res in zip(good_cases, good_out):
        try:
            js = canon.load_json(res['out'])
            notes_of.append({(a['cat'], a['name']): sorted(a['notes']) for a in canon.json_algs(js) if a['name'] in GEXN + ['rsa-sha2-512', 'ssh-rsa']})
        except canon.CanonError as e:
            ctx.violation('cli-good-sizes/no-report', 'exit %r, %s' % (res['rc'], e), {'op': 'cli-good-sizes', 'case': c})
            notes_of.append(None)
    base = notes_of[-1]
    for c, d in zip(good_cases[:-1], notes_of[:-1]):
        if d is None or base is None:
            continue
        for k, v in d.items():
            nontriv.add(('good-size-over-tcp', k[1], c['gex'], c['rsa']))
            if v != base.get(k):
                ctx.violation('good-size-adds-notes/%s' % k[0], '%s %r measured at a documented good size (modulus %r bits, RSA key %r bits) shows notes %r; with nothing measured it shows %r' % (k[0], k[1], c['gex'], c['rsa'], v, base.get(k)),
                              {'op': 'cli-good-sizes', 'case': c})
    nl += len(good_cases)
    ctx.cover(len(recs) + nl, nontriv, [reportfam.jsonable_peer(recs[0]['peer'])],
              'every database name (gss-* instantiated with base64 suffixes) x placements (alone/first/last/middle among random neighbours) x roles, text vs JSON vs --lookup; plus random peers; non-trivial = distinct (category, database name) seen')
    ctx.exhaustive = not q
