"""C11 - host-key sizes, CA details and fingerprints are measured and rated correctly."""
import base64
import hashlib
import json
import re
import struct

import canon
import inproc
import peers as P
import runner
from coqlit import cstr, cz, cbytes, cbool, clist, copt, cpair, cstrs
from props.c10 import FakeSock, mk_socket

IMPORTS = ['VModel:HostKey']
LEVELS = {'fail': 'LFail', 'warn': 'LWarn', 'info': 'LInfo'}
RSA_FAMILY = ('ssh-rsa', 'rsa-sha2-256', 'rsa-sha2-512')
RSA_CERTS = ('ssh-rsa-cert-v01@openssh.com', 'rsa-sha2-256-cert-v01@openssh.com', 'rsa-sha2-512-cert-v01@openssh.com')
ED_CERT = 'ssh-ed25519-cert-v01@openssh.com'
CURVE_BITS = {'nistp256': 256, 'nistp384': 384, 'nistp521': 521}
CURVE_QLEN = {'nistp256': 65, 'nistp384': 97, 'nistp521': 133}
COQ_MAX_BITS = 8192          # list literals beyond ~1k elements are slow in coqc: bigger keys are checked on the implementation side only
F_SIG = P.kexdh_reply(b'')[1 + 4:]   # the f and signature strings the scripted server sends after the blob


def exname(e):
    n = type(e).__name__
    return {'error': 'StructError'}.get(n, n)


# ---------------------------------------------------------------- key descriptors: blob + ground truth
def build(d):
    """descriptor -> host key blob (written from the RFCs / PROTOCOL.certkeys in peers.py)."""
    k = d['k']
    if k == 'rsa': return P.rsa_blob(d['bits'], seed=d.get('seed', 1))
    if k == 'rsa-nopad':   # modulus field without the leading zero byte (k/8 bytes): seen from non-OpenSSH encoders
        n = P.rsa_modulus(d['bits'], d.get('seed', 1))
        return P.sstr(b'ssh-rsa') + P.mpint(65537) + P.sstr(n.to_bytes((d['bits'] + 7) // 8, 'big'))
    if k == 'ed25519': return P.ed25519_blob(d.get('seed', 1))
    if k == 'ed448': return P.ed448_blob(d.get('seed', 1))
    if k == 'ecdsa': return P.ecdsa_blob(d['curve'].encode(), CURVE_QLEN[d['curve']])
    if k == 'dss':
        return P.sstr(b'ssh-dss') + P.mpint(P.rsa_modulus(d.get('bits', 1024))) + P.mpint(P.rsa_modulus(160)) + P.mpint(5) + P.mpint(7)
    if k == 'rsa-cert': return P.rsa_cert_blob(d['bits'], build(d['ca']), seed=d.get('seed', 1))
    if k == 'ed25519-cert': return P.ed25519_cert_blob(build(d['ca']), seed=d.get('seed', 1))
    if k == 'ecdsa-cert':
        c = d['curve'].encode()
        return P.cert_blob(b'ecdsa-sha2-' + c + b'-cert-v01@openssh.com', P.sstr(c) + P.sstr(b'\x04' + bytes(CURVE_QLEN[d['curve']] - 1)), build(d['ca']))
    if k == 'raw': return d['blob']
    raise AssertionError(k)


def truth(d):
    """descriptor -> (key bits, ca type or '', ca bits or 0): the size of the key IN the blob, from what was generated."""
    k = d['k']
    if k in ('rsa', 'rsa-nopad'): return (d['bits'], '', 0)
    if k == 'ed25519': return (256, '', 0)
    if k == 'ed448': return (448, '', 0)
    if k == 'ecdsa': return (CURVE_BITS[d['curve']], '', 0)
    if k == 'dss': return (d.get('bits', 1024), '', 0)
    if k in ('rsa-cert', 'ed25519-cert', 'ecdsa-cert'):
        ca = d['ca']
        cat = {'rsa': 'ssh-rsa', 'rsa-nopad': 'ssh-rsa', 'ed25519': 'ssh-ed25519', 'ecdsa': 'ecdsa-sha2-' + ca.get('curve', '')}[ca['k']]
        return (d['bits'] if k == 'rsa-cert' else 256 if k == 'ed25519-cert' else CURVE_BITS[d['curve']], cat, truth(ca)[0])
    raise AssertionError(k)


def sha256_fp(b):
    return 'SHA256:' + base64.b64encode(hashlib.sha256(b).digest()).decode().rstrip('=')


def md5_fp(b):
    h = hashlib.md5(b).hexdigest()
    return 'MD5:' + ':'.join(h[i:i + 2] for i in range(0, 32, 2))


def reply_payload(blob):
    return P.kexdh_reply(blob)[1:]


# ---------------------------------------------------------------- (a) KexDH.recv_reply in-process
def impl_recv(payload, ptype=31):
    from ssh_audit.kexdh import KexCurve25519_SHA256
    from ssh_audit.outputbuffer import OutputBuffer
    f = FakeSock([P.frame2(bytes([ptype]) + payload)])
    s = mk_socket(f)
    out = OutputBuffer()
    k = KexCurve25519_SHA256(out)
    try:
        blob = k.recv_reply(s)
        if blob is None:
            return ('none',)
        return ('ok', blob, k.get_hostkey_size(), k.get_ca_type(), k.get_ca_size())
    except Exception as e:  # noqa
        return ('raise', exname(e))
    finally:
        s._SSH_Socket__sock = None


def cobserved(r):
    if r[0] == 'ok':
        return '(Ok (%s, %s, %s, %s))' % (cbytes(r[1]), cz(r[2]), cstr(r[3]), cz(r[4]))
    return '(Raise %s)' % r[1]


def mutate_blob(rng, blob):
    """structure-aware mutations of a host key blob"""
    m = rng.choice(['trunc', 'trunc', 'len', 'flip', 'byte', 'nonascii', 'zero-field', 'drop4', 'append'])
    if m == 'trunc':
        return m, blob[:rng.randrange(len(blob) + 1)]
    if m == 'len':    # overwrite one aligned-looking u32 with a boundary value
        i = rng.randrange(max(1, len(blob) - 3))
        return m, blob[:i] + struct.pack('>I', rng.choice([0, 1, 2, 3, 4, 31, 32, 33, 57, 255, 256, 257, 2 ** 16, 2 ** 31, 2 ** 32 - 1])) + blob[i + 4:]
    if m == 'flip':
        i = rng.randrange(len(blob))
        return m, blob[:i] + bytes([blob[i] ^ (1 << rng.randrange(8))]) + blob[i + 1:]
    if m == 'byte':
        i = rng.randrange(len(blob))
        return m, blob[:i] + bytes([rng.choice([0, 1, 2, 3, 4, 5, 127, 128, 255])]) + blob[i + 1:]
    if m == 'nonascii':
        i = 4 + rng.randrange(6)
        return m, blob[:i] + bytes([rng.choice([128, 200, 255])]) + blob[i + 1:]
    if m == 'zero-field':   # find a string field and empty it
        fields, p = [], 0
        while p + 4 <= len(blob):
            n = struct.unpack('>I', blob[p:p + 4])[0]
            if p + 4 + n > len(blob): break
            fields.append((p, n)); p += 4 + n
        if not fields: return m, blob
        p, n = rng.choice(fields)
        return m, blob[:p] + struct.pack('>I', 0) + blob[p + 4 + n:]
    if m == 'drop4':
        i = rng.randrange(len(blob))
        return m, blob[:i] + blob[i + 4:]
    return m, blob + bytes(rng.randrange(256) for _ in range(rng.randrange(1, 9)))


def ca_descs(rng, quick):
    rs = [1024, 2040, 2047, 2048, 2056, 3064, 3072, 4096] if quick else [512, 768, 1024, 1536, 2032, 2040, 2047, 2048, 2049, 2056, 2064, 3056, 3064, 3071, 3072, 3073, 3080, 4096, 8192]
    cas = [{'k': 'rsa', 'bits': b, 'seed': 5} for b in rs] + [{'k': 'ed25519', 'seed': 9}] + [{'k': 'ecdsa', 'curve': c} for c in CURVE_BITS]
    return cas


def rsa_sweep(quick, cap=16384):
    s = set(range(512, cap + 1, 64))
    for c in (2048, 3072):
        s.update(range(c - 16, c + 17) if not quick else [c - 16, c - 9, c - 8, c - 7, c - 1, c, c + 1, c + 7, c + 8, c + 9, c + 16])
    s.update([1016, 1024, 1032, 4088, 4104])
    return sorted(x for x in s if x <= cap)


def parse_cases(ctx):
    """(label, payload, packet type)"""
    rng, q = ctx.rng, ctx.quick
    cases = []
    descs = []
    sweep = rsa_sweep(q, COQ_MAX_BITS)
    for b in (sweep if not q else sorted(set(rng.sample(sweep, 45)) | {2040, 2047, 2048, 2049, 2056, 3064, 3072, 3080, 1024, 4096})):
        descs.append({'k': 'rsa', 'bits': b})
    for b in (512, 1016, 1024, 2040, 2048, 3072, 4096):
        descs.append({'k': 'rsa-nopad', 'bits': b})
    descs += [{'k': 'ed25519'}, {'k': 'ed448'}, {'k': 'dss'}] + [{'k': 'ecdsa', 'curve': c} for c in CURVE_BITS]
    cas = ca_descs(rng, q)
    for ca in cas:
        descs.append({'k': 'ed25519-cert', 'ca': ca})
    for ca in (cas if not q else rng.sample(cas, 5) + cas[-4:]):
        for b in ([1024, 2048, 3072] if q else [1024, 2040, 2048, 2056, 3064, 3072, 4096]):
            descs.append({'k': 'rsa-cert', 'bits': b, 'ca': ca})
    blobs = [(json.dumps(d, sort_keys=True), build(d)) for d in descs]
    # odd but well-formed blobs
    ca_ed = build({'k': 'ed25519'})
    blobs.append(('cert-type-1', P.cert_blob(b'ssh-ed25519-cert-v01@openssh.com', P.sstr(bytes(32)), ca_ed, cert_type=1)))
    blobs.append(('cert-type-0', P.cert_blob(b'ssh-rsa-cert-v01@openssh.com', P.mpint(65537) + P.mpint(P.rsa_modulus(2048)), ca_ed, cert_type=0)))
    blobs.append(('rsa-cert-v00', P.cert_blob(b'ssh-rsa-cert-v00@openssh.com', P.mpint(65537) + P.mpint(P.rsa_modulus(1024)), P.rsa_blob(1024))))
    blobs.append(('rsa-sha2-256-cert-inner-name', P.cert_blob(b'rsa-sha2-256-cert-v01@openssh.com', P.mpint(65537) + P.mpint(P.rsa_modulus(2048)), ca_ed)))
    blobs.append(('ecdsa-cert', P.cert_blob(b'ecdsa-sha2-nistp256-cert-v01@openssh.com', P.sstr(b'nistp256') + P.sstr(b'\x04' + bytes(64)), ca_ed)))
    blobs.append(('ecdsa-ca-compressed', P.ed25519_cert_blob(P.sstr(b'ecdsa-sha2-nistp256') + P.sstr(b'nistp256') + P.sstr(b'\x02' + bytes(32)))))
    blobs.append(('ecdsa-ca-empty-point', P.ed25519_cert_blob(P.sstr(b'ecdsa-sha2-nistp256') + P.sstr(b'nistp256') + P.sstr(b''))))
    blobs.append(('ecdsa-ca-missing-point', P.ed25519_cert_blob(P.sstr(b'ecdsa-sha2-nistp256') + P.sstr(b'nistp256') + struct.pack('>I', 65))))
    blobs.append(('unknown-ca-type', P.ed25519_cert_blob(P.sstr(b'ssh-xmss@openssh.com') + P.sstr(b'abc') + P.sstr(bytes(70)))))
    blobs.append(('empty-blob', b''))
    blobs.append(('type-only', P.sstr(b'ssh-rsa')))
    blobs.append(('rsa-empty-e', P.sstr(b'ssh-rsa') + P.sstr(b'') + P.mpint(P.rsa_modulus(1024))))
    blobs.append(('rsa-empty-n', P.sstr(b'ssh-rsa') + P.mpint(3) + P.sstr(b'')))
    blobs.append(('rsa-1-byte-n', P.sstr(b'ssh-rsa') + P.mpint(3) + P.sstr(b'\x7f')))
    blobs.append(('ed25519-empty-key', P.sstr(b'ssh-ed25519') + P.sstr(b'')))
    blobs.append(('ed25519-long-key', P.sstr(b'ssh-ed25519') + P.sstr(bytes(64))))
    blobs.append(('unknown-type', P.sstr(b'ssh-foo') + P.sstr(b'ab') + P.sstr(bytes(47))))
    for label, blob in blobs:
        cases.append((label, reply_payload(blob), 31))
    cases.append(('gex-reply-type', reply_payload(blobs[0][1]), 33))
    cases.append(('wrong-packet-type', reply_payload(blobs[0][1]), 21))
    cases.append(('blob-only', P.sstr(blobs[0][1]), 31))
    cases.append(('blob+f-only', P.sstr(blobs[0][1]) + P.sstr(bytes(32)), 31))
    cases.append(('empty-payload', b'', 31))
    # every truncation of a few short blobs (re-wrapped in a well-formed reply), and of their payloads
    small = [b for (l, b) in blobs if l in ('{"k": "ed25519"}', '{"k": "ed448"}', 'ecdsa-ca-compressed')]
    small.append(build({'k': 'ed25519-cert', 'ca': {'k': 'ed25519', 'seed': 9}}))
    small.append(build({'k': 'ed25519-cert', 'ca': {'k': 'ecdsa', 'curve': 'nistp256'}}))
    small.append(build({'k': 'rsa-cert', 'bits': 512, 'ca': {'k': 'rsa', 'bits': 512}}))
    small.append(build({'k': 'rsa', 'bits': 512}))
    for blob in small:
        step = 1 if not q else 3
        for i in range(0, len(blob), step):
            cases.append(('blob-prefix', reply_payload(blob[:i]), 31))
        pl = reply_payload(blob)
        for i in sorted(set(range(0, len(pl), 7 if q else 2)) | set(range(len(pl) - 110, len(pl)))):
            if i >= 0:
                cases.append(('payload-prefix', pl[:i], 31))
    # random structure-aware mutations
    pool = [b for (l, b) in blobs if 0 < len(b) <= 900]
    for _ in range(500 if q else 12000):
        m, b2 = mutate_blob(rng, rng.choice(pool))
        cases.append(('mut-' + m, reply_payload(b2), 31))
    return cases


# ---------------------------------------------------------------- (b) HostKeyTest.perform_test in-process
class StubSock:
    """Stands in for SSH_Socket during perform_test: script maps the probed host key type to
    None (connection closed: packet type -1) or the payload of a KEXDH_REPLY."""

    def __init__(self, script, kexinit):
        self.script, self.kexinit = script, kexinit
        self.connected, self.cur, self.stage, self.probed = False, None, 0, []

    def is_connected(self): return self.connected
    def close(self): self.connected = False
    def connect(self): self.connected = True; self.stage = 0; return None
    def get_banner(self): return None, [], None

    def send_kexinit(self, key_exchanges, hostkeys, ciphers, macs, compressions, languages):
        self.cur = hostkeys[0]
        self.probed.append(self.cur)

    def read_packet(self, sshv=2):
        self.stage += 1
        if self.stage == 1:
            return 20, self.kexinit
        pl = self.script.get(self.cur)
        if pl is None:
            return -1, b'closed'
        return 31, pl

    def write_byte(self, v): pass
    def write_string(self, v): pass
    def write_mpint2(self, v): pass
    def send_packet(self): pass


class StubKex:
    def __init__(self, hs, cat, cs): self.v = (hs, cat, cs)
    def send_init(self, s): pass
    def recv_reply(self, s): return b'\x00\x00\x00\x03abc'
    def get_hostkey_size(self): return self.v[0]
    def get_ca_type(self): return self.v[1]
    def get_ca_size(self): return self.v[2]


def table_types():
    from ssh_audit.hostkeytest import HostKeyTest
    return HostKeyTest.HOST_KEY_TYPES


def entry_notes(e):
    return [[x for x in comp if x is not None] for comp in e[1:]]


def run_probe(keys, script, kex_group=None, types=None):
    from ssh_audit.kexdh import KexCurve25519_SHA256
    from ssh_audit.outputbuffer import OutputBuffer
    from ssh_audit.hostkeytest import HostKeyTest
    from ssh_audit.ssh2_kex import SSH2_Kex
    from ssh_audit.ssh2_kexparty import SSH2_KexParty
    from ssh_audit.ssh2_kexdb import SSH2_KexDB
    inproc.reset_db()
    try:
        out = OutputBuffer()
        party = SSH2_KexParty(['aes256-ctr'], ['hmac-sha2-256'], ['none'], [''])
        kex = SSH2_Kex(out, bytes(16), ['curve25519-sha256'], list(keys), party, party, False, 0)
        s = StubSock(script, kex.payload)
        exc = None
        try:
            HostKeyTest.perform_test(out, s, kex, 'curve25519-sha256', kex_group or KexCurve25519_SHA256(out), types or HostKeyTest.HOST_KEY_TYPES)
        except Exception as e:  # noqa
            exc = exname(e)
        db = SSH2_KexDB.get_db()
        notes = {n: entry_notes(db['key'][n]) for n in table_types()}
        hks = [(t, (v['raw_hostkey_bytes'], v['hostkey_size'], v['ca_key_type'], v['ca_key_size'])) for t, v in kex.host_keys().items()]
        return {'probed': s.probed, 'hostkeys': hks, 'notes': notes, 'exc': exc}
    finally:
        inproc.reset_db()


def cscript(script):
    return clist(list(script.items()), lambda kv: cpair(cstr(kv[0]), copt(kv[1], cbytes)))


def chks(hks):
    return clist(hks, lambda kv: cpair(cstr(kv[0]), '(mk_hk %s %s %s %s)' % (cbytes(kv[1][0]), cz(kv[1][1]), cstr(kv[1][2]), cz(kv[1][3]))))


def probe_term(keys, script, res):
    notes = clist(list(res['notes'].items()), lambda kv: cpair(cstr(kv[0]), clist(kv[1], cstrs)))
    return ('let st := perform_test %s (probe_of %s) ssh2_db in hostkeys_eqb (st_hostkeys st) %s && forallb (fun p => notes_eqb (entry_notes (st_db st) (fst p)) (snd p)) %s'
            % (cstrs(keys), cscript(script), chks(res['hostkeys']), notes))


def key_lists(rng, n):
    """server host-key lists: every subset/order of the RSA-family names, mixed with other names"""
    import itertools
    fam = []
    for k in range(0, 4):
        for sub in itertools.permutations(RSA_FAMILY, k):
            fam.append(list(sub))
    others = ['ssh-ed25519', 'ssh-ed448', 'ecdsa-sha2-nistp256', 'ssh-dss', ED_CERT] + list(RSA_CERTS) + ['ssh-unknown@example.com']
    res = []
    for f in fam:
        res.append(list(f))
    while len(res) < n:
        f = list(rng.choice(fam))
        o = rng.sample(others, rng.randrange(0, 4))
        l = f + o
        rng.shuffle(l)
        res.append(l)
    return [l for l in res if l]


def desc_for(rng, name, sizes, cas):
    if name in RSA_FAMILY: return {'k': 'rsa', 'bits': rng.choice(sizes)}
    if name in RSA_CERTS: return {'k': 'rsa-cert', 'bits': rng.choice(sizes), 'ca': rng.choice(cas)}
    if name == 'ssh-ed25519': return {'k': 'ed25519'}
    if name == 'ssh-ed448': return {'k': 'ed448'}
    if name == ED_CERT: return {'k': 'ed25519-cert', 'ca': rng.choice(cas)}
    if name.startswith('ecdsa-sha2-nistp') and '-cert-' not in name: return {'k': 'ecdsa', 'curve': name[len('ecdsa-sha2-'):]}
    if name == 'ssh-dss': return {'k': 'dss'}
    return None


# ---------------------------------------------------------------- oracle helpers (from the statement, not from the model)
SMALL_RE = re.compile(r'^using small (\d+)-bit (hostkey |CA key )?modulus$')
W2K = '2048-bit modulus only provides 112-bits of symmetric strength'
WECC = '224-bit ECC modulus only provides 112-bits of symmetric strength'


def size_class(bits):
    if bits % 16 == 0: return 'bits%16=0'
    if bits % 16 == 8: return 'bits%16=8'
    return 'bits%8!=0'


SEVN = ['none', 'warn', 'fail']


def band(bits):
    return 'lt2048' if bits < 2048 else 'lt3072' if bits < 3072 else 'ge3072'


def want_sev(bits):
    return 2 if bits < 2048 else 1 if bits < 3072 else 0


def size_note_sev(notes, which):
    """which: '' (plain), 'hostkey ', 'CA key ' -> worst size severity the notes express for that key."""
    sev = 0
    for lvl, t in notes:
        m = SMALL_RE.match(t)
        if lvl == 'fail' and m and (m.group(2) or '') == which:
            sev = max(sev, 2)
    return sev


def run(ctx):
    ctx.proofs(['C11'])
    rng, q = ctx.rng, ctx.quick
    nontriv = set()
    hist = {}
    types = table_types()

    # ================= (a) recv_reply: parsing correspondence + size oracle on the implementation
    cases = parse_cases(ctx)
    terms, descs = [], []
    for label, payload, ptype in cases:
        r = impl_recv(payload, ptype)
        hist['recv ' + label.split('{')[0][:24]] = hist.get('recv ' + label.split('{')[0][:24], 0) + 1
        nontriv.add(('recv', label if not label.startswith('{') else json.loads(label)['k'], r[0], r[1] if r[0] == 'raise' else (r[2:] if r[0] == 'ok' and not label.startswith('{') else None)))
        if ptype in (31, 33):
            terms.append('observed_eqb (parse_reply %s) %s' % (cbytes(payload), cobserved(r)))
            descs.append({'op': 'recv_reply', 'label': label, 'payload': payload.hex(), 'impl': repr(r)[:300]})
        else:
            ctx.evaluations += 1
            if r != ('raise', 'KexDHException'):
                ctx.violation('recv-wrong-packet-type', 'packet type %d accepted as a key exchange reply: %r' % (ptype, r), {'op': 'recv_reply', 'ptype': ptype})
        # oracle on well-formed generated keys: reported size == size of the key in the blob
        if label.startswith('{') and r[0] == 'ok':
            d = json.loads(label)
            bits, cat, cbits = truth(d)
            if d['k'] in ('rsa', 'rsa-nopad', 'rsa-cert', 'ed25519', 'ed448', 'ed25519-cert') and r[2] != bits:
                ctx.violation('host-size-off/%s' % size_class(bits), 'a %d-bit %s host key is measured as %d bits' % (bits, d['k'], r[2]), {'op': 'recv_reply', 'desc': d})
            if cat:
                if r[3] != cat:
                    ctx.violation('ca-type-wrong', 'CA of type %s reported as %r' % (cat, r[3]), {'op': 'recv_reply', 'desc': d})
                if r[4] != cbits:
                    key = 'ca-size-off/%s' % (size_class(cbits) if cat == 'ssh-rsa' else cat)
                    ctx.violation(key, 'a %d-bit %s CA key is measured as %d bits' % (cbits, cat, r[4]), {'op': 'recv_reply', 'desc': d})
        elif label.startswith('{') and r[0] != 'ok':
            ctx.violation('recv-wellformed-rejected', 'well-formed key %s: %r' % (label, r), {'op': 'recv_reply', 'desc': json.loads(label)})
    # implementation-only: the sizes beyond the Coq literal cap
    for b in [x for x in rsa_sweep(q) if x > COQ_MAX_BITS][:: (8 if q else 1)]:
        r = impl_recv(reply_payload(P.rsa_blob(b)))
        ctx.evaluations += 1
        nontriv.add(('recv-big', b))
        if r[0] != 'ok' or r[2] != b:
            ctx.violation('host-size-off/%s' % size_class(b), 'a %d-bit rsa host key is measured as %r' % (b, r[2:3]), {'op': 'recv_reply', 'desc': {'k': 'rsa', 'bits': b}})
    ctx.correspond('recv_reply', IMPORTS, '', terms, lambda i: descs[i])
    ctx.cover(len(terms), set(), [descs[0]], 'KexDH.recv_reply through a fake socket on generated RSA/Ed25519/Ed448/ECDSA/DSS/certificate replies, every truncation of short blobs and payloads, structure-aware mutations; compared: blob, host-key size, CA type, CA size, exception class')

    # ================= (b) perform_test decision logic, in-process
    # b1: thresholds swept directly through the real perform_test with a stub key exchange object
    t2, d2 = [], []
    hs_set = [0, 1, 8, 223, 224, 225, 255, 256, 257, 448, 512, 1024, 2032, 2040, 2047, 2048, 2049, 2056, 3064, 3071, 3072, 3073, 3080, 4096, 16384]
    cs_set = [0, 1, 223, 224, 255, 256, 384, 528, 1024, 2047, 2048, 2049, 3071, 3072, 3073, 4096]
    cat_set = ['', 'ssh-rsa', 'rsa-sha2-256', 'rsa-sha2-512', 'ssh-ed25519', 'ecdsa-sha2-nistp256', 'ecdsa-sha2-nistp521', 'ssh-dss', 'ssh-ed448']
    master = inproc.tables()
    combos = []
    for name in types:
        for hs in hs_set:
            for cat in cat_set:
                for cs in cs_set:
                    combos.append((name, hs, cat, cs))
    if q:
        must = [c for c in combos if c[2] == '' and c[3] == 0]
        combos = must + rng.sample(combos, 2500)
    for name, hs, cat, cs in combos:
        res = run_probe([name], {name: b''}, kex_group=StubKex(hs, cat, cs), types={name: types[name]})
        e = res['notes'][name]
        m = entry_notes(master['key'][name]) + [[], []]
        fs, ws = e[0][len(m[0]):], e[1][len(m[1]):]
        t2.append('let fw := size_notes %s %s %s %s %s in strs_eqb (fst fw) %s && strs_eqb (snd fw) %s' % (cstr(name), cbool(types[name]['cert']), cz(hs), cstr(cat), cz(cs), cstrs(fs), cstrs(ws)))
        d2.append({'op': 'size_notes', 'name': name, 'hs': hs, 'ca_type': cat, 'cs': cs, 'fails': fs, 'warns': ws, 'exc': res['exc']})
        nontriv.add(('notes', name, cat, tuple(re.sub(r'\d+', 'N', x) for x in fs), tuple(ws)))
        # oracle (statement): RSA-family host keys and RSA CA keys: <2048 fail, [2048,3072) warn, >=3072 nothing
        if name in RSA_FAMILY and hs > 0:
            sev = 2 if any(SMALL_RE.match(x) for x in fs) else 1 if W2K in ws else 0
            if sev != want_sev(hs):
                ctx.violation('rsa-threshold/host', '%s with a %d-bit key gets fails=%r warns=%r' % (name, hs, fs, ws), d2[-1])
        if name in RSA_CERTS and hs > 0 and cat in RSA_FAMILY and cs > 0:
            hsev = 2 if any(SMALL_RE.match(x) and 'hostkey' in x for x in fs) else 0
            csev = 2 if any(SMALL_RE.match(x) and 'CA key' in x for x in fs) else 0
            wsev = 1 if W2K in ws else 0
            if max(hsev, csev, wsev) != max(want_sev(hs), want_sev(cs)) or (hsev == 2) != (hs < 2048) or (csev == 2) != (cs < 2048):
                ctx.violation('rsa-threshold/cert', '%s with a %d-bit key and a %d-bit RSA CA gets fails=%r warns=%r' % (name, hs, cs, fs, ws), d2[-1])
        if name in ('ssh-ed25519', 'ssh-ed448') and cat == '' and cs == 0 and hs in (256, 448) and (fs or ws):
            if (name, hs) in (('ssh-ed25519', 256), ('ssh-ed448', 448)):
                ctx.violation('%s-size-note' % name[4:], '%s (fixed %d-bit key) gets size notes fails=%r warns=%r' % (name, hs, fs, ws), d2[-1])
    ctx.correspond('size_notes', IMPORTS, '', t2, lambda i: d2[i])
    ctx.cover(len(t2), set(), [d2[0]], 'real perform_test with a stub key-exchange object: every table type x host sizes around 224/256/2048/3072 x CA types x CA sizes')

    # b2: the whole probe loop (real KexDH parsing) over key lists and scripted replies
    sizes = rsa_sweep(True, 4096)
    cas = ca_descs(rng, True)
    t3, d3 = [], []
    for keys in key_lists(rng, 120 if q else 1500):
        script = {}
        fam_blob = reply_payload(build({'k': 'rsa', 'bits': rng.choice(sizes)}))
        for name in keys:
            d = desc_for(rng, name, sizes, cas)
            if d is None:
                continue
            pl = fam_blob if name in RSA_FAMILY else reply_payload(build(d))
            fate = rng.choice(['ok'] * 6 + ['none', 'bad', 'mut'])
            if fate == 'none': pl = None
            elif fate == 'bad': pl = reply_payload(build(d)[:rng.randrange(4, 30)])
            elif fate == 'mut': pl = reply_payload(mutate_blob(rng, build(d))[1])
            script[name] = pl
        res = run_probe(keys, script)
        if res['exc']:
            ctx.violation('perform-test-exception/%s' % res['exc'], 'perform_test raised %s' % res['exc'], {'op': 'perform_test', 'keys': keys})
            continue
        t3.append(probe_term(keys, script, res))
        d3.append({'op': 'perform_test', 'keys': keys, 'script': {k: (v.hex() if v is not None else None) for k, v in script.items()}, 'probed': res['probed'],
                   'hostkeys': [(t, v[1], v[2], v[3]) for t, v in res['hostkeys']]})
        nontriv.add(('loop', tuple(k for k in keys if k in RSA_FAMILY), tuple(res['probed'])[:4]))
        # oracle: no reply / unparsable reply -> nothing recorded for that type (non-RSA names: probed once)
        recorded = dict(res['hostkeys'])
        for name in keys:
            if name in script and name not in RSA_FAMILY and name in res['probed']:
                got_reply = script[name] is not None and impl_recv(script[name])[0] == 'ok'
                if not got_reply and name in recorded:
                    ctx.violation('no-reply-recorded', 'probe of %s got no usable reply but a host key was recorded (%r)' % (name, recorded[name][1:]), d3[-1])
        # oracle: RSA family: all three names carry identical records and notes deltas
        fam = [recorded.get(n) for n in RSA_FAMILY]
        if any(f is not None for f in fam) and not all(f == fam[0] for f in fam):
            ctx.violation('rsa-family-records-differ', 'RSA-family records differ: %r' % ([f and f[1:] for f in fam],), d3[-1])
    ctx.correspond('perform_test', IMPORTS, '', t3, lambda i: d3[i])
    ctx.cover(len(t3), set(), [d3[0]] if d3 else [], 'real perform_test + real KexDH over a scripted socket: every subset/order of the RSA-family names mixed with other types; replies ok / absent / truncated / mutated; compared: recorded host keys (order, blob, sizes, CA) and the database notes of every table type')

    # ================= (c) end-to-end CLI over TCP
    cli(ctx, nontriv)
    ctx.extra['op_histogram'] = hist
    ctx.cover(0, nontriv, [], 'non-trivial = distinct (layer, key kind / mutation, outcome or exception, probe order, size class x rating)')


KEX_CHOICES = [['curve25519-sha256'], ['diffie-hellman-group14-sha256'], ['ecdh-sha2-nistp256'], ['diffie-hellman-group1-sha1'], ['curve25519-sha256@libssh.org', 'ecdh-sha2-nistp521'],
               ['diffie-hellman-group16-sha512'], ['ecdh-sha2-nistp384'], ['sntrup761x25519-sha512@openssh.com', 'diffie-hellman-group14-sha1']]


def cli_cases(ctx):
    rng, q = ctx.rng, ctx.quick
    cases = []
    cas = ca_descs(rng, q)
    sweep = rsa_sweep(q)
    import itertools
    fams = [list(p) for k in (1, 2, 3) for p in itertools.permutations(RSA_FAMILY, k)]

    def add(keys, hk, opts, kind, faults=None):
        cases.append({'keys': keys, 'hk': hk, 'opts': opts, 'kind': kind, 'kex': rng.choice(KEX_CHOICES), 'faults': faults})
    # RSA sweep: each size under a subset/order of the family names
    pick = sweep if not q else sorted(set(rng.sample(sweep, 60)) | {1024, 2032, 2040, 2047, 2048, 2049, 2056, 3064, 3071, 3072, 3073, 3080, 4096, 8192, 16384})
    for i, b in enumerate(pick if q else pick * 3):
        fam = fams[i % len(fams)] if not q else rng.choice(fams)
        d = {'k': 'rsa', 'bits': b}
        extra = rng.choice([[], ['ssh-ed25519'], ['ssh-ed25519', 'ssh-ed448'], ['ecdsa-sha2-nistp256']])
        keys = fam + extra
        rng.shuffle(keys)
        hk = {n: d for n in fam}
        for n in extra:
            hk[n] = desc_for(rng, n, sweep, cas)
        add(keys, hk, rng.choice([[], ['-v'], ['-j'], ['-b'], ['-jj']]) if q else [[], ['-j'], ['-v'], ['-b'], ['-jj'], ['-j']][(i // len(pick)) * 2 + i % 2], 'rsa-sweep')
    # every subset/order of the family at the interesting sizes
    for fam in fams:
        for b in ([2040, 3072] if q else [1024, 2040, 2048, 3064, 3072, 4096]):
            add(list(fam), {n: {'k': 'rsa', 'bits': b} for n in fam}, rng.choice([[], ['-j'], ['-v']]), 'family')
    # certificates: RSA and Ed25519 certs x CA kinds and sizes
    cert_sizes = [1024, 2048, 3072] if q else [1024, 2040, 2048, 2056, 3064, 3072, 4096]
    combos = ([(n, b, ca) for n in RSA_CERTS for b in cert_sizes for ca in cas] + [(ED_CERT, 256, ca) for ca in cas] * (1 if q else 3)) * (1 if q else 2)
    if q:
        combos = rng.sample(combos, 70) + [(ED_CERT, 256, ca) for ca in cas[-4:]]
    for n, b, ca in combos:
        d = {'k': 'rsa-cert', 'bits': b, 'ca': ca} if n in RSA_CERTS else {'k': 'ed25519-cert', 'ca': ca}
        keys = [n] + rng.choice([[], ['ssh-ed25519'], ['rsa-sha2-512', 'ssh-rsa']])
        hk = {n: d}
        for x in keys[1:]:
            hk[x] = {'k': 'rsa', 'bits': 3072} if x in RSA_FAMILY else desc_for(rng, x, sweep, cas)
        rng.shuffle(keys)
        add(keys, hk, rng.choice([[], ['-v'], ['-j']]), 'cert')
    # fixed-size keys alone and together
    for keys in (['ssh-ed25519'], ['ssh-ed448'], ['ssh-ed25519', 'ssh-ed448'], ['ecdsa-sha2-nistp256', 'ecdsa-sha2-nistp384', 'ecdsa-sha2-nistp521', 'ssh-ed25519'], ['ssh-dss', 'ssh-ed25519']):
        for opts in ([], ['-v'], ['-j']):
            add(keys, {n: desc_for(rng, n, sweep, cas) for n in keys}, opts, 'fixed')
    # ECDSA certificates (outside the stated quantifier, inside "every host key a server presents")
    for curve in CURVE_BITS:
        for ca in ([cas[0], cas[-4], cas[-1]] if q else cas[::3]):
            n = 'ecdsa-sha2-%s-cert-v01@openssh.com' % curve
            add([n, 'ssh-ed25519'], {n: {'k': 'ecdsa-cert', 'curve': curve, 'ca': ca}, 'ssh-ed25519': {'k': 'ed25519'}}, rng.choice([[], ['-j']]), 'ecdsa-cert')
    # no reply / unusable reply for some types
    for _ in range(12 if q else 400):
        keys = rng.sample(['ssh-rsa', 'rsa-sha2-256', 'rsa-sha2-512', 'ssh-ed25519', 'ssh-ed448', ED_CERT, RSA_CERTS[0]], rng.randrange(2, 5))
        hk = {}
        fam_d = {'k': 'rsa', 'bits': rng.choice([1024, 2048, 3072, 4096])}
        for n in keys:
            fate = rng.choice(['ok', 'ok', 'none', 'bad'])
            d = fam_d if n in RSA_FAMILY else desc_for(rng, n, sweep, cas)
            if fate == 'none': continue
            if fate == 'bad': d = {'k': 'raw', 'blob': build(d)[:rng.randrange(0, 12)], 'bad': True}
            hk[n] = d
        add(keys, hk, rng.choice([[], ['-j'], ['-v']]), 'faulty')
    return cases


def cli(ctx, nontriv):
    rng, q = ctx.rng, ctx.quick
    cases = cli_cases(ctx)

    def do(z, c):
        blobs = {n.encode(): build(d) for n, d in c['hk'].items()}
        spec = dict(banner=b'SSH-2.0-OpenSSH_8.9', kex=c['kex'], key=c['keys'], enc=['aes256-ctr'], mac=['hmac-sha2-256'], hostkeys=blobs)
        srv = P.new_ssh2_server(spec, io_timeout=2.0, stall_limit=3.0)
        try:
            res = z.run(['-n', '--skip-rate-test', '-t', '2'] + c['opts'] + ['127.0.0.1:%d' % srv.port], timeout=90)
        finally:
            srv.shutdown()
        res['blobs'] = {n.decode(): b for n, b in blobs.items()}
        return res

    with runner.Pool() as pool:
        results = pool.map(do, cases)
    terms, descs = [], []
    mono = {}     # (kind of key) -> list of (true bits, severity shown)
    for c, res in zip(cases, results):
        blobs = res['blobs']
        rep = {'op': 'cli', 'kind': c['kind'], 'keys': c['keys'], 'kex': c['kex'], 'opts': c['opts'], 'hostkeys': {n: {k: (v.hex() if isinstance(v, bytes) else v) for k, v in d.items()} for n, d in c['hk'].items()}}
        if res['timed_out'] or res['rc'] not in (0, 2, 3):
            ctx.violation('cli-audit-failed/%s' % c['kind'], 'exit status %r (timed out %r): %s' % (res['rc'], res['timed_out'], (res['out'] + res['err'])[-300:]), rep)
            continue
        js = '-j' in c['opts'] or '-jj' in c['opts']
        verbose = '-v' in c['opts']
        script = {n: reply_payload(b) for n, b in blobs.items()}
        big = any(len(b) > COQ_MAX_BITS // 8 + 64 for b in blobs.values())
        tbl_s = clist(list(blobs.values()), lambda b: cpair(cbytes(b), cstr(sha256_fp(b))))
        tbl_m = clist(list(blobs.values()), lambda b: cpair(cbytes(b), cstr(md5_fp(b))))
        if js:
            try:
                doc = canon.load_json(res['out'])
            except canon.CanonError as e:
                ctx.violation('cli-json-unparsable', str(e)[:200], rep)
                continue
            shown = {}
            for e in doc['key']:
                shown.setdefault(e['algorithm'], {'size': e.get('keysize'), 'ca_type': e.get('ca_algorithm'), 'ca_size': e.get('casize'),
                                                  'notes': [(l, t) for l in ('fail', 'warn', 'info') for t in e['notes'].get(l, [])]})
            fins = [(f['hostkey'], f['hash_alg'], f['hash']) for f in doc['fingerprints']]
            if not big:
                exp = clist(doc['key'], lambda e: '(%s, (%s, %s), (%s, %s, %s))' % (cstr(e['algorithm']), copt(e.get('keysize'), cz),
                            copt((e['ca_algorithm'], e['casize']) if 'casize' in e else None, lambda p: cpair(cstr(p[0]), cz(p[1]))),
                            cstrs(e['notes'].get('fail', [])), cstrs(e['notes'].get('warn', [])), cstrs(e['notes'].get('info', []))))
                expf = clist(fins, lambda f: '(%s, %s, %s)' % (cstr(f[0]), cstr(f[1]), cstr(f[2])))
                terms.append('let st := perform_test %s (probe_of %s) ssh2_db in list_eqb jkey_eqb (map (json_key_view st) %s) %s && list_eqb fpj_eqb (fin_json (table_hash %s) (table_hash %s) (st_hostkeys st)) %s'
                             % (cstrs(c['keys']), cscript(script), cstrs(c['keys']), exp, tbl_s, tbl_m, expf))
                descs.append(dict(rep, out=res['out'][:1500]))
            fin_sha = {h: v for (h, a, v) in fins if a == 'SHA256'}
            fin_md5 = {h: v for (h, a, v) in fins if a == 'MD5'}
            fin_names = [h for (h, a, v) in fins if a == 'SHA256']
        else:
            pt = canon.parse_text(res['out'], verbose=verbose)
            kalgs = [a for a in pt['algs'] if a['cat'] == 'key']
            shown = {}
            for a in kalgs:
                shown.setdefault(a['name'], {'size': a['size'], 'ca_type': a['ca_type'], 'ca_size': a['ca_size'], 'notes': a['notes'], 'suffix': a['shown'] != a['name']})
            fin_l = [b for (col, b) in pt['fin']]
            if not big:
                items = clist(kalgs, lambda a: '(%s, %s, %s)' % (cstr(a['name']), cstr(a['shown']), clist(a['notes'], lambda n: cpair(LEVELS[n[0]], cstr(n[1])))))
                terms.append('let st := perform_test %s (probe_of %s) ssh2_db in list_eqb kitem_eqb (key_items %s st) %s && strs_eqb (fin_lines (table_hash %s) (table_hash %s) %s (st_hostkeys st)) %s'
                             % (cstrs(c['keys']), cscript(script), cstrs(c['keys']), items, tbl_s, tbl_m, cbool(verbose), cstrs(fin_l)))
                descs.append(dict(rep, out=canon.strip_ansi(res['out'])[:2500]))
            fin_sha, fin_md5, fin_names = {}, {}, []
            for l in fin_l:
                m = re.match(r'^(\S+): (SHA256:\S+|MD5:\S+)', l)
                if not m:
                    ctx.violation('fin-line-unparsable', 'cannot parse fingerprint line %r' % l, rep)
                    continue
                if m.group(2).startswith('SHA256:'):
                    fin_sha[m.group(1)] = m.group(2)[7:]; fin_names.append(m.group(1))
                else:
                    fin_md5[m.group(1)] = m.group(2)[4:]
        ctx.evaluations += 1
        oracle(ctx, c, rep, blobs, shown, fin_sha, fin_md5, fin_names, js, verbose, nontriv, mono)
    # the rating never gets worse as a key grows (per key role, over everything this run presented)
    for role, obs in mono.items():
        obs.sort()
        worst_later = 0
        for bits, sev in reversed(obs):
            if sev < worst_later:
                bigger = [b for (b, s) in obs if b > bits and s == worst_later]
                ctx.violation('rating-not-monotone/%s' % role, 'a %d-bit key is rated %d but a larger %d-bit key is rated worse (%d)' % (bits, sev, bigger[0] if bigger else -1, worst_later), {'op': 'cli-monotone', 'role': role, 'observations': obs[:400]})
                break
            worst_later = max(worst_later, sev)
    ctx.correspond('cli', IMPORTS, '', terms, lambda i: descs[i])
    ctx.cover(len(terms), set(), [{k: descs[0][k] for k in ('kind', 'keys', 'opts')}] if descs else [],
              'real CLI over TCP against the cooperative scripted server: RSA moduli 512..16384 step 64 (dense around 2048/3072) under every subset/order of the RSA-family names, Ed25519/Ed448/ECDSA/DSS keys, RSA and Ed25519 certificates x RSA/Ed25519/ECDSA CAs of many sizes, absent and unusable replies; text (plain, -v, -b) and JSON; compared with the model: key lines (shown name + all notes), (fin) lines / JSON keysize, casize, ca_algorithm, notes, fingerprints; oracle: sizes from the generated moduli, hashlib fingerprints, statement thresholds, monotonicity')


def oracle(ctx, c, rep, blobs, shown, fin_sha, fin_md5, fin_names, js, verbose, nontriv, mono):
    """The property statement evaluated on one audit.  Ground truth comes from the descriptors the blobs were generated from."""
    hk = c['hk']
    usable = {n: d for n, d in hk.items() if not d.get('bad')}
    fam_present = [n for n in c['keys'] if n in RSA_FAMILY]
    fam_key = next((usable[n] for n in RSA_FAMILY if n in usable and n in c['keys']), None)
    for n in c['keys']:
        if n not in shown:
            ctx.violation('key-line-missing', 'advertised host key type %s is not in the report' % n, rep)
            continue
        s = shown[n]
        d = usable.get(n) if n not in RSA_FAMILY else fam_key
        notes = s['notes']
        size_fail = [t for (l, t) in notes if l == 'fail' and SMALL_RE.match(t)]
        size_warn = [t for (l, t) in notes if l == 'warn' and t in (W2K, WECC)]
        if d is None:
            # no (usable) reply: no size, no CA, no size notes
            if s['size'] is not None or s['ca_size'] is not None or size_fail or size_warn:
                ctx.violation('no-reply-reported', '%s got no usable reply but the report shows size %r / CA %r / notes %r' % (n, s['size'], s['ca_size'], size_fail + size_warn), rep)
            nontriv.add(('cli', 'no-reply', n in RSA_FAMILY, js))
            continue
        bits, cat, cbits = truth(d)
        kind = d['k']
        nontriv.add(('cli', kind, cat, js, verbose))
        # --- sizes
        if kind in ('rsa', 'rsa-nopad'):
            if s['size'] != bits:
                ctx.violation('host-size-off/%s' % size_class(bits), '%s: a %d-bit RSA modulus is reported as %r-bit (%s)' % (n, bits, s['size'], 'JSON' if js else 'text'), rep)
        elif kind == 'ecdsa-cert':
            pass    # rated below
        elif kind in ('rsa-cert', 'ed25519-cert'):
            if js and kind == 'rsa-cert' and s['size'] is None:
                ctx.violation('json-keysize-missing/%s' % ('ssh-rsa-cert' if n.startswith('ssh-rsa-cert') else 'rsa-sha2-cert'), 'JSON entry of %s has no keysize (the text report shows it)' % n, rep)
            elif (not js or kind == 'rsa-cert') and s['size'] != bits:
                ctx.violation('host-size-off/%s' % size_class(bits), '%s: a %d-bit certificate key is reported as %r-bit' % (n, bits, s['size']), rep)
            want_ct = cat if js else ('RSA' if cat in RSA_FAMILY else cat)
            if s['ca_type'] != want_ct:
                ctx.violation('ca-type-wrong', '%s: CA of type %s reported as %r' % (n, cat, s['ca_type']), rep)
            if s['ca_size'] != cbits:
                ctx.violation('ca-size-off/%s' % (size_class(cbits) if cat == 'ssh-rsa' else cat), '%s: a %d-bit %s CA key is reported as %r-bit' % (n, cbits, cat, s['ca_size']), rep)
        else:
            if s['size'] is not None or s['ca_size'] is not None:
                ctx.violation('size-on-fixed-key', '%s (%s) is shown with a size %r' % (n, kind, s['size']), rep)
        # --- rating (statement: RSA host and CA keys <2048 fail, [2048,3072) warn, >=3072 no size note)
        if kind in ('rsa', 'rsa-nopad'):
            sev = 2 if size_fail else 1 if W2K in size_warn else 0
            mono.setdefault('rsa-host', []).append((bits, sev))
            nontriv.add(('cli-rating', 'rsa', min(bits, 4096) // 8, sev))
            if sev != want_sev(bits):
                ctx.violation('rsa-rating/%s-rated-%s/%s' % (band(bits), SEVN[sev], size_class(bits)), '%s: a %d-bit RSA key is rated %s (statement: %s)' % (n, bits, SEVN[sev], SEVN[want_sev(bits)]), rep)
        elif kind in ('rsa-cert', 'ed25519-cert'):
            hfail = any('hostkey' in t for t in size_fail)
            cfail = any('CA key' in t for t in size_fail)
            warn = W2K in size_warn
            want_h = want_sev(bits) if kind == 'rsa-cert' else 0
            want_c = want_sev(cbits) if cat == 'ssh-rsa' else 0
            allsev = 2 if size_fail else 1 if size_warn else 0
            if want_c == 0 and kind == 'rsa-cert':
                mono.setdefault('rsa-cert-host', []).append((bits, allsev))
            if want_h == 0 and cat == 'ssh-rsa':
                mono.setdefault('rsa-ca', []).append((cbits, allsev))
            nontriv.add(('cli-rating', kind, cat, want_h, want_c, allsev))
            exact = (kind != 'rsa-cert' or bits % 16 == 0) and (cat != 'ssh-rsa' or cbits % 16 == 0)
            devs = []
            if hfail != (want_h == 2):
                devs.append('host-%s-%s' % (band(bits), 'failed' if hfail else 'not-failed'))
            if cfail != (want_c == 2):
                devs.append('ca-%s-%s-%s' % (cat, band(cbits) if cat == 'ssh-rsa' else cbits, 'failed' if cfail else 'not-failed'))
            if warn != (want_h == 1 or want_c == 1):
                devs.append('warn-%s' % ('spurious' if warn else 'missing'))
            for dv in devs:
                # sizes that are not a multiple of 16 are mis-measured (host-size-off / ca-size-off): their rating follows the wrong size
                key = 'cert-rating/%s' % dv if exact else 'cert-rating/mismeasured-size'
                ctx.violation(key, '%s: %d-bit key with %d-bit %s CA: size notes %r deviate from the statement (%s)' % (n, bits, cbits, cat, size_fail + size_warn, dv), rep)
            if WECC in size_warn:
                ctx.violation('cert-rating/ecc-warning', '%s: ECC size warning on %d-bit key / %d-bit %s CA' % (n, bits, cbits, cat), rep)
        elif kind == 'ecdsa-cert':
            own = [t for t in size_fail if 'CA key' not in t] + [t for t in size_warn if t == WECC]
            if own:
                ctx.violation('ecdsa-cert-size-note', '%s: a fixed-size %d-bit ECDSA certificate key carries the size notes %r' % (n, bits, own), rep)
            if s['ca_type'] is None or s['ca_size'] is None:
                ctx.violation('ecdsa-cert-ca-missing', '%s: the signing CA (%s, %d bits) of an ECDSA certificate host key is not reported' % (n, cat, cbits), rep)
        elif kind in ('ed25519', 'ed448'):
            if size_fail or size_warn:
                ctx.violation('%s-size-note' % kind, '%s: a fixed-size %d-bit key carries the size notes %r' % (n, bits, size_fail + size_warn), rep)
    # --- RSA family fan-out: every advertised family name shows the same size and the same size notes
    if fam_key is not None and len(fam_present) > 1:
        views = {(shown[n]['size'], tuple(t for (l, t) in shown[n]['notes'] if SMALL_RE.match(t) or t == W2K)) for n in fam_present if n in shown}
        if len(views) != 1:
            ctx.violation('rsa-family-fanout', 'RSA-family names show different sizes/notes: %r' % (sorted(views, key=repr),), rep)
    # --- fingerprints: one per presented non-certificate key type (RSA family as ssh-rsa), hashed over the presented blob
    want = {}
    for n in c['keys']:
        d = usable.get(n) if n not in RSA_FAMILY else fam_key
        if d is None or '-cert-' in n:
            continue
        b = blobs[n] if n not in RSA_FAMILY else blobs[next(x for x in RSA_FAMILY if x in usable and x in c['keys'])]
        fn = 'ssh-rsa' if n in RSA_FAMILY else n
        if not js and not verbose and (fn.startswith('ecdsa-') or fn == 'ssh-dss'):
            continue
        want[fn] = b
    if sorted(fin_names) != sorted(want) or len(set(fin_names)) != len(fin_names):
        ctx.violation('fingerprint-selection', 'fingerprints shown for %r, expected exactly %r' % (fin_names, sorted(want)), rep)
    if fin_names != sorted(fin_names):
        ctx.violation('fingerprint-order', 'fingerprints not sorted: %r' % (fin_names,), rep)
    for fn, b in want.items():
        if fn in fin_sha and fin_sha[fn] != sha256_fp(b)[7:]:
            ctx.violation('fingerprint-sha256', '%s: SHA-256 fingerprint %s is not that of the presented blob (%s)' % (fn, fin_sha[fn], sha256_fp(b)[7:]), rep)
        if (js or verbose):
            if fn not in fin_md5 or fin_md5[fn] != md5_fp(b)[4:]:
                ctx.violation('fingerprint-md5', '%s: MD5 fingerprint %r is not that of the presented blob (%s)' % (fn, fin_md5.get(fn), md5_fp(b)[4:]), rep)
