"""C14 - software versions are ordered numerically, component by component.

Implementation side: Utils.compare_versions, Software.compare_version / between_versions (on Software objects that
come out of Software.parse(Banner.parse(...)) whenever the recogniser accepts the banner), Algorithm.get_ssh_version,
the version filter of Algorithms.get_recommendations and Timeframe / Algorithms.get_ssh_timeframe - all in-process.
Model side: coq/model/Version.v evaluated by coqc on the same inputs.
Oracle: numeric tuple comparison written from the property text (no regexes of the code, no model)."""
import itertools
import re

import common
from coqlit import cz, cbool, clist, copt
import coqlit

IMPORTS = ['VModel:Version', 'VGen:Tables']

OPENSSH, DROPBEAR, LIBSSH = 'OpenSSH', 'Dropbear SSH', 'libssh'
PRODUCTS = [OPENSSH, DROPBEAR, LIBSSH]
# the product-specific patch suffixes of the property's quantifier
PATCHES = {OPENSSH: [''] + ['p%d' % i for i in range(10)],
           DROPBEAR: [''] + ['test%d' % i for i in range(10)],
           LIBSSH: ['']}
BANNERS = {OPENSSH: ['SSH-2.0-OpenSSH_%s', 'SSH-1.99-OpenSSH_%s'], DROPBEAR: ['SSH-2.0-dropbear_%s'], LIBSSH: ['SSH-2.0-libssh-%s', 'SSH-2.0-libssh_%s']}
DBPREFIX = {OPENSSH: '', DROPBEAR: 'd', LIBSSH: 'l1'}
COMPS = list(range(0, 13)) + [99, 100, 101] + list(range(2011, 2026))
SMALL = list(range(0, 13))


def cstr(s):
    """coqlit.cstr; the byte list of a non-printable string must be read in nat scope (case files open Z_scope)."""
    t = coqlit.cstr(s)
    if t.startswith('(bs [') and not t.endswith(']%nat)'):
        t = t[:-2] + ']%nat)'
    return t


def sgn(x):
    return (x > 0) - (x < 0)


# ---------------------------------------------------------------- oracle (from the property text)
def num(v):
    """A release written as dot-separated decimal numbers -> tuple of numbers."""
    return tuple(int(x) for x in v.split('.'))


def numcmp(a, b):
    """Component-wise numeric comparison; a release that only extends another one (7.3 / 7.3.0) is the newer."""
    ta, tb = num(a), num(b)
    for x, y in zip(ta, tb):
        if x != y:
            return -1 if x < y else 1
    return sgn(len(ta) - len(tb))


def db_tokens(vs):
    """'6.5,d2013.62,l10.6.0C' -> [(product, version, client_only)] as documented in ssh2_kexdb.py."""
    res = []
    for t in (vs or '').split(','):
        cli = t[-1:] == 'C'
        if cli:
            t = t[:-1]
        if t[:1] == 'd':
            res.append((DROPBEAR, t[1:], cli))
        elif t[:2] == 'l1':
            res.append((LIBSSH, t[2:], cli))
        else:
            res.append((OPENSSH, t, cli))
    return [r for r in res if r[1] != '']


# ---------------------------------------------------------------- implementation access
def mk_software(prod, ver, patch, rng=None):
    """Software object for (product, version, patch): through the banner recogniser when it accepts and returns
    exactly these parts, otherwise constructed directly.  Returns (software, recognised)."""
    from ssh_audit.banner import Banner
    from ssh_audit.software import Software
    fmt = BANNERS[prod][0] if rng is None else rng.choice(BANNERS[prod])
    b = Banner.parse(fmt % (ver + patch))
    sw = Software.parse(b) if b is not None else None
    if sw is not None and (sw.product, sw.version, sw.patch or '') == (prod, ver, patch):
        return sw, True
    return Software(None, prod, ver, patch or None, None), False


def impl_recs(sw, for_server, names):
    """(add set, del+chg set) of the SSH-2 recommendations for a peer offering `names` (dict cat -> list)."""
    from ssh_audit.algorithms import Algorithms
    from ssh_audit.ssh2_kex import SSH2_Kex
    from ssh_audit.ssh2_kexparty import SSH2_KexParty
    from ssh_audit.outputbuffer import OutputBuffer
    party = SSH2_KexParty(names['enc'], names['mac'], ['none'], [''])
    kex = SSH2_Kex(OutputBuffer(), b'\x00' * 16, names['kex'], names['key'], party, party, False, 0)
    _, rec = Algorithms(None, kex).get_recommendations(sw, for_server)
    add, rem = set(), set()
    for cat, d in rec.get(2, {}).items():
        for n in d.get('add', {}):
            add.add((cat, n))
        for k in ('del', 'chg'):
            for n in d.get(k, {}):
                rem.add((cat, n))
    return add, rem


def impl_timeframe(names, for_server):
    from ssh_audit.algorithms import Algorithms
    from ssh_audit.ssh2_kex import SSH2_Kex
    from ssh_audit.ssh2_kexparty import SSH2_KexParty
    from ssh_audit.outputbuffer import OutputBuffer
    party = SSH2_KexParty(names['enc'], names['mac'], ['none'], [''])
    kex = SSH2_Kex(OutputBuffer(), b'\x00' * 16, names['kex'], names['key'], party, party, False, 0)
    tf = Algorithms(None, kex).get_ssh_timeframe(for_server)
    return {p: (list(tf[p]) if p in tf else None) for p in PRODUCTS}


# ---------------------------------------------------------------- Coq literals
def cfs(fs):
    return 'None' if fs is None else '(Some %s)' % cbool(fs)


def cslots(s):
    return clist(s, lambda x: copt(x, cstr))


def ctf_expect(st_term, exp):
    """bool term: storage `st_term` has exactly the slots `exp` (dict product -> list|None)."""
    parts = []
    for p in PRODUCTS:
        if exp[p] is None:
            parts.append('negb (has_key %s st)' % cstr(p))
        else:
            parts.append('has_key %s st && list_eqb (opt_eqb str_eqb) (tf_get st %s) %s' % (cstr(p), cstr(p), cslots(exp[p])))
    return '(let st := %s in %s)' % (st_term, ' && '.join('(%s)' % x for x in parts))


# ---------------------------------------------------------------- generators
def gen_version(rng, comps=COMPS):
    n = rng.choice([1, 2, 2, 2, 3, 3, 4])
    return '.'.join(str(rng.choice(comps)) for _ in range(n))


def neighbour(rng, v):
    """A version related to v: same, one component moved to an adjacent / digit-count-changing value, extended, cut."""
    t = [int(x) for x in v.split('.')]
    k = rng.randrange(7)
    if k == 0:
        return v
    if k in (1, 2, 3):
        i = rng.randrange(len(t))
        t[i] = max(0, t[i] + rng.choice([-1, 1, -1, 1, 9, -9, 10, 90, -90, 91, 1000]))
    elif k == 4 and len(t) < 4:
        t.append(rng.choice([0, 0, 1, 10]))
    elif k == 5 and len(t) > 1:
        t.pop()
    else:
        i = rng.randrange(len(t))
        t[i] = rng.choice(COMPS)
    return '.'.join(map(str, t))


def one_digit(v):
    return len(v) == 1


JUNK = ['', '7', '10', '7.3', '7.03', '07.3', '7.3.0', '7..3', '.5', '5.', '7.', '..', '.', '7.3\n', '7.3\n\n', '\n', '7.3 ', ' 7.3', '7.3\t', '7.3p1',
        '7.3p', '7.3 p1', '7.3p1 Debian-5', '7.3-2', '7.3_beta', '1_0.2', '7.3\r\n', '7.3.\n', '10.0', '9.9', '0.10.6', '0.7.0', '2020.81', '2013.62',
        'abc', 'p1', 'test3', '7.3test3', '7.3test', '7.3testx', '7.3 \x1f', '7.3\x0b', '7.3p1\n', '7.3\np1', '7.3p1\nx', '00', '0', '0.0', '000.000', '7.3.', '7.3..p1', '7.3.p1',
        '12345678901234567890.1', '12345678901234567891.0', '7p1', '7test1', '1p0', '9p9']
JUNK_PATCH = [None, '', 'p1', 'p2', 'p0', 'p10', 'p', 'px', 'p1-hpn14v4', 'p1 Debian', '1', '0', '2', 'test3', 'test', 'testx', 'test3\n', 'test3\nx', 'test10', 'beta', 'z', 'zz', 'rc1', ' p1', 'P1', 'p1\n', '\n',
              '-2', '.1', 'Test1', 'tesT1', 'p\x001']


def run(ctx):
    from ssh_audit.utils import Utils
    from ssh_audit.software import Software
    from ssh_audit.algorithm import Algorithm
    from ssh_audit.timeframe import Timeframe
    from ssh_audit.ssh2_kexdb import SSH2_KexDB
    from ssh_audit.ssh1_kexdb import SSH1_KexDB

    ctx.proofs(['C14'])
    rng = ctx.rng
    q = ctx.quick
    terms, descs = [], []
    hist = {}
    nontriv = set()
    samples = []
    stats = {'recognised_by_banner': 0, 'constructed_directly': 0}

    def add(term, desc, nt=None):
        terms.append(term); descs.append(desc)
        hist[desc['op']] = hist.get(desc['op'], 0) + 1
        if nt is not None:
            nontriv.add(nt)

    def software(prod, ver, patch):
        sw, rec = mk_software(prod, ver, patch, rng)
        stats['recognised_by_banner' if rec else 'constructed_directly'] += 1
        if not rec:
            # the recogniser did not give back (product, version, patch) for a banner of the quantifier's domain
            if one_digit(ver):
                violation('single-digit-version', 'banner of %s %s%s is not recognised as this release (a version that is one character long does not match the version pattern)' % (prod, ver, patch),
                          {'op': 'Software.parse', 'product': prod, 'version': ver, 'patch': patch})
            else:
                violation('banner-unrecognised/%s/%s' % (prod, pclass(patch)), 'banner of %s %s%s is not recognised as this release' % (prod, ver, patch), {'op': 'Software.parse', 'product': prod, 'version': ver, 'patch': patch})
        return sw

    def pclass(p):
        return 'none' if not p else re.sub(r'\d', 'N', p)

    def vclass(v):
        t = v.split('.')
        return (len(t), max(len(x) for x in t))

    viol_seen = {}

    def violation(key, what, replay):
        viol_seen[key] = viol_seen.get(key, 0) + 1
        if viol_seen[key] <= 3:
            ctx.violation(key, what, replay)

    # ============ 1. Utils.compare_versions on version strings and junk ============
    pool = list(JUNK)
    for _ in range(60 if q else 600):
        v = gen_version(rng)
        pool.append(v)
        pool.append(neighbour(rng, v))
        if rng.random() < 0.3:
            pool.append('.'.join(('0' * rng.randrange(3)) + x for x in v.split('.')))   # leading zeros
    pairs = [(a, b) for a in JUNK for b in JUNK] if not q else [(rng.choice(JUNK), rng.choice(JUNK)) for _ in range(600)]
    pairs += [(rng.choice(pool), rng.choice(pool)) for _ in range(900 if q else 12000)]
    # components longer than int() converts (4300 digits): still ordered as numbers (since fix e13d039 / 6bd6eba)
    big = ['9' * 4301, '1' + '0' * 4400, '0' * 50 + '9' * 4301, '9' * 4300, '8.' + '7' * 5000, '8.' + '7' * 5000 + '.1', '0' * 5000, '0' * 5000 + '.0']
    pairs += [(a, b) for a in big for b in big[:4] + ['8.9', '0', '10']] if not q else [(rng.choice(big), rng.choice(big + ['8.9', '0'])) for _ in range(12)]
    for a, b in pairs:
        r = Utils.compare_versions(a, b)
        add('Z.eqb (compare_versions %s %s) %s' % (cstr(a), cstr(b), cz(r)), {'op': 'compare_versions', 'a': a, 'b': b, 'impl': r},
            ('cv', bool(re.fullmatch(r'\d+(\.\d+)*', a)), bool(re.fullmatch(r'\d+(\.\d+)*', b)), r))

    # ============ 2. Software.compare_version: oracle on the quantifier's domain + correspondence ============
    def judge(sa, sb, as_str):
        other = (sb.version + (sb.patch or '')) if as_str else sb
        return sa.compare_version(other)

    def check_pair(prod, a, b, corr):
        """a, b = (version, patch).  Oracle: numeric agreement and antisymmetry; optional correspondence terms."""
        sa, sb = software(prod, *a), software(prod, *b)
        as_str = rng.random() < 0.5
        r1, r2 = judge(sa, sb, as_str), judge(sb, sa, as_str)
        ctx.evaluations += 2
        n = numcmp(a[0], b[0])
        cls = (prod, vclass(a[0]), vclass(b[0]), pclass(a[1]), pclass(b[1]), sgn(r1))
        nontriv.add(cls)
        replay = {'op': 'compare_version', 'product': prod, 'a': a, 'b': b, 'other_as_str': as_str, 'a_vs_b': r1, 'b_vs_a': r2, 'numeric': n}
        od = (one_digit(a[0]) and a[1] != '') or (one_digit(b[0]) and b[1] != '')

        def report(kind, x, y, got, want):
            what = '%s %s%s vs %s%s judged %d, %s' % (prod, x[0], x[1], y[0], y[1], got, want)
            if od:
                violation('single-digit-version', what + ' (a version that is one character long is not split from its patch suffix)', replay)
            elif kind == 'numeric-order' and sgn(got) == (x[0] > y[0]) - (x[0] < y[0]):
                violation('string-compare', what + ' (the order of the texts)', replay)
            else:
                violation('%s/%s/%s/%s' % (kind, prod, pclass(x[1]), pclass(y[1])), what, replay)
        if n != 0:
            # numeric agreement in both directions (implies antisymmetry here)
            if sgn(r1) != n:
                report('numeric-order', a, b, r1, 'numeric order says %d' % n)
            elif sgn(r2) != -n:
                report('numeric-order', b, a, r2, 'numeric order says %d' % -n)
        elif sgn(r1) != -sgn(r2):
            report('antisymmetry', a, b, r1, 'but the reverse comparison gives %d' % r2)
        elif a == b and r1 != 0:
            report('reflexivity', a, b, r1, 'although both are the same release')
        if corr:
            other = sb.version + (sb.patch or '')
            rs = sa.compare_version(other)
            if rs != sa.compare_version(sb):
                violation('software-vs-str/%s' % prod, 'comparing with the Software object and with its text differ for %s%s' % b, replay)
            add('Z.eqb (compare_version %s %s %s %s) %s' % (cstr(sa.product), cstr(sa.version), copt(sa.patch, cstr), cstr(other), cz(rs)),
                {'op': 'compare_version', 'product': prod, 'self': [sa.version, sa.patch], 'other': other, 'impl': rs}, ('cmp',) + cls)
        return r1

    def gen_item(prod, base=None):
        v = gen_version(rng) if base is None else neighbour(rng, base)
        p = rng.choice(PATCHES[prod]) if rng.random() < 0.6 else ''
        return (v, p)

    n_pairs = 12000 if q else 2000000
    n_corr = 2500 if q else 60000
    for i in range(n_pairs):
        prod = PRODUCTS[i % 3] if i % 7 else rng.choice(PRODUCTS)
        a = gen_item(prod)
        b = gen_item(prod, a[0]) if rng.random() < 0.7 else gen_item(prod)
        check_pair(prod, a, b, i < n_corr)
    # the pairs named in the property text and exhaustive small domains (all 1- and 2-component versions over 0..12 x all patches)
    named = [(OPENSSH, ('10.0', ''), ('9.9', '')), (OPENSSH, ('10.0', 'p1'), ('9.9', 'p2')), (LIBSSH, ('0.10.6', ''), ('0.7.0', '')), (LIBSSH, ('0.10.6', ''), ('0.9.8', '')),
             (DROPBEAR, ('2020.81', ''), ('2019.78', '')), (DROPBEAR, ('2024.86', ''), ('0.53.1', '')), (OPENSSH, ('7.3', ''), ('7.3.0', '')), (OPENSSH, ('100.0', ''), ('99.9', ''))]
    for prod, a, b in named:
        check_pair(prod, a, b, True)
    samples.append({'op': 'compare_version', 'product': OPENSSH, 'a': '10.0', 'b': '9.9', 'impl': software(OPENSSH, '10.0', '').compare_version('9.9')})
    samples.append({'op': 'compare_version', 'product': LIBSSH, 'a': '0.10.6', 'b': '0.7.0', 'impl': software(LIBSSH, '0.10.6', '').compare_version('0.7.0')})
    small = [str(x) for x in SMALL] + ['%d.%d' % (x, y) for x in (0, 1, 9, 10, 11, 12) for y in (0, 9, 10, 12)]
    for prod in PRODUCTS:
        items = [(v, p) for v in small for p in PATCHES[prod]]
        todo = list(itertools.product(items, items))
        if q:
            todo = rng.sample(todo, min(len(todo), 3000))
        for a, b in todo:
            check_pair(prod, a, b, False)
    # same version, every patch pair: correspondence of the patch rules (also outside the quantifier's suffix set)
    for prod in PRODUCTS + ['RomSShell']:
        pats = JUNK_PATCH if not q else JUNK_PATCH[:18]
        for sp in pats:
            for op in pats:
                ver = rng.choice(['7.4', '0.44', '2020.81', '10.0', '0.10.6'])
                sa = Software(None, prod, ver, sp, None)
                other = ver + (op or '')
                r = sa.compare_version(other)
                add('Z.eqb (compare_version %s %s %s %s) %s' % (cstr(prod), cstr(ver), copt(sp, cstr), cstr(other), cz(r)),
                    {'op': 'compare_version', 'product': prod, 'self': [ver, sp], 'other': other, 'impl': r}, ('patch', prod, sp, op, r))
    # arbitrary `other` strings (regex split of the other side)
    for _ in range(500 if q else 6000):
        prod = rng.choice(PRODUCTS)
        ver = rng.choice(pool)
        sp = rng.choice(JUNK_PATCH[:12])
        other = rng.choice(pool) + rng.choice(['', '', 'p1', 'p2', 'test1', ' p1', '.', '..p1', '\n', 'p1\n', '\np1', ' ', '-2', '_x'])
        sa = Software(None, prod, ver, sp, None)
        r = sa.compare_version(other)
        add('Z.eqb (compare_version %s %s %s %s) %s' % (cstr(prod), cstr(ver), copt(sp, cstr), cstr(other), cz(r)),
            {'op': 'compare_version', 'product': prod, 'self': [ver, sp], 'other': other, 'impl': r}, ('other', bool(re.match(r'^([\d\.]+\d+)(.*)$', other)), r))
    # between_versions
    for _ in range(300 if q else 4000):
        prod = rng.choice(PRODUCTS)
        a = gen_item(prod)
        f = rng.choice(['', neighbour(rng, a[0]), gen_version(rng)])
        t = rng.choice(['', neighbour(rng, a[0]), gen_version(rng)])
        sa = software(prod, *a)
        r = sa.between_versions(f, t)
        add('Bool.eqb (between %s %s %s %s %s) %s' % (cstr(sa.product), cstr(sa.version), copt(sa.patch, cstr), cstr(f), cstr(t), cbool(r)),
            {'op': 'between_versions', 'product': prod, 'self': a, 'from': f, 'till': t, 'impl': r}, ('between', f == '', t == '', r))
        if a[1] == '':
            want = (f == '' or numcmp(a[0], f) >= 0) and (t == '' or numcmp(a[0], t) <= 0)
            if r != want:
                violation('between/%s' % prod, '%s %s between %r and %r gives %s, numeric order says %s' % (prod, a[0], f, t, r, want), {'op': 'between_versions', 'product': prod, 'self': a, 'from': f, 'till': t})

    # ============ 3. transitivity on triples ============
    def le(x):
        return x <= 0
    n_tri = 3000 if q else 300000
    for i in range(n_tri):
        prod = PRODUCTS[i % 3] if i % 5 else OPENSSH
        a = gen_item(prod)
        mode = rng.random()
        if mode < 0.5:
            b, c = (a[0], rng.choice(PATCHES[prod])), (a[0], rng.choice(PATCHES[prod]))
            a = (a[0], rng.choice(PATCHES[prod]))
        else:
            b, c = gen_item(prod, a[0]), gen_item(prod, a[0])
        sw = [software(prod, *x) for x in (a, b, c)]
        its = (a, b, c)
        m = [[sw[i].compare_version(sw[j]) for j in range(3)] for i in range(3)]
        ctx.evaluations += 9
        nontriv.add(('tri', prod) + tuple(sorted(pclass(x[1]) for x in its)) + (a[0] == b[0], b[0] == c[0]))
        for x, y, z in itertools.permutations(range(3)):
            bad = None
            if le(m[x][y]) and le(m[y][z]) and not le(m[x][z]):
                bad = 'older-or-same'
            elif (m[x][y] < 0 and le(m[y][z]) or le(m[x][y]) and m[y][z] < 0) and not m[x][z] < 0:
                bad = 'older'
            if bad:
                A, B, C = its[x], its[y], its[z]
                replay = {'op': 'transitivity', 'product': prod, 'x': A, 'y': B, 'z': C, 'x_vs_y': m[x][y], 'y_vs_z': m[y][z], 'x_vs_z': m[x][z]}
                what = '%s: %s%s vs %s%s = %d, %s%s vs %s%s = %d, but %s%s vs %s%s = %d' % (prod, A[0], A[1], B[0], B[1], m[x][y], B[0], B[1], C[0], C[1], m[y][z], A[0], A[1], C[0], C[1], m[x][z])
                ps = {A[1], B[1], C[1]}
                if any(one_digit(t[0]) and t[1] != '' for t in its):
                    violation('single-digit-version', what, replay)
                elif prod == OPENSSH and 'p0' in ps and '' in ps and A[0] == B[0] == C[0]:
                    violation('openssh-p0-intransitive', what + ' (an unpatched release equals p1 but is older than p0)', replay)
                else:
                    violation('transitivity/%s/%s' % (prod, '/'.join(sorted(pclass(p) for p in ps))), what, replay)
                break

    # ============ 4. Algorithm.get_ssh_version on every table token and synthetic ones ============
    alltoks = set()
    entries_by_cat = {}
    for dbname, db in (('ssh2', SSH2_KexDB.MASTER_DB), ('ssh1', SSH1_KexDB.MASTER_DB)):
        for cat, d in db.items():
            for name, e in d.items():
                for vs in e[0]:
                    for t in (vs or '').split(','):
                        alltoks.add(t)
    toks = sorted(alltoks) + ['', 'C', 'd', 'dC', 'l1', 'l', 'l1C', 'l10.10.6', 'l10.10.6C', 'd2025.88', 'd2025.88C', '10.0', '10.0C', 'l20.1', 'dd1', 'Cd', 'CC', 'l1l1', '7.4 ', ' 7.4']
    for t in toks:
        p, v, c = Algorithm.get_ssh_version(t)
        add('(let \'(p, v, c) := get_ssh_version %s in str_eqb p %s && str_eqb v %s && Bool.eqb c %s)' % (cstr(t), cstr(p), cstr(v), cbool(c)),
            {'op': 'get_ssh_version', 'token': t, 'impl': (p, v, c)}, ('tok', p, c, v == ''))
        if t in alltoks and t:
            want = db_tokens(t)[0]
            if (p, v, c) != want:
                violation('db-token/%s' % t, 'table token %r read as %r, documented meaning %r' % (t, (p, v, c), want), {'op': 'get_ssh_version', 'token': t})

    # ============ 5. availability filter of get_recommendations ============
    db2 = SSH2_KexDB.MASTER_DB
    cats = ['kex', 'key', 'enc', 'mac']
    none_offered = {c: [] for c in cats}
    all_offered = {c: list(db2[c].keys()) for c in cats}
    v0s = sorted({e[0][0] for c in cats for e in db2[c].values() if len(e[0]) > 0 and e[0][0] is not None})
    pre = 'Definition v0s : list string := %s.\n' % clist(v0s, cstr)
    first_seen = {p: sorted({v for s in v0s for (pp, v, _) in db_tokens(s) if pp == p}, key=num) for p in PRODUCTS}
    sw_list = []
    for prod in PRODUCTS:
        cand = set()
        for v in first_seen[prod]:
            t = list(num(v))
            cand.add(v)
            up, dn = list(t), list(t)
            up[-1] += 1
            cand.add('.'.join(map(str, up)))
            if dn[-1] > 0:
                dn[-1] -= 1
                cand.add('.'.join(map(str, dn)))
            cand.add(v + '.1')
            cand.add('.'.join(map(str, t[:-1] + [t[-1] * 10])) if t[-1] else v)
        cand |= {'10.0', '10.1', '9.10', '0.10.6', '0.10.0', '0.9.8', '0.11.1', '1.0', '100.1', '2025.88', '2013.100', '3.10', '6.10', '7.10', '0.100', '0.6.10'}
        cand = sorted(cand, key=num)
        if q:
            cand = sorted(set(rng.sample(cand, min(len(cand), 14))) | {'10.0', '0.10.6', '9.10'}, key=num)
        for v in cand:
            for p in ([''] if prod == LIBSSH else ['', rng.choice(PATCHES[prod][1:])]):
                sw_list.append((prod, v, p))
    observable = {}
    for prod in PRODUCTS:
        for fs in (True, False):
            big = Software(None, prod, '99999.0', None, None)
            a, _ = impl_recs(big, fs, none_offered)
            _, d = impl_recs(big, fs, all_offered)
            observable[(prod, fs)] = a | d
    rec_bundles = []
    for prod, v, p in sw_list:
        for fs in (True, False):
            sw = software(prod, v, p)
            a, _ = impl_recs(sw, fs, none_offered)
            _, d = impl_recs(sw, fs, all_offered)
            got = a | d
            obs_by_v0 = {}
            for cat in cats:
                for name, e in db2[cat].items():
                    if len(e[0]) == 0 or e[0][0] is None or (cat, name) not in observable[(prod, fs)]:
                        continue
                    o = (cat, name) in got
                    ctx.evaluations += 1
                    if obs_by_v0.setdefault(e[0][0], o) != o:
                        violation('availability-inconsistent/%s' % prod, 'two table entries with the same version text %r are filtered differently' % e[0][0], {'op': 'recommendations', 'software': (prod, v, p), 'entry': name})
                    # oracle: available iff some release of this product (usable in this role) is numerically not newer
                    want = any(pp == prod and not (cli and fs) and (numcmp(v, tv) > 0 or (numcmp(v, tv) == 0 and not p.startswith('test'))) for (pp, tv, cli) in db_tokens(e[0][0]))
                    if o != want:
                        violation('availability/%s' % prod, '%s %s%s (%s): %s %s first appeared in %r but is treated as %s' % (prod, v, p, 'server' if fs else 'client', cat, name, e[0][0], 'available' if o else 'not available'),
                                  {'op': 'recommendations', 'software': (prod, v, p), 'for_server': fs, 'category': cat, 'name': name, 'versions': e[0][0], 'observed': o, 'expected': want})
            ks = [s for s in v0s if s in obs_by_v0]
            nontriv.add(('rec', prod, fs, sum(obs_by_v0.values())))
            rec_bundles.append((sw, fs, ks, [obs_by_v0[s] for s in ks]))
    samples.append({'op': 'recommendations', 'software': 'OpenSSH 10.0', 'available_first_seen_texts': sum(x for (sw, fs, ks, os_) in rec_bundles if sw.product == OPENSSH and sw.version == '10.0' and fs for x in os_)})
    rec_terms, rec_descs = [], []
    for sw, fs, ks, os_ in rec_bundles:
        rec_terms.append('list_eqb Bool.eqb (map (rec_matches %s %s %s %s) %s) %s' % (cstr(sw.product), cstr(sw.version), copt(sw.patch, cstr), cbool(fs), clist(ks, cstr), clist(os_, cbool)))
        rec_descs.append({'op': 'rec_matches', 'software': [sw.product, sw.version, sw.patch], 'for_server': fs, 'versions0': ks, 'impl': os_})
    hist['rec_matches (bundles of first-seen texts)'] = len(rec_terms)

    # ============ 6. Timeframe ============
    def names_sample():
        return {c: [n for n in db2[c] if rng.random() < rng.choice([0.02, 0.1, 0.5])] + (['unknown-alg@example.com'] if rng.random() < 0.3 else []) for c in cats}

    def tf_oracle(entries, fs, got, replay):
        """from = numerically newest first-seen version, till = numerically oldest, per product and role."""
        for p in PRODUCTS:
            srv_from = [v for e in entries if len(e) > 0 for (pp, v, cli) in db_tokens(e[0]) if pp == p and not cli]
            srv_till = [v for e in entries if len(e) > 1 for (pp, v, cli) in db_tokens(e[1]) if pp == p and not cli]
            if fs is False:
                continue
            g = got[p]
            for slot, cand, pick in ((0, srv_from, max), (1, srv_till, min)):
                have = g[slot] if g is not None else None
                if not cand:
                    want = None
                else:
                    want = pick(cand, key=num)
                if (have is None) != (want is None) or (have is not None and num(have) != num(want)):
                    violation('timeframe/%s/%s' % (p, 'from' if slot == 0 else 'till'), 'compatibility %s of %s is %r, numeric %s of %r is %r' % ('from' if slot == 0 else 'till', p, have, pick.__name__, sorted(set(cand), key=num), want), replay)

    for i in range(80 if q else 1500):
        names = names_sample() if i else all_offered
        fs = rng.choice([None, True, False])
        got = impl_timeframe(names, fs)
        ctx.evaluations += 1
        algs = clist([(c, names[c]) for c in ['kex', 'key', 'enc', 'mac']], lambda cn: '(%s, %s)' % (cstr(cn[0]), clist(cn[1], cstr)))
        add(ctf_expect('tf_of_names ssh2_db %s %s' % (algs, cfs(fs)), got), {'op': 'get_ssh_timeframe', 'names': names, 'for_server': fs, 'impl': got}, ('tf', fs, tuple(got[p] is None for p in PRODUCTS)))
        entries = [db2[c][n][0] for c in ['kex', 'key', 'enc', 'mac'] for n in names[c] if n in db2[c]]
        tf_oracle(entries, fs, got, {'op': 'get_ssh_timeframe', 'names': names, 'for_server': fs})
    samples.append({'op': 'get_ssh_timeframe', 'offered': 'every table name', 'impl': impl_timeframe(all_offered, True)})

    def syn_token(prod):
        v = rng.choice(['10.0', '9.9', '9.10', '7.4', '0.10.6', '0.7.0', '0.9.8', '2020.81', '2013.62', '0.53', '100.0', '99.9']) if rng.random() < 0.6 else gen_version(rng)
        return DBPREFIX[prod] + v + ('C' if rng.random() < 0.2 else '')

    def syn_versions(dup):
        k = rng.choice([0, 1, 1, 2, 2, 3, 4])
        res = []
        for _ in range(k):
            if rng.random() < 0.15:
                res.append(None)
                continue
            prods = [p for p in PRODUCTS if rng.random() < 0.6]
            if dup and rng.random() < 0.3 and prods:
                prods.append(rng.choice(prods))
            rng.shuffle(prods)
            res.append(','.join(syn_token(p) for p in prods) if rng.random() < 0.95 else '')
        return res

    for i in range(400 if q else 8000):
        dup = i % 3 == 0
        entries = [syn_versions(dup) for _ in range(rng.choice([1, 2, 3, 5]))]
        fs = rng.choice([None, True, False])
        tf = Timeframe()
        for e in entries:
            tf.update(e, fs)
        got = {p: (list(tf[p]) if p in tf else None) for p in PRODUCTS}
        ctx.evaluations += 1
        add(ctf_expect('tf_of %s %s' % (clist(entries, cslots), cfs(fs)), got), {'op': 'Timeframe.update', 'entries': entries, 'for_server': fs, 'impl': got},
            ('tfs', fs, tuple(None if got[p] is None else tuple(x is None for x in got[p]) for p in PRODUCTS)))
        if not dup:
            tf_oracle(entries, fs, got, {'op': 'Timeframe.update', 'entries': entries, 'for_server': fs})

    ctx.notes.append('C14: the model reads version and patch texts as ASCII (the banner is reduced to printable ASCII before Software.parse; table tokens are ASCII); Unicode decimal digits accepted by \\d / int() are outside the model and the generators')
    ctx.extra['op_histogram'] = hist
    ctx.extra['software_objects'] = stats
    ctx.extra['violation_counts'] = viol_seen
    ctx.correspond('version', IMPORTS, '', terms, lambda i: descs[i])
    bad = ctx.correspond('recfilter', IMPORTS, pre, rec_terms, lambda i: rec_descs[i])
    if bad and bad != [-1]:
        # name the exact first-seen text inside the first failing bundles
        det_terms, det_descs = [], []
        for i in bad[:3]:
            sw, fs, ks, os_ = rec_bundles[i]
            for s, o in zip(ks, os_):
                det_terms.append('Bool.eqb (rec_matches %s %s %s %s %s) %s' % (cstr(sw.product), cstr(sw.version), copt(sw.patch, cstr), cbool(fs), cstr(s), cbool(o)))
                det_descs.append({'op': 'rec_matches', 'software': [sw.product, sw.version, sw.patch], 'for_server': fs, 'versions0': s, 'impl': o})
        ctx.correspond('recfilterdetail', IMPORTS, '', det_terms, lambda i: det_descs[i])
    ctx.cover(len(terms) + len(rec_terms), nontriv, samples,
              'versions of 1-4 components drawn from {0..12, 99..101, 2011..2025} and their neighbours (one component moved across a digit-count boundary, extended, cut), '
              'patch suffixes "", p0..p9 (OpenSSH), test0..test9 (Dropbear); pairs (numeric agreement, antisymmetry, both directions, other side as Software and as text), '
              'triples (transitivity, half of them on one version with three suffixes); exhaustive 1-2 component grid over 0..12 in thorough; junk strings for the regex split; '
              'every first-seen text of the table x software versions just below/at/above each first-seen version plus 10.x / 0.10.x for the recommendation filter; '
              'random subsets of table names and synthetic version lists for the compatibility time frame; '
              'non-trivial = distinct (op, product, component-count/width classes, suffix classes, outcome)')
