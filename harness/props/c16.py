"""C16 - identification strings are recognised, decomposed and sanitised.

Correspondence: Banner.parse / str(Banner) / Software.parse / Utils.to_print_ascii / SSH_Socket.get_banner
(in-process, real code) against the hand-written recognisers of coq/model/BannerM.v (vm_compute).
Oracle: the property statement evaluated on the implementation, written from the statement and the
line grammar only (it never calls or mirrors the model)."""
import re
import socket

import common
from coqlit import cstr, cz, cbool, clist, copt

IMPORTS = ['VModel:BannerM']

TOKCH = [chr(c) for c in range(33, 127)]                      # printable ASCII without space
BADCH = ['\t', '\x00', '\x01', '\x7f', '\x1b', '\x0b', '\x1c', '\x85', '\xa0', '\xe9', '\u20ac', '\u2028', '\u3000',
         '\U0001f600', '\ufffd', '\u0663', '\uff10']            # control, Latin-1, BMP, astral, non-ASCII digits/spaces
FAMILIES = [  # (prefix, product, vendor, takes_patch, version_is_rest)
    ('OpenSSH_', 'OpenSSH', None, True, False), ('OpenSSH-', 'OpenSSH', None, True, False), ('OpenSSH.', 'OpenSSH', None, True, False),
    ('OpenSSH_-', 'OpenSSH', None, True, False),
    ('dropbear_', 'Dropbear SSH', None, True, False), ('libssh-', 'libssh', None, True, False), ('libssh_', 'libssh', None, True, False),
    ('RomSShell_', 'RomSShell', 'Allegro Software', True, False), ('mpSSH_', 'iLO (Integrated Lights-Out) sshd', 'HP', False, False),
    ('Cisco-', 'IOS/PIX sshd', 'Cisco', False, False), ('tinyssh_', 'TinySSH', None, False, True),
    ('PuTTY_Release_', 'PuTTY', None, False, True), ('lancom', 'LCOS sshd', 'LANcom', False, True),
]
PATCHES = ['', '', 'p1', 'p2', 'p1-hpn14v5', '-hpn13v11', '_beta', 'rc1', 'test3', '+git', '-pre', '_1.2', 'p1.', 'a', '-', '_', 'C1']


def printable(s):
    return all(32 <= ord(c) <= 126 for c in s)


def sanitise(s):
    """The statement's replacement rule: every character outside printable ASCII shows as '?'."""
    return ''.join(c if 32 <= ord(c) <= 126 else '?' for c in s)


def ccps(line):
    if printable(line):
        return '(cps %s)' % cstr(line)
    return '[' + ';'.join(str(ord(c)) for c in line) + ']'


def obs(b):
    if b is None:
        return None
    return (b.protocol[0], b.protocol[1], b.software, b.comments, b.valid_ascii, str(b))


def cobs(o):
    if o is None:
        return 'None'
    return '(Some (%s, %s, %s, %s, %s, %s))' % (cz(o[0]), cz(o[1]), copt(o[2], cstr), copt(o[3], cstr), cbool(o[4]), cstr(o[5]))


def sw_obs(s):
    return None if s is None else (s.vendor, s.product, s.version, s.patch)


def csw(o):
    if o is None:
        return 'None'
    return '(Some (mkS %s %s %s %s))' % (copt(o[0], cstr), cstr(o[1]), cstr(o[2]), copt(o[3], cstr))


# ------------------------------------------------------------------ generators
def gen_version(rng):
    n = rng.choice([2, 2, 2, 3, 3, 4])
    return '.'.join(str(rng.choice([0, 1, 2, 5, 7, 9, 10, 12, 53, 78, 99, 2019, 2022, rng.randrange(0, 3000)])) for _ in range(n))


def gen_product(rng):
    fam = rng.choice(FAMILIES)
    ver = gen_version(rng)
    if fam[4]:
        ver = rng.choice([ver, ver, '0.' + str(rng.randrange(50, 85)), '20220801', 'noversion', '', ver + 'p1'])
        return fam, ver, '', fam[0] + ver
    patch = rng.choice(PATCHES)
    return fam, ver, patch, fam[0] + ver + patch


def gen_token(rng):
    k = rng.random()
    if k < 0.45:
        return 'random', ''.join(rng.choice(TOKCH) for _ in range(rng.choice([1, 1, 2, 3, 5, 8, 13, 21])))
    if k < 0.70:
        return 'product', gen_product(rng)[3]
    if k < 0.80:
        # looks like a protocol token
        t = 'SSH-%d.%s' % (rng.randrange(10), rng.choice(['0', '5', '99', '64', '10', '007']))
        return 'ssh-proto', t + rng.choice(['', '', '-', '-x', '-OpenSSH_7.4', '-SSH-1.5', 'x', '_1', '.1', '+'])
    if k < 0.85:
        return 'ssh-dot', 'SSH-%d.' % rng.randrange(10)
    if k < 0.93:
        return 'ssh-other', rng.choice(['SSH-', 'SSH-foo', 'SSH-2', 'SSH-2.x', 'SSH', 'SSH-1.5x', 'SSH-a.5', 'SSH-2,0', 'ssh-2.0', 'SSH--2.0', 'SSH-22.0'])
    return 'punct', rng.choice(['-', '--', '1.5', '-SSH-2.0', '.', '?', '"', '-1', '2.0-x', '_'])


def gen_words(rng, cls):
    if rng.random() < 0.45:
        return [], []
    n = rng.choice([1, 1, 2, 3, 5])
    ws = []
    for i in range(n):
        k = rng.random()
        if i == 0 and cls == 'ssh-dot' and k < 0.7:
            ws.append(rng.choice(['5', '99', '5-x', '0-', '5x', '7.1', '10-OpenSSH_3']))
        elif k < 0.5:
            ws.append(''.join(rng.choice(TOKCH) for _ in range(rng.choice([1, 2, 4, 9]))))
        else:
            ws.append(rng.choice(['Ubuntu-3ubuntu0.1', 'Debian-9etch3', 'FreeBSD-20200214', 'on', 'i686-pc-linux-gnu', 'SSH-2.0', '-', 'NetBSD_Secure_Shell-20180227', '(non-commercial)', '1:3.4p1-1.woody.3']))
    gaps = [rng.choice([1, 1, 1, 2, 3, 7]) for _ in range(n)]
    return ws, gaps


def gen_grammar(rng):
    """One line of the statement's grammar, kept in parts: SSH-<maj>.<min>-<sw>[ <comments>]."""
    k = rng.random()
    if k < 0.4:
        maj, mn = '2', '0'
    elif k < 0.55:
        maj, mn = '1', '99'
    elif k < 0.7:
        maj, mn = '1', rng.choice(['5', '3', '0', '51', '10'])
    else:
        maj, mn = str(rng.randrange(10)), rng.choice(['0', '1', '9', '05', '007', '00', '12', '123456789', '2147483648', '99999999999999999999', str(rng.randrange(1000))])
    cls, sw = gen_token(rng)
    ws, gaps = gen_words(rng, cls)
    inj = 0
    if rng.random() < 0.2:
        inj = rng.choice([1, 1, 2, 3])
        for _ in range(inj):
            c = rng.choice(BADCH)
            if ws and rng.random() < 0.5:
                i = rng.randrange(len(ws)); j = rng.randrange(len(ws[i]) + 1)
                ws[i] = ws[i][:j] + c + ws[i][j:]
            else:
                j = rng.randrange(len(sw) + 1)
                sw = sw[:j] + c + sw[j:]
    line = 'SSH-%s.%s-%s' % (maj, mn, sw) + ''.join(' ' * g + w for w, g in zip(ws, gaps))
    return {'maj': maj, 'min': mn, 'sw': sw, 'words': ws, 'gaps': gaps, 'cls': cls, 'inj': inj, 'line': line}


def gen_other(rng):
    """Lines outside the grammar (correspondence only): mutations, multi-protocol prefixes, whitespace in odd places."""
    k = rng.random()
    if k < 0.35:
        g = gen_grammar(rng)
        s = g['line']
        for _ in range(rng.choice([1, 1, 2])):
            i = rng.randrange(len(s) + 1)
            m = rng.random()
            if m < 0.3:
                s = s[:i] + s[i + 1:]
            elif m < 0.6:
                s = s[:i] + rng.choice(' -.S0x\t' + rng.choice(TOKCH)) + s[i:]
            elif m < 0.8:
                s = s[:i] + rng.choice(' -.S0x' + rng.choice(BADCH)) + s[i + 1:]
            else:
                s = s[:i] + ' ' * rng.choice([1, 2, 3]) + s[i:]
        return 'mutated', s
    if k < 0.6:
        n = rng.choice([1, 2, 2, 3, 4])
        toks = ['SSH-%d.%s%s' % (rng.randrange(10), ' ' * rng.choice([0, 0, 0, 1, 3]), rng.choice(['0', '5', '99', '10', '9', '007', '50']))
                for _ in range(n)]
        s = '-'.join(toks) + rng.choice(['', '-', '- ', '-x', '-OpenSSH_7.4 c', ' x', '  ', 'x', '-  sw   c1   c2  ', '--', '-SSH-', '-SSH-1.', '-SSH-1. 5', '- SSH-2.64', '-SSH-1.5 '])
        return 'multi', s
    if k < 0.8:
        alpha = 'SSH-12.09 -  xX_.p?'
        return 'alphabet', ''.join(rng.choice(alpha) for _ in range(rng.randrange(0, 26)))
    parts = [rng.choice(['SSH-', 'SSH-2.0', 'SSH-1.99', 'SSH-1.5', '-', ' ', '  ', '.', '2', '0', '10', 'x', 'OpenSSH_7.4', 'SSH-2.', 'SSH-1', '\t', '\xe9', 'a b', '\r', '\n'])
             for _ in range(rng.randrange(1, 7))]
    return 'pieces', ''.join(parts)


# ------------------------------------------------------------------ implementation drivers
class FakeSock:
    def __init__(self, chunks, end):
        self.chunks = list(chunks); self.end = end; self.sent = []

    def recv(self, n):
        if self.chunks:
            return self.chunks.pop(0)
        if self.end == 'close':
            return b''
        raise socket.timeout('timed out')

    def send(self, data):
        self.sent.append(data); return len(data)

    def shutdown(self, how): pass
    def close(self): pass
    def settimeout(self, t): pass


def impl_get_banner(chunks, end):
    from ssh_audit.ssh_socket import SSH_Socket
    from ssh_audit.outputbuffer import OutputBuffer
    s = SSH_Socket(OutputBuffer(), 'localhost', 22)
    s._SSH_Socket__sock = FakeSock(chunks, end)
    try:
        b, h, e = s.get_banner()
    finally:
        s._SSH_Socket__sock = None
    return b, list(h), e


def looks_like_protocol(sw):
    return re.match(r'^SSH-\d\.\d+(-|$)', sw) is not None


def split_by_space(sw, words):
    return re.match(r'^SSH-\d\.$', sw) is not None and len(words) > 0 and re.match(r'^\d+(-|$)', words[0]) is not None


def expected_parts(g):
    """What the statement says the banner of grammar line g is."""
    sw = sanitise(g['sw'])
    ws = [sanitise(w) for w in g['words']]
    return (int(g['maj']), int(g['min'])), sw, (' '.join(ws) if ws else None)


def check_line(ctx, g, b, where, replay):
    """Property statement on one grammar line g whose parsed banner is b.  Returns the set of failed aspects."""
    failed = []
    proto, sw, cm = expected_parts(g)
    if b is None:
        failed.append('rejected')
    else:
        if b.protocol != proto: failed.append('protocol')
        if b.software != sw: failed.append('software')
        if b.comments != cm: failed.append('comments')
        if b.valid_ascii != printable(g['line']): failed.append('valid-flag')
        if not printable(str(b)) or not printable(b.software or '') or not printable(b.comments or ''): failed.append('shown-not-printable')
    if failed:
        if looks_like_protocol(sw):
            key = 'software-token-looks-like-protocol'
        elif split_by_space(sw, [sanitise(w) for w in g['words']]):
            key = 'software-token-protocol-split-by-space'
        else:
            key = '%s/%s/%s' % (where, '+'.join(failed), g['cls'])
        ctx.violation(key, '%s: line %r gives %s, the statement says protocol=%r software=%r comments=%r (failed: %s)' % (
            where, g['line'], obs(b), proto, sw, cm, ','.join(failed)), replay)
    return failed


def check_roundtrip(ctx, line, b, from_bytes=False):
    from ssh_audit.banner import Banner
    b2 = Banner.parse(str(b))
    if b2 is None or (b2.protocol, b2.software, b2.comments) != (b.protocol, b.software, b.comments):
        if looks_like_protocol(b.software or ''):
            key = 'software-token-looks-like-protocol'
        elif split_by_space(b.software or '', (b.comments or '').split()):
            key = 'software-token-protocol-split-by-space'
        else:
            key = 'roundtrip/%s' % ('rejected' if b2 is None else '+'.join(n for n, x, y in (('protocol', b.protocol, b2.protocol), ('software', b.software, b2.software), ('comments', b.comments, b2.comments)) if x != y))
        ctx.violation(key, 'banner parsed from %r renders as %r which parses as %s instead of %s' % (line, str(b), obs(b2), obs(b)), {'op': 'roundtrip', 'line': line})
        return False
    return True


def run(ctx):
    from ssh_audit.banner import Banner
    from ssh_audit.software import Software
    from ssh_audit.utils import Utils
    ctx.proofs(['C16'])
    rng = ctx.rng
    q = ctx.quick
    terms, descs = [], []
    nontriv = set()
    samples = []
    hist = {}
    known_hits = {}

    def add(term, desc, nt=None):
        terms.append(term); descs.append(desc)
        hist[desc['op']] = hist.get(desc['op'], 0) + 1
        if nt is not None:
            nontriv.add(nt)

    seen = set()

    def add_parse(line, cls):
        if line in seen:
            return None
        seen.add(line)
        b = Banner.parse(line)
        o = obs(b)
        add('obs_eqb (parse %s) %s' % (ccps(line), cobs(o)), {'op': 'parse', 'cls': cls, 'line': line, 'impl': repr(o)},
            ('parse', cls, None if o is None else (o[2] is None, o[2] == '', o[3] is None, o[4], (o[0], o[1]) if (o[0], o[1]) in ((2, 0), (1, 99), (1, 5)) else 'other')))
        return b

    # ---- 1. lines of the grammar: correspondence + oracle ----
    n_gram = 3000 if q else 120000
    fixed = ['SSH-2.0-SSH-1.5-x', 'SSH-2.0-SSH-1.5', 'SSH-2.0-SSH-1. 5', 'SSH-2.0-SSH-1. 5-x y', 'SSH-2.0-SSH-1.5 x', 'SSH-2.0-SSH-1.5x']
    for i in range(n_gram):
        if i < len(fixed):
            m = re.match(r'^SSH-(\d)\.(\d+)-(\S*)(?: (.*))?$', fixed[i])
            ws = (m.group(4) or '').split()
            g = {'maj': m.group(1), 'min': m.group(2), 'sw': m.group(3), 'words': ws, 'gaps': [1] * len(ws), 'cls': 'fixed', 'inj': 0, 'line': fixed[i]}
        else:
            g = gen_grammar(rng)
        if g['line'] in seen:
            continue
        b = add_parse(g['line'], 'grammar/' + g['cls'])
        failed = check_line(ctx, g, b, 'parse', {'op': 'parse', 'line': g['line']})
        if b is not None:
            check_roundtrip(ctx, g['line'], b)
        if len(samples) < 4 and g['words'] and not failed:
            samples.append({'op': 'parse', 'line': g['line'], 'impl': repr(obs(b))})
        # product families: Software.parse through the parsed banner
        if g['cls'] == 'product' and b is not None:
            so = sw_obs(Software.parse(b))
            add('opt_eqb software_eqb (match parse %s with Some (p, _) => sw_parse p | None => None end) %s' % (ccps(g['line']), csw(so)),
                {'op': 'software-of-banner', 'line': g['line'], 'impl': repr(so)})
    # ---- 2. lines outside the grammar: correspondence, and round trip of whatever parses ----
    for _ in range(2500 if q else 80000):
        cls, s = gen_other(rng)
        if s in seen:
            continue
        b = add_parse(s, cls)
        if b is not None:
            check_roundtrip(ctx, s, b)
    for s in ['', 'SSH-2.0', 'SSH-2.0-', 'SSH-2.0- ', 'SSH-2.0 ', 'SSH-2.0 x', 'SSH-2.', 'SSH-2.0-x' + ' ' * 40 + 'y', 'SSH-2.0-' + 'A' * 300,
              'SSH-2.' + '9' * 400 + '-x', 'SSH-2.0-٣', 'SSH-٢.0-x', 'SSH-2. 0-x', 'SSH-2.\t0-x', 'SSH-2.5- SSH-2.64', 'SSH-1.5-SSH-1.10-x', 'SSH-9.1-SSH-10.0-x']:
        b = add_parse(s, 'fixed')
        if b is not None:
            check_roundtrip(ctx, s, b)
    # ---- 3. product recognition: Software.parse on software strings ----
    fam_seen = set()
    for i in range(1200 if q else 30000):
        k = rng.random()
        if k < 0.6:
            fam, ver, patch, sw = gen_product(rng)
            # oracle: product and version are extracted from the software string
            b = Banner.parse('SSH-2.0-' + sw)
            so = Software.parse(b) if b is not None else None
            ctx.evaluations += 1
            fam_seen.add((fam[0], patch != ''))
            if so is None or so.product != fam[1] or so.version != ver:
                ctx.violation('product/%s' % fam[0], 'software string %r: Software.parse gives %r, expected product %r version %r' % (sw, sw_obs(so), fam[1], ver), {'op': 'software', 'software': sw})
        elif k < 0.85:
            pre = rng.choice([f[0] for f in FAMILIES] + ['OpenSSH', 'OpenSSH_.', 'OpenSSH-.', 'OpenSSH..', 'libssh', 'Open', '', 'None', 'dropbear', 'Dropbear_', 'openssh_', 'lanco', 'PuTTY_', 'tinyssh'])
            sw = pre + ''.join(rng.choice('0123456789..__--pxX') for _ in range(rng.randrange(0, 9)))
        else:
            sw = ''.join(rng.choice(TOKCH) for _ in range(rng.randrange(0, 12)))
        so = sw_obs(Software.parse(Banner((2, 0), sw, None, True)))
        add('opt_eqb software_eqb (sw_parse_str %s) %s' % (cstr(sw), csw(so)), {'op': 'software', 'software': sw, 'impl': repr(so)},
            ('software', None if so is None else so[1], None if so is None else so[3] is None))
    so = sw_obs(Software.parse(Banner((2, 0), None, None, True)))
    add('opt_eqb software_eqb (sw_parse (mkP "2" "0" None None)) %s' % csw(so), {'op': 'software', 'software': None, 'impl': repr(so)})
    samples.append({'op': 'software', 'software': 'OpenSSH_.5p1', 'impl': repr(sw_obs(Software.parse(Banner((2, 0), 'OpenSSH_.5p1', None, True))))})
    # ---- 4. printable-ASCII filter on arbitrary code points ----
    for _ in range(300 if q else 6000):
        n = rng.choice([0, 1, 2, 5, 12, 40])
        cp = [rng.choice([31, 32, 33, 63, 126, 127, 128, 0, 9, 10, 13, 0xff, 0x100, 0xd800, 0xffff, 0x10000, 0x10ffff, rng.randrange(32, 127), rng.randrange(0, 0x110000)]) for _ in range(n)]
        s = ''.join(chr(c) for c in cp)
        t, v = Utils.to_print_ascii(s), Utils.is_print_ascii(s)
        add('String.eqb (to_print_ascii %s) %s && Bool.eqb (is_print_ascii %s) %s' % (clist(cp, cz), cstr(t), clist(cp, cz), cbool(v)),
            {'op': 'to_print_ascii', 'cps': cp, 'impl': (t, v)}, ('ascii', v, n == 0))
        # oracle: every character outside printable ASCII is replaced, the others are kept, the flag says whether any was replaced
        if t != sanitise(s) or v != printable(s) or len(t) != len(s):
            ctx.violation('sanitise/%s' % ('flag' if t == sanitise(s) else 'text'), 'to_print_ascii(%r) = %r, is_print_ascii = %r' % (s, t, v), {'op': 'to_print_ascii', 'cps': cp})
    # ---- 5. streams: header lines, banner line, rest; CR LF / LF; segmentation ----
    HDR = ['hello', 'Welcome to the machine', ' leading space', 'ssh-2.0-lowercase', ' SSH-2.0-leading_space', 'XSSH-2.0-x', 'SSH_2.0-x', 'SSH-2-x', 'SSH-x.y-z',
           'SSH-20-x', 'SSH-.0-x', 'SSH-2.0x-foo', 'SSH-2.0_foo', 'SSH-', 'SSH', 'S', '-SSH-2.0-x', 'Protocol mismatch.', '220 ftp ready', 'caf\xe9 au lait', '€ 5', '*' * 70, 'a\tb', 'x  y']
    BLANK = ['', '', ' ', '   ', '\t']
    for i in range(500 if q else 12000):
        lines = []
        for _ in range(rng.choice([0, 0, 1, 1, 2, 3, 6])):
            k = rng.random()
            if k < 0.2: t = rng.choice(BLANK)
            elif k < 0.8: t = rng.choice(HDR)
            else: t = ''.join(rng.choice(TOKCH + [' ', ' ']) for _ in range(rng.randrange(1, 30))).strip() or 'x'
            if re.match(r'^SSH-\d\.\s*\d', t):
                t = '#' + t
            lines.append(t)
        hdr_ctl = rng.random() < 0.1   # correspondence-only lines (control characters count as blank for str.strip)
        if hdr_ctl:
            lines.insert(rng.randrange(len(lines) + 1), rng.choice(['\x1c', '\x1f \x1d', 'a\x1cb', '\x00', '\x0b\x0c', 'x\x0b']))
        g = gen_grammar(rng)
        if rng.random() < 0.5:
            g['sw'] = sanitise(g['sw']); g['words'] = [sanitise(w) for w in g['words']]
            g['line'] = 'SSH-%s.%s-%s' % (g['maj'], g['min'], g['sw']) + ''.join(' ' * x + w for w, x in zip(g['words'], g['gaps']))
        if g['line'].encode('utf-8').rstrip() != g['line'].encode('utf-8'):
            continue   # a trailing injected whitespace byte would be cut by read_line: not the generated line any more
        no_banner = rng.random() < 0.08
        # what follows the banner line must not influence the result
        tail = b'' if no_banner else rng.choice([b'', b'', b'\x00\x00\x01\x0c\x0a\x14' + bytes(rng.randrange(rng.choice([128, 256])) for _ in range(20)),
                                                 b'more text\r\n', b'SSH-2.0-second\r\n', b'unterminated'])
        raw_lines = [t.encode('utf-8') + rng.choice([b'\r\n', b'\r\n', b'\n']) for t in lines]
        if not no_banner:
            raw_lines.append(g['line'].encode('utf-8') + rng.choice([b'\r\n', b'\r\n', b'\n']))
        seg = rng.choice(['whole', 'lines', 'midline', 'midline', 'bytes'])
        if seg == 'whole' or not raw_lines:
            chunks = [b''.join(raw_lines) + tail]
        elif seg == 'lines':
            chunks, cur = [], b''
            for rl in raw_lines:
                cur += rl
                if rng.random() < 0.5:
                    chunks.append(cur); cur = b''
            chunks.append(cur + tail)
        elif seg == 'bytes':      # one byte per recv()
            data = b''.join(raw_lines) + tail
            chunks = [data[j:j + 1] for j in range(len(data))]
        else:                     # cut at arbitrary byte offsets (inside lines, inside CR LF, inside UTF-8 sequences)
            data = b''.join(raw_lines) + tail
            chunks = []
            while data:
                k = rng.choice([1, 1, 2, 3, 7, 16, 40, rng.randrange(1, len(data) + 1), len(data)]); chunks.append(data[:k]); data = data[k:]
        chunks = [c for c in chunks if c]
        end = rng.choice(['close', 'timeout'])
        b, h, e = impl_get_banner(chunks, end)
        replay = {'op': 'get_banner', 'chunks': [c.hex() for c in chunks], 'end': end}
        if all(x < 128 for c in chunks for x in c) and sum(len(c) for c in chunks) < 900:
            add('gb_eqb (get_banner %s) (%s, %s)' % (clist(chunks, lambda c: clist(c, cz)), cobs(obs(b)), clist(h, lambda t: clist([ord(x) for x in t], cz))),
                dict(replay, impl=repr((obs(b), h, e))), ('stream', seg, b is None, min(len(h), 3), hdr_ctl))
        else:
            ctx.evaluations += 1
        if len(chunks) > 1:
            b1, h1, e1 = impl_get_banner([b''.join(chunks)], end)
            ctx.evaluations += 1
            if (obs(b1), h1) != (obs(b), h):
                ctx.violation('line-split-across-segments', 'get_banner over %d segment(s) (%s) returns banner %s header %r, over the uncut stream banner %s header %r' % (
                    len(chunks), seg, obs(b), h, obs(b1), h1), replay)
        if hdr_ctl:
            continue
        # oracle: the banner line is found after any number of other lines, which are the header text and nothing else is
        want_h = [t.rstrip() for t in lines if t.strip()]
        bad = []
        if no_banner:
            if b is not None: bad.append('banner-invented')
        else:
            proto, sw, cm = expected_parts(g)
            if b is None: bad.append('rejected')
            elif (b.protocol, b.software, b.comments) != (proto, sw, cm): bad.append('parts')
            elif b.valid_ascii != printable(g['line']): bad.append('valid-flag')
        if h != want_h:
            bad.append('header')
        if bad:
            sw_s = sanitise(g['sw'])
            if not no_banner and 'header' not in bad and looks_like_protocol(sw_s):
                key = 'software-token-looks-like-protocol'
            elif not no_banner and 'header' not in bad and split_by_space(sw_s, [sanitise(w) for w in g['words']]):
                key = 'software-token-protocol-split-by-space'
            elif seg in ('midline', 'bytes'):
                key = 'line-split-across-segments'
            else:
                key = 'stream/%s/%s' % ('+'.join(bad), seg)
            ctx.violation(key, 'get_banner over %d segment(s) (%s) returns banner %s header %r; sent header lines %r and banner line %r' % (
                len(chunks), seg, obs(b), h, want_h, None if no_banner else g['line']), replay)
    # ---- the report itself ('(gen) banner:' line, the non-conforming flag, JSON banner object), through the real output()
    import inproc, canon, json as _json
    n_rep = 0
    for i in range(150 if q else 4000):
        g = gen_grammar(rng)
        if i % 3 == 0 and g['inj'] == 0:     # make sure injected characters meet every protocol family
            g['sw'] = g['sw'] + rng.choice(BADCH); g['inj'] = 1
            g['line'] = 'SSH-%s.%s-%s' % (g['maj'], g['min'], g['sw']) + ''.join(' ' * gp + w for w, gp in zip(g['words'], g['gaps']))
        if looks_like_protocol(sanitise(g['sw'])) or split_by_space(sanitise(g['sw']), [sanitise(w) for w in g['words']]) or any(c in g['line'] for c in '\r\n'):
            continue
        from ssh_audit.banner import Banner
        b = Banner.parse(g['line'])
        if b is None:
            continue
        peer = {'banner': g['line'], 'kex': ['curve25519-sha256'], 'key': ['ssh-ed25519'], 'enc': ['aes256-ctr'], 'mac': ['hmac-sha2-256'], 'client_audit': i % 5 == 4}
        n_rep += 1
        replay = {'op': 'report', 'line': g['line']}
        for js in (0, 1):
            r = inproc.run_output(peer, js=js, verbose=(i % 2 == 0))
            if r['exc']:
                ctx.violation('report/exception', 'output() raised %s for banner line %r' % (r['exc'], g['line']), replay)
                continue
            if js:
                try:
                    jb = _json.loads(r['text'])['banner']
                except Exception as e:  # noqa
                    ctx.violation('report/json-malformed', 'JSON report for banner line %r: %s' % (g['line'], e), replay)
                    continue
                proto, sw, cm = expected_parts(g)
                if (jb.get('protocol'), jb.get('software'), jb.get('comments'), jb.get('raw')) != ('%d.%d' % proto, sw, cm, str(b)):
                    ctx.violation('report/json-banner', 'JSON banner object %r for line %r, expected protocol %r software %r comments %r' % (jb, g['line'], '%d.%d' % proto, sw, cm), replay)
            else:
                lines_ = canon.strip_ansi(r['text']).split('\n')
                shown = [l for l in lines_ if l.startswith('(gen) banner: ')]
                flag = [l for l in lines_ if l.startswith('(gen) banner contains non-printable ASCII')]
                if shown != ['(gen) banner: ' + str(b)] or not printable(shown[0]):
                    ctx.violation('report/banner-line', 'report shows %r for banner line %r (parsed banner renders as %r)' % (shown, g['line'], str(b)), replay)
                if (len(flag) == 1) != (not printable(g['line'])) or len(flag) > 1:
                    ctx.violation('report/non-conforming-flag', 'protocol %s.%s banner line %r (printable: %r) is %sflagged as containing non-printable ASCII in the report' % (
                        g['maj'], g['min'], g['line'], printable(g['line']), '' if flag else 'not '), replay)
        nontriv.add(('report', g['maj'] == '1', printable(g['line']), g['cls']))
    hist['report'] = n_rep
    # ---- header text end to end: lines before the identification string are reported once, whatever number of follow-up connections
    # (host-key probes, group-exchange probes) the audit makes to the same peer, each of which sends the same lines again
    import peers as P, runner
    hdr_cases = []
    for i, pre in enumerate([[b'Welcome to host'], [b'line one  ', b'', b'   ', b'line two'], [b'NOTICE: authorised use only', b'SSH-is-not-a-banner', b'x'], [],
                             [b'esc \x1b[2J\x1b[H(gen) banner: SSH-2.0-Forged', b'caf\xc3\xa9 bell\x07 nul\x00x'], [b'\xff\xfe raw bytes', b'tab\there']]):
        for kexs, keys in ((['curve25519-sha256'], ['ssh-ed25519', 'rsa-sha2-512']), (['diffie-hellman-group-exchange-sha256', 'curve25519-sha256'], ['ssh-ed25519']), (['x-unknown-kex'], ['x-unknown-key'])):
            hdr_cases.append({'pre': pre, 'kex': kexs, 'key': keys})
    if q:
        hdr_cases = hdr_cases[::2] + hdr_cases[1:2]

    def do_hdr(z, c):
        spec = dict(banner=b'SSH-2.0-OpenSSH_8.9', pre=c['pre'], kex=c['kex'], key=c['key'], enc=['aes256-ctr'], mac=['hmac-sha2-256'],
                    hostkeys={b'ssh-ed25519': P.ed25519_blob(), b'rsa-sha2-512': P.rsa_blob(3072)}, gex=lambda a, b, cc: max(a, min(cc, 3072)))
        srv = P.new_ssh2_server(spec, stall_limit=3.0)
        try:
            r = z.run(['-n', '--skip-rate-test', '-t', '2', '127.0.0.1:%d' % srv.port], timeout=90)
            r['conns'] = srv.conns()
            return r
        finally:
            srv.shutdown()
    with runner.Pool(8) as pool:
        hres = pool.map(do_hdr, hdr_cases)
    for c, r in zip(hdr_cases, hres):
        # header lines are shown like the banner: everything outside printable ASCII replaced by '?'
        want = [sanitise(l.rstrip().decode('utf-8', 'replace')) for l in c['pre'] if l.strip()]
        out = r['out']
        replay = {'op': 'cli-header', 'pre': [l.decode('latin1') for l in c['pre']], 'kex': c['kex'], 'key': c['key'], 'connections': r['conns']}
        if '(gen) banner: SSH-2.0-OpenSSH_8.9' not in out:
            ctx.violation('report/header/no-banner', 'no banner line in the report of a peer sending %d lines before its identification string: %s' % (len(c['pre']), (out + r['err'])[-200:]), replay)
            continue
        got = []
        if '(gen) header: ' in out:
            blk = out.split('(gen) header: ', 1)[1].split('\n(gen) banner: ', 1)[0]
            got = blk.split('\n')
        nontriv.add(('cli-header', len(want), r['conns'] > 1))
        if any(not printable(x) for x in got):
            ctx.violation('report/header-not-printable', 'the header text of the report contains characters outside printable ASCII: %r' % (got[:4],), replay)
        elif got != want:
            ctx.violation('report/header-text', 'the report shows %d header line(s) %r for a peer that sends %r before its identification string (the audit made %d connections)' % (len(got), got[:8], want, r['conns']), replay)
    hist['cli-header'] = len(hdr_cases)
    ctx.evaluations += len(hdr_cases)
    ctx.evaluations += 2 * n_rep
    samples.append({'op': 'get_banner', 'chunks': ['hello\\r\\nSSH-2.0-Open', 'SSH_8.9p1\\r\\n'], 'note': 'split line is reassembled since ddbb5b8', 'impl': repr(obs(impl_get_banner([b'hello\r\nSSH-2.0-Open', b'SSH_8.9p1\r\n'], 'close')[0]))})
    ctx.extra['op_histogram'] = hist
    ctx.extra['families_exercised'] = sorted('%s%s' % (a, '+patch' if p else '') for a, p in fam_seen)
    ctx.correspond('banner', IMPORTS, '', terms, lambda i: descs[i])
    ctx.cover(len(terms), nontriv, samples,
              'lines from the banner grammar SSH-<d>.<digits>-<token>[ <words>] (protocol 2.0/1.99/1.x/other incl. leading zeros and long minors; tokens: random printable, '
              'product strings, tokens that look like protocol tokens; comments with 1..7 space gaps; injected control/non-ASCII code points), '
              'mutated lines, multi-protocol prefixes, strings over a small alphabet, literal pieces; product strings of every recognised family at random versions/patches and near-miss prefixes; '
              'random code point lists for the filter; streams of 0..6 header lines + banner + tail with CR LF / LF, cut whole / at line ends / at arbitrary byte offsets / one byte per recv(), each also compared with the uncut stream, 7-bit streams also through the model. '
              'The regex engine is not modelled: the hand-written recognisers are tied to `re` only by this differential run. '
              'non-trivial = distinct (op, class, outcome shape: software None/empty, comments present, flag, protocol; product, patch present; segmentation, headers)')
