"""C06 - policy verdicts follow the documented matching rules.

Implementation side: the real `Policy` class (objects built with manual_load=True and private fields set, or
parsed from policy text), real `SSH2_Kex` / `SSH2_KexParty` / `Banner` objects, `Policy.evaluate`, and for the
verdict wiring `ssh_audit.evaluate_policy` in-process plus `ssh-audit.py -P` against a scripted TCP peer.
Model side: `PolicyM.evaluate_full_from` evaluated by coqc on the same (policy, peer) pairs.
Oracle: `oracle_fields` below, written from the property statement (one clause per field), NOT from the model."""
import itertools
import json
import os
import socket
import struct
import subprocess
import sys
import tempfile
import threading

import common
from coqlit import cz, cbool, clist, copt
import coqlit

IMPORTS = ['VModel:PolicyM']

STRICT_S = 'kex-strict-s-v00@openssh.com'
STRICT_C = 'kex-strict-c-v00@openssh.com'
MARKERS = (STRICT_S, STRICT_C)

POL_LIST_FIELDS = ('compressions', 'host_keys', 'optional_host_keys', 'kex', 'ciphers', 'macs')


# ----------------------------------------------------------------------------- building real objects
def new_pol(**kw):
    d = {'banner': None, 'compressions': None, 'host_keys': None, 'optional_host_keys': None, 'kex': None, 'ciphers': None,
         'macs': None, 'hostkey_sizes': None, 'dh': None, 'subset': False, 'larger': False}
    d.update(kw)
    return d


def new_peer(**kw):
    d = {'banner': 'SSH-2.0-OpenSSH_9.6', 'banner_kind': 'str', 'compression': ['none'], 'kex': ['ka'], 'key': ['ha'], 'enc': ['ea'],
         'mac': ['ma'], 'host_keys': {}, 'dh': {}, 'nokex': False}
    d.update(kw)
    return d


def mk_policy_fields(pol):
    from ssh_audit.policy import Policy
    P = Policy(manual_load=True)
    P._name, P._version = 'T', '1'
    P._banner = pol['banner']
    P._compressions = None if pol['compressions'] is None else list(pol['compressions'])
    P._host_keys = None if pol['host_keys'] is None else list(pol['host_keys'])
    P._optional_host_keys = None if pol['optional_host_keys'] is None else list(pol['optional_host_keys'])
    P._kex = None if pol['kex'] is None else list(pol['kex'])
    P._ciphers = None if pol['ciphers'] is None else list(pol['ciphers'])
    P._macs = None if pol['macs'] is None else list(pol['macs'])
    if pol['hostkey_sizes'] is not None:
        P._hostkey_sizes = {t: {'hostkey_size': v[0], 'ca_key_type': v[1], 'ca_key_size': v[2]} for t, v in pol['hostkey_sizes'].items()}
        P._normalize_hostkey_sizes()
    if pol['dh'] is not None:
        P._dh_modulus_sizes = dict(pol['dh'])
    P._allow_algorithm_subset_and_reordering = pol['subset']
    P._allow_larger_keys = pol['larger']
    return P


def text_safe_name(s):
    return s != '' and s == s.strip() and not any(c in s for c in ',=\n\r#') and s.isascii()


def policy_text(pol):
    """Policy file text for `pol`, or None when the text format cannot express it."""
    lines = ['name = "T"', 'version = 1']
    if pol['banner'] is not None:
        b = pol['banner']
        if any(c in b for c in '=\n\r"\\') or b != b.strip() or len(b) < 1:
            return None
        lines.append('banner = "%s"' % b)
    for key, f in (('compressions', 'compressions'), ('host keys', 'host_keys'), ('optional host keys', 'optional_host_keys'),
                   ('key exchanges', 'kex'), ('ciphers', 'ciphers'), ('macs', 'macs')):
        if pol[f] is not None:
            if pol[f] == ['']:
                lines.append('%s = ' % key)      # the empty name-list of a peer is [''] (ReadBuf.read_list); -M writes it like this, and it reads back as ['']
                continue
            if len(pol[f]) == 0 or not all(text_safe_name(x) for x in pol[f]):
                return None
            lines.append('%s = %s' % (key, ', '.join(pol[f])))
    if pol['hostkey_sizes'] is not None:
        d = {}
        for t, v in pol['hostkey_sizes'].items():
            if not text_safe_name(t) or not (v[1] == '' or text_safe_name(v[1])):
                return None
            d[t] = {'hostkey_size': v[0]}
            if not (v[1] == '' and v[2] == 0):
                d[t].update({'ca_key_type': v[1], 'ca_key_size': v[2]})
        lines.append('host_key_sizes = %s' % json.dumps(d))
    if pol['dh'] is not None:
        if not all(text_safe_name(t) for t in pol['dh']):
            return None
        lines.append('dh_modulus_sizes = %s' % json.dumps(pol['dh']))
    lines.append('allow_algorithm_subset_and_reordering = %s' % ('true' if pol['subset'] else 'false'))
    lines.append('allow_larger_keys = %s' % ('true' if pol['larger'] else 'false'))
    return '\n'.join(lines) + '\n'


RSA_CERTS = ('ssh-rsa-cert-v01@openssh.com', 'rsa-sha2-256-cert-v01@openssh.com', 'rsa-sha2-512-cert-v01@openssh.com')


def legacy_policy_text(pol):
    """The same policy written with the deprecated per-key directives (hostkey_size_T / cakey_size_T / dh_modulus_size_K), or None when
    they cannot express it (they imply the CA type: ssh-rsa for the RSA certificate types, ssh-ed25519 otherwise)."""
    new = policy_text(pol)
    if new is None or (pol['hostkey_sizes'] is None and pol['dh'] is None):
        return None
    lines = [l for l in new.split('\n') if l and not l.startswith('host_key_sizes = ') and not l.startswith('dh_modulus_sizes = ')]
    for t, v in (pol['hostkey_sizes'] or {}).items():
        lines.append('hostkey_size_%s = %d' % (t, v[0]))
        if not (v[1] == '' and v[2] == 0):
            if v[1] != ('ssh-rsa' if t in RSA_CERTS else 'ssh-ed25519'):
                return None
            lines.append('cakey_size_%s = %d' % (t, v[2]))
    for k, n in (pol['dh'] or {}).items():
        lines.append('dh_modulus_size_%s = %d' % (k, n))
    return '\n'.join(lines) + '\n'


def load_quiet(text):
    """Policy(policy_data=text) with the deprecation warning (printed to stdout/stderr by the constructor) swallowed."""
    import contextlib, io
    from ssh_audit.policy import Policy
    with contextlib.redirect_stdout(io.StringIO()), contextlib.redirect_stderr(io.StringIO()):
        return Policy(policy_data=text)


def pol_of_object(P):
    """The state of a real Policy object, as the dict the oracle and the Coq literal are built from."""
    hs = None
    if P._hostkey_sizes is not None:
        hs = {t: (v['hostkey_size'], v['ca_key_type'], v['ca_key_size']) for t, v in P._hostkey_sizes.items()}
    return new_pol(banner=P._banner, compressions=P._compressions, host_keys=P._host_keys, optional_host_keys=P._optional_host_keys,
                   kex=P._kex, ciphers=P._ciphers, macs=P._macs, hostkey_sizes=hs,
                   dh=None if P._dh_modulus_sizes is None else dict(P._dh_modulus_sizes),
                   subset=P._allow_algorithm_subset_and_reordering, larger=P._allow_larger_keys)


def mk_banner(peer):
    from ssh_audit.banner import Banner
    if peer['banner_kind'] == 'none':
        return None
    if peer['banner_kind'] == 'obj':
        b = Banner.parse(peer['banner'])
        return b if b is not None else peer['banner']
    return peer['banner']


def mk_kex(peer):
    from ssh_audit.ssh2_kex import SSH2_Kex
    from ssh_audit.ssh2_kexparty import SSH2_KexParty
    from ssh_audit.outputbuffer import OutputBuffer
    if peer['nokex']:
        return None
    cli = SSH2_KexParty(['c-enc'], ['c-mac'], ['c-comp'], [''])
    srv = SSH2_KexParty(list(peer['enc']), list(peer['mac']), list(peer['compression']), [''])
    k = SSH2_Kex(OutputBuffer(), b'\x00' * 16, list(peer['kex']), list(peer['key']), cli, srv, False, 0)
    for t, v in peer['host_keys'].items():
        k.set_host_key(t, b'', v[0], v[1], v[2])
    for t, v in peer['dh'].items():
        k.set_dh_modulus_size(t, v)
    return k


def impl_eval(P, peer):
    banner = mk_banner(peer)
    ret, errs, s = P.evaluate(banner, mk_kex(peer))
    return ret, [dict(e) for e in errs], s, str(banner)


# ----------------------------------------------------------------------------- Coq literals
INTERN = {}


def cstr_raw(s):
    t = coqlit.cstr(s)
    return t      # coqlit.cstr emits (bs [...]%nat), which is well-typed in any scope


def cstr(s):
    return INTERN.get(s) or cstr_raw(s)


def cstrs(xs):
    return clist(xs, cstr)


def build_preamble():
    """Names of the generators' universes are defined once per case file (string literals are slow to elaborate)."""
    names = []
    for u in (BIGU, TRICKY, KEXU, KEYU, ENCU, MACU, COMPU, CATYPES, HKT, DHT, BANNERS, ['Banner', 'Compression', 'Host keys', 'Key exchanges', 'Ciphers', 'MACs',
              'CA signature type', 'extra-kex'], [str(x) for x in SIZES + CASIZES]):
        for n in u:
            if n not in names:
                names.append(n)
    text = 'Definition bz (l : list Z) : string := bs (map Z.to_nat l).\n'
    for i, n in enumerate(names):
        text += 'Definition s%d : string := %s.\n' % (i, cstr_raw(n))
        INTERN[n] = 's%d' % i
    return text


def str_hash(s):
    sa = sb = 0
    b = s.encode('utf-8', 'surrogateescape')
    for c in b:
        sa += c + 1
        sb += sa
    return len(b), sa, sb


def cstr_nl(s):
    return '(join nl %s)' % clist(s.split('\n'), cstr_raw)


def chk(v):
    return '(HK %s %s %s)' % (cz(v[0]), cstr(v[1]), cz(v[2]))


def cpolicy(pol):
    hs = copt(pol['hostkey_sizes'], lambda d: clist(d.items(), lambda kv: '(%s, %s)' % (cstr(kv[0]), chk(kv[1]))))
    dh = copt(pol['dh'], lambda d: clist(d.items(), lambda kv: '(%s, %s)' % (cstr(kv[0]), cz(kv[1]))))
    return '(Build_policy None None %s %s %s %s %s %s %s %s %s true %s %s)' % (
        copt(pol['banner'], cstr), copt(pol['compressions'], cstrs), copt(pol['host_keys'], cstrs), copt(pol['optional_host_keys'], cstrs),
        copt(pol['kex'], cstrs), copt(pol['ciphers'], cstrs), copt(pol['macs'], cstrs), hs, dh, cbool(pol['subset']), cbool(pol['larger']))


def cpeer(peer, banner_str):
    return '(Build_peer %s %s %s %s %s %s %s %s)' % (
        cstr(banner_str), cstrs(peer['compression']), cstrs(peer['kex']), cstrs(peer['key']), cstrs(peer['enc']), cstrs(peer['mac']),
        clist(peer['host_keys'].items(), lambda kv: '(%s, %s)' % (cstr(kv[0]), chk(kv[1]))),
        clist(peer['dh'].items(), lambda kv: '(%s, %s)' % (cstr(kv[0]), cz(kv[1]))))


def cerrs(errs):
    return clist(errs, lambda e: '(PErr %s %s %s %s)' % (cstr(e['mismatched_field']), cstrs(e['expected_required']), cstrs(e['expected_optional']), cstrs(e['actual'])))


def term(pol, peer, banner_str, acc, res, exact_text=False):
    ret, errs, s = res
    if peer['nokex']:
        call = 'evaluate_nokex_full_from %s %s %s' % (cerrs(acc), cpolicy(pol), cstr(banner_str))
    else:
        call = 'evaluate_full_from %s %s %s' % (cerrs(acc), cpolicy(pol), cpeer(peer, banner_str))
    if exact_text:
        return 'result_eqb (%s) %s %s %s' % (call, cbool(ret), cerrs(errs), cstr_nl(s))
    return 'result_hash_eqb (%s) %s %s %d %d %d' % ((call, cbool(ret), cerrs(errs)) + str_hash(s))


# ----------------------------------------------------------------------------- oracle (from the property statement)
def size_ok(larger, expected, actual):
    return actual >= expected if larger else actual == expected


def oracle_fields(pol, peer, banner_str):
    """Every field the policy specifies that is applicable to this peer: (label, satisfied, expected list, actual list).
    label is the field name an error about it must carry."""
    out = []
    if pol['banner'] is not None:
        out.append(('Banner', banner_str == pol['banner'], [pol['banner']], [banner_str]))
    if peer['nokex']:
        return out      # nothing else can be judged without a key exchange message
    if pol['compressions'] is not None:
        # compressions "must match exactly (order matters)" in both modes
        out.append(('Compression', peer['compression'] == pol['compressions'], pol['compressions'], peer['compression']))
    subset = pol['subset']
    if pol['host_keys'] is not None:
        if subset:
            ok = all(k in pol['host_keys'] for k in peer['key'])
        else:
            opt = pol['optional_host_keys'] or []
            ok = [k for k in peer['key'] if k not in opt] == pol['host_keys']
        out.append(('Host keys', ok, pol['host_keys'], peer['key']))
    if pol['kex'] is not None:
        if subset:
            ok = set(peer['kex']) <= set(pol['kex']) and all(m in peer['kex'] for m in MARKERS if m in pol['kex'])
        else:
            ok = peer['kex'] == pol['kex']
        out.append(('Key exchanges', ok, pol['kex'], peer['kex']))
    for label, pf, af in (('Ciphers', 'ciphers', 'enc'), ('MACs', 'macs', 'mac')):
        if pol[pf] is not None:
            ok = set(peer[af]) <= set(pol[pf]) if subset else peer[af] == pol[pf]
            out.append((label, ok, pol[pf], peer[af]))
    larger = pol['larger']
    if pol['hostkey_sizes'] is not None:
        for t, (size, catype, casize) in pol['hostkey_sizes'].items():
            if t not in peer['host_keys']:
                continue
            asize, acatype, acasize = peer['host_keys'][t]
            out.append(('Host key (%s) sizes' % t, size_ok(larger, size, asize), [str(size)], [str(asize)]))
            if catype != '' and casize > 0:
                out.append(('CA signature type', acatype == catype, [catype], [acatype]))
                if acatype == catype:   # the CA size is comparable only between CAs of the same type
                    out.append(('CA signature size (%s)' % acatype, size_ok(larger, casize, acasize), [str(casize)], [str(acasize)]))
    if pol['dh'] is not None:
        for t, size in pol['dh'].items():
            if t in peer['dh']:
                out.append(('Group exchange (%s) modulus sizes' % t, size_ok(larger, size, peer['dh'][t]), [str(size)], [str(peer['dh'][t])]))
    return out


def field_class(label):
    for pre in ('Host key (', 'CA signature size', 'Group exchange ('):
        if label.startswith(pre):
            return pre.rstrip(' (')
    return label


def pyint_like(s):
    try:
        int(s)
        return True
    except ValueError:
        return False


def shown(l):
    return ', '.join(l)


def shown_normalised(l):
    if len(l) == 1 and pyint_like(l[0]):
        return str(int(l[0]))
    return ', '.join(l)


class Oracle:
    def __init__(self, ctx):
        self.ctx = ctx
        self.n = 0
        self.nontriv = set()

    def viol(self, key, what, pol, peer):
        self.ctx.violation(key, what, {'op': 'evaluate', 'policy': pol, 'peer': peer})

    def check(self, pol, peer, banner_str, res, fresh=True, focus=''):
        """res = (passed, errors, error_str) of the implementation on a FRESH Policy object."""
        self.n += 1
        passed, errs, estr = res
        fields = oracle_fields(pol, peer, banner_str)
        unsat = [f for f in fields if not f[1]]
        mode = 'subset' if pol['subset'] else 'exact'
        lk = 'larger' if pol['larger'] else 'equal'
        sig = tuple(sorted({field_class(f[0]) for f in unsat}))
        self.nontriv.add((focus, mode, lk, sig, pol['optional_host_keys'] is not None))
        # 1. passed <-> every specified field satisfied
        if passed != (not unsat):
            if passed:
                self.viol('verdict/passed-but-unsatisfied/%s/%s' % (field_class(unsat[0][0]), mode if 'size' not in unsat[0][0] else lk),
                          'evaluate() passed although %r is not satisfied: expected %r, actual %r' % (unsat[0][0], unsat[0][2], unsat[0][3]), pol, peer)
            else:
                names = sorted({e['mismatched_field'] for e in errs})
                self.viol('verdict/failed-but-satisfied/%s/%s/%s' % (field_class(names[0]) if names else 'no-error', mode, lk),
                          'evaluate() failed (errors about %r) although every specified field is satisfied' % (names,), pol, peer)
        # 1b. a listed size can only be "equal" when it was measured: a type the peer advertises, with a listed size, but without a measurement
        if fresh and pol['hostkey_sizes'] is not None:
            for t in pol['hostkey_sizes']:
                if t in peer['key'] and t not in peer['host_keys'] and not any(e['mismatched_field'].startswith('Host key (%s)' % t) for e in errs):
                    self.viol('size-not-measured/host-key', 'the policy lists a size for host key %r, the peer advertises it, no size was measured, and evaluate() raises no error about it' % t, pol, peer)
                    break
        if fresh and pol['dh'] is not None:
            for t in pol['dh']:
                if t in peer['kex'] and t not in peer['dh'] and not any(('(%s)' % t) in e['mismatched_field'] for e in errs):
                    self.viol('size-not-measured/modulus', 'the policy lists a modulus size for %r, the peer offers it, no modulus was measured, and evaluate() raises no error about it' % t, pol, peer)
                    break
        # 2. passed <-> no errors (fresh accumulator)
        if fresh and passed != (len(errs) == 0):
            self.viol('verdict-vs-errors/%s' % ('passed-with-errors' if passed else 'failed-without-errors'),
                      'passed=%r but %d errors' % (passed, len(errs)), pol, peer)
        # 3. errors name their field, expected = the policy's value, actual = the peer's value; every unsatisfied field is named
        if fresh:
            want = {(f[0], tuple(f[2]), tuple(f[3])) for f in unsat}
            for e in errs:
                got = (e['mismatched_field'], tuple(e['expected_required']), tuple(e['actual']))
                if got not in want:
                    same_field = [w for w in want if w[0] == got[0]]
                    if not same_field:
                        kind = 'satisfied-or-unspecified-field'
                    elif not any(w[1] == got[1] for w in same_field):
                        kind = 'wrong-expected'
                    else:
                        kind = 'wrong-actual'
                    self.viol('error-names/%s/%s' % (field_class(got[0]), kind), 'error %r does not describe an unsatisfied field of this pair (unsatisfied: %r)' % (e, sorted(want)), pol, peer)
                if e['mismatched_field'] == 'Host keys':
                    exp_opt = pol['optional_host_keys'] if pol['optional_host_keys'] is not None else ['']
                    if e['expected_optional'] != exp_opt:
                        self.viol('error-names/Host keys/wrong-optional', 'error %r does not carry the policy\'s optional host keys %r' % (e, exp_opt), pol, peer)
                # rendering: the text names the field and shows expected and actual values
                head = '  * %s did not match.\n' % e['mismatched_field']
                if head not in estr:
                    self.viol('render/%s/field-not-named' % field_class(e['mismatched_field']), 'error text lacks %r' % head, pol, peer)
                for what, val in (('expected', e['expected_required']), ('actual', e['actual'])):
                    tail = ': %s\n' % shown(val) if what == 'expected' else ' %s\n' % shown(val)
                    if tail not in estr:
                        tail2 = ': %s\n' % shown_normalised(val) if what == 'expected' else ' %s\n' % shown_normalised(val)
                        if tail2 in estr:
                            self.viol('render/int-like-name-normalised', 'the %s value %r of %r is shown as %r in the error text (a one-element list whose only name parses as an int is passed through int())' % (
                                what, val, e['mismatched_field'], shown_normalised(val)), pol, peer)
                        else:
                            self.viol('render/%s/%s-not-shown' % (field_class(e['mismatched_field']), what), 'error text does not show the %s value %r' % (what, val), pol, peer)
            named = {e['mismatched_field'] for e in errs}
            for f in unsat:
                if f[0] not in named:
                    self.viol('error-names/%s/missing' % field_class(f[0]), 'unsatisfied field %r has no error' % (f[0],), pol, peer)
            if estr.count(' did not match.\n') < len(errs) or (not errs and estr != ''):
                self.viol('render/count', 'error text has %d blocks for %d errors' % (estr.count(' did not match.\n'), len(errs)), pol, peer)
        return passed, unsat

    # 4. monotonicity
    def monotone(self, pol, peer, passed, rng, budget=6):
        if not passed or peer['nokex']:
            return 0
        n = 0
        if pol['subset']:
            variants = []
            for f in ('kex', 'key', 'enc', 'mac'):
                l = peer[f]
                for i in range(len(l)):
                    if f == 'kex' and l[i] in MARKERS and l.count(l[i]) == 1 and pol['kex'] is not None and l[i] in pol['kex']:
                        continue        # the statement's exception: a marker the policy lists stays
                    variants.append((f, l[:i] + l[i + 1:]))
                if len(l) > 1:
                    variants.append((f, list(reversed(l))))
            if len(variants) > budget:
                variants = rng.sample(variants, budget)
            for f, nl in variants:
                to_empty = (nl == [])
                if to_empty:
                    nl = ['']          # what an empty name-list on the wire parses to (ReadBuf.read_list)
                p2 = dict(peer); p2[f] = nl
                P = mk_policy_fields(pol)
                r = impl_eval(P, p2)
                n += 1
                if not r[0] and to_empty:
                    self.viol('monotone/subset-shrink-to-empty', 'peer passes, but fails after its %s list %r shrinks to the empty list (parsed as %r) under subset mode' % (f, peer[f], nl), pol, p2)
                elif not r[0]:
                    self.viol('monotone/subset-shrink/%s' % f, 'peer passes, but fails after its %s list %r shrinks to %r under subset mode' % (f, peer[f], nl), pol, p2)
        if pol['larger']:
            variants = []
            for t, v in peer['host_keys'].items():
                variants.append(('hostkey', 'host_keys', t, (v[0] + rng.choice([1, 1024]), v[1], v[2])))
                variants.append(('ca', 'host_keys', t, (v[0], v[1], v[2] + rng.choice([1, 1024]))))
            for t, v in peer['dh'].items():
                variants.append(('dh', 'dh', t, v + rng.choice([1, 1024])))
            if len(variants) > budget:
                variants = rng.sample(variants, budget)
            for kind, f, t, nv in variants:
                p2 = dict(peer); p2[f] = dict(peer[f]); p2[f][t] = nv
                P = mk_policy_fields(pol)
                r = impl_eval(P, p2)
                n += 1
                if not r[0]:
                    self.viol('monotone/larger-grow/%s' % kind, 'peer passes, but fails after its %s size for %s grows from %r to %r under larger-keys mode' % (kind, t, peer[f][t], nv), pol, p2)
        self.n += n
        return n


# ----------------------------------------------------------------------------- generators
def lists_upto(names, k):
    res = []
    for n in range(k + 1):
        res.extend(list(t) for t in itertools.product(names, repeat=n))
    return res


def subsets(names):
    res = []
    for n in range(len(names) + 1):
        res.extend(list(t) for t in itertools.combinations(names, n))
    return res


KEXU = ['ka', 'kb', STRICT_S, STRICT_C]
KEYU = ['ha', 'hb', 'hc']
ENCU = ['ea', 'eb', 'ec']
MACU = ['ma', 'mb', 'mc']
COMPU = ['none', 'zlib@openssh.com', 'zlib']
SIZES = [0, 2047, 2048, 3071, 3072, 4096]
CASIZES = [0, 2047, 2048, 4096]
CATYPES = ['', 'ssh-rsa', 'ssh-ed25519']
HKT = ['ssh-rsa', 'rsa-sha2-512-cert-v01@openssh.com']
DHT = ['diffie-hellman-group-exchange-sha256', 'diffie-hellman-group-exchange-sha1']
BANNERS = ['SSH-2.0-OpenSSH_9.6', 'SSH-2.0-OpenSSH_9.6 Debian', 'SSH-2.0-dropbear_2020.81', '', 'None']


def small_list(rng, universe, maxlen=3):
    return [rng.choice(universe) for _ in range(rng.randrange(maxlen + 1))]


def small_hk(rng):
    return (rng.choice(SIZES), rng.choice(CATYPES), rng.choice(CASIZES))


def background(rng, pol, peer, keep):
    """Fill the fields outside `keep` (the focus): 50% unspecified, 30% specified and satisfied, 20% random."""
    peer.update({k: v for k, v in dict(compression=small_list(rng, COMPU), kex=small_list(rng, KEXU), key=small_list(rng, KEYU),
                                       enc=small_list(rng, ENCU), mac=small_list(rng, MACU),
                                       host_keys={t: small_hk(rng) for t in HKT if rng.random() < 0.6},
                                       dh={t: rng.choice(SIZES) for t in DHT if rng.random() < 0.6},
                                       banner=rng.choice(BANNERS)).items() if k not in keep})
    r = rng.random()
    if r < 0.5:
        return
    sat = r < 0.8
    upd = {}
    upd['banner'] = peer['banner'] if sat else rng.choice(BANNERS + [None])
    upd['compressions'] = list(peer['compression']) if sat else rng.choice([None, small_list(rng, COMPU)])
    upd['host_keys'] = list(peer['key']) if sat else rng.choice([None, small_list(rng, KEYU)])
    upd['optional_host_keys'] = None if sat else rng.choice([None, small_list(rng, KEYU, 2)])
    upd['kex'] = list(peer['kex']) if sat else rng.choice([None, small_list(rng, KEXU)])
    upd['ciphers'] = list(peer['enc']) if sat else rng.choice([None, small_list(rng, ENCU)])
    upd['macs'] = list(peer['mac']) if sat else rng.choice([None, small_list(rng, MACU)])
    upd['hostkey_sizes'] = dict(peer['host_keys']) if sat else rng.choice([None, {t: small_hk(rng) for t in HKT if rng.random() < 0.7}])
    upd['dh'] = dict(peer['dh']) if sat else rng.choice([None, {t: rng.choice(SIZES) for t in DHT if rng.random() < 0.7}])
    if not sat:
        upd['larger'] = rng.random() < 0.5
        upd['subset'] = rng.random() < 0.5
    for k, v in upd.items():
        if k not in keep:
            pol[k] = v


def exhaustive_cases(rng, thorough=False):
    """The small universe, one focus field at a time, every (policy value, peer value, flag) combination of the focus."""
    if thorough:
        # host keys over FOUR names with every optional subset (248k pairs; correspondence on a slice, see run)
        U4 = KEYU + ['hd']
        L = lists_upto(U4, 3)
        OPT = [None] + subsets(U4)
        for pl in [None] + L:
            for al in L:
                for opt in OPT:
                    for subset in (False, True):
                        yield 'key4', new_pol(host_keys=pl, optional_host_keys=opt, subset=subset), new_peer(key=al)
    # key exchanges: all lists of length <= 3 over 4 names (two of them the strict-kex markers)
    L = lists_upto(KEXU, 3)
    for pl in [None] + L:
        for al in L:
            for subset in (False, True):
                pol, peer = new_pol(kex=pl, subset=subset), new_peer(kex=al)
                background(rng, pol, peer, {'kex', 'subset'})
                yield 'kex', pol, peer
    # host keys with optional host keys
    L = lists_upto(KEYU, 3)
    OPT = [None] + subsets(KEYU)
    for pl in [None] + L:
        for al in L:
            for opt in OPT:
                for subset in (False, True):
                    pol, peer = new_pol(host_keys=pl, optional_host_keys=opt, subset=subset), new_peer(key=al)
                    background(rng, pol, peer, {'host_keys', 'optional_host_keys', 'key', 'subset'})
                    yield 'key', pol, peer
    for focus, pf, af, U in (('enc', 'ciphers', 'enc', ENCU), ('mac', 'macs', 'mac', MACU), ('comp', 'compressions', 'compression', COMPU)):
        L = lists_upto(U, 3)
        for pl in [None] + L:
            for al in L:
                for subset in (False, True):
                    pol, peer = new_pol(subset=subset), new_peer()
                    pol[pf] = pl; peer[af] = al
                    background(rng, pol, peer, {pf, af, 'subset'})
                    yield focus, pol, peer
    # banner / no key exchange message
    for pb in [None] + BANNERS:
        for ab, kind in [(b, 'str') for b in BANNERS] + [('SSH-2.0-OpenSSH_9.6', 'obj'), ('SSH-2.0-OpenSSH_9.6 Debian', 'obj'), ('', 'none')]:
            for nokex in (False, True):
                pol, peer = new_pol(banner=pb), new_peer(banner=ab, banner_kind=kind, nokex=nokex)
                background(rng, pol, peer, {'banner', 'banner_kind'})
                yield 'banner', pol, peer
    # host key / CA sizes: one key type, every policy entry x every peer entry (or absent) x larger flag
    ENT = [(s, t, c) for s in SIZES for t in CATYPES for c in CASIZES]
    for pe in ENT:
        for ae in ENT + [None]:
            for larger in (False, True):
                pol = new_pol(hostkey_sizes={HKT[0]: pe}, larger=larger)
                peer = new_peer(host_keys={} if ae is None else {HKT[0]: ae})
                if rng.random() < 0.3:
                    pol['hostkey_sizes'] = {HKT[1]: small_hk(rng), HKT[0]: pe}
                    peer['host_keys'][HKT[1]] = small_hk(rng)
                background(rng, pol, peer, {'hostkey_sizes', 'host_keys', 'larger'})
                yield 'hksize', pol, peer
    # group exchange modulus sizes: two types, every policy map x peer map x larger flag
    maps = [dict((t, s) for t, s in zip(DHT, ss) if s is not None) for ss in itertools.product([None] + SIZES, repeat=2)]
    for pm in [None] + maps:
        for am in maps:
            for larger in (False, True):
                pol, peer = new_pol(dh=pm, larger=larger), new_peer(dh=am)
                background(rng, pol, peer, {'dh', 'larger'})
                yield 'dh', pol, peer


BIGU = ['curve25519-sha256', 'curve25519-sha256@libssh.org', 'diffie-hellman-group-exchange-sha256', 'diffie-hellman-group14-sha256',
        'sntrup761x25519-sha512@openssh.com', STRICT_S, STRICT_C, 'ext-info-s', 'ssh-ed25519', 'rsa-sha2-512', 'rsa-sha2-256', 'ssh-rsa',
        'ecdsa-sha2-nistp256', 'ssh-ed25519-cert-v01@openssh.com', 'rsa-sha2-512-cert-v01@openssh.com', 'chacha20-poly1305@openssh.com',
        'aes256-gcm@openssh.com', 'aes128-ctr', 'aes256-ctr', 'hmac-sha2-256-etm@openssh.com', 'hmac-sha2-512-etm@openssh.com',
        'umac-128-etm@openssh.com', 'none', 'zlib@openssh.com', 'gss-group14-sha256-toWM5Slw5Ew8Mqkay+al2g==', 'x', 'X']
TRICKY = ['', ' ', 'a b', ' lead', 'trail ', '007', '12', '+7', '-0', '1_0', ' 42 ', '1__0', '_1', '0x10', 'a,b', 'a=b', 'café', 'é', '"q"', 'new\nline', '2048']


def rand_list(rng, tricky):
    U = BIGU + (TRICKY if tricky else [])
    n = rng.choice([0, 1, 1, 2, 3, 5, 8, 12])
    if rng.random() < 0.5:
        return rng.sample(U, min(n, len(U)))
    return [rng.choice(U) for _ in range(n)]


def perturb(rng, l, U):
    l = list(l)
    r = rng.random()
    if r < 0.3:
        return l
    if r < 0.45 and l:
        del l[rng.randrange(len(l))]
    elif r < 0.6:
        l.insert(rng.randrange(len(l) + 1), rng.choice(U))
    elif r < 0.75:
        rng.shuffle(l)
    elif r < 0.85 and l:
        l[rng.randrange(len(l))] = rng.choice(U)
    else:
        l = rng.sample(l, rng.randrange(len(l) + 1))
    return l


def rand_size(rng):
    return rng.choice(SIZES + [255, 256, 384, 521, 1024, 8192, 1, -1, 10 ** 6, rng.randrange(0, 9000)])


def random_case(rng, tricky):
    U = BIGU + (TRICKY if tricky else [])
    peer = new_peer(banner=rng.choice(BANNERS + (['SSH-2.0-x y', 'café', ' 12 '] if tricky else [])),
                    banner_kind=rng.choice(['str', 'str', 'obj', 'none']),
                    compression=rand_list(rng, tricky)[:3], kex=rand_list(rng, tricky), key=rand_list(rng, tricky), enc=rand_list(rng, tricky), mac=rand_list(rng, tricky),
                    nokex=rng.random() < 0.04)
    types = rng.sample(U, rng.randrange(0, 5))
    peer['host_keys'] = {t: (rand_size(rng), rng.choice(CATYPES + ([rng.choice(U)] if tricky else [])), rand_size(rng)) for t in types}
    dtypes = rng.sample(U, rng.randrange(0, 4))
    peer['dh'] = {t: rand_size(rng) for t in dtypes}
    pol = new_pol(subset=rng.random() < 0.5, larger=rng.random() < 0.5)

    def pick(v, f):
        r = rng.random()
        return None if r < 0.25 else f(v)
    bstr = 'None' if peer['banner_kind'] == 'none' else peer['banner']
    pol['banner'] = pick(bstr, lambda b: b if rng.random() < 0.7 else rng.choice(BANNERS))
    pol['compressions'] = pick(peer['compression'], lambda l: perturb(rng, l, U))
    pol['optional_host_keys'] = rng.choice([None, None, rand_list(rng, tricky)[:4], rng.sample(peer['key'], rng.randrange(len(peer['key']) + 1))])
    opt = pol['optional_host_keys'] or []
    pol['host_keys'] = pick(peer['key'], lambda l: perturb(rng, [x for x in l if x not in opt] if rng.random() < 0.7 else l, U))
    pol['kex'] = pick(peer['kex'], lambda l: perturb(rng, l, U + [STRICT_S, STRICT_C]))
    pol['ciphers'] = pick(peer['enc'], lambda l: perturb(rng, l, U))
    pol['macs'] = pick(peer['mac'], lambda l: perturb(rng, l, U))
    if pol['subset'] and rng.random() < 0.6:      # supersets, so that subset mode passes often
        for pf in ('host_keys', 'kex', 'ciphers', 'macs'):
            if pol[pf] is not None and rng.random() < 0.8:
                af = {'host_keys': 'key', 'kex': 'kex', 'ciphers': 'enc', 'macs': 'mac'}[pf]
                pol[pf] = pol[pf] + [x for x in peer[af] if x not in pol[pf]]
                rng.shuffle(pol[pf])

    def psize(v):
        r = rng.random()
        if r < 0.6:
            return v
        if r < 0.8:
            return v - rng.choice([1, 1024])
        return rand_size(rng)
    if rng.random() < 0.75:
        m = {}
        for t in types + rng.sample(U, rng.randrange(0, 2)):
            if rng.random() < 0.8:
                a = peer['host_keys'].get(t, (2048, '', 0))
                m[t] = (psize(a[0]), a[1] if rng.random() < 0.8 else rng.choice(CATYPES), psize(a[2]))
        items = list(m.items()); rng.shuffle(items)
        pol['hostkey_sizes'] = dict(items)
    if rng.random() < 0.75:
        m = {}
        for t in dtypes + rng.sample(U, rng.randrange(0, 2)):
            if rng.random() < 0.8:
                m[t] = psize(peer['dh'].get(t, 2048))
        items = list(m.items()); rng.shuffle(items)
        pol['dh'] = dict(items)
    return pol, peer


# ----------------------------------------------------------------------------- verdict wiring (ssh_audit.py:612-661, 1277)
def kexinit_payload(peer):
    from ssh_audit.writebuf import WriteBuf
    w = WriteBuf()
    w.write_byte(20)
    w.write(b'\x11' * 16)
    for l in (peer['kex'], peer['key'], peer['enc'], peer['enc'], peer['mac'], peer['mac'], peer['compression'], peer['compression'], [''], ['']):
        w.write_list(l)
    w.write_bool(False)
    w.write_int(0)
    return w.write_flush()


def frame(payload):
    pad = -(len(payload) + 5) % 8
    if pad < 4:
        pad += 8
    return struct.pack('>IB', len(payload) + pad + 1, pad) + payload + b'\x00' * pad


class ScriptedPeer:
    """TCP server on 127.0.0.1: sends the banner and one KEXINIT to every connection, then reads until the client closes."""

    def __init__(self, banner, peer):
        self.data = banner.encode() + b'\r\n' + frame(kexinit_payload(peer))
        self.srv = socket.socket()
        self.srv.setsockopt(socket.SOL_SOCKET, socket.SO_REUSEADDR, 1)
        self.srv.bind(('127.0.0.1', 0))
        self.srv.listen(16)
        self.port = self.srv.getsockname()[1]
        self.srv.settimeout(0.2)
        self.stop = False
        self.th = threading.Thread(target=self.loop, daemon=True)
        self.th.start()

    def loop(self):
        while not self.stop:
            try:
                c, _ = self.srv.accept()
            except socket.timeout:
                continue
            except OSError:
                return
            threading.Thread(target=self.serve, args=(c,), daemon=True).start()

    def serve(self, c):
        try:
            c.settimeout(3)
            c.sendall(self.data)
            while c.recv(4096):
                pass
        except OSError:
            pass
        finally:
            c.close()

    def close(self):
        self.stop = True
        self.srv.close()


def cli_policy_run(text, port, as_json):
    with tempfile.TemporaryDirectory() as d:
        pf = os.path.join(d, 'p.txt')
        with open(pf, 'w', encoding='utf-8') as f:
            f.write(text)
        cmd = [common.PY, os.path.join(common.REPO, 'ssh-audit.py'), '-P', pf, '--skip-rate-test', '-t', '5'] + (['-j'] if as_json else []) + ['127.0.0.1:%d' % port]
        p = subprocess.run(cmd, env=common.BASE_ENV, capture_output=True, text=True, timeout=120)
    return p.returncode, p.stdout, p.stderr


def cli_policy_multi(text, ports, threads=1):
    """ssh-audit.py -P <policy> -T <targets> --threads n -j: one policy, several targets, one process."""
    with tempfile.TemporaryDirectory() as d:
        pf, tf = os.path.join(d, 'p.txt'), os.path.join(d, 't.txt')
        with open(pf, 'w', encoding='utf-8') as f:
            f.write(text)
        with open(tf, 'w') as f:
            f.write(''.join('127.0.0.1:%d\n' % p for p in ports))
        cmd = [common.PY, os.path.join(common.REPO, 'ssh-audit.py'), '-P', pf, '--skip-rate-test', '-t', '5', '--threads', str(threads), '-j', '-T', tf]
        p = subprocess.run(cmd, env=common.BASE_ENV, capture_output=True, text=True, timeout=180)
    return p.returncode, p.stdout, p.stderr


def wiring_inprocess(ctx, orc, pol, peer, res, banner_str):
    """evaluate_policy(): returned bool, text and JSON output follow the verdict of Policy.evaluate."""
    from ssh_audit import ssh_audit as SA
    from ssh_audit.outputbuffer import OutputBuffer
    passed, errs, estr = res
    for as_json in (False, True):
        out = OutputBuffer()
        out.batch = True
        out.use_colors = False
        aconf = SA.AuditConf('localhost', 22)
        aconf.json = as_json
        aconf.policy = mk_policy_fields(pol)
        got = SA.evaluate_policy(out, aconf, mk_banner(peer), None, kex=mk_kex(peer))
        text = out.get_buffer()
        ok = got == passed
        if as_json:
            try:
                js = json.loads(text)
                ok = ok and js['passed'] == passed and js['errors'] == errs
            except (ValueError, KeyError):
                ok = False
        else:
            ok = ok and (('Passed' in text) == passed) and (('Failed!' in text) == (not passed)) and (passed or ('Errors:\n' + estr) in text)
        orc.n += 1
        if not ok:
            orc.viol('wiring/evaluate_policy/%s' % ('json' if as_json else 'text'), 'evaluate_policy() output/return value %r does not follow the verdict passed=%r' % (got, passed), pol, peer)


# ----------------------------------------------------------------------------- run
def run(ctx):
    ctx.proofs(['C06'])
    preamble = build_preamble()
    rng = ctx.rng
    q = ctx.quick
    orc = Oracle(ctx)
    terms, descs = [], []
    samples = []
    hist = {}

    def one(pol, peer, focus, correspond, via_text=False, twice=False):
        P = None
        if via_text:
            text = policy_text(pol)
            if text is not None:
                from ssh_audit.policy import Policy
                P = Policy(policy_data=text)
                legacy = legacy_policy_text(pol)
                stated = pol
                pol = pol_of_object(P)
                # "every field the policy specifies": the lists, banner and flags the file states are the ones the loaded policy holds (names the text format expresses verbatim)
                LF = ('compressions', 'host_keys', 'optional_host_keys', 'kex', 'ciphers', 'macs', 'banner', 'subset', 'larger')
                if any(pol[k] != stated[k] for k in LF):
                    diff = [k for k in LF if pol[k] != stated[k]]
                    orc.viol('policy-text/loaded-differently', 'the policy file states %s = %r but the loaded policy holds %r; text: %r' % (diff, [stated[k] for k in diff], [pol[k] for k in diff], text), stated, peer)
                focus += '/text'
                if legacy is not None:
                    # the deprecated spelling of the same policy must load as the same policy (same fields, hence the same verdicts)
                    got = pol_of_object(load_quiet(legacy))
                    hist['legacy-text'] = hist.get('legacy-text', 0) + 1
                    nz = lambda d: {k: (v or None) if k in ('hostkey_sizes', 'dh') else v for k, v in d.items()}   # an empty size map specifies nothing
                    if nz(got) != nz(pol):
                        diff = [k for k in pol if nz(got).get(k) != nz(pol).get(k)]
                        orc.viol('legacy-directives/loaded-differently', 'the policy written with hostkey_size_*/cakey_size_*/dh_modulus_size_* loads with %s = %r, the same policy in the current format with %r; text: %r' % (
                            diff, [got[k] for k in diff], [pol[k] for k in diff], legacy), pol, peer)
        if P is None:
            P = mk_policy_fields(pol)
            assert pol_of_object(P) == pol, (pol_of_object(P), pol)
        ret, errs, estr, bstr = impl_eval(P, peer)
        hist[focus] = hist.get(focus, 0) + 1
        passed, unsat = orc.check(pol, peer, bstr, (ret, errs, estr), fresh=True, focus=focus)
        orc.monotone(pol, peer, ret, rng)
        if correspond:
            terms.append(term(pol, peer, bstr, [], (ret, errs, estr), exact_text=(len(terms) % 16 == 0 or focus in ('witness', 'replay'))))
            descs.append({'op': 'evaluate', 'focus': focus, 'policy': pol, 'peer': peer, 'impl': [ret, errs, estr]})
        if twice:
            # the same Policy object evaluates a second peer: the accumulator keeps the first call's errors
            peer2 = dict(peer)
            peer2['kex'] = list(reversed(peer['kex'])) + ['extra-kex']
            ret2, errs2, estr2, bstr2 = impl_eval(P, peer2)
            hist['accumulator'] = hist.get('accumulator', 0) + 1
            terms.append(term(pol, peer2, bstr2, errs, (ret2, errs2, estr2)))
            descs.append({'op': 'evaluate twice', 'policy': pol, 'peer1': peer, 'peer': peer2, 'acc': errs, 'impl': [ret2, errs2, estr2]})
            if errs2[:len(errs)] != errs:
                orc.viol('accumulator/not-prefix', 'second evaluate() on the same object does not keep the first call\'s errors as a prefix', pol, peer2)
        return ret, errs, estr, unsat

    # ---- replay of one recorded case
    if getattr(ctx, 'replay', None):
        rp = json.load(open(ctx.replay))['replay']
        pol, peer = new_pol(**rp['policy']), new_peer(**rp['peer'])
        if pol['hostkey_sizes'] is not None:
            pol['hostkey_sizes'] = {t: tuple(v) for t, v in pol['hostkey_sizes'].items()}
        peer['host_keys'] = {t: tuple(v) for t, v in peer['host_keys'].items()}
        r = one(pol, peer, 'replay', True)
        ctx.correspond('policy', IMPORTS, preamble, terms, lambda i: descs[i])
        ctx.cover(orc.n, orc.nontriv, [{'policy': pol, 'peer': peer, 'impl': list(r[:3])}], 'replay of one recorded (policy, peer) pair')
        return

    # ---- 1. the small universe, exhaustively (oracle on every pair; correspondence on every pair in thorough, on a seeded 10% slice in quick)
    n_ex = 0
    for focus, pol, peer in exhaustive_cases(rng, not q):
        n_ex += 1
        corr = ((not q) or rng.random() < 0.10) if focus != 'key4' else rng.random() < 0.04
        r = one(pol, peer, focus, corr, via_text=(n_ex % 7 == 0))
        if n_ex % 9973 == 1 and len(samples) < 8:
            samples.append({'focus': focus, 'policy': pol, 'peer': peer, 'passed': r[0], 'errors': [e['mismatched_field'] for e in r[1]]})
    ctx.extra['small_universe_pairs'] = n_ex
    # ---- 2. random large instances (real algorithm names; tricky names: blanks, int-like, non-ASCII, separators)
    n_rand = 1500 if q else 40000
    for i in range(n_rand):
        tricky = i % 3 == 0
        pol, peer = random_case(rng, tricky)
        one(pol, peer, 'random/tricky' if tricky else 'random', True, via_text=(i % 5 == 1), twice=(i % 10 == 0))
    # deterministic witnesses of the recorded rendering finding and of the documented corner cases
    for pol, peer in [
        (new_pol(kex=['007']), new_peer(kex=['12'])),
        (new_pol(ciphers=['aes128-ctr'], subset=True), new_peer(enc=[' 42 '])),
        (new_pol(kex=['ka', STRICT_S], subset=True), new_peer(kex=['ka'])),
        (new_pol(kex=['ka', STRICT_S], subset=True), new_peer(kex=['kb'])),
        (new_pol(host_keys=['ha'], optional_host_keys=['hb'], subset=True), new_peer(key=['ha', 'hb'])),
        (new_pol(host_keys=['ha'], optional_host_keys=['hb']), new_peer(key=['hb', 'ha', 'hb'])),
        (new_pol(hostkey_sizes={'k': (2048, 'ssh-rsa', 2048)}), new_peer(host_keys={'k': (2048, 'ssh-ed25519', 256)})),
        (new_pol(hostkey_sizes={'k': (2048, 'ssh-rsa', 2048)}, larger=True), new_peer(host_keys={'k': (2047, 'ssh-rsa', 2047)})),
        # lists of length 0 on both sides: a policy line with an empty value, a peer with an empty name-list (exact and subset mode), and the mismatching neighbours
        (new_pol(macs=['']), new_peer(mac=[''])),
        (new_pol(macs=[''], subset=True), new_peer(mac=[''])),
        (new_pol(ciphers=[''], kex=['ka']), new_peer(enc=[''], kex=['ka'])),
        (new_pol(compressions=[''], host_keys=['']), new_peer(compression=[''], key=[''])),
        (new_pol(macs=['']), new_peer(mac=['ma'])),
        (new_pol(macs=['ma'], subset=True), new_peer(mac=[''])),
    ]:
        r = one(pol, peer, 'witness', True, via_text=(pol['kex'] != ['007'] and ' 42 ' not in peer['enc']))
        if len(samples) < 12:
            samples.append({'focus': 'witness', 'policy': pol, 'peer': peer, 'passed': r[0], 'errors': [e['mismatched_field'] for e in r[1]]})
    # policies whose host-key and modulus sizes are expressible with the deprecated per-key directives (both spellings must load alike)
    ED_CERT = 'ssh-ed25519-cert-v01@openssh.com'
    for hs, larger in [({RSA_CERTS[0]: (3072, 'ssh-rsa', 4096)}, False), ({RSA_CERTS[2]: (2048, 'ssh-rsa', 2048), 'ssh-rsa': (3072, '', 0)}, True),
                       ({ED_CERT: (256, 'ssh-ed25519', 256)}, False), ({'rsa-sha2-512': (4096, '', 0), ED_CERT: (256, 'ssh-ed25519', 256), RSA_CERTS[1]: (3072, 'ssh-rsa', 1024)}, True)]:
        for delta in (0, -1, 1):
            peer = new_peer(host_keys={t: (v[0] + delta, v[1], v[2] + (delta if v[1] else 0)) for t, v in hs.items()}, dh={'diffie-hellman-group-exchange-sha256': 3072 + delta})
            one(new_pol(hostkey_sizes=dict(hs), dh={'diffie-hellman-group-exchange-sha256': 3072}, larger=larger), peer, 'legacy', True, via_text=True)
    # ---- 3. oracle-only random instances (no Coq side): many more
    for i in range(5000 if q else 600000):
        pol, peer = random_case(rng, i % 4 == 0)
        P = mk_policy_fields(pol)
        ret, errs, estr, bstr = impl_eval(P, peer)
        orc.check(pol, peer, bstr, (ret, errs, estr), fresh=True, focus='random-oracle')
        if i % 4 == 1:
            orc.monotone(pol, peer, ret, rng, budget=3)
    # ---- 4. verdict wiring: evaluate_policy() in-process, and the exit status of `ssh-audit.py -P` against a scripted peer
    for i in range(60 if q else 2000):
        pol, peer = random_case(rng, False)
        P = mk_policy_fields(pol)
        ret, errs, estr, bstr = impl_eval(P, peer)
        wiring_inprocess(ctx, orc, pol, peer, (ret, errs, estr), bstr)
    n_cli = 0
    tries = 0
    want_cli = 6 if q else 100
    while n_cli < want_cli and tries < want_cli * 20:
        tries += 1
        pol, peer = random_case(rng, False)
        peer['nokex'] = False
        peer['banner_kind'] = 'obj'
        peer['banner'] = rng.choice(BANNERS[:3])
        peer['host_keys'], peer['dh'] = {}, {}        # unknown to the scripted peer: no key exchange is completed
        # names unknown to the probes, so the audit only reads the KEXINIT
        ren = lambda l: ['x-' + x for x in l]
        for f in ('kex', 'key', 'enc', 'mac', 'compression'):
            peer[f] = ren(peer[f]) or ['x-none']
        for f in ('kex', 'host_keys', 'optional_host_keys', 'ciphers', 'macs', 'compressions'):
            if pol[f] is not None:
                pol[f] = ren(pol[f]) or ['x-none']
        if n_cli % 2 == 0:                            # force a passing pair every other run
            pol.update(kex=list(peer['kex']), host_keys=list(peer['key']), optional_host_keys=None, ciphers=list(peer['enc']), macs=list(peer['mac']),
                       compressions=list(peer['compression']), banner=peer['banner'], subset=False)
        elif pol['banner'] is not None:
            pol['banner'] = rng.choice(BANNERS[:3])
        text = policy_text(pol)
        if text is None:
            continue
        from ssh_audit.policy import Policy
        pol2 = pol_of_object(Policy(policy_data=text))
        P = mk_policy_fields(pol2)
        ret, errs, estr, bstr = impl_eval(P, peer)
        srv = ScriptedPeer(peer['banner'], peer)
        try:
            as_json = n_cli % 3 == 0
            rc, out, err = cli_policy_run(text, srv.port, as_json)
        finally:
            srv.close()
        n_cli += 1
        orc.n += 1
        ok = rc == (0 if ret else 3)
        if ok and as_json:
            try:
                js = json.loads(out)
                ok = js['passed'] == ret and js['errors'] == errs
            except (ValueError, KeyError):
                ok = False
        elif ok:
            ok = (('Passed' in out) == ret) and (ret or all(('  * %s did not match.' % e['mismatched_field']) in out for e in errs))
        hist['cli -P'] = hist.get('cli -P', 0) + 1
        if not ok:
            orc.viol('wiring/cli-exit-status/%s' % ('passed' if ret else 'failed'), 'ssh-audit -P exits %d / prints %r for a pair whose in-process verdict is passed=%r errors=%r; stderr %r' % (
                rc, out[-300:], ret, [e['mismatched_field'] for e in errs], err[-200:]), pol2, peer)
    # one policy over several targets in one run (-T): each target's verdict and error list are its own - those of the same target audited alone
    n_multi = 0
    for trial in range(3 if q else 24):
        ren = lambda l: ['x-' + x for x in l]
        base = new_peer(banner=BANNERS[0], banner_kind='obj', kex=ren(['ka', 'kb']), key=ren(['ha']), enc=ren(['ea', 'eb']), mac=ren(['ma']), compression=['none'])
        drift1 = dict(base, enc=ren(['eb', 'ea']))
        drift2 = dict(base, mac=ren(['mb']), kex=ren(['ka']))
        pol = new_pol(kex=list(base['kex']), host_keys=list(base['key']), ciphers=list(base['enc']), macs=list(base['mac']), compressions=['none'])
        text = policy_text(pol)
        order = [[drift1, base], [base, drift1, base], [drift1, drift2, base], [drift2, base, drift1]][trial % 4]
        threads = 1 if trial % 2 == 0 else len(order)
        srvs = [ScriptedPeer(pr['banner'], pr) for pr in order]
        try:
            rc, out, err = cli_policy_multi(text, [sv.port for sv in srvs], threads)
        finally:
            for sv in srvs:
                sv.close()
        n_multi += 1
        orc.n += 1
        try:
            arr = {'%s:%d' % (el['host'], el['port']): el for el in json.loads(out)}
        except (ValueError, KeyError, TypeError):
            orc.viol('wiring/multi-target/unparsable', 'ssh-audit -P -T -j prints %r (stderr %r)' % (out[-300:], err[-200:]), pol, base)
            continue
        for sv, pr in zip(srvs, order):
            ret, errs, estr, bstr = impl_eval(mk_policy_fields(pol), pr)
            el = arr.get('127.0.0.1:%d' % sv.port)
            if el is None or el.get('passed') != ret or el.get('errors') != errs:
                orc.viol('wiring/multi-target/verdict-not-own', 'in a -P -T run over %d targets (threads=%d) a target whose own verdict is passed=%r errors=%r is reported as passed=%r errors=%r' % (
                    len(order), threads, ret, [e['mismatched_field'] for e in errs], (el or {}).get('passed'), [e.get('mismatched_field') for e in (el or {}).get('errors', [])]), pol, pr)
    hist['cli -P -T'] = n_multi
    ctx.extra['op_histogram'] = hist
    ctx.extra['cli_policy_runs'] = n_cli
    ctx.correspond('policy', IMPORTS, preamble, terms, lambda i: descs[i])
    ctx.exhaustive = not q
    ctx.notes.append('C06: the small universe (lists of length <= 3 over 3-4 names per field incl. both strict-kex markers, optional-host-key subsets, '
                     'all flag combinations, size entries over boundary values) is enumerated completely one focus field at a time with the other fields drawn at random; '
                     'the oracle judges every pair in both tiers, the Coq correspondence every pair in thorough and a seeded 10% slice in quick; thorough adds host keys over 4 names x all 16 optional subsets (oracle on all 248k pairs, correspondence on a 4% slice)')
    ctx.cover(orc.n + len(terms), orc.nontriv, samples,
              'every (policy value, peer value, flags) combination of one focus field over the small universe (kex 4 names, host keys 3 names x optional subsets, ciphers/MACs/compressions 3 names, '
              'banner x missing KEXINIT, host-key/CA entries over 6x3x4 values x absent, two-type modulus maps over 6 sizes), others random; random large instances over real and tricky names; '
              'same-object double evaluation; evaluate_policy() and `-P` exit status; non-trivial = distinct (focus, mode, size mode, set of unsatisfied field classes, optional list present)')
