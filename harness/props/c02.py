"""C02 - exit status reflects the worst finding; incomplete audits never look clean; policy verdict <-> status."""
import itertools
import re
import time

import canon
import inproc
import peers as P
import runner
from props import reportfam

OPTSETS = [dict(batch=b, verbose=v, level=l, colors=c) for b in (False, True) for v in (False, True) for l in ('info', 'warn', 'fail') for c in (False, True)]


def spec_of(peer):
    return dict(banner=(peer['banner'] or 'SSH-2.0-x').encode(), kex=peer['kex'], key=peer['key'], enc=peer['enc'], mac=peer['mac'], comp=peer.get('comp', ['none']), hostkeys={})


def inproc_ssh1_status(cmask, amask):
    """Worst tag of the text report of a direct -1 audit of the same SSH-1 message (in-process)."""
    from ssh_audit.ssh1_publickeymessage import SSH1_PublicKeyMessage
    from ssh_audit.banner import Banner
    from ssh_audit.outputbuffer import OutputBuffer
    from ssh_audit.auditconf import AuditConf
    from ssh_audit import ssh_audit as SA
    pkm = SSH1_PublicKeyMessage.parse(P.pkm_payload(cmask, amask)[1:])   # without the message type byte, as audit() passes it
    out = OutputBuffer(); out.batch = True; out.use_colors = False
    ac = AuditConf('127.0.0.1', 22); ac.ssh1 = True; ac.ssh2 = False; ac.batch = True; ac.colors = False
    ret = SA.output(out, ac, Banner.parse('SSH-1.99-OpenSSH_3.0'), [], pkm=pkm)
    return ret


def run(ctx):
    ctx.proofs(['C02'])
    q = ctx.quick
    rng = ctx.rng
    # findings of the general section together: a protocol-1.x banner (failure) AND a banner with non-printable characters (warning), over algorithm lists
    # that add nothing worse (clean, warning-only) - the failure must survive the warning that is recorded after it
    gg = inproc.Gen(rng)
    general = []
    for b in ('SSH-1.99-OpenSSH_8.9 caf\u00e9', 'SSH-1.99-dropbear_0.52 \x07', 'SSH-1.5-OpenSSH_2.3.0 \x7f', 'SSH-2.0-OpenSSH_8.9 caf\u00e9', 'SSH-1.99-OpenSSH_5.3'):
        for mix in ('clean', 'warn'):
            general.append({'banner': b, 'kex': ['sntrup761x25519-sha512@openssh.com'] if mix == 'clean' else ['curve25519-sha256'], 'key': ['ssh-ed25519'],
                            'enc': ['aes256-gcm@openssh.com'] if mix == 'clean' else ['aes256-ctr'], 'mac': ['hmac-sha2-512-etm@openssh.com'], 'client_audit': False})
    # the worst finding carried by ONE algorithm, for every shape of database entry (entries with 2, 3 and 4 components): beside otherwise clean lists
    dbt = inproc.tables()
    clean = {'kex': ['sntrup761x25519-sha512@openssh.com'], 'key': ['ssh-ed25519'], 'enc': ['aes256-gcm@openssh.com'], 'mac': ['hmac-sha2-512-etm@openssh.com']}
    for c in ('kex', 'key', 'enc', 'mac'):
        for ln in (2, 3, 4):
            cands = sorted(n for n, e in dbt[c].items() if len(e) == ln and not n.endswith('-*') and any(x for x in e[1]))
            for n in (cands[:2] if q else cands):
                pz = {'banner': 'SSH-2.0-OpenSSH_9.6', 'client_audit': False}
                pz.update({k: list(v) for k, v in clean.items()})
                pz[c] = pz[c] + [n]
                general.append(pz)
    recs = reportfam.standard(ctx, 250 if q else 4000, parts=('status', 'items'), peers=[gg.peer() for _ in range(250 if q else 4000)] + general)
    # end to end (real command line over TCP, server audits and -c client audits): the process exit status against the printed report
    recs += reportfam.cli_records(ctx, [r['peer'] for r in rng.sample(recs, min(len(recs), 16 if q else 300))] + general[:4], parts=('status', 'items'))
    nontriv = set()
    # oracle 1 (in-process): return value of output() == worst tag in the printed report, under every option set
    for r in recs:
        want = canon.worst_report(r['text']['text'], r['ptext']['algs'])
        order = tuple(l for a in r['ptext']['algs'] for (l, t) in a['notes'] if l != 'info')[:6]
        nontriv.add(('mix', reportfam.sev_mix(r), order))
        if r['text']['ret'] != want:
            ctx.violation('status-vs-report/%s' % reportfam.sev_mix(r), 'output() returned %r but the worst tag in its own report is %r' % (r['text']['ret'], want),
                          {'op': 'output', 'peer': reportfam.jsonable_peer(r['peer'])})
        # the JSON report of the same audit carries the same worst finding (the status is computed once, in the text pass): judged for peers without unknown names,
        # which the two views rate differently by design (text: warning, JSON: failure - see C03)
        if 'pjson' in r:
            jal = canon.json_algs(r['pjson'])
            if not any('unknown algorithm' in t for a in jal for (l, t) in a['notes']):
                worst = lambda algs: 3 if any(l == 'fail' for a in algs for (l, t) in a['notes']) else 2 if any(l == 'warn' for a in algs for (l, t) in a['notes']) else 0
                if worst(jal) != worst(r['ptext']['algs']):
                    ctx.violation('json-report-vs-status', 'the worst algorithm finding of the JSON report is %r, of the text report (which sets the exit status %r) %r' % (worst(jal), r['text']['ret'], worst(r['ptext']['algs'])),
                                  {'op': 'output', 'peer': reportfam.jsonable_peer(r['peer'])})
        if r['json']['ret'] != r['text']['ret']:
            ctx.violation('status-json-differs', 'JSON mode returns %r, text mode %r' % (r['json']['ret'], r['text']['ret']), {'op': 'output', 'peer': reportfam.jsonable_peer(r['peer'])})
    sub = recs if not q else rng.sample(recs, min(len(recs), 40))
    n_opt = 0
    for r in sub:
        for o in (OPTSETS if not q else rng.sample(OPTSETS, 6)):
            x = inproc.run_output(r['peer'], **o)
            n_opt += 1
            if x['exc'] is not None or x['ret'] != r['text']['ret']:
                ctx.violation('status-depends-on-options', 'status %r under %r but %r in the default view' % (x['ret'], o, r['text']['ret']), {'op': 'output', 'opts': o, 'peer': reportfam.jsonable_peer(r['peer'])})
    ctx.cover(len(recs) + n_opt, nontriv, [{'peer': reportfam.jsonable_peer(recs[0]['peer']), 'status': recs[0]['text']['ret']}],
              'in-process output() on generated peers (every severity mix and ordering, unknown/gss/duplicate names, both roles) x option sets; non-trivial = distinct (severity mix, order of the first six fail/warn tags)')

    # oracle 2 (real CLI over TCP): process exit status vs printed report; broken handshakes -> status 1 and no algorithm report
    cases = []
    g = inproc.Gen(rng)
    for _ in range(24 if q else 300):
        p = g.peer()
        p['client_audit'] = False
        p['banner'] = p['banner'] or 'SSH-2.0-OpenSSH_8.0'
        cases.append(('healthy', p, rng.choice([[], ['-b'], ['-v'], ['-l', 'warn'], ['-l', 'fail'], ['-j'], ['-jj'], ['-b', '-v', '-l', 'fail']])))
    stages = ['silent', 'close-immediately', 'garbage-banner', 'banner-only-close', 'banner-only-stall', 'truncated-kexinit', 'wrong-type', 'bad-blocksize', 'garbage-after-banner', 'kexinit-short-list']
    for st in stages * (1 if q else 6):
        cases.append((st, g.peer(), rng.choice([[], ['-j'], ['-b'], ['-l', 'fail']])))
    # the automatic SSH-1 retry after 'Protocol major versions differ.': the status of the whole run is the status of the retry
    for st in ('fallback-ssh1-report', 'fallback-ssh1-broken', 'fallback-ssh1-mismatch-again', 'ssh1-direct-report', 'ssh1-direct-report') * (1 if q else 4):
        p = g.peer(); p['cmask'] = rng.choice([0x4c, 0x08, 0x48, 0x7e]); p['amask'] = rng.choice([0x0c, 0x04, 0x3e])
        cases.append((st, p, rng.choice([[], ['-b'], ['-j']])))
    pol_cases = []
    from ssh_audit.builtin_policies import BUILTIN_POLICIES
    names = [n for n, p in BUILTIN_POLICIES.items() if p['server_policy']]
    POL_OPTS = [[], ['-j'], ['-b'], ['-jj'], ['-v'], ['-l', 'warn'], ['-j', '-l', 'fail']]
    for k, pn in enumerate(rng.sample(names, 7) if q else names):
        pol = BUILTIN_POLICIES[pn]
        for d, variant in enumerate(('exact', 'drift')):
            # the verdict decides the status under every output option (text, JSON, batch, verbose, minimum level)
            pol_cases.append((pn, pol, variant, POL_OPTS[(k + 3 * d) % len(POL_OPTS)]))

    def do(z, case):
        kind, p, opts = case
        faults, behaviour = [], None
        if kind == 'healthy':
            srv = P.new_ssh2_server(spec_of(p))
        elif kind == 'silent': srv = P.Server(P.RawServer([], then='stall'))
        elif kind == 'close-immediately': srv = P.Server(P.RawServer([], then='close'))
        elif kind == 'garbage-banner': srv = P.Server(P.RawServer([b'\x00\xff\x01 not ssh\r\n' * 3], then='close'))
        elif kind == 'banner-only-close': srv = P.Server(P.RawServer([b'SSH-2.0-OpenSSH_8.0\r\n'], then='close'))
        elif kind == 'banner-only-stall': srv = P.Server(P.RawServer([b'SSH-2.0-OpenSSH_8.0\r\n'], then='stall'))
        elif kind == 'truncated-kexinit':
            pay = P.frame2(P.kexinit(p['kex'], p['key'], p['enc'], p['mac']))
            srv = P.Server(P.RawServer([b'SSH-2.0-OpenSSH_8.0\r\n', pay[:len(pay) // 2]], then='close'))
        elif kind == 'wrong-type': srv = P.Server(P.RawServer([b'SSH-2.0-OpenSSH_8.0\r\n', P.frame2(bytes([21]) + bytes(11))], then='close'))
        elif kind == 'bad-blocksize': srv = P.Server(P.RawServer([b'SSH-2.0-OpenSSH_8.0\r\n', b'\x00\x00\x00\x0d\x04' + bytes(20)], then='close'))
        elif kind == 'garbage-after-banner': srv = P.Server(P.RawServer([b'SSH-2.0-OpenSSH_8.0\r\n', bytes(range(40, 90))], then='close'))
        elif kind == 'kexinit-short-list': srv = P.Server(P.RawServer([b'SSH-2.0-OpenSSH_8.0\r\n', P.frame2(bytes([20]) + bytes(16) + b'\x00\x00\x00\x05abc')], then='close'))
        elif kind == 'ssh1-direct-report':
            srv = P.Server(P.Ssh1Server({'cmask': p['cmask'], 'amask': p['amask']}))
            opts = ['-1'] + opts
        elif kind.startswith('fallback-ssh1-'):
            first = P.RawServer([b'SSH-1.99-OpenSSH_3.0\r\n', b'Protocol major versions differ.\n'], then='close-now')
            second = {'report': P.Ssh1Server({'cmask': p['cmask'], 'amask': p['amask']}), 'broken': P.RawServer([b'SSH-1.99-OpenSSH_3.0\r\n', b'\x00\x00'], then='close'), 'mismatch-again': first}[kind[14:]]
            srv = P.Server(P.PerConn([first, second]))
        else: raise AssertionError(kind)
        try:
            res = z.run(['-n', '--skip-rate-test', '-t', '1'] + opts + ['127.0.0.1:%d' % srv.port], timeout=60)
        finally:
            srv.shutdown()
        return res

    def do_pol(z, case):
        pn, pol, variant, popts = case
        kex = list(pol['kex']); key = list(pol['host_keys']); enc = list(pol['ciphers']); mac = list(pol['macs'])
        if variant == 'drift':
            enc = enc[1:] + ['3des-cbc']
        hostkeys = {}
        for t, d in (pol['hostkey_sizes'] or {}).items():
            if t in key and t.startswith(('rsa-', 'ssh-rsa')):
                hostkeys[t.encode()] = P.rsa_blob(d['hostkey_size'])
            elif t in key and t == 'ssh-ed25519':
                hostkeys[t.encode()] = P.ed25519_blob()
        dh = pol['dh_modulus_sizes'] or {}
        srv = P.new_ssh2_server(dict(banner=b'SSH-2.0-OpenSSH_9.0', kex=kex, key=key, enc=enc, mac=mac, hostkeys=hostkeys, gex=lambda a, b, c: max(a, min(c, max(dh.values()))) if dh else None))
        try:
            res = z.run(['-n', '--skip-rate-test', '-t', '2'] + popts + ['-P', pn, '127.0.0.1:%d' % srv.port], timeout=60)
        finally:
            srv.shutdown()
        return res

    with runner.Pool() as pool:
        results = pool.map(do, cases)
        presults = pool.map(do_pol, pol_cases)
    n2 = set()
    for (kind, p, opts), res in zip(cases, results):
        out = res['out']
        n2.add((kind, tuple(opts), res['rc']))
        if res['timed_out'] or res['rc'] not in (0, 1, 2, 3):
            ctx.violation('cli-undocumented-status/%s' % kind, 'exit status %r (timed out: %r) against a %s peer: %s' % (res['rc'], res['timed_out'], kind, (out + res['err'])[-300:]),
                          {'op': 'cli', 'kind': kind, 'opts': opts, 'peer': reportfam.jsonable_peer(p)})
            continue
        if kind == 'healthy':
            if '-j' in opts or '-jj' in opts:
                js = canon.load_json(out)
                want = canon.worst(canon.json_algs(js))
                # JSON rates unknown names as fail where text says warn: compare through the text rule for unknown names
                want_txt = canon.worst_report(inproc.run_output(p)['text'])
                want = want_txt
            else:
                pt = canon.parse_text(out, verbose='-v' in opts)
                full = canon.worst_report(inproc.run_output(p)['text'])
                shown = canon.worst_report(out, pt['algs'])
                want = full
                lvl = opts[opts.index('-l') + 1] if '-l' in opts else 'info'
                if lvl == 'info' and shown != full:
                    ctx.violation('cli-report-differs', 'CLI report over TCP has worst tag %r, in-process report %r' % (shown, full), {'op': 'cli', 'opts': opts, 'peer': reportfam.jsonable_peer(p)})
            if res['rc'] != want:
                ctx.violation('cli-status-vs-report', 'process exit status %r but the worst finding of the report is %r (options %r)' % (res['rc'], want, opts),
                              {'op': 'cli', 'kind': kind, 'opts': opts, 'peer': reportfam.jsonable_peer(p)})
        elif kind in ('fallback-ssh1-report', 'ssh1-direct-report'):
            # a complete SSH-1 report: the exit status is its worst tag
            if '-j' in opts:
                has = '"key"' in out and '"fingerprints"' in out
                want = inproc_ssh1_status(p['cmask'], p['amask'])
            else:
                algs = canon.parse_text(out)['algs']
                has = any(a['cat'] == 'enc' for a in algs) and any(a['cat'] == 'key' for a in algs)
                want = canon.worst_report(out, algs)
            if not has or res['rc'] != want:
                ctx.violation('fallback-ssh1-status', 'SSH-1 retry after a protocol mismatch: exit status %r, report present: %r, worst finding of the SSH-1 report: %r' % (res['rc'], has, want),
                              {'op': 'cli', 'kind': kind, 'opts': opts, 'cmask': p['cmask'], 'amask': p['amask'], 'out': out[-400:]})
        else:
            has_report = bool(re.search(r'^\((kex|key|enc|mac|aut|fin)\) ', canon.strip_ansi(out), re.M)) or any(('"%s"' % k) in out for k in ('kex', 'key', 'enc', 'mac', 'aut', 'fingerprints'))
            if res['rc'] != 1 or has_report:
                ctx.violation('incomplete-audit/%s' % kind, 'handshake broken (%s): exit status %r, algorithm report shown: %r' % (kind, res['rc'], has_report),
                              {'op': 'cli', 'kind': kind, 'opts': opts, 'out': out[-500:]})
    for (pn, pol, variant, popts), res in zip(pol_cases, presults):
        out = canon.strip_ansi(res['out'])
        if '-j' in popts or '-jj' in popts:
            try:
                verdict = canon.load_json(res['out']).get('passed')
            except (canon.CanonError, AttributeError):
                verdict = None
            passed, failed = verdict is True, verdict is False
        else:
            passed = 'Passed' in out and 'Failed!' not in out
            failed = 'Failed!' in out
        variant = variant + ('/' + ''.join(popts) if popts else '')
        n2.add(('policy', variant, res['rc']))
        if not ((res['rc'] == 0 and passed and not failed) or (res['rc'] == 3 and failed and not passed)):
            ctx.violation('policy-status/%s' % variant, 'policy audit (%s, %s): exit status %r, passed=%r failed=%r: %s' % (pn, variant, res['rc'], passed, failed, out[-400:]),
                          {'op': 'cli-policy', 'policy': pn, 'variant': variant})
        if variant == 'exact' and not passed:
            ctx.notes.append('policy peer built exactly from %s did not pass (see C05/C17)' % pn)
    # multi-target runs (-T): the exit status is the worst finding over ALL printed reports, in every order of the targets
    import itertools, os, tempfile
    from props import c08
    msrv = {n: P.new_ssh2_server(spec, stall_limit=3.0) for n, spec in c08.healthy_specs().items()}
    tmpd = tempfile.mkdtemp(prefix='verif_c02_')
    try:
        orders = [list(o) for k in (2, 3) for o in itertools.permutations(sorted(msrv), k)]
        if q:
            orders = [o for i, o in enumerate(orders) if i % 2 == 0 or o[:2] == ['ok-warn', 'ok-fail']]
        mcases = [(o, th) for o in orders for th in ((1,) if q else (1, 2, 8))]

        def do_multi(z, c):
            o, th = c
            tf = os.path.join(tmpd, 't_%s_%d.txt' % ('_'.join(o), th))
            with open(tf, 'w') as f:
                f.write('\n'.join('127.0.0.1:%d' % msrv[n].port for n in o) + '\n')
            return z.run(['-n', '--skip-rate-test', '-t', '2', '--threads', str(th), '-T', tf], timeout=120)
        with runner.Pool(8) as pool:
            mres = pool.map(do_multi, mcases)
    finally:
        for sv in msrv.values():
            sv.shutdown()
        import shutil
        shutil.rmtree(tmpd, ignore_errors=True)
    for (o, th), res in zip(mcases, mres):
        blocks = res['out'].split('-' * 80 + '\n\n')
        worst = [canon.worst_report(b) for b in blocks]
        want = max(worst) if worst else None
        n2.add(('multi', tuple(o), res['rc']))
        if len(blocks) != len(o) or res['rc'] != want:
            ctx.violation('multi-status-vs-reports', 'run over targets %r (threads=%d) exits %r; its %d printed reports have worst findings %r' % (o, th, res['rc'], len(blocks), worst),
                          {'op': 'cli-multi', 'targets': o, 'threads': th})
    ctx.cover(len(cases) + len(pol_cases) + len(mcases), n2, [{'kind': cases[-1][0], 'opts': cases[-1][2], 'rc': results[-1]['rc']}],
              'real CLI over TCP against scripted peers: healthy peers x option sets, handshakes broken at each stage, built-in policy audits (exact and drifted peer); non-trivial = distinct (kind, options, status)')
