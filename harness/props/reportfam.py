"""Shared by C01-C04, C13, C15: generate synthetic SSH-2 peers, run the real output()/build_struct() in-process,
canonicalise, and build the Coq correspondence terms against coq/model/Report.v."""
import json

import canon
import inproc
from coqlit import cstr, cz, clist, cpair

IMPORTS = ['VModel:Report']


def run_case(peer):
    """Real implementation on one peer: plain text view + JSON view."""
    t = inproc.run_output(peer, batch=False, verbose=False, level='info', colors=True)
    j = inproc.run_output(peer, js=1)
    rec = {'peer': peer, 'text': t, 'json': j}
    if t['exc'] is None:
        rec['ptext'] = canon.parse_text(t['text'])
    if j['exc'] is None:
        rec['pjson'] = canon.load_json(j['text'])
    return rec


def jsonable_peer(p):
    q = dict(p)
    q['hostkeys'] = {k: [v[0].hex(), v[1], v[2], v[3]] for k, v in (p.get('hostkeys') or {}).items()}
    return q


def terms_for(rec, parts=('status', 'items', 'recs', 'notes', 'json')):
    """Coq boolean term comparing the model's report of this peer with what the implementation printed."""
    p = rec['peer']
    pt = rec['ptext']
    cp = inproc.coq_peer(p)
    conj = []
    if 'status' in parts:
        conj.append('Z.eqb (rp_status r) %s' % cz(rec['text']['ret']))
    if 'items' in parts:
        conj.append('list_eqb item_eqb (rp_items r) %s' % inproc.coq_items(pt['algs']))
    if 'recs' in parts:
        conj.append('same_set rec_eqb (rp_recs r) %s' % inproc.coq_recs(canon.parse_recs(pt)))
    if 'notes' in parts:
        notes = [b[len(''):] for (c, b) in pt['nfo']]
        hard = 'For hardening guides on common OSes'
        putty = 'PuTTY does not have the option'
        notes = [n for n in notes if not n.startswith(hard) and not n.startswith(putty)]
        conj.append('strs_eqb (rp_notes r) %s' % clist(notes, cstr))
    if 'json' in parts and 'pjson' in rec:
        ja = canon.json_algs(rec['pjson'])
        lit = clist(ja, lambda a: '(%s, %s, {| j_fail := %s; j_warn := %s; j_info := %s |})' % (
            cstr(a['cat']), cstr(a['name']),
            clist([t for (l, t) in a['notes'] if l == 'fail'], cstr), clist([t for (l, t) in a['notes'] if l == 'warn'], cstr), clist([t for (l, t) in a['notes'] if l == 'info'], cstr)))
        conj.append('list_eqb jitem_eqb (json_items (rp_db r) p) %s' % lit)
        conj.append('same_set rec_eqb (rp_recs r) %s' % inproc.coq_recs(canon.json_recs(rec['pjson'])))
    return 'let p := %s in let r := report_of p ssh2_db in %s' % (cp, ' && '.join('(%s)' % c for c in conj))


def generate(ctx, n, terrapin=None):
    g = inproc.Gen(ctx.rng)
    return [g.peer(terrapin=terrapin) for _ in range(n)]


def standard(ctx, n, parts=('status', 'items', 'recs', 'notes', 'json'), terrapin=None, peers=None, name='report'):
    """Generate peers, run the implementation, run the model correspondence.  Returns the list of case records."""
    peers = peers if peers is not None else generate(ctx, n, terrapin)
    recs = []
    for p in peers:
        r = run_case(p)
        recs.append(r)
        for view in ('text', 'json'):
            if r[view]['exc'] is not None:
                ctx.violation('output-exception/%s/%s' % (view, r[view]['exc']), 'output() raised %s for a well-formed peer: %s' % (r[view]['exc'], r[view].get('trace', '')[-400:]),
                              {'op': 'output', 'view': view, 'peer': jsonable_peer(p)})
    ok = [r for r in recs if r['text']['exc'] is None and r['json']['exc'] is None]
    terms = [terms_for(r, parts) for r in ok]
    ctx.correspond(name, IMPORTS, '', terms, lambda i: {'op': 'report', 'peer': jsonable_peer(ok[i]['peer']), 'text': ok[i]['text']['text'][:1500]})
    return ok


def sev_mix(rec):
    lv = sorted({l for a in rec['ptext']['algs'] for (l, t) in a['notes']})
    return '+'.join(lv)
