"""Shared by C01-C04, C13, C15: generate synthetic SSH-2 peers, run the real output()/build_struct() in-process,
canonicalise, and build the Coq correspondence terms against coq/model/Report.v."""
import json

import canon
import inproc
from coqlit import cstr, cz, clist, cpair

IMPORTS = ['VModel:Report']


def run_case(peer):
    """Real implementation on one peer: plain text view + JSON view."""
    t = inproc.run_output(peer, batch=False, verbose=False, level='info', colors=True)
    j = inproc.run_output(peer, js=1)
    rec = {'peer': peer, 'text': t, 'json': j}
    if t['exc'] is None:
        rec['ptext'] = canon.parse_text(t['text'])
    if j['exc'] is None:
        rec['pjson'] = canon.load_json(j['text'])
    return rec


def jsonable_peer(p):
    q = dict(p)
    q['hostkeys'] = {k: [v[0].hex(), v[1], v[2], v[3]] for k, v in (p.get('hostkeys') or {}).items()}
    return q


def terms_for(rec, parts=('status', 'items', 'recs', 'notes', 'json')):
    """Coq boolean term comparing the model's report of this peer with what the implementation printed."""
    p = rec['peer']
    pt = rec['ptext']
    cp = inproc.coq_peer(p)
    conj = []
    if 'status' in parts:
        conj.append('Z.eqb (rp_status r) %s' % cz(rec['text']['ret']))
    if 'items' in parts:
        conj.append('list_eqb item_eqb (rp_items r) %s' % inproc.coq_items(pt['algs']))
    if 'recs' in parts:
        conj.append('same_set rec_eqb (rp_recs r) %s' % inproc.coq_recs(canon.parse_recs(pt)))
    if 'notes' in parts:
        notes = [b[len(''):] for (c, b) in pt['nfo']]
        hard = 'For hardening guides on common OSes'
        putty = 'PuTTY does not have the option'
        notes = [n for n in notes if not n.startswith(hard) and not n.startswith(putty)]
        conj.append('strs_eqb (rp_notes r) %s' % clist(notes, cstr))
    if 'json' in parts and 'pjson' in rec:
        ja = canon.json_algs(rec['pjson'])
        lit = clist(ja, lambda a: '(%s, %s, {| j_fail := %s; j_warn := %s; j_info := %s |})' % (
            cstr(a['cat']), cstr(a['name']),
            clist([t for (l, t) in a['notes'] if l == 'fail'], cstr), clist([t for (l, t) in a['notes'] if l == 'warn'], cstr), clist([t for (l, t) in a['notes'] if l == 'info'], cstr)))
        conj.append('list_eqb jitem_eqb (json_items (rp_db r) p) %s' % lit)
        conj.append('same_set rec_eqb (rp_recs r) %s' % inproc.coq_recs(canon.json_recs(rec['pjson'])))
    return 'let p := %s in let r := report_of p ssh2_db in %s' % (cp, ' && '.join('(%s)' % c for c in conj))


def generate(ctx, n, terrapin=None):
    g = inproc.Gen(ctx.rng)
    return [g.peer(terrapin=terrapin) for _ in range(n)]


def standard(ctx, n, parts=('status', 'items', 'recs', 'notes', 'json'), terrapin=None, peers=None, name='report'):
    """Generate peers, run the implementation, run the model correspondence.  Returns the list of case records."""
    peers = peers if peers is not None else generate(ctx, n, terrapin)
    recs = []
    for p in peers:
        r = run_case(p)
        recs.append(r)
        for view in ('text', 'json'):
            if r[view]['exc'] is not None:
                ctx.violation('output-exception/%s/%s' % (view, r[view]['exc']), 'output() raised %s for a well-formed peer: %s' % (r[view]['exc'], r[view].get('trace', '')[-400:]),
                              {'op': 'output', 'view': view, 'peer': jsonable_peer(p)})
    ok = [r for r in recs if r['text']['exc'] is None and r['json']['exc'] is None]
    terms = [terms_for(r, parts) for r in ok]
    ctx.correspond(name, IMPORTS, '', terms, lambda i: {'op': 'report', 'peer': jsonable_peer(ok[i]['peer']), 'text': ok[i]['text']['text'][:1500]})
    return ok


def sev_mix(rec):
    lv = sorted({l for a in rec['ptext']['algs'] for (l, t) in a['notes']})
    return '+'.join(lv)


# ---- the same report family through the real command line over TCP (both roles) ----
import random as _random
import socket as _socket
import threading as _threading

_PORT_LOCK = _threading.Lock()
_PORT_RNG = _random.Random(424242)


def _free_port():
    for _ in range(50):
        p = _PORT_RNG.randrange(20000, 60000)
        s = _socket.socket()
        try:
            s.bind(('0.0.0.0', p))
            s.close()
            return p
        except OSError:
            s.close()
    raise RuntimeError('no free port')


def cli_records(ctx, peers, parts=('status', 'items', 'recs', 'notes', 'json'), name='report-cli', opts_text=()):   # colours on: the recommendation level is only visible as a colour
    """Audit the given peers with the real wrapper over TCP - as a server (scripted server) or, for client_audit peers, with -c against a
    scripted client - once for the text report and once for -j.  No host key or group-exchange modulus is served, so the returned records
    carry peers without measured attributes.  Runs the model correspondence on what was printed and returns records shaped like standard()'s."""
    import peers as P
    import runner
    cases = []
    for p in peers:
        q = {k: v for k, v in p.items() if k not in ('hostkeys', 'dh', 'rate_notes')}
        q['hostkeys'], q['dh'] = {}, {}
        q['banner'] = q.get('banner') or 'SSH-2.0-OpenSSH_8.0'
        cases.append(q)

    def one(z, q, opts):
        payload = P.kexinit(q['kex'], q['key'], q['enc'], q['mac'], q.get('comp', ['none']), enc_c=q.get('enc_c'), mac_c=q.get('mac_c'))
        if not q.get('client_audit'):
            srv = P.new_ssh2_server(dict(banner=q['banner'].encode(), kexinit_override=payload, kex=[], key=[], enc=[], mac=[], hostkeys={}))
            try:
                return z.run(list(opts) + ['--skip-rate-test', '-t', '2', '127.0.0.1:%d' % srv.port], timeout=90)
            finally:
                srv.shutdown()
        res = None
        for _ in range(4):
            with _PORT_LOCK:
                port = _free_port()
            th = _threading.Thread(target=lambda: P.scripted_client(port, q['banner'].encode(), payload), daemon=True)
            th.start()
            res = z.run(list(opts) + ['-c', '-p', str(port), '-t', '5'], timeout=90)
            th.join(timeout=5)
            if 'failed to listen' not in res['err'] and 'Timeout elapsed' not in res['out']:
                break
        return res

    def do(z, q):
        return one(z, q, opts_text), one(z, q, ['-j'])
    with runner.Pool(8) as pool:
        outs = pool.map(do, cases)
    recs = []
    for q, (t, j) in zip(cases, outs):
        desc = {'op': 'cli-report', 'role': 'client' if q.get('client_audit') else 'server', 'peer': jsonable_peer(q)}
        if t['rc'] not in (0, 2, 3) or j['rc'] != t['rc']:
            ctx.violation('cli-report/status/%s' % desc['role'], 'text run exits %r, -j run exits %r for a well-formed %s peer: %s' % (t['rc'], j['rc'], desc['role'], (t['out'] + t['err'] + j['err'])[-300:]), desc)
            continue
        try:
            rec = {'peer': q, 'via': 'cli', 'text': {'ret': t['rc'], 'text': t['out'], 'exc': None}, 'json': {'ret': j['rc'], 'text': j['out'], 'exc': None},
                   'ptext': canon.parse_text(t['out']), 'pjson': canon.load_json(j['out'])}
        except canon.CanonError as e:
            ctx.violation('cli-report/unparsable/%s' % desc['role'], str(e), desc)
            continue
        recs.append(rec)
    terms = [terms_for(r, parts) for r in recs]
    ctx.correspond(name, IMPORTS, '', terms, lambda i: {'op': 'cli-report', 'role': 'client' if recs[i]['peer'].get('client_audit') else 'server', 'peer': jsonable_peer(recs[i]['peer']), 'text': recs[i]['text']['text'][:1500]})
    return recs
