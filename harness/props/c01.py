"""C01 - the report lists exactly the algorithms the peer advertised (text and JSON, both roles, SSH-2 and SSH-1)."""
import random
import socket
import threading
import time

import canon
import inproc
import peers as P
import runner
from coqlit import cbytes, clist
from props import reportfam

PORT_LOCK = threading.Lock()
PORT_RNG = random.Random(12345)
OPTS = [['-n'], ['-n', '-b'], ['-n', '-v'], ['-j'], ['-jj']]


def dec(b):
    return b.decode('utf-8', 'replace')


def gen_lists(g, rng, kind):
    """Four name-lists (bytes) + compression list for one KEXINIT."""
    def nl(cat):
        k = rng.random()
        if kind == 'empty' and rng.random() < 0.5: return [b'']
        if kind == 'single': return [rng.choice(g.names[cat]).encode()]
        l = [n.encode() for n in g.namelist(cat)]
        if kind == 'long' and rng.random() < 0.5: l.insert(rng.randrange(len(l) + 1), b'x' * rng.choice([300, 4096]) + b'@example.com')
        if kind == 'nonutf8' and rng.random() < 0.7: l.insert(rng.randrange(len(l) + 1), rng.choice([b'caf\xe9-cbc', b'\xff\xfe', b'ok\xe2\x82', b'\xc3\x28-etm@openssh.com']))
        if kind == 'dup': l = l + [l[0]] + [l[-1]]
        if kind == 'gss' and cat == 'kex': l += [x.encode() for x in rng.sample(g.gss_instances(), 3)]
        return l
    lists = {c: nl(c) for c in ('kex', 'key', 'enc', 'mac')}
    lists['kex'] = [n[:-1] + rng.choice(inproc.GSS_SUFFIXES).encode() if n.endswith(b'-*') else n for n in lists['kex']]
    lists['comp'] = rng.choice([[b'none'], [b'none', b'zlib@openssh.com'], [b'zlib', b'none'], [b'zlib@openssh.com'], [b'zlib@openssh.com', b'none'], [b'zlib@openssh.com', b'zlib', b'none'], [b'zlib', b'none', b'zlib']])
    return lists


def free_port(rng):
    for _ in range(50):
        p = rng.randrange(20000, 60000)
        s = socket.socket()
        try:
            s.bind(('0.0.0.0', p))
            s.close()
            return p
        except OSError:
            s.close()
    raise RuntimeError('no free port')


def names_from_text(out, verbose):
    pt = canon.parse_text(out, verbose=verbose)
    res = {c: [] for c in ('kex', 'key', 'enc', 'mac', 'aut')}
    for a in pt['algs']:
        res[a['cat']].append(a['name'])
    return res, pt


def run(ctx):
    ctx.proofs(['C01'])
    q = ctx.quick
    rng = ctx.rng
    g = inproc.Gen(rng)
    kinds = ['db', 'unknown', 'gss', 'dup', 'single', 'empty', 'long', 'nonutf8']
    cases = []
    for i in range(60 if q else 1200):
        kind = kinds[i % len(kinds)]
        role = 'client' if i % 3 == 2 else 'server'
        banner = rng.choice([b'SSH-2.0-OpenSSH_8.9p1 Ubuntu-3', b'SSH-2.0-dropbear_2022.83', b'SSH-2.0-libssh_0.9.6', b'SSH-2.0-Weird_Soft-1.0 with  comments', b'SSH-2.0-PuTTY_Release_0.78'])
        cases.append({'kind': kind, 'role': role, 'banner': banner, 'lists': gen_lists(g, rng, kind), 'opts': OPTS[i % len(OPTS)], 'port': None})
    # every database name at least once, whatever the seed: entries differ in shape (bare `[[]]` entries, entries with and without a version, with 1-4 components),
    # and what is printed for a name must not depend on that shape
    allnames = {c: [(n[:-1] + inproc.GSS_SUFFIXES[j % len(inproc.GSS_SUFFIXES)] if n.endswith('-*') else n).encode() for j, n in enumerate(g.names[c])] for c in ('kex', 'key', 'enc', 'mac')}
    for role, opts in (('server', ['-n']), ('server', ['-j']), ('server', ['-n', '-v']), ('client', ['-n', '-b']), ('client', ['-jj'])):
        cases.append({'kind': 'all-db', 'role': role, 'banner': b'SSH-2.0-OpenSSH_8.9p1', 'opts': opts, 'port': None,
                      'lists': {'kex': list(allnames['kex']), 'key': list(allnames['key']), 'enc': list(allnames['enc']), 'mac': list(allnames['mac']), 'comp': [b'none', b'zlib@openssh.com']}})
    # the banner as sent: every printable ASCII character somewhere in the software token or the comments (real banners use '~', '+', '(' ...)
    punct = bytes(c for c in range(0x21, 0x7f) if not chr(c).isalnum() and chr(c) not in '-')
    for i, b in enumerate([b'SSH-2.0-OpenSSH_8.4p1 Debian-5~bpo10+1', b'SSH-2.0-Soft_1.0 ' + punct, b'SSH-2.0-x' + punct.replace(b' ', b'') + b'_2.1 z~', b'SSH-2.0-OpenSSH_for_Windows_9.5 {~}|']):
        cases.append({'kind': 'banner-chars', 'role': 'client' if i == 1 else 'server', 'banner': b, 'opts': OPTS[i % len(OPTS)], 'port': None,
                      'lists': {'kex': [b'curve25519-sha256'], 'key': [b'ssh-ed25519'], 'enc': [b'aes256-ctr'], 'mac': [b'hmac-sha2-256'], 'comp': [b'none']}})
    # probe-heavy archetypes: every follow-up phase (host-key probes over DH/ECDH and over GEX, GEX size probes) runs between parsing the
    # peer's KEXINIT and printing it; non-canonical list orders and duplicates make any in-place reordering by those phases visible
    for i, (kexs, comp) in enumerate([([b'curve25519-sha256', b'diffie-hellman-group-exchange-sha256'], [b'zlib@openssh.com', b'none']),
                                      ([b'diffie-hellman-group-exchange-sha1', b'diffie-hellman-group14-sha1', b'ecdh-sha2-nistp256'], [b'zlib', b'none', b'zlib@openssh.com']),
                                      ([b'diffie-hellman-group-exchange-sha256', b'diffie-hellman-group-exchange-sha1'], [b'zlib', b'none'])]):
        for opts in (['-j'], ['-n', '-v']):
            cases.append({'kind': 'probes', 'role': 'server', 'banner': b'SSH-2.0-OpenSSH_8.9p1', 'opts': opts, 'port': None,
                          'lists': {'kex': kexs, 'key': [b'ssh-ed25519', b'rsa-sha2-512', b'ssh-rsa', b'ssh-ed25519'][i:], 'enc': [b'aes256-ctr', b'aes128-ctr', b'aes256-ctr'], 'mac': [b'hmac-sha2-512', b'hmac-sha2-256'], 'comp': comp}})
    # client-to-server lists that differ from the server-to-client ones (legal per RFC 4253 section 7.1): the names advertised only there
    for role, opts in (('server', ['-j']), ('server', ['-n']), ('client', ['-j'])):
        cases.append({'kind': 'directions', 'role': role, 'banner': b'SSH-2.0-OpenSSH_8.9p1', 'opts': opts, 'port': None,
                      'lists': {'kex': [b'curve25519-sha256'], 'key': [b'ssh-ed25519'], 'enc': [b'aes256-ctr'], 'mac': [b'hmac-sha2-256'], 'comp': [b'none'],
                                'enc_c': [b'aes256-ctr', b'3des-cbc'], 'mac_c': [b'hmac-sha2-256', b'hmac-md5']}})
    s1cases = [{'cmask': rng.getrandbits(7) | (1 << rng.randrange(7)), 'amask': rng.getrandbits(7) & 0x7e | (1 << rng.randrange(1, 7)), 'opts': OPTS[i % len(OPTS)]} for i in range(10 if q else 128)]
    # masks without any named bit (nothing advertised in that category) are masks too
    s1cases += [{'cmask': 0, 'amask': 0x0c, 'opts': ['-n']}, {'cmask': 0x4c, 'amask': 0, 'opts': ['-j']}, {'cmask': 0, 'amask': 0, 'opts': ['-n', '-v']}, {'cmask': 0x80, 'amask': 0x01, 'opts': ['-n']}]
    if not q:
        s1cases += [{'cmask': m, 'amask': (m * 2) & 0x7e or 2, 'opts': ['-n']} for m in range(1, 128)]
    # the two masks are independent fields: pairs with the SAME value (a decoder that caches by mask value would answer the second from the first),
    # complementary pairs and pairs shifted by one bit
    rel = [0x48, 0x28, 0x7e, 0x02, 0x44, 0x0c] if q else list(range(2, 128, 2))
    s1cases += [{'cmask': m, 'amask': m, 'opts': OPTS[i % len(OPTS)]} for i, m in enumerate(rel)]
    s1cases += [{'cmask': m, 'amask': (~m) & 0x7e, 'opts': OPTS[(i + 1) % len(OPTS)]} for i, m in enumerate(rel[:3] if q else rel)]

    def do(z, c):
        L = c['lists']
        payload = P.kexinit(L['kex'], L['key'], L['enc'], L['mac'], L['comp'], enc_c=L.get('enc_c'), mac_c=L.get('mac_c'))
        if c['role'] == 'server':
            srv = P.new_ssh2_server(dict(banner=c['banner'], kexinit_override=payload, kex=[], key=[], enc=[], mac=[], hostkeys={}))
            try:
                res = z.run(c['opts'] + ['--skip-rate-test', '-t', '1', '127.0.0.1:%d' % srv.port], timeout=60)
            finally:
                srv.shutdown()
        else:
            for attempt in range(4):
                with PORT_LOCK:
                    port = free_port(PORT_RNG)
                th = threading.Thread(target=lambda: P.scripted_client(port, c['banner'], payload), daemon=True)
                th.start()
                res = z.run(c['opts'] + ['-c', '-p', str(port), '-t', '5'], timeout=60)
                th.join(timeout=5)
                if 'failed to listen' not in res['err'] and 'Timeout elapsed' not in res['out']:
                    break
        res['payload'] = payload
        return res

    def do1(z, c):
        srv = P.Server(P.Ssh1Server({'cmask': c['cmask'], 'amask': c['amask']}))
        try:
            return z.run(c['opts'] + ['-1', '--skip-rate-test', '-t', '1', '127.0.0.1:%d' % srv.port], timeout=60)
        finally:
            srv.shutdown()

    with runner.Pool() as pool:
        results = pool.map(do, cases)
        r1 = pool.map(do1, s1cases)

    terms, descs = [], []
    nontriv = set()
    for c, res in zip(cases, results):
        L = c['lists']
        js = '-j' in c['opts'] or '-jj' in c['opts']
        desc = {'op': 'cli', 'role': c['role'], 'opts': c['opts'], 'kind': c['kind'], 'banner': c['banner'].decode(), 'lists': {k: [x.hex() for x in v] for k, v in L.items()}}
        if res['rc'] not in (0, 2, 3):
            ctx.violation('no-report/%s/%s' % (c['role'], c['kind']), 'exit status %r for a well-formed %s peer: %s' % (res['rc'], c['role'], (res['out'] + res['err'])[-300:]), desc)
            continue
        nontriv.add((c['role'], c['kind'], tuple(c['opts'])))
        want_all = {k: [dec(x) for x in L[k]] for k in ('kex', 'key', 'enc', 'mac')}
        only_c2s = [dec(x) for f, g in (('enc_c', 'enc'), ('mac_c', 'mac')) for x in L.get(f, []) if x not in L[g]]
        if only_c2s and not all(('"%s"' % n) in res['out'] or (' %s ' % n) in res['out'] for n in only_c2s):
            ctx.violation('client-to-server-lists-not-reported', 'the peer advertises %r only in its client-to-server lists; the report does not show them' % (only_c2s,), desc)
        want_nonempty = {k: [x for x in v if x.strip() != ''] for k, v in want_all.items()}
        if js:
            try:
                d = canon.load_json(res['out'])
            except canon.CanonError as e:
                ctx.violation('json-malformed', str(e), desc)
                continue
            got = {k: [e['algorithm'] for e in d.get(k, [])] for k in ('kex', 'key', 'enc', 'mac')}
            for k in got:
                if got[k] != want_nonempty[k]:
                    if [x for x in got[k] if x != ''] == want_nonempty[k]:
                        ctx.violation('json-empty-name-entry', 'JSON lists an entry for the empty name of an empty %s name-list' % k, desc)
                    else:
                        ctx.violation('json-names/%s/%s' % (c['role'], k), 'JSON %s names %r, advertised %r' % (k, got[k][:6], want_nonempty[k][:6]), desc)
            if d.get('compression') != [dec(x) for x in L['comp']]:
                ctx.violation('json-compression', 'JSON compression %r, sent %r' % (d.get('compression'), L['comp']), desc)
            if d['banner']['raw'] != ' '.join(c['banner'].decode().split()) and d['banner']['raw'] != c['banner'].decode():
                ctx.violation('json-banner', 'JSON banner %r, sent %r' % (d['banner']['raw'], c['banner']), desc)
            # correspondence with the wire model (valid UTF-8 names only: bytes can be recovered from the shown names)
            if c['kind'] != 'nonutf8':
                exp = [[x.encode() for x in got[k]] if got[k] else [b''] for k in ('kex', 'key', 'enc', 'mac')]
                exp = [L[k] if all(x == b'' for x in L[k]) and got[k] in ([], ['']) else e for k, e in zip(('kex', 'key', 'enc', 'mac'), exp)]
                terms.append('match parse_kexinit %s with Ok (k, _) => list_eqb (list_eqb zs_eqb) [k_kex k; k_key k; k_senc k; k_smac k; k_scomp k] %s | Raise _ => false end' % (
                    cbytes(res['payload'][1:]), clist(exp + [[x.encode() for x in d.get('compression', [])]], lambda l: clist(l, cbytes))))
                descs.append(desc)
        else:
            verbose = '-v' in c['opts']
            got, pt = names_from_text(res['out'], verbose)
            for k in ('kex', 'key', 'enc', 'mac'):
                w = want_nonempty[k]
                if verbose:   # a note per line: collapse runs of the same name, then compare modulo run merging of true duplicates
                    def collapse(l):
                        o = []
                        for x in l:
                            if not o or o[-1] != x: o.append(x)
                        return o
                    ok = collapse(got[k]) == collapse(w)
                else:
                    ok = got[k] == w
                if not ok:
                    ctx.violation('text-names/%s/%s' % (c['role'], k), 'text report %s names %r, advertised %r (options %r)' % (k, got[k][:6], w[:6], c['opts']), desc)
            comp = [dec(x) for x in L['comp'] if x != b'none']
            line = [b for (col, b) in pt['gen'] if b.startswith('compression: ')]
            wantc = 'compression: enabled (%s)' % ', '.join(comp) if comp else 'compression: disabled'
            if line != [wantc]:
                ctx.violation('text-compression', 'text shows %r, expected %r' % (line, wantc), desc)
            bl = [b for (col, b) in pt['gen'] if b.startswith('banner: ')]
            if bl != ['banner: ' + ' '.join(c['banner'].decode().split())] and bl != ['banner: ' + c['banner'].decode()]:
                ctx.violation('text-banner', 'text shows %r for banner %r' % (bl, c['banner']), desc)
    # SSH-1
    from ssh_audit.ssh1 import SSH1
    for c, res in zip(s1cases, r1):
        desc = {'op': 'cli-ssh1', 'cmask': c['cmask'], 'amask': c['amask'], 'opts': c['opts']}
        wc = [SSH1.CIPHERS[i] for i in range(len(SSH1.CIPHERS)) if c['cmask'] & (1 << i)]
        wa = [SSH1.AUTHS[i] for i in range(1, len(SSH1.AUTHS)) if c['amask'] & (1 << i)]
        nontriv.add(('ssh1', c['cmask'] & 0xf, tuple(c['opts'])))
        if res['rc'] not in (0, 2, 3):
            ctx.violation('no-report/ssh1', 'exit status %r for a well-formed SSH-1 peer: %s' % (res['rc'], (res['out'] + res['err'])[-300:]), desc)
            continue
        if '-j' in c['opts'] or '-jj' in c['opts']:
            d = canon.load_json(res['out'])
            if d.get('enc') != wc or d.get('aut') != wa:
                ctx.violation('ssh1-json-names', 'SSH-1 JSON enc=%r aut=%r, advertised enc=%r aut=%r' % (d.get('enc'), d.get('aut'), wc, wa), desc)
        else:
            got, pt = names_from_text(res['out'], '-v' in c['opts'])
            def collapse(l):
                o = []
                for x in l:
                    if not o or o[-1] != x: o.append(x)
                return o
            if collapse(got['enc']) != wc or collapse(got['aut']) != wa or collapse(got['key']) != ['ssh-rsa1']:
                ctx.violation('ssh1-text-names', 'SSH-1 text enc=%r aut=%r, advertised enc=%r aut=%r' % (got['enc'], got['aut'], wc, wa), desc)
        terms.append('strs_eqb (mask_names %d 0 ssh1_ciphers) %s && strs_eqb (mask_names %d 1 (tl ssh1_auths)) %s' % (c['cmask'], clist(wc, lambda s: '"%s"' % s), c['amask'], clist(wa, lambda s: '"%s"' % s)))
        descs.append(desc)
    ctx.correspond('wire-to-report', ['VModel:Report', 'VModel:Wire'], '', terms, lambda i: descs[i])
    ctx.cover(len(cases) + len(s1cases), nontriv, [{'role': cases[0]['role'], 'kind': cases[0]['kind'], 'opts': cases[0]['opts'], 'kex': [x.decode('latin1') for x in cases[0]['lists']['kex']]}],
              'real CLI over TCP: KEXINITs with database/unknown/gss/duplicate/single/empty/4kB/non-UTF-8 names, audited as server (scripted server) and as client (-c, scripted client), plain/batch/verbose/JSON/indented; SSH-1 cipher/auth masks with -1; non-trivial = distinct (role, name kind, option set)')
