"""C09 - no peer can crash, hang or fool the auditor: fault enumeration over valid transcripts + handshake correspondence."""
import re
import struct
import time

import canon
import peers as P
import runner
from coqlit import cbytes, clist, cbool, cz

TIMEOUT = 1


def archetypes():
    ed = P.ed25519_blob()
    ca = P.rsa_blob(3072, ktype=b'ssh-rsa', seed=5)
    a = {}
    a['plain'] = dict(banner=b'SSH-2.0-OpenSSH_8.9', kex=['curve25519-sha256', 'ext-info-s'], key=['ssh-ed25519'], enc=['aes128-ctr'], mac=['hmac-sha2-256'], hostkeys={b'ssh-ed25519': ed})
    a['rsa'] = dict(banner=b'SSH-2.0-dropbear_2022.83', kex=['diffie-hellman-group14-sha256'], key=['rsa-sha2-512', 'ssh-rsa', 'ssh-ed25519'], enc=['aes128-ctr', 'aes256-cbc'], mac=['hmac-sha2-256-etm@openssh.com'],
                    hostkeys={b'rsa-sha2-512': P.rsa_blob(2048), b'ssh-rsa': P.rsa_blob(2048), b'ssh-ed25519': ed})
    a['cert'] = dict(banner=b'SSH-2.0-OpenSSH_9.3', kex=['curve25519-sha256'], key=['ssh-rsa-cert-v01@openssh.com', 'ssh-ed25519-cert-v01@openssh.com', 'ssh-ed25519'], enc=['chacha20-poly1305@openssh.com'], mac=['umac-128-etm@openssh.com'],
                     hostkeys={b'ssh-rsa-cert-v01@openssh.com': P.rsa_cert_blob(3072, ca), b'ssh-ed25519-cert-v01@openssh.com': P.ed25519_cert_blob(ca), b'ssh-ed25519': ed})
    a['gex'] = dict(banner=b'SSH-2.0-OpenSSH_7.4', kex=['diffie-hellman-group-exchange-sha256', 'diffie-hellman-group-exchange-sha1'], key=['ssh-ed25519'], enc=['aes128-ctr'], mac=['hmac-sha2-256'],
                    hostkeys={b'ssh-ed25519': ed}, gex=lambda mn, pf, mx: max(mn, min(mx, 2048)) if mx >= 2048 else None)
    a['gexfirst'] = dict(banner=b'SSH-2.0-Server_1', kex=['diffie-hellman-group-exchange-sha256'], key=['ssh-rsa'], enc=['aes128-ctr'], mac=['hmac-sha1'],
                         hostkeys={b'ssh-rsa': P.rsa_blob(1024)}, gex=lambda mn, pf, mx: max(mn, min(mx, 4096)))
    return a


def has_report(out):
    return bool(re.search(r'^\((kex|key|enc|mac)\) ', canon.strip_ansi(out), re.M)) or ('"kex"' in out and '"enc"' in out)


def mutate(kind, rng):
    """Fault kinds of the quantifier -> (Fault kind, arg builder given the message bytes, then)."""
    if kind == 'close': return ('drop', None, 'close')
    if kind == 'stall': return ('drop', None, 'stall')
    if kind == 'truncate': return ('edit', lambda d: d[:rng.randrange(len(d))] if d else d, rng.choice(['close', 'stall']))
    if kind == 'garbage': return ('replace', bytes(rng.randrange(256) for _ in range(rng.choice([1, 7, 40, 300]))), rng.choice(['close', 'stall']))
    if kind == 'lenfield':
        def f(d):
            if len(d) < 8: return d
            v = rng.choice([0, 1, len(d) - 5, len(d) - 3, len(d) + 4, 2 ** 31, 2 ** 32 - 1, 12])
            return struct.pack('>I', v) + d[4:]
        return ('edit', f, 'close')
    if kind == 'innerlen':
        def f(d):
            if len(d) < 14: return d
            i = rng.choice([6, 6, 10, rng.randrange(6, len(d) - 4)])
            v = rng.choice([0, 1, 2 ** 31, 2 ** 32 - 1, len(d), 65536])
            return d[:i] + struct.pack('>I', v) + d[i + 4:]
        return ('edit', f, 'close')
    if kind == 'wrongtype':
        return ('edit', lambda d: d[:5] + bytes([rng.choice([0, 1, 2, 21, 50, 255])]) + d[6:] if len(d) > 6 else d, 'close')
    if kind == 'zeropayload':
        pad = rng.choice([3, 11])
        return ('replace', struct.pack('>IB', pad + 1, pad) + bytes(pad), 'close')
    if kind == 'bitflip':
        def f(d):
            d = bytearray(d)
            for _ in range(rng.choice([1, 1, 3])):
                if d: d[rng.randrange(len(d))] ^= 1 << rng.randrange(8)
            return bytes(d)
        return ('edit', f, 'none')
    if kind == 'badblock': return ('edit', lambda d: struct.pack('>I', struct.unpack('>I', d[:4])[0] + 1) + d[4:] + b'\x00' if len(d) > 8 else d, 'close')
    raise ValueError(kind)


KINDS = ['close', 'stall', 'truncate', 'garbage', 'lenfield', 'innerlen', 'wrongtype', 'zeropayload', 'bitflip', 'badblock']


def run(ctx):
    ctx.proofs(['C09'])
    q = ctx.quick
    rng = ctx.rng
    arch = archetypes()
    # ---- learn the clean transcripts (which connection sends which messages) ----
    clean = {}
    with runner.Pool(4) as pool:
        def learn(z, name):
            srv = P.new_ssh2_server(dict(arch[name]))
            try:
                res = z.run(['-n', '--skip-rate-test', '-t', str(TIMEOUT), '127.0.0.1:%d' % srv.port], timeout=60)
                time.sleep(0.05)
                msgs = {}
                for e in srv.log:
                    if e[2] == 'tx':
                        msgs.setdefault(e[1], []).append(e[3])
                return {'rc': res['rc'], 'out': res['out'], 'conns': srv.conns(), 'msgs': msgs, 'phases': dict(srv.phases)}
            finally:
                srv.shutdown()
        for name, r in zip(arch, pool.map(learn, list(arch))):
            clean[name] = r
            if r['rc'] not in (0, 2, 3) or not has_report(r['out']):
                ctx.violation('clean-transcript-failed/' + name, 'cooperative %s server: status %r, report %r' % (name, r['rc'], has_report(r['out'])), {'op': 'cli', 'archetype': name})
    # ---- enumerate (archetype, connection, message, fault) ----
    cases = []
    for name, c in clean.items():
        for conn, labels in c['msgs'].items():
            for mi, label in enumerate(labels):
                for kind in KINDS:
                    cases.append({'arch': name, 'conn': conn, 'msg': mi, 'label': label, 'kind': kind, 'phase': c['phases'].get(conn, 'first'), 'seg': 0, 'seed': rng.getrandbits(32)})
    # extra: debug messages interleaved in probes, pre-banner lines, 1-byte segmentation, SSH-1
    for name in arch:
        cases.append({'arch': name, 'conn': None, 'kind': 'segment1', 'seg': 1, 'seed': 1, 'phase': 'all', 'msg': None, 'label': None})
        cases.append({'arch': name, 'conn': None, 'kind': 'debug-in-probes', 'seg': 0, 'seed': 1, 'phase': 'probe', 'msg': None, 'label': None})
        cases.append({'arch': name, 'conn': None, 'kind': 'prebanner', 'seg': 0, 'seed': 1, 'phase': 'all', 'msg': None, 'label': None})
        cases.append({'arch': name, 'conn': None, 'kind': 'prebanner', 'seg': 1, 'seed': 2, 'phase': 'all', 'msg': None, 'label': None})
        cases.append({'arch': name, 'conn': None, 'kind': 'prebanner', 'seg': 4, 'seed': 3, 'phase': 'all', 'msg': None, 'label': None})
        cases.append({'arch': name, 'conn': None, 'kind': 'segment1', 'seg': 7, 'seed': 4, 'phase': 'all', 'msg': None, 'label': None})
        if 'gex' in arch[name]:
            cases.append({'arch': name, 'conn': None, 'kind': 'gex-huge-modulus', 'seg': 0, 'seed': 5, 'phase': 'probe', 'msg': None, 'label': None})
            # the whole range between the largest modulus ever requested and the largest that fits a packet: just above 8192 bits, 16384 bits,
            # 65535 bits (exactly 8192 bytes on the wire, no sign byte) - the exponentiation with any of them costs minutes
            for hb in (8200, 16384, 65535):
                cases.append({'arch': name, 'conn': None, 'kind': 'gex-huge-modulus', 'bits': hb, 'seg': 0, 'seed': 5, 'phase': 'probe', 'msg': None, 'label': None})
    if q:
        must = [c for c in cases if c['kind'] in ('segment1', 'debug-in-probes', 'prebanner', 'gex-huge-modulus')]
        rest = [c for c in cases if c not in must]
        cases = must + rng.sample(rest, min(len(rest), 330))
    else:
        cases = cases + [dict(c, seed=rng.getrandbits(32)) for c in cases if c['kind'] in ('truncate', 'bitflip', 'garbage', 'lenfield', 'innerlen')] * 3

    # the same probe-phase faults under the other modes that run the probes: policy audit (-P) and policy creation (-M)
    probe_faults = [c for c in cases if c['phase'] not in ('first', 'all') and c['kind'] in ('close', 'stall', 'truncate', 'wrongtype', 'garbage', 'zeropayload', 'lenfield')]
    extra = []
    for i, c in enumerate(rng.sample(probe_faults, min(len(probe_faults), 48)) if q else probe_faults):
        extra.append(dict(c, mode='policy' if i % 3 else 'make'))
    cases = cases + extra
    import os, random, tempfile
    tmpd = tempfile.mkdtemp(prefix='verif_c09_')

    def do(z, c):
        spec = dict(arch[c['arch']])
        r = random.Random(c['seed'])
        faults = []
        if c['kind'] in KINDS:
            fk, arg, then = mutate(c['kind'], r)
            faults = [P.Fault(c['conn'], c['msg'], fk, arg, then)]
        elif c['kind'] == 'debug-in-probes':
            spec['debug_before_reply'] = 2
        elif c['kind'] == 'gex-huge-modulus':
            spec['gex'] = (lambda hb: lambda mn, pf, mx: 'huge:%d' % hb)(c.get('bits', 65536))
        elif c['kind'] == 'prebanner':
            spec['pre'] = [b'Welcome to host', b'', b'   ', b'second line \xff\xfe']
        srv = P.new_ssh2_server(spec, faults=faults, segment=c['seg'], stall_limit=4.0)
        t0 = time.time()
        try:
            mode_opts = {'std': [], 'policy': ['-P', 'Hardened OpenSSH Server v9.9 (version 1)'], 'make': ['-M', os.path.join(tmpd, 'p%d_%d.txt' % (c['seed'], id(c) % 100000))]}[c.get('mode', 'std')]
            res = z.run(['-n', '--skip-rate-test', '-t', str(TIMEOUT)] + mode_opts + ['127.0.0.1:%d' % srv.port], timeout=90)
            wall = time.time() - t0
            time.sleep(0.02)
            return {'rc': res['rc'], 'out': res['out'], 'err': res['err'], 'timed_out': res['timed_out'], 'wall': wall, 'conns': srv.conns(), 'peer_send': srv.send_time}
        finally:
            srv.shutdown()

    with runner.Pool() as pool:
        results = pool.map(do, cases)
    nontriv = set()
    for c, r in zip(cases, results):
        desc = {k: c[k] for k in ('arch', 'conn', 'msg', 'label', 'kind', 'phase', 'seed', 'seg')}
        desc['op'] = 'cli-fault'
        desc['mode'] = c.get('mode', 'std')
        rep = has_report(r['out'])
        nontriv.add((c['arch'], c['phase'], c['label'], c['kind'], r['rc'], rep, desc['mode']))
        where = 'first' if c['phase'] == 'first' else 'probe'
        if r['timed_out']:
            ctx.violation('hang/%s/%s' % (where, c['kind']), 'audit did not terminate (fault %s on %s message %r of a %s connection)' % (c['kind'], c['arch'], c['label'], c['phase']), desc)
            continue
        if r['rc'] not in (0, 1, 2, 3):
            tb = (r['out'] + r['err'])
            m = re.findall(r'(\w+(?:Error|Exception)[^\n]*)', tb)
            ctx.violation('undocumented-status/%s/%s/%s' % (where, c['kind'], (m[-1].split(':')[0] if m else 'status%s' % r['rc'])),
                          'exit status %r after fault %s on message %r of a %s connection (%s): %s' % (r['rc'], c['kind'], c['label'], c['phase'], c['arch'], tb[-300:]), desc)
            continue
        # the bound of the statement is on the tool's waiting (timeout x connections); the time the scripted peer itself takes to trickle its
        # bytes out (1-byte segmentation sleeps between segments) is added on top; an over-budget run is confirmed by one isolated re-run,
        # so that a loaded machine is not mistaken for a slow tool
        budget = TIMEOUT * (r['conns'] + 2) * 2.0 + 4.0 + 2.0 * r.get('peer_send', 0.0)
        if r['wall'] > budget:
            with runner.Pool(1) as p1:
                r2 = p1.map(do, [c])[0]
            budget2 = TIMEOUT * (r2['conns'] + 2) * 2.0 + 4.0 + 2.0 * r2.get('peer_send', 0.0)
            if r2['wall'] <= budget2:
                ctx.notes.append('a %s/%s run took %.1fs under load, %.1fs when re-run alone (budget %.1fs)' % (where, c['kind'], r['wall'], r2['wall'], budget2))
            else:
                ctx.violation('slow/%s/%s' % (where, c['kind']), 'audit took %.1fs (and %.1fs when re-run alone) for %d connections with timeout %ds; the peer itself spent %.1fs sending' % (
                    r['wall'], r2['wall'], r2['conns'], TIMEOUT, r2.get('peer_send', 0.0)), desc)
        if desc['mode'] != 'std':
            continue   # policy modes print a verdict / write a file instead of the algorithm report: termination and a documented status are what is judged
        if c['kind'] in ('segment1', 'debug-in-probes', 'prebanner') or where == 'probe':
            # handshake well-formed: misbehaviour confined to probes must leave a complete report
            if c['kind'] == 'bitflip' and c['phase'] == 'first':
                pass
            elif not rep or r['rc'] not in (0, 2, 3):
                ctx.violation('probe-fault-loses-report/%s' % c['kind'], 'fault %s on message %r of a %s connection (%s): status %r, report shown: %r: %s' % (c['kind'], c['label'], c['phase'], c['arch'], r['rc'], rep, (r['out'] + r['err'])[-200:]), desc)
        elif c['kind'] != 'bitflip':
            if c['label'] in ('banner', 'kexinit') and (rep or r['rc'] != 1):
                # the first connection's banner/KEXINIT was damaged: no report, status 1 -- unless the damage left a well-formed message
                if c['kind'] in ('close', 'stall', 'garbage', 'zeropayload', 'wrongtype', 'badblock') or (c['kind'] == 'truncate'):
                    ctx.violation('bad-handshake-reported/%s' % c['kind'], 'fault %s on the %s of the first connection (%s): status %r, report shown: %r' % (c['kind'], c['label'], c['arch'], r['rc'], rep), desc)
    import shutil
    shutil.rmtree(tmpd, ignore_errors=True)
    ctx.cover(len(cases), nontriv, [{k: cases[0][k] for k in ('arch', 'conn', 'label', 'kind', 'phase')}],
              'for each transcript archetype (ed25519, RSA, certificates, GEX, GEX-first) every (connection, message, fault) triple: close, stall, truncation, garbage, packet length field, inner length field, wrong type, zero payload, bit flips, bad block size; plus 1-byte segmentation, debug messages in probes, pre-banner lines; -t 1; non-trivial = distinct (archetype, phase, message, fault, status, report shown)')

    # ---- odd but well-formed identification strings: the software/version part is peer-controlled text that the report pipeline parses
    # (product recognition, version comparison for recommendations and compatibility); a well-formed handshake always gets its report ----
    odd = []
    for prod in ('OpenSSH_', 'OpenSSH-', 'dropbear_', 'libssh_', 'libssh-', 'PuTTY_Release_', 'tinyssh_', 'RomSShell_', 'Cisco-', 'mpSSH_', 'lancom', 'Weird_'):
        for ver in ('8..9', '8.9.', '.8.9', '8', '8.', '0', '00.00', '9' * 40, '8.9p', '8.9p0', '8.9p1p2', '8.9-', '8.9..p1', '1e3', '8.9 .1', '\u0663.4', '8.9\t', '-1.0', '', '2020..81', '0.9..6', 'v8.9', '8,9'):
            odd.append('SSH-2.0-%s%s' % (prod, ver))
    odd += ['SSH-2.0-OpenSSH_' + '9' * 5000, 'SSH-2.0-dropbear_2020.' + '1' * 4400, 'SSH-2.0-libssh_0.' + '0' * 6000 + '.1', 'SSH-2.0-OpenSSH_8.9p' + '7' * 5000]
    odd_big = list(odd[-4:])
    odd += ['SSH-2.0-', 'SSH-2.0--', 'SSH-2.0-OpenSSH', 'SSH-2.0-OpenSSH_', 'SSH-1.99-OpenSSH_8..9', 'SSH-2.0-OpenSSH_8.9 ' + 'c' * 300, 'SSH-2.0-OpenSSH_7.4p1 Debian-10+deb9u7..', 'SSH-2.0-dropbear', 'SSH-2.0-libssh']
    if q:
        odd = rng.sample(odd, 60) + ['SSH-2.0-OpenSSH_8..9', 'SSH-2.0-dropbear_2020..81', 'SSH-2.0-libssh_0.9..6'] + odd_big

    def do_odd(z, b):
        srv = P.new_ssh2_server(dict(banner=b.encode('utf-8'), kex=['curve25519-sha256'], key=['ssh-ed25519', 'rsa-sha2-512'], enc=['aes256-ctr', 'aes128-cbc'], mac=['hmac-sha2-256', 'hmac-sha1'],
                                     hostkeys={b'ssh-ed25519': P.ed25519_blob()}), stall_limit=3.0)
        try:
            return [z.run(o + ['--skip-rate-test', '-t', str(TIMEOUT), '127.0.0.1:%d' % srv.port], timeout=60) for o in (['-n'], ['-j'])]
        finally:
            srv.shutdown()
    with runner.Pool() as pool:
        ores = pool.map(do_odd, odd)
    ctx.evaluations += 2 * len(odd)
    for b, rs in zip(odd, ores):
        for o, r in zip(('text', 'json'), rs):
            d = {'op': 'cli-odd-banner', 'banner': b, 'view': o}
            ok_rep = has_report(r['out']) if o == 'text' else ('"kex"' in r['out'])
            nontriv.add(('odd-banner', b.split('-')[2][:8] if b.count('-') >= 2 else '', r['rc']))
            if r['timed_out'] or r['rc'] not in (0, 2, 3) or not ok_rep:
                m = re.findall(r'(\w+(?:Error|Exception)[^\n]*)', r['out'] + r['err'])
                ctx.violation('odd-banner/%s' % (m[-1].split(':')[0] if m else 'status%s' % r['rc']), 'identification string %r followed by a well-formed KEXINIT: exit status %r, report shown: %r: %s' % (
                    b, r['rc'], ok_rep, (r['out'] + r['err'])[-200:]), d)
    # ---- well-formed but bulky KEXINITs: a name repeated hundreds of times, one very long name; the report stays proportional to what was sent ----
    bulky = [('repeat-chacha', dict(enc=['chacha20-poly1305@openssh.com'] * 400, mac=['hmac-sha2-256'])),
             ('repeat-cbc-etm', dict(enc=['aes128-cbc'] * 200 + ['aes256-ctr'], mac=['hmac-sha2-256-etm@openssh.com'] * 200)),
             ('repeat-unknown', dict(enc=['made-up-cbc'] * 300, mac=['made-up-etm@openssh.com'] * 300))]

    def do_bulky(z, c):
        name, l = c
        srv = P.new_ssh2_server(dict(banner=b'SSH-2.0-OpenSSH_8.9', kex=['curve25519-sha256'], key=['ssh-ed25519'], enc=l['enc'], mac=l['mac'], hostkeys={}), stall_limit=3.0)
        try:
            return [z.run(o + ['--skip-rate-test', '-t', str(TIMEOUT), '127.0.0.1:%d' % srv.port], timeout=60) for o in (['-n'], ['-j'])]
        finally:
            srv.shutdown()
    with runner.Pool() as pool:
        bres = pool.map(do_bulky, bulky)
    for (name, l), rs in zip(bulky, bres):
        sent = sum(len(x) + 1 for x in l['enc'] + l['mac'])
        for o, r in zip(('text', 'json'), rs):
            d = {'op': 'cli-bulky-kexinit', 'kind': name, 'view': o, 'names': len(l['enc']) + len(l['mac']), 'output_bytes': len(r['out'])}
            if r['timed_out'] or r['rc'] not in (0, 2, 3):
                ctx.violation('bulky-kexinit/status', '%s: status %r timed_out %r: %s' % (name, r['rc'], r['timed_out'], (r['out'] + r['err'])[-200:]), d)
            elif len(r['out']) > 400 * sent + 20000:
                ctx.violation('bulky-kexinit/report-size', '%s: a KEXINIT with %d bytes of names produced a %s report of %d bytes (more than 400 bytes per byte sent)' % (name, sent, o, len(r['out'])), d)
    ctx.evaluations += 2 * len(bulky)
    # ---- correspondence of the handshake model: banner then packet bytes with faults, vs classify(read_packet) ----
    hs_cases = []
    base = P.kexinit(['curve25519-sha256'], ['ssh-ed25519'], ['aes128-ctr'], ['hmac-sha2-256'])
    for i in range(120 if q else 1500):
        r = random.Random(rng.getrandbits(32))
        pkt = P.frame2(base)
        kind = r.choice(['valid', 'trunc', 'lenfield', 'innerlen', 'wrongtype', 'zeropayload', 'garbage', 'badblock', 'extra', 'mismatch-text'])
        if kind == 'trunc': pkt = pkt[:r.randrange(len(pkt))]
        elif kind == 'lenfield': pkt = struct.pack('>I', r.choice([0, 1, 4, 12, len(pkt) - 4, len(pkt) + 4, 2 ** 31])) + pkt[4:]
        elif kind == 'innerlen':
            j = r.choice([22, 26, r.randrange(22, len(pkt) - 8)]); pkt = pkt[:j] + struct.pack('>I', r.choice([0, 3, 2 ** 31, 70000])) + pkt[j + 4:]
        elif kind == 'wrongtype': pkt = pkt[:5] + bytes([r.choice([0, 2, 21, 30])]) + pkt[6:]
        elif kind == 'zeropayload': pkt = struct.pack('>IB', 12, 11) + bytes(11)
        elif kind == 'garbage': pkt = bytes(r.randrange(256) for _ in range(r.choice([0, 3, 16, 64])))
        elif kind == 'badblock': pkt = struct.pack('>IB', len(base) + 5, 4) + base + bytes(4)
        elif kind == 'extra': pkt = pkt + bytes(r.randrange(256) for _ in range(8))
        elif kind == 'mismatch-text': pkt = b'Protocol major versions differ.\n'
        end = r.choice(['close', 'stall'])
        hs_cases.append({'kind': kind, 'pkt': pkt, 'end': end})

    def do_hs(z, c):
        srv = P.Server(P.RawServer([b'SSH-2.0-OpenSSH_8.9\r\n', ('sleep', 0.05), c['pkt']], then=c['end']), stall_limit=3.0)
        try:
            return z.run(['-n', '-2', '--skip-rate-test', '-t', '1', '127.0.0.1:%d' % srv.port], timeout=60)
        finally:
            srv.shutdown()
    with runner.Pool() as pool:
        hres = pool.map(do_hs, hs_cases)
    terms, descs = [], []
    for c, r in zip(hs_cases, hres):
        rep = has_report(r['out'])
        if r['rc'] not in (0, 1, 2, 3) or r['timed_out']:
            ctx.violation('undocumented-status/first/%s' % c['kind'], 'exit status %r for first packet %s (%s)' % (r['rc'], c['pkt'][:24].hex(), c['kind']), {'op': 'cli-handshake', 'kind': c['kind'], 'pkt': c['pkt'].hex(), 'end': c['end']})
            continue
        sock = '{| s_buf := []; s_chunks := %s; s_end := %s |}' % (clist([c['pkt']] if c['pkt'] else [], cbytes), 'Close' if c['end'] == 'close' else 'Stall')
        want = 'true' if rep else 'false'
        terms.append('Bool.eqb (match classify 2 false (read_packet 2 %s) with ApKex _ => true | _ => false end) %s' % (sock, want))
        descs.append({'op': 'cli-handshake', 'kind': c['kind'], 'pkt': c['pkt'].hex(), 'end': c['end'], 'rc': r['rc'], 'report': rep})
        if (r['rc'] == 1) == rep:
            ctx.violation('status-report-mismatch/first/%s' % c['kind'], 'status %r but report shown: %r' % (r['rc'], rep), descs[-1])
    # the SSH-1 retry: with protocol 1 allowed, exactly the text 'Protocol major versions differ.' in place of the first packet makes the tool
    # audit the peer again as SSH-1; the run ends as that retry ends (model: audit_exit with both handshakes)
    fb_cases = []
    pk_ok = P.frame1(P.pkm_payload(0x4c, 0x0c))
    for i in range(16 if q else 200):
        r = random.Random(rng.getrandbits(32))
        txt = r.choice([b'Protocol major versions differ.\n'] * 4 + [b'Protocol major versions differ\n', b'protocol major versions differ.\n', b'Protocol major versions differ. \n', b'Protocol major versions differ.\r\n', b'Protocol mismatch.\n'])
        k1 = r.choice(['pkm', 'pkm', 'trunc', 'badcrc', 'wrongtype', 'garbage', 'empty', 'mismatch-again'])
        p1 = pk_ok
        if k1 == 'trunc': p1 = pk_ok[:r.randrange(len(pk_ok))]
        elif k1 == 'badcrc': p1 = pk_ok[:-1] + bytes([pk_ok[-1] ^ 0x5a])
        elif k1 == 'wrongtype': p1 = P.frame1(bytes([r.choice([0, 3, 20])]) + P.pkm_payload(0x4c, 0x0c)[1:])
        elif k1 == 'garbage': p1 = bytes(r.randrange(256) for _ in range(r.choice([3, 16, 64])))
        elif k1 == 'empty': p1 = b''
        elif k1 == 'mismatch-again': p1 = b'Protocol major versions differ.\n'
        fb_cases.append({'txt': txt, 'k1': k1, 'p1': p1})

    def do_fb(z, c):
        first = P.RawServer([b'SSH-1.99-OpenSSH_3.0\r\n', ('sleep', 0.05), c['txt']], then='close-now')
        second = P.RawServer([b'SSH-1.99-OpenSSH_3.0\r\n', ('sleep', 0.05)] + ([c['p1']] if c['p1'] else []), then='close-now')
        srv = P.Server(P.PerConn([first, second]), stall_limit=3.0)
        try:
            res = z.run(['-n', '--skip-rate-test', '-t', '1', '127.0.0.1:%d' % srv.port], timeout=60)
            res['conns'] = srv.conns()
            return res
        finally:
            srv.shutdown()
    with runner.Pool() as pool:
        fres = pool.map(do_fb, fb_cases)
    for c, r in zip(fb_cases, fres):
        d = {'op': 'cli-ssh1-fallback', 'first': c['txt'].decode(), 'second_kind': c['k1'], 'second': c['p1'].hex(), 'rc': r['rc'], 'conns': r['conns']}
        if r['rc'] not in (0, 1, 2, 3) or r['timed_out']:
            ctx.violation('undocumented-status/fallback/%s' % c['k1'], 'exit status %r in the SSH-1 retry (%s)' % (r['rc'], c['k1']), d)
            continue
        rep = bool(re.search(r'^\((key|enc|aut)\) ', canon.strip_ansi(r['out']), re.M))
        s0 = '{| s_buf := []; s_chunks := [%s]; s_end := Close |}' % cbytes(c['txt'])
        s1 = '{| s_buf := []; s_chunks := %s; s_end := Close |}' % clist([c['p1']] if c['p1'] else [], cbytes)
        terms.append('match audit_exit 2 true (HsPacket (read_packet 2 %s)) (HsPacket (read_packet 1 %s)) 77 with Exit st => Z.eqb st %s | Uncaught _ => false end' % (s0, s1, cz(77 if rep else r['rc'])))
        descs.append(d)
        terms.append('Bool.eqb (match classify 2 true (read_packet 2 %s) with ApFallbackSsh1 => true | _ => false end) %s' % (s0, 'true' if r['conns'] >= 2 else 'false'))
        descs.append(dict(d, op='cli-ssh1-fallback-taken'))
        if (r['rc'] == 1) == rep:
            ctx.violation('status-report-mismatch/fallback/%s' % c['k1'], 'status %r but SSH-1 report shown: %r' % (r['rc'], rep), d)
    ctx.correspond('handshake', ['VModel:AuditSM', 'VProofs:AuditProofs'], '', terms, lambda i: descs[i])
    ctx.cover(len(hs_cases), {(c['kind'], c['end']) for c in hs_cases}, [], 'first-packet byte strings (valid / truncated / length fields / wrong type / zero payload / garbage / bad block) after a valid banner vs the model classify(read_packet ...)')
