"""C10 - wire encoding/decoding are exact inverses; packets are well-framed."""
import socket
import struct
import time
import zlib

import common
from coqlit import cz, cbytes, cbool, clist

IMPORTS = ['VModel:Net', 'VGen:Tables']


def exname(e):
    n = type(e).__name__
    return {'error': 'StructError'}.get(n, n)


def impl_enc(kind, v):
    from ssh_audit.writebuf import WriteBuf
    w = WriteBuf()
    try:
        if kind == 'byte': w.write_byte(v)
        elif kind == 'bool': w.write_bool(v)
        elif kind == 'u32': w.write_int(v)
        elif kind == 'string': w.write_string(v)
        elif kind == 'namelist': w.write_list([x.decode('utf-8') for x in v])
        elif kind == 'mpint1': w.write_mpint1(v)
        elif kind == 'mpint2': w.write_mpint2(v)
        else: raise AssertionError(kind)
        return ('ok', w.write_flush())
    except (struct.error, ValueError, TypeError, OverflowError) as e:
        return ('raise', exname(e))


def impl_dec(kind, b):
    from ssh_audit.readbuf import ReadBuf
    r = ReadBuf(b)
    try:
        if kind == 'byte': v = r.read_byte()
        elif kind == 'bool': v = r.read_bool()
        elif kind == 'u32': v = r.read_int()
        elif kind == 'string': v = r.read_string()
        elif kind == 'namelist': v = r.read_list()
        elif kind == 'mpint1': v = r.read_mpint1()
        elif kind == 'mpint2': v = r.read_mpint2()
        else: raise AssertionError(kind)
        return ('ok', v, r.read(r.unread_len))
    except (struct.error, ValueError, TypeError) as e:
        return ('raise', exname(e))


def cval(kind, v):
    if kind in ('byte', 'u32', 'mpint1', 'mpint2'): return cz(v)
    if kind == 'bool': return cbool(v)
    if kind == 'string': return cbytes(v)
    if kind == 'namelist': return clist(v, cbytes)
    raise AssertionError(kind)


EQ = {'byte': 'Z.eqb', 'u32': 'Z.eqb', 'mpint1': 'Z.eqb', 'mpint2': 'Z.eqb', 'bool': 'Bool.eqb', 'string': 'zs_eqb', 'namelist': '(list_eqb zs_eqb)'}
ENC = {'byte': 'enc_byte', 'bool': '(fun b => Ok (enc_bool b))', 'u32': 'enc_u32', 'string': 'enc_string', 'namelist': 'enc_namelist', 'mpint1': 'enc_mpint1', 'mpint2': 'enc_mpint2'}
DEC = {'byte': 'dec_byte', 'bool': 'dec_bool', 'u32': 'dec_u32', 'string': 'dec_string', 'namelist': 'dec_namelist', 'mpint1': 'dec_mpint1', 'mpint2': 'dec_mpint2'}


def cres_enc(r):
    return '(Ok %s)' % cbytes(r[1]) if r[0] == 'ok' else '(Raise %s)' % r[1]


def gen_ints(rng, n_dense, ks, n_rand):
    xs = set(range(-n_dense, n_dense + 1))
    pats = [0, 1, 0x7f, 0x80, 0xff, 0x7fffffff, 0x80000000, 0xffffffff, 0x100000000, 0x180000000, 0x80000000ffffffff, 0xffffffff80000000, 0x7fffffffffffffff, 0x8000000000000000]
    for k in ks:
        for d in (-2, -1, 0, 1, 2):
            xs.add(2 ** k + d); xs.add(-(2 ** k) + d)
        for p in pats:
            xs.add(2 ** k + p); xs.add(-(2 ** k) - p); xs.add((p << k)); xs.add(-(p << k))
    for _ in range(n_rand):
        bits = rng.choice([8, 16, 31, 32, 33, 63, 64, 65, 96, 128, 255, 256, 512, 1024, 2048])
        v = rng.getrandbits(bits)
        # sprinkle words with the top bit set / all ones / zero
        if rng.random() < 0.5 and bits >= 64:
            w = rng.choice([0x80000000, 0xffffffff, 0, 0x7fffffff])
            sh = 32 * rng.randrange(bits // 32)
            v = (v & ~(0xffffffff << sh)) | (w << sh)
        xs.add(v); xs.add(-v)
    return sorted(xs)


def rfc_decode_packet(data):
    """Independent RFC 4253 section 6 decoder: returns (payload, rest) or raises AssertionError."""
    assert len(data) >= 5
    plen = int.from_bytes(data[:4], 'big')
    pad = data[4]
    assert (4 + plen) % 8 == 0, 'total length not a multiple of 8'
    assert pad >= 4, 'padding < 4'
    assert plen >= pad + 1
    assert len(data) >= 4 + plen
    n = plen - pad - 1
    return data[5:5 + n], data[4 + plen:]


class FakeSock:
    def __init__(self, chunks, end='close'):
        self.chunks = list(chunks); self.end = end; self.sent = []

    def recv(self, n):
        if self.chunks:
            return self.chunks.pop(0)
        if self.end == 'close':
            return b''
        raise socket.timeout('timed out')

    def send(self, data):
        self.sent.append(data); return len(data)

    def shutdown(self, how): pass
    def close(self): pass
    def settimeout(self, t): pass


def mk_socket(fake):
    from ssh_audit.ssh_socket import SSH_Socket
    from ssh_audit.outputbuffer import OutputBuffer
    out = OutputBuffer()
    s = SSH_Socket(out, 'localhost', 22)
    s._SSH_Socket__sock = fake
    return s


def impl_frame(payload):
    f = FakeSock([])
    s = mk_socket(f)
    s.write(payload)
    s.send_packet()
    s._SSH_Socket__sock = None
    return b''.join(f.sent)


def impl_unframe(sshv, chunks, end):
    import io, contextlib
    from ssh_audit.ssh_socket import SSH_Socket
    f = FakeSock(chunks, end)
    s = mk_socket(f)
    buf = io.StringIO()
    try:
        with contextlib.redirect_stdout(buf):
            t, p = s.read_packet(sshv)
        rest = s.read(s.unread_len)
        res = ('err', p) if t < 0 else ('ok', t, p)
    except SystemExit:
        res = ('sysexit',)
    except SSH_Socket.InvalidPacketException:
        res = ('exit',)
    except (struct.error, TypeError, ValueError) as e:
        res = ('raise', exname(e))
    finally:
        s._SSH_Socket__sock = None
    return res


def cpkt(r):
    if r[0] == 'ok': return '(PktOk %s %s)' % (cz(r[1]), cbytes(r[2]))
    if r[0] == 'err': return '(PktErr %s)' % cbytes(r[1])
    if r[0] == 'exit': return 'PktExit'
    if r[0] == 'sysexit': return '(PktRaise RuntimeError)'
    return '(PktRaise %s)' % r[1]


def frame1(payload_with_type, rng):
    """Build an SSH-1 packet (harness-side, per the SSH 1.5 spec)."""
    from ssh_audit.ssh1 import SSH1
    plen = len(payload_with_type) + 4
    padlen = 8 - plen % 8
    pad = bytes(rng.randrange(256) for _ in range(padlen))
    crc = SSH1.crc32(pad + payload_with_type)
    return struct.pack('>I', plen) + pad + payload_with_type + struct.pack('>I', crc)


def run(ctx):
    ctx.proofs(['C10'])
    rng = ctx.rng
    q = ctx.quick
    terms, descs = [], []
    nontriv = set()
    samples = []
    hist = {}

    def add(term, desc, nt=None):
        terms.append(term); descs.append(desc)
        hist[desc['op']] = hist.get(desc['op'], 0) + 1
        if nt is not None:
            nontriv.add(nt)

    # ---- integers: mpint1 / mpint2 / u32 / byte ----
    ks = list(range(1, 130)) + ([255, 256, 257, 511, 512, 1023, 1024, 2048, 8192] if q else list(range(130, 2049, 13)) + [4096, 8191, 8192])
    ints = gen_ints(rng, 300 if q else 3000, ks if not q else ks[::3] + ks[-9:], 200 if q else 6000)
    if q:
        ints = sorted(set(rng.sample(ints, min(len(ints), 1500))) | set(range(-40, 41)) | {-0x180000000, -0x80000000, 2 ** 31, 2 ** 32, -2 ** 63, 2 ** 64, 2 ** 8192 - 1, -2 ** 8192})
    ints += [2 ** 65535 - 1, 2 ** 65535, -2 ** 65535]  # SSH-1 16-bit length boundary
    n_roundtrip_bad = 0
    for n in ints:
        for kind in ('mpint2', 'mpint1'):
            r = impl_enc(kind, n)
            big = n.bit_length() > 9000   # list literals beyond ~1k elements are too slow for coqc: implementation-side oracle only
            if not big or r[0] != 'ok':
                add('res_eqb zs_eqb (%s %s) %s' % (ENC[kind], cz(n), cres_enc(r)), {'op': 'enc ' + kind, 'n': hex(n), 'impl': repr(r)},
                    (kind, 'neg' if n < 0 else 'pos', min(n.bit_length() // 32, 9)))
            if r[0] == 'ok':
                d = impl_dec(kind, r[1] + b'\x01\x02')
                ctx.evaluations += 1
                if not big: add('res_eqb (pair_eqb Z.eqb zs_eqb) (%s %s) %s' % (DEC[kind], cbytes(r[1] + b'\x01\x02'),
                    '(Ok (%s, %s))' % (cz(d[1]), cbytes(d[2])) if d[0] == 'ok' else '(Raise %s)' % d[1]),
                    {'op': 'dec ' + kind, 'bytes': r[1].hex(), 'impl': (hex(d[1]), d[2].hex()) if d[0] == 'ok' else repr(d)})
                # oracle: decode(encode(n)) == n, nothing else consumed
                if not (d[0] == 'ok' and d[1] == n and d[2] == b'\x01\x02'):
                    if kind == 'mpint1' and n < 0:
                        ctx.violation('mpint1-negative', 'SSH-1 mpint of a negative number (%d bits) does not decode to itself (format has no sign)' % n.bit_length(), {'op': 'roundtrip mpint1', 'n': hex(n)})
                    else:
                        ctx.violation('roundtrip/%s/%s' % (kind, 'neg' if n < 0 else 'nonneg'), '%s round trip of %s gives %s' % (kind, hex(n), hex(d[1]) if d[0] == 'ok' else d), {'op': 'roundtrip ' + kind, 'n': hex(n), 'encoded': r[1].hex()})
                # oracle: minimal two's complement encoding (RFC 4251 section 5) for mpint2
                if kind == 'mpint2':
                    body = r[1][4:]
                    exp = n.to_bytes(((n if n >= 0 else -n - 1).bit_length() + 8) // 8, 'big', signed=True) if n != 0 else b''
                    if body != exp or int.from_bytes(r[1][:4], 'big') != len(body):
                        ctx.violation('mpint2-encoding/%s' % ('neg' if n < 0 else 'nonneg'), 'mpint2 encoding of %s is %s, RFC 4251 says %s' % (hex(n), body.hex(), exp.hex()), {'op': 'enc mpint2', 'n': hex(n)})
    samples.append({'op': 'enc/dec mpint2', 'n': -0x180000000, 'impl': impl_enc('mpint2', -0x180000000)[1].hex()})
    for v in [-1, 0, 1, 127, 128, 255, 256, 2 ** 31, 2 ** 32 - 1, 2 ** 32, 2 ** 32 + 1] + [rng.getrandbits(32) for _ in range(40)]:
        for kind in ('byte', 'u32'):
            r = impl_enc(kind, v)
            add('res_eqb zs_eqb (%s %s) %s' % (ENC[kind], cz(v), cres_enc(r)), {'op': 'enc ' + kind, 'v': v, 'impl': repr(r)}, (kind, r[0]))
            if r[0] == 'ok':
                d = impl_dec(kind, r[1])
                if not (d[0] == 'ok' and d[1] == v and d[2] == b''):
                    ctx.violation('roundtrip/' + kind, '%s round trip of %d gives %r' % (kind, v, d), {'op': 'roundtrip ' + kind, 'v': v})
    # ---- decoders on arbitrary / truncated bytes ----
    for _ in range(150 if q else 4000):
        kind = rng.choice(['byte', 'bool', 'u32', 'string', 'mpint1', 'mpint2'])
        ln = rng.choice([0, 1, 2, 3, 4, 5, 6, 8, 9, 12, 20])
        b = bytes(rng.randrange(256) for _ in range(ln))
        if kind in ('string', 'mpint2') and rng.random() < 0.7 and ln >= 4:
            b = struct.pack('>I', rng.choice([0, 1, ln - 4, ln - 3, ln, 7, 2 ** 31, 2 ** 32 - 1])) + b[4:]
        d = impl_dec(kind, b)
        if d[0] == 'ok':
            exp = '(Ok (%s, %s))' % (cval(kind, d[1]), cbytes(d[2]))
        else:
            exp = '(Raise %s)' % d[1]
        add('res_eqb (pair_eqb %s zs_eqb) (%s %s) %s' % (EQ[kind], DEC[kind], cbytes(b), exp), {'op': 'dec ' + kind, 'bytes': b.hex(), 'impl': repr(d)}, ('dec', kind, d[0]))
    # ---- strings and name-lists ----
    alphabet = 'abcxyz-@.019=+/_'
    wide = alphabet + '\u00e9\u20ac\U0001f600\u00df'   # names are text in the tool: valid multi-byte UTF-8 must keep byte-exact lengths
    def name():
        a = wide if rng.random() < 0.25 else alphabet
        return ''.join(rng.choice(a) for _ in range(rng.choice([0, 1, 1, 3, 8, 20]))).encode('utf-8')
    lists = [[b''], [b'a'], [b'', b''], [b'a', b''], [b'', b'a'], [b'x' * 300], ['priv\u00e9-alg@example.org'.encode()], ['\u20ac'.encode(), b'a', '\U0001f600x'.encode()]]
    for _ in range(60 if q else 2000):
        lists.append([name() for _ in range(rng.choice([1, 1, 2, 3, 6]))])
    for l in lists:
        r = impl_enc('namelist', l)
        add('res_eqb zs_eqb (enc_namelist %s) %s' % (clist(l, cbytes), cres_enc(r)), {'op': 'enc namelist', 'l': repr(l)}, ('namelist', len(l), min(len(b''.join(l)), 30)))
        d = impl_dec('namelist', r[1])
        got = [x.encode() for x in d[1]]
        add('res_eqb (pair_eqb (list_eqb zs_eqb) zs_eqb) (dec_namelist %s) (Ok (%s, []))' % (cbytes(r[1]), clist(got, cbytes)), {'op': 'dec namelist', 'bytes': r[1].hex(), 'impl': repr(d)})
        if got != l or d[2] != b'':
            ctx.violation('roundtrip/namelist', 'name-list %r decodes as %r' % (l, d), {'op': 'roundtrip namelist', 'l': repr(l)})
        if impl_enc('namelist', got)[1] != r[1]:
            ctx.violation('reencode/namelist', 're-encoding decoded name-list %r differs' % (l,), {'op': 'reencode namelist', 'l': repr(l)})
    # write_string of bytes and of text (text is written as its UTF-8 bytes, the length field counts bytes)
    for i in range(40 if q else 1500):
        if i % 2:
            raw = bytes(rng.randrange(256) for _ in range(rng.choice([0, 1, 2, 7, 33, 300])))
            arg = raw
        else:
            raw = name() if i % 4 else ''.join(rng.choice(wide) for _ in range(rng.randrange(1, 12))).encode('utf-8')
            arg = raw.decode('utf-8')
        r = impl_enc('string', arg)
        add('res_eqb zs_eqb (enc_string %s) %s' % (cbytes(raw), cres_enc(r)), {'op': 'enc string', 'arg': repr(arg), 'impl': repr(r)}, ('string', type(arg).__name__, min(len(raw), 40)))
        d = impl_dec('string', r[1]) if r[0] == 'ok' else None
        if d is None or d[0] != 'ok' or d[1] != raw or d[2] != b'':
            ctx.violation('roundtrip/string', 'write_string(%r) is read back as %r' % (arg, d), {'op': 'roundtrip string', 'arg': repr(arg)})
    # non-UTF-8 stream: decoding with replacement commutes with splitting (implementation-only check)
    from ssh_audit.readbuf import ReadBuf
    for _ in range(300 if q else 20000):
        raw = bytes(rng.choice([44, 44, 97, 0xe2, 0x82, 0xac, 0xff, 0xc3, 0x28, 0xf0, 0x9f, 0x80]) for _ in range(rng.randrange(0, 14)))
        got = ReadBuf(struct.pack('>I', len(raw)) + raw).read_list()
        want = [t.decode('utf-8', 'replace') for t in raw.split(b',')]
        ctx.evaluations += 1
        if got != want:
            ctx.violation('namelist-nonutf8-split', 'read_list(%s) = %r but per-token decoding gives %r' % (raw.hex(), got, want), {'op': 'nonutf8 namelist', 'raw': raw.hex()})
    # ---- KEXINIT and SSH-1 public key message ----
    from ssh_audit.ssh2_kex import SSH2_Kex
    from ssh_audit.ssh2_kexparty import SSH2_KexParty
    from ssh_audit.ssh1_publickeymessage import SSH1_PublicKeyMessage
    from ssh_audit.outputbuffer import OutputBuffer
    def nl():
        return [name() for _ in range(rng.choice([1, 1, 2, 4]))]
    for i in range(40 if q else 1500):
        cookie = bytes(rng.randrange(256) for _ in range(16))
        f = [nl() for _ in range(10)]
        fo, un = rng.random() < 0.5, rng.choice([0, 1, 2 ** 32 - 1, rng.getrandbits(32)])
        S = lambda l: [x.decode() for x in l]
        kex = SSH2_Kex(OutputBuffer(), cookie, S(f[0]), S(f[1]), SSH2_KexParty(S(f[2]), S(f[4]), S(f[6]), S(f[8])), SSH2_KexParty(S(f[3]), S(f[5]), S(f[7]), S(f[9])), fo, un)
        payload = kex.payload
        rec = '{| k_cookie := %s; k_kex := %s; k_key := %s; k_cenc := %s; k_senc := %s; k_cmac := %s; k_smac := %s; k_ccomp := %s; k_scomp := %s; k_clang := %s; k_slang := %s; k_follows := %s; k_unused := %s |}' % (
            (cbytes(cookie),) + tuple(clist(x, cbytes) for x in f) + (cbool(fo), cz(un)))
        add('res_eqb zs_eqb (write_kexinit %s) (Ok %s)' % (rec, cbytes(payload)), {'op': 'write kexinit', 'payload': payload.hex()}, ('kexinit', i))
        # truncate sometimes
        cut = payload if rng.random() < 0.5 else payload[:rng.randrange(len(payload))]
        try:
            k2 = SSH2_Kex.parse(OutputBuffer(), cut)
            res = ('ok', k2)
        except struct.error:
            res = ('raise', 'StructError')
        if res[0] == 'ok':
            E = lambda l: clist([x.encode() for x in l], cbytes)
            k2 = res[1]
            rec2 = '{| k_cookie := %s; k_kex := %s; k_key := %s; k_cenc := %s; k_senc := %s; k_cmac := %s; k_smac := %s; k_ccomp := %s; k_scomp := %s; k_clang := %s; k_slang := %s; k_follows := %s; k_unused := %s |}' % (
                cbytes(k2.cookie), E(k2.kex_algorithms), E(k2.key_algorithms), E(k2.client.encryption), E(k2.server.encryption), E(k2.client.mac), E(k2.server.mac),
                E(k2.client.compression), E(k2.server.compression), E(k2.client.languages), E(k2.server.languages), cbool(k2.follows), cz(k2.unused))
            add('match parse_kexinit %s with Ok (k, _) => res_eqb zs_eqb (write_kexinit k) (write_kexinit %s) | Raise _ => false end' % (cbytes(cut), rec2), {'op': 'parse kexinit', 'payload': cut.hex()}, ('kexparse', 'ok', len(cut) == len(payload)))
            if cut is payload and k2.payload != payload:
                ctx.violation('reencode/kexinit', 're-encoding a parsed KEXINIT gives different bytes', {'op': 'reencode kexinit', 'payload': payload.hex()})
        else:
            add('match parse_kexinit %s with Raise StructError => true | _ => false end' % cbytes(cut), {'op': 'parse kexinit', 'payload': cut.hex(), 'impl': 'StructError'}, ('kexparse', 'raise'))
    for i in range(30 if q else 800):
        cookie = bytes(rng.randrange(256) for _ in range(8))
        vals = [rng.getrandbits(32), rng.choice([0, 3, 65537, rng.getrandbits(17)]), rng.getrandbits(rng.choice([8, 768, 1024])),
                rng.getrandbits(32), rng.choice([0, 35, 65537]), rng.getrandbits(rng.choice([1, 512, 1024, 2048])), rng.getrandbits(32), rng.getrandbits(32), rng.getrandbits(32)]
        m = SSH1_PublicKeyMessage(cookie, (vals[0], vals[1], vals[2]), (vals[3], vals[4], vals[5]), vals[6], vals[7], vals[8])
        payload = m.payload
        rec = '{| p_cookie := %s; p_skey_bits := %s; p_skey_e := %s; p_skey_n := %s; p_hkey_bits := %s; p_hkey_e := %s; p_hkey_n := %s; p_flags := %s; p_cmask := %s; p_amask := %s |}' % ((cbytes(cookie),) + tuple(cz(v) for v in vals))
        add('res_eqb zs_eqb (write_pkm %s) (Ok %s)' % (rec, cbytes(payload)), {'op': 'write pkm', 'payload': payload.hex()}, ('pkm', i))
        add('match parse_pkm %s with Ok (m, []) => res_eqb zs_eqb (write_pkm m) (Ok %s) | _ => false end' % (cbytes(payload), cbytes(payload)), {'op': 'parse pkm', 'payload': payload.hex()})
        m2 = SSH1_PublicKeyMessage.parse(payload)
        if m2.payload != payload or (m2.host_key_public_modulus, m2.server_key_public_modulus, m2.supported_ciphers_mask) != (vals[5], vals[2], vals[7]):
            ctx.violation('roundtrip/pkm', 'SSH-1 public key message does not round trip', {'op': 'roundtrip pkm', 'payload': payload.hex()})
        from ssh_audit.ssh1 import SSH1
        add('strs_eqb (supported_ciphers ssh1_ciphers (%s)) %s && strs_eqb (supported_auths ssh1_auths (%s)) %s' % (
            rec, clist(m.supported_ciphers, lambda s: '"%s"' % s), rec, clist(m.supported_authentications, lambda s: '"%s"' % s)), {'op': 'pkm masks', 'cmask': vals[7], 'amask': vals[8]})
    # ---- framing: all payload lengths ----
    lens = list(range(0, 70)) + ([255, 256, 1000, 4095, 4096] if q else list(range(70, 4097)))
    for ln in lens:
        payload = bytes(rng.randrange(256) for _ in range(ln)) if ln < 300 or not q else bytes(ln)
        data = impl_frame(payload)
        if ln <= 1100:
            add('res_eqb zs_eqb (frame %s) (Ok %s)' % (cbytes(payload), cbytes(data)), {'op': 'frame', 'len': ln}, ('frame', ln % 8, min(ln, 16)))
        else:
            ctx.evaluations += 1
        # oracle: RFC 4253 section 6 + independent decoder + own reader
        try:
            p2, rest = rfc_decode_packet(data)
            assert p2 == payload and rest == b'' and len(data) % 8 == 0
        except AssertionError as e:
            ctx.violation('frame-malformed/len%%8=%d' % (ln % 8), 'packet framed for a %d-byte payload violates RFC 4253 s6: %s' % (ln, e), {'op': 'frame', 'payload': payload.hex()})
        if ln > 0:
            back = impl_unframe(2, [data], 'close')
            if back != ('ok', payload[0], payload[1:]):
                ctx.violation('frame-readback/len%%8=%d' % (ln % 8), 'own packet reader returns %r for a framed %d-byte payload' % (back[:2], ln), {'op': 'unframe', 'data': data.hex()})
    # the second packet builder of the code base (the padding helper of dheat.py, used by its KEXINIT / KEXDH_INIT / GEX_REQUEST builders): same framing rule, every length
    from ssh_audit.dheat import DHEat
    import struct as _struct
    for ln in lens:
        payload = bytes(ln)
        try:
            pad_len, padding = DHEat.get_padding(None, payload)     # the method does not use its instance
        except Exception as e:  # noqa
            ctx.violation('dheat-padding/exception', 'DHEat.get_padding raised %s for a %d-byte payload' % (type(e).__name__, ln), {'op': 'dheat-padding', 'len': ln})
            break
        data = _struct.pack('>IB', ln + pad_len + 1, pad_len) + payload + padding
        ctx.evaluations += 1
        if len(padding) != pad_len or not (4 <= pad_len <= 255) or len(data) % 8 != 0 or len(data) < 16:
            ctx.violation('dheat-padding/len%%8=%d' % (ln % 8), 'DHEat.get_padding for a %d-byte payload: announces %d padding bytes, returns %d; packet of %d bytes' % (ln, pad_len, len(padding), len(data)), {'op': 'dheat-padding', 'len': ln})
        elif ln <= 300:
            add('Z.eqb (pad_len %d) %d' % (ln, pad_len), {'op': 'dheat-padding', 'len': ln}, ('dheat-pad', ln % 8))
    samples.append({'op': 'frame', 'payload': '14aabb', 'impl': impl_frame(b'\x14\xaa\xbb').hex()})
    # ---- unframe: valid, mutated and truncated packets, several segmentations, SSH-1 and SSH-2 ----
    for _ in range(250 if q else 6000):
        sshv = rng.choice([1, 2, 2])
        ln = rng.choice([1, 2, 5, 11, 12, 13, 40])
        payload = bytes(rng.randrange(256) for _ in range(ln))
        data = impl_frame(payload) if sshv == 2 else frame1(payload, rng)
        mode = rng.choice(['valid', 'valid', 'trunc', 'len', 'flip', 'extra', 'garbage', 'zero'])
        if mode == 'trunc': data = data[:rng.randrange(len(data))]
        elif mode == 'len':
            data = struct.pack('>I', rng.choice([0, 1, 2, 3, 4, 5, 7, 8, 11, 12, len(data) - 4, len(data) + 4, 2 ** 31, 2 ** 32 - 4, 2 ** 32 - 1])) + data[4:]
        elif mode == 'flip':
            i = rng.randrange(len(data)); data = data[:i] + bytes([data[i] ^ (1 << rng.randrange(8))]) + data[i + 1:]
        elif mode == 'extra': data = data + bytes(rng.randrange(256) for _ in range(rng.randrange(1, 9)))
        elif mode == 'garbage': data = bytes(rng.randrange(256) for _ in range(rng.randrange(0, 24)))
        elif mode == 'zero' and sshv == 2:
            pad = rng.choice([3, 11, 7]); data = struct.pack('>IB', pad + 1, pad) + bytes(pad)
        # segmentation
        chunks = []
        rest = data
        while rest:
            k = rng.choice([1, 2, 3, 5, 8, len(rest)]); chunks.append(rest[:k]); rest = rest[k:]
        end = rng.choice(['close', 'close', 'timeout'])
        r = impl_unframe(sshv, list(chunks), end)
        sock = '{| s_buf := []; s_chunks := %s; s_end := %s |}' % (clist(chunks, cbytes), 'Close' if end == 'close' else 'Stall')
        add('pkt_eqb (snd (read_packet%d %s)) %s' % (sshv, sock, cpkt(r)), {'op': 'unframe', 'sshv': sshv, 'mode': mode, 'data': data.hex(), 'end': end, 'impl': repr(r)}, ('unframe', sshv, mode, r[0]))
    # ---- what the tool really emits: every packet captured by scripted peers during real audits (standard, policy, client) ----
    import peers as P
    import runner
    ed, rsa = P.ed25519_blob(), P.rsa_blob(3072)
    emit_specs = [
        dict(banner=b'SSH-2.0-OpenSSH_8.9', kex=['curve25519-sha256', 'diffie-hellman-group-exchange-sha256'], key=['ssh-ed25519', 'rsa-sha2-512'], enc=['aes256-ctr'], mac=['hmac-sha2-256'], hostkeys={b'ssh-ed25519': ed, b'rsa-sha2-512': rsa}, gex=lambda a, b, c: max(a, min(c, 3072))),
        dict(banner=b'SSH-2.0-dropbear_2022.83', kex=['diffie-hellman-group-exchange-sha1', 'diffie-hellman-group14-sha256', 'ecdh-sha2-nistp521'], key=['rsa-sha2-256', 'ssh-rsa'], enc=['3des-cbc', 'chacha20-poly1305@openssh.com'], mac=['hmac-sha1'], hostkeys={b'rsa-sha2-256': rsa, b'ssh-rsa': rsa}, gex=lambda a, b, c: 2048 if a <= 2048 <= c else None),
        dict(banner=b'SSH-2.0-x', kex=['priv\u00e9-kex@example.org'.encode(), b'diffie-hellman-group16-sha512'], key=['ssh-ed25519', 'caf\u00e9-key'.encode()], enc=['aes128-gcm@openssh.com'], mac=['umac-128-etm@openssh.com'], hostkeys={b'ssh-ed25519': ed}),
    ]
    emit_opts = [[], ['-P', 'Hardened OpenSSH Server v9.9 (version 1)'], ['-v'], ['-2']]

    def do_emit(z, c):
        spec, opts = c
        srv = P.new_ssh2_server(dict(spec), stall_limit=3.0)
        try:
            r = z.run(['-n', '--skip-rate-test', '-t', '2'] + opts + ['127.0.0.1:%d' % srv.port], timeout=120)
            time.sleep(0.05)
            return {'rc': r['rc'], 'raw': list(srv.rx_raw), 'conns': srv.conns()}
        finally:
            srv.shutdown()
    ecases = [(sp, o) for sp in emit_specs for o in (emit_opts if not q else emit_opts[:2])]
    with runner.Pool(8) as pool:
        eres = pool.map(do_emit, ecases)
    from ssh_audit.ssh2_kex import SSH2_Kex as _K
    from ssh_audit.outputbuffer import OutputBuffer as _OB
    n_emit = 0
    for (sp, o), r in zip(ecases, eres):
        for idx, raw in r['raw']:
            n_emit += 1
            d = {'op': 'emitted packet', 'opts': o, 'banner': sp['banner'].decode(), 'connection': idx, 'packet': raw.hex()[:400]}
            try:
                pl, rest = rfc_decode_packet(raw)
                assert rest == b'' and len(pl) >= 1
            except AssertionError as e:
                ctx.violation('emitted-packet-malformed', 'a packet the tool sent on connection %d violates RFC 4253 section 6: %s' % (idx, e), d)
                continue
            nontriv.add(('emitted', pl[0], len(raw) % 16))
            if impl_unframe(2, [raw], 'close') != ('ok', pl[0], pl[1:]):
                ctx.violation('emitted-packet-readback', 'the tool\'s own reader does not return the payload of a packet the tool sent (type %d)' % pl[0], d)
            if pl[0] == 20:   # the KEXINIT the tool sends: decodes with the independent decoder, and parse -> payload is the identity
                try:
                    body = pl[1:]
                    pos = 16
                    for _ in range(10):
                        ln = int.from_bytes(body[pos:pos + 4], 'big'); assert pos + 4 + ln <= len(body), 'name-list overruns the payload'
                        pos += 4 + ln
                    assert pos + 5 == len(body), 'trailing bytes after the KEXINIT fields: %d' % (len(body) - pos - 5)
                except AssertionError as e:
                    ctx.violation('emitted-kexinit-malformed', 'the KEXINIT the tool sent on connection %d does not decode: %s' % (idx, e), d)
                    continue
                k2 = _K.parse(_OB(), pl[1:])
                if k2.payload != pl[1:]:
                    ctx.violation('emitted-kexinit-reencode', 'parsing the KEXINIT the tool sent and writing it again gives different bytes', d)
                if len(pl) <= 1500:
                    add('match parse_kexinit %s with Ok (k, []) => res_eqb zs_eqb (write_kexinit k) (Ok %s) | _ => false end' % (cbytes(pl[1:]), cbytes(pl[1:])), d, ('emitted-kexinit', len(pl) % 8))
    hist['emitted packets'] = n_emit
    if n_emit < len(ecases) * 2:
        ctx.violation('emitted-none', 'the scripted peers captured only %d packets over %d audits' % (n_emit, len(ecases)), {'op': 'emitted packet'})
    # ---- CRC ----
    from ssh_audit.ssh1 import SSH1
    for _ in range(60 if q else 3000):
        b = bytes(rng.randrange(256) for _ in range(rng.choice([0, 1, 2, 7, 8, 9, 64, 200])))
        c = SSH1.crc32(b)
        add('Z.eqb (crc_calc %s) %s' % (cbytes(b), cz(c)), {'op': 'crc', 'bytes': b.hex(), 'impl': c}, ('crc', len(b)))
        if c != (zlib.crc32(b, 0xffffffff) ^ 0xffffffff):
            ctx.violation('crc32', 'SSH1.crc32(%s) = %#x differs from the CRC-32 polynomial division' % (b.hex(), c), {'op': 'crc', 'bytes': b.hex()})
    ctx.extra['op_histogram'] = hist
    bad = ctx.correspond('wire', IMPORTS, '', terms, lambda i: descs[i])
    ctx.cover(len(terms), nontriv, samples, 'codec cases: integers dense around 0 and +-2^k with every 32-bit word pattern class, random big integers of both signs; random/truncated byte strings per decoder; name-lists incl. empty/duplicate/long; KEXINIT and SSH-1 messages (also truncated); all payload lengths for framing; mutated/segmented packets for the readers; non-trivial = distinct (op, sign/size class | length mod 8 | mutation x outcome)')
