"""C17 - the tool's knowledge tables agree with each other (T1 + finite kernel-evaluated theorems)."""
import re

import common


def toks(n):
    return [t for t in re.split(r'[-@._]', n) if t]


PATS = {
    'md5': lambda ts: 'md5' in ts,
    'sha1': lambda ts: 'sha1' in ts,
    'rc4/arcfour': lambda ts: any(t.startswith('arcfour') or t == 'rc4' for t in ts),
    'des/3des': lambda ts: any(t in ('des', '3des') for t in ts),
    'none': lambda ts: ts == ['none'],
    'dss/dsa': lambda ts: any(t in ('dss', 'dsa') for t in ts),
    'group1': lambda ts: 'group1' in ts,
    '1024-bit': lambda ts: any(t.endswith('1024') for t in ts),
    'nist curves': lambda ts: any(t.startswith(p) for t in ts for p in ('nistp', 'nistk', 'nistb', 'nistt')),
    'blowfish': lambda ts: any(t.startswith('blowfish') for t in ts),
    'cast': lambda ts: any(t.startswith('cast') for t in ts),
    'idea': lambda ts: 'idea' in ts,
    'rijndael': lambda ts: any(t.startswith('rijndael') for t in ts),
    'seed': lambda ts: 'seed' in ts,
    'serpent': lambda ts: any(t.startswith('serpent') for t in ts),
    'ripemd': lambda ts: any(t.startswith('ripemd') for t in ts),
    'gost': lambda ts: any(t.startswith('gost') for t in ts),
}

VERSION_TOKEN = re.compile(r'^(d|l1)?(\d+(\.\d+)*)?C?$')


def has_fail(d):
    return len(d) > 1 and len([x for x in d[1] if x is not None]) > 0


def oracle(ctx):
    """The property statement evaluated directly on the imported tables (independent of the Coq model)."""
    from ssh_audit.ssh2_kexdb import SSH2_KexDB as K2
    from ssh_audit.ssh1_kexdb import SSH1_KexDB as K1
    from ssh_audit.builtin_policies import BUILTIN_POLICIES as BP
    from ssh_audit.hostkeytest import HostKeyTest as H
    from ssh_audit.dheat import DHEat as D
    from ssh_audit.ssh1 import SSH1
    db2, db1 = K2.MASTER_DB, K1.MASTER_DB
    n = 0
    nontrivial = set()
    samples = []
    # cross references
    refs = []
    for pn, p in BP.items():
        for f, c in (('host_keys', 'key'), ('optional_host_keys', 'key'), ('kex', 'kex'), ('ciphers', 'enc'), ('macs', 'mac')):
            for a in p.get(f) or []:
                refs.append(('policy %s field %s' % (pn, f), c, a, True))
        for a in (p.get('hostkey_sizes') or {}):
            refs.append(('policy %s hostkey_sizes' % pn, 'key', a, True))
        for a in (p.get('dh_modulus_sizes') or {}):
            refs.append(('policy %s dh_modulus_sizes' % pn, 'kex', a, True))
    for a in list(H.HOST_KEY_TYPES) + list(H.RSA_FAMILY):
        refs.append(('host-key probe table', 'key', a, False))
    for a in list(D.gex_algs) + list(D.alg_priority) + list(D.alg_modulus_sizes) + list(D.tested_algs):
        refs.append(('DHEat tables', 'kex', a, False))
    for where, c, a, nofail in refs:
        n += 1
        nontrivial.add(('ref', where.split(' ')[0], c, a))
        if a not in db2.get(c, {}):
            ctx.violation('unknown-ref/%s/%s' % (c, a), '%s names %s algorithm %r which the rating database does not know' % (where, c, a),
                          {'table': where, 'category': c, 'name': a})
        elif nofail and has_fail(db2[c][a]):
            ctx.violation('policy-failed-alg/%s/%s' % (c, a), '%s requires/permits %s algorithm %r which the database rates as a failure: %r' % (where, c, a, db2[c][a][1]),
                          {'table': where, 'category': c, 'name': a, 'failures': db2[c][a][1]})
    samples.append({'kind': 'cross-reference', 'from': refs[0][0], 'category': refs[0][1], 'name': refs[0][2]})
    for i, a in enumerate(SSH1.CIPHERS):
        n += 1
        if a not in db1['enc']:
            ctx.violation('unknown-ref/ssh1-enc/%s' % a, 'SSH1.CIPHERS names %r unknown to the SSH-1 database' % a, {'name': a})
    for a in SSH1.AUTHS[1:]:
        n += 1
        if a not in db1['aut']:
            ctx.violation('unknown-ref/ssh1-aut/%s' % a, 'SSH1.AUTHS names %r unknown to the SSH-1 database' % a, {'name': a})
    # broken primitives and shape
    for dbn, db in (('ssh2', db2), ('ssh1', db1)):
        for c, ents in db.items():
            for a, d in ents.items():
                n += 1
                ms = [p for p, f in PATS.items() if f(toks(a))]
                if ms:
                    nontrivial.add(('broken', dbn, c, a))
                    if not has_fail(d):
                        ctx.violation('%s-%s-no-failure' % (dbn, a) if dbn == 'ssh1' else 'broken-no-failure/%s/%s/%s' % (dbn, c, a),
                                      '%s database entry %s/%r contains broken primitive(s) %s but carries no failure' % (dbn, c, a, ms),
                                      {'db': dbn, 'category': c, 'name': a, 'patterns': ms, 'entry': d})
                ok = isinstance(d, list) and 1 <= len(d) <= 4 and all(isinstance(x, list) for x in d) and len(d[0]) <= 3 \
                    and all(v is None or (isinstance(v, str) and all(VERSION_TOKEN.match(t) for t in v.split(','))) for v in d[0]) \
                    and all(isinstance(x, str) for comp in d[1:] for x in comp)
                if not ok:
                    ctx.violation('shape/%s/%s/%s' % (dbn, c, a), '%s database entry %s/%r does not have the documented shape: %r' % (dbn, c, a, d),
                                  {'db': dbn, 'category': c, 'name': a, 'entry': d})
    samples.append({'kind': 'entry', 'db': 'ssh2', 'category': 'mac', 'name': 'hmac-sha1', 'entry': db2['mac'].get('hmac-sha1')})
    ctx.cover(n, nontrivial, samples, 'exhaustive over the imported tables: every cross-reference of every built-in policy / probe table / DHEat table, every database entry (pattern rule + shape rule); non-trivial = a cross-reference or an entry matching a broken-primitive pattern')
    ctx.exhaustive = True


def policy_peer_audits(ctx):
    """A standard audit (real CLI over TCP, host-key and group-exchange probes answered) of a peer synthesised from each built-in server
    policy: lists, host keys, certificates (CA type and size) and moduli exactly as the policy states.  The report must show no failure."""
    import json
    import canon
    import peers as P
    import runner
    from ssh_audit.builtin_policies import BUILTIN_POLICIES
    pols = {}
    for name, pol in BUILTIN_POLICIES.items():
        if pol['server_policy']:
            sig = json.dumps([pol['kex'], pol['host_keys'], pol['optional_host_keys'], pol['ciphers'], pol['macs'], pol['hostkey_sizes'], pol['dh_modulus_sizes']], sort_keys=True)
            pols.setdefault(sig, (name, pol))
    cases = sorted(pols.values(), key=lambda x: x[0])
    if ctx.quick:
        cases = ctx.rng.sample(cases, min(6, len(cases)))
    cases = [(n, p, opt) for (n, p) in cases for opt in ((False, True) if p['optional_host_keys'] else (False,))]

    def blob_for(t, d):
        def plain(kt, bits):
            if kt.startswith(('ssh-rsa', 'rsa-sha2')): return P.rsa_blob(bits, seed=5)
            if kt == 'ssh-ed25519': return P.ed25519_blob(seed=5)
            if kt == 'sk-ssh-ed25519@openssh.com': return P.sk_ed25519_blob(seed=5)
            if kt.startswith('ecdsa-sha2-'): return P.ecdsa_blob(kt[11:].encode(), {256: 65, 384: 97, 521: 133}.get(bits, 65))
            return None
        if '-cert-' not in t:
            return plain(t, d['hostkey_size'])
        ca = plain(d.get('ca_key_type', ''), d.get('ca_key_size', 0))
        if ca is None: return None
        if t.startswith(('ssh-rsa-cert', 'rsa-sha2')): return P.rsa_cert_blob(d['hostkey_size'], ca)   # the key blob of every RSA certificate algorithm is an ssh-rsa-cert-v01 blob
        if t.startswith('ssh-ed25519-cert'): return P.ed25519_cert_blob(ca)
        if t.startswith('sk-ssh-ed25519-cert'): return P.sk_ed25519_cert_blob(ca)
        return None

    def do(z, case):
        name, pol = case[0], case[1]
        hk = {}
        keys = list(pol['host_keys']) + [t for t in (pol['optional_host_keys'] or []) if case[2]]   # variant: the optional (certificate) host keys are served too
        for t, d in (pol['hostkey_sizes'] or {}).items():
            if t in keys:
                b = blob_for(t, d)
                if b is not None: hk[t.encode()] = b
        dh = pol['dh_modulus_sizes'] or {}
        want = max(dh.values()) if dh else None
        srv = P.new_ssh2_server(dict(banner=b'SSH-2.0-OpenSSH_9.9', kex=list(pol['kex']), key=keys, enc=list(pol['ciphers']), mac=list(pol['macs']), hostkeys=hk,
                                     gex=(lambda a, b, c: want if a <= want <= c else None) if want else None))
        try:
            r = z.run(['-j', '--skip-rate-test', '-t', '2', '127.0.0.1:%d' % srv.port], timeout=120)
            r['served'] = sorted(k.decode() for k in hk)
            return r
        finally:
            srv.shutdown()
    with runner.Pool(8) as pool:
        outs = pool.map(do, cases)
    keys = set()
    for (name, pol, opt), r in zip(cases, outs):
        desc = {'op': 'policy-peer-audit', 'policy': name, 'optional_host_keys_served': opt}
        try:
            js = canon.load_json(r['out'])
        except canon.CanonError as e:
            ctx.violation('policy-peer/no-report', 'standard audit of the peer synthesised from %r: exit %r, %s' % (name, r['rc'], e), desc)
            continue
        measured = {k['algorithm'] for k in js.get('key', []) if 'keysize' in k or 'casize' in k} | {f.get('hostkey') for f in js.get('fingerprints', [])}
        for a in canon.json_algs(js):
            keys.add((a['cat'], a['name']))
            fails = [t for (l, t) in a['notes'] if l == 'fail']
            if fails:
                ctx.violation('policy-peer-shows-failure/%s/%s' % (a['cat'], a['name']), 'a peer configured exactly per built-in policy %r shows a failure in a standard audit: %s %r: %r' % (name, a['cat'], a['name'], fails), desc)
        from ssh_audit.hostkeytest import HostKeyTest
        for t in r['served']:
            if t in HostKeyTest.HOST_KEY_TYPES and t not in measured:   # a sanity check of the scripted peer: every probed type it serves was obtained
                ctx.violation('policy-peer/hostkey-not-measured/%s' % t, 'the audit of the peer synthesised from %r did not measure host key %r' % (name, t), desc)
        if r['rc'] == 3:
            ctx.violation('policy-peer-exit-failure', 'standard audit of the peer synthesised from %r exits 3' % name, desc)
    # the same clause when the policy peer is not the only target of the run: audited right after a weak peer (small RSA host key, small
    # group-exchange modulus, Terrapin-exposed ciphers) in one -T run, the peer configured per the policy still shows no failure
    import os, tempfile
    weak = dict(banner=b'SSH-2.0-OpenSSH_7.4', kex=['diffie-hellman-group-exchange-sha256', 'curve25519-sha256', 'diffie-hellman-group14-sha256'], key=['rsa-sha2-512', 'rsa-sha2-256', 'ssh-rsa', 'ssh-ed25519'],
                enc=['chacha20-poly1305@openssh.com', 'aes256-gcm@openssh.com', 'aes128-gcm@openssh.com', 'aes256-ctr', 'aes192-ctr', 'aes128-ctr', 'aes128-cbc'],
                mac=['hmac-sha2-256-etm@openssh.com', 'hmac-sha2-512-etm@openssh.com', 'umac-128-etm@openssh.com'],
                hostkeys={b'rsa-sha2-512': P.rsa_blob(1024), b'rsa-sha2-256': P.rsa_blob(1024), b'ssh-rsa': P.rsa_blob(1024), b'ssh-ed25519': P.ed25519_blob()}, gex=lambda a, b, c: 1024 if a <= 1024 <= c else None)
    mcases = [c for c in cases if not c[2]][:(2 if ctx.quick else 6)]

    def do_multi(z, case):
        name, pol = case[0], case[1]
        hk = {}
        for t, d in (pol['hostkey_sizes'] or {}).items():
            if t in pol['host_keys']:
                b = blob_for(t, d)
                if b is not None: hk[t.encode()] = b
        dh = pol['dh_modulus_sizes'] or {}
        want = max(dh.values()) if dh else None
        s1 = P.new_ssh2_server(dict(weak), stall_limit=3.0)
        s2 = P.new_ssh2_server(dict(banner=b'SSH-2.0-OpenSSH_9.9', kex=list(pol['kex']), key=list(pol['host_keys']), enc=list(pol['ciphers']), mac=list(pol['macs']), hostkeys=hk,
                                    gex=(lambda a, b, c: want if a <= want <= c else None) if want else None), stall_limit=3.0)
        fd, tf = tempfile.mkstemp(prefix='verif_c17_')
        try:
            os.write(fd, ('127.0.0.1:%d\n127.0.0.1:%d\n' % (s1.port, s2.port)).encode()); os.close(fd)
            r = z.run(['-j', '--skip-rate-test', '-t', '2', '--threads', '1', '-T', tf], timeout=180)
            r['port2'] = s2.port
            return r
        finally:
            s1.shutdown(); s2.shutdown(); os.unlink(tf)
    with runner.Pool(4) as pool:
        mouts = pool.map(do_multi, mcases)
    for case, r in zip(mcases, mouts):
        desc = {'op': 'policy-peer-audit-after-weak-target', 'policy': case[0]}
        try:
            el = [e for e in json.loads(r['out']) if e.get('target') == '127.0.0.1:%d' % r['port2']][0]
        except (ValueError, IndexError, TypeError, AttributeError) as e:
            ctx.violation('policy-peer/multi-no-report', '-T run over [weak peer, peer per %r]: exit %r, %s: %s' % (case[0], r['rc'], type(e).__name__, (r['out'] + r['err'])[-200:]), desc)
            continue
        for a in canon.json_algs(el):
            fails = [t for (l, t) in a['notes'] if l == 'fail']
            if fails:
                ctx.violation('policy-peer-shows-failure-after-weak-target/%s/%s' % (a['cat'], a['name']), 'audited after a weak peer in one run, the peer configured exactly per %r shows a failure: %s %r: %r' % (case[0], a['cat'], a['name'], fails), desc)
    ctx.evaluations += len(mcases)
    ctx.extra['policy_peer_audits'] = {'configurations': len(cases), 'distinct_algorithms_seen': len(keys)}
    ctx.evaluations += len(cases)


def broken_peer_audits(ctx):
    """The pattern rule on the ratings the tool SHOWS, not only on the table as imported: standard audits (real CLI over TCP, host-key and group-exchange
    probes answered with large and small keys / moduli) of servers that offer every database name matching a broken-primitive pattern.  The probes edit the
    per-scan copy of the table (size notes replace or extend the failure list); whatever they measure, an entry named after a broken primitive still shows a failure."""
    import canon
    import peers as P
    import runner
    from ssh_audit.ssh2_kexdb import SSH2_KexDB
    db = SSH2_KexDB.MASTER_DB
    broken = {c: [n for n in db[c] if not n.endswith('-*') and any(f(toks(n)) for f in PATS.values())] for c in ('kex', 'key', 'enc', 'mac')}
    cases = [(bits, banner, opt) for bits in (1024, 2048, 3072, 4096) for banner in (b'SSH-2.0-OpenSSH_8.0', b'SSH-2.0-dropbear_2020.81') for opt in (['-n'], ['-j'])]
    if ctx.quick:
        cases = [c for i, c in enumerate(cases) if i % 4 in (0, 3)]

    def do(z, case):
        bits, banner, opt = case
        hk = {b'ssh-rsa': P.rsa_blob(bits), b'rsa-sha2-256': P.rsa_blob(bits), b'ssh-ed25519': P.ed25519_blob()}
        srv = P.new_ssh2_server(dict(banner=banner, kex=broken['kex'] + ['curve25519-sha256'], key=broken['key'] + ['rsa-sha2-256', 'ssh-ed25519'], enc=broken['enc'] + ['aes256-ctr'],
                                     mac=broken['mac'] + ['hmac-sha2-256'], hostkeys=hk, gex=lambda a, b, c: bits if a <= bits <= c else None), stall_limit=3.0)
        try:
            return z.run(opt + ['--skip-rate-test', '-t', '2', '127.0.0.1:%d' % srv.port], timeout=180)
        finally:
            srv.shutdown()
    with runner.Pool(8) as pool:
        outs = pool.map(do, cases)
    seen = set()
    for (bits, banner, opt), r in zip(cases, outs):
        desc = {'op': 'broken-peer-audit', 'bits': bits, 'banner': banner.decode(), 'opts': opt}
        try:
            algs = canon.json_algs(canon.load_json(r['out'])) if opt == ['-j'] else canon.parse_text(r['out'])['algs']
        except canon.CanonError as e:
            ctx.violation('broken-peer/no-report', 'standard audit of a server offering the broken-primitive names: exit %r, %s' % (r['rc'], e), desc)
            continue
        shown = {(a['cat'], a['name'].split(' ')[0]): a for a in algs}
        for c in broken:
            for n in broken[c]:
                a = shown.get((c, n))
                if a is None:
                    ctx.violation('broken-peer/name-not-reported/%s/%s' % (c, n), 'the offered %s %r is missing from the report' % (c, n), desc)
                    continue
                seen.add((c, n))
                if not any(l == 'fail' for (l, t) in a['notes']):
                    ctx.violation('broken-shown-without-failure/%s/%s' % (c, n), 'after the probes (host keys and modulus of %d bits, banner %s) the %s %r, named after broken primitive(s) %s, is shown without a failure: %r' % (
                        bits, banner.decode(), c, n, sorted(k for k, f in PATS.items() if f(toks(n))), a['notes']), desc)
    ctx.extra['broken_peer_audits'] = {'audits': len(cases), 'distinct_broken_names_seen': len(seen)}
    ctx.evaluations += len(cases)


def ssh1_mask_audits(ctx):
    """The SSH-1 name tables and the SSH-1 rating table agree as the audit USES them: whatever bits a peer sets in its cipher and authentication masks,
    every name the report shows is one the SSH-1 rating table knows (no 'unknown algorithm'), in the text and in the JSON report."""
    import canon
    import peers as P
    import runner
    from ssh_audit.ssh1_kexdb import SSH1_KexDB
    db = SSH1_KexDB.MASTER_DB
    masks = [(0xffffffff, 0xffffffff), (0x7f, 0x7f), (0x01, 0x01), (0x7e, 0x3f)] + ([] if ctx.quick else [(1 << i, 1 << j) for i in range(8) for j in range(8)])
    cases = [(c, a, o) for (c, a) in masks for o in (['-n'], ['-j'])]

    def do(z, case):
        c, a, o = case
        srv = P.Server(P.Ssh1Server({'cmask': c, 'amask': a}))
        try:
            return z.run(o + ['-1', '--skip-rate-test', '-t', '2', '127.0.0.1:%d' % srv.port], timeout=60)
        finally:
            srv.shutdown()
    with runner.Pool(8) as pool:
        outs = pool.map(do, cases)
    for (c, a, o), r in zip(cases, outs):
        desc = {'op': 'ssh1-mask-audit', 'cmask': c, 'amask': a, 'opts': o}
        try:
            if o == ['-j']:
                d = canon.load_json(r['out'])
                names = [('enc', x) for x in (d.get('enc') or [])] + [('aut', x) for x in (d.get('aut') or [])]
                names = [(cat, x['algorithm'] if isinstance(x, dict) else x) for cat, x in names]
            else:
                names = [(al['cat'], al['name']) for al in canon.parse_text(r['out'])['algs'] if al['cat'] in ('enc', 'aut')]
        except (canon.CanonError, KeyError, TypeError) as e:
            ctx.violation('ssh1-mask-audit/no-report', 'SSH-1 audit with masks %#x / %#x: exit %r, %s' % (c, a, r['rc'], e), desc)
            continue
        for cat, n in names:
            if n not in db.get(cat, {}):
                ctx.violation('ssh1-table-name-unknown-to-rating-table/%s/%s' % (cat, n), 'the SSH-1 audit of a peer with masks %#x / %#x reports the %s %r, which the SSH-1 rating table does not know' % (c, a, cat, n), desc)
        if 'unknown algorithm' in canon.strip_ansi(r['out']):
            ctx.violation('ssh1-unknown-algorithm-shown', 'the SSH-1 audit of a peer with masks %#x / %#x shows an unknown algorithm: the name tables and the rating table disagree' % (c, a), desc)
    ctx.evaluations += len(cases)


def model_failures(ctx):
    """When a C17 theorem no longer builds: ask the model for its offender lists (the counter-examples)."""
    out = {}
    for name in ('policies_unknown', 'policies_failed', 'hostkey_table_unknown', 'dheat_tables_unknown', 'ssh1_tables_unknown',
                 'broken_without_failure ssh2_db', 'ssh1_broken_unlisted', 'badly_shaped ssh2_db', 'badly_shaped ssh1_db',
                 'duplicate_keys ssh2_db', 'duplicate_keys ssh1_db'):
        rc, txt = common.coq_eval('c17f', ['VModel:TablesSpec'], '', name)
        out[name] = txt[-800:] if rc == 0 else 'coqc failed: ' + txt[-300:]
    return out


def run(ctx):
    ok = ctx.proofs(['C17'])
    oracle(ctx)
    policy_peer_audits(ctx)
    broken_peer_audits(ctx)
    ssh1_mask_audits(ctx)
    if not ok:
        ctx.extra['model_offender_lists'] = model_failures(ctx)
        for b in ctx.broken:
            if b['kind'] == 'proof':
                b['detail'] += ' || model offender lists: ' + str({k: v for k, v in ctx.extra['model_offender_lists'].items() if '[]' not in v[:12]})[:1200]
