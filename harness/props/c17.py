"""C17 - the tool's knowledge tables agree with each other (T1 + finite kernel-evaluated theorems)."""
import re

import common


def toks(n):
    return [t for t in re.split(r'[-@._]', n) if t]


PATS = {
    'md5': lambda ts: 'md5' in ts,
    'sha1': lambda ts: 'sha1' in ts,
    'rc4/arcfour': lambda ts: any(t.startswith('arcfour') or t == 'rc4' for t in ts),
    'des/3des': lambda ts: any(t in ('des', '3des') for t in ts),
    'none': lambda ts: ts == ['none'],
    'dss/dsa': lambda ts: any(t in ('dss', 'dsa') for t in ts),
    'group1': lambda ts: 'group1' in ts,
    '1024-bit': lambda ts: any(t.endswith('1024') for t in ts),
    'nist curves': lambda ts: any(t.startswith(p) for t in ts for p in ('nistp', 'nistk', 'nistb', 'nistt')),
    'blowfish': lambda ts: any(t.startswith('blowfish') for t in ts),
    'cast': lambda ts: any(t.startswith('cast') for t in ts),
    'idea': lambda ts: 'idea' in ts,
    'rijndael': lambda ts: any(t.startswith('rijndael') for t in ts),
    'seed': lambda ts: 'seed' in ts,
    'serpent': lambda ts: any(t.startswith('serpent') for t in ts),
    'ripemd': lambda ts: any(t.startswith('ripemd') for t in ts),
    'gost': lambda ts: any(t.startswith('gost') for t in ts),
}

VERSION_TOKEN = re.compile(r'^(d|l1)?(\d+(\.\d+)*)?C?$')


def has_fail(d):
    return len(d) > 1 and len([x for x in d[1] if x is not None]) > 0


def oracle(ctx):
    """The property statement evaluated directly on the imported tables (independent of the Coq model)."""
    from ssh_audit.ssh2_kexdb import SSH2_KexDB as K2
    from ssh_audit.ssh1_kexdb import SSH1_KexDB as K1
    from ssh_audit.builtin_policies import BUILTIN_POLICIES as BP
    from ssh_audit.hostkeytest import HostKeyTest as H
    from ssh_audit.dheat import DHEat as D
    from ssh_audit.ssh1 import SSH1
    db2, db1 = K2.MASTER_DB, K1.MASTER_DB
    n = 0
    nontrivial = set()
    samples = []
    # cross references
    refs = []
    for pn, p in BP.items():
        for f, c in (('host_keys', 'key'), ('optional_host_keys', 'key'), ('kex', 'kex'), ('ciphers', 'enc'), ('macs', 'mac')):
            for a in p.get(f) or []:
                refs.append(('policy %s field %s' % (pn, f), c, a, True))
        for a in (p.get('hostkey_sizes') or {}):
            refs.append(('policy %s hostkey_sizes' % pn, 'key', a, True))
        for a in (p.get('dh_modulus_sizes') or {}):
            refs.append(('policy %s dh_modulus_sizes' % pn, 'kex', a, True))
    for a in list(H.HOST_KEY_TYPES) + list(H.RSA_FAMILY):
        refs.append(('host-key probe table', 'key', a, False))
    for a in list(D.gex_algs) + list(D.alg_priority) + list(D.alg_modulus_sizes) + list(D.tested_algs):
        refs.append(('DHEat tables', 'kex', a, False))
    for where, c, a, nofail in refs:
        n += 1
        nontrivial.add(('ref', where.split(' ')[0], c, a))
        if a not in db2.get(c, {}):
            ctx.violation('unknown-ref/%s/%s' % (c, a), '%s names %s algorithm %r which the rating database does not know' % (where, c, a),
                          {'table': where, 'category': c, 'name': a})
        elif nofail and has_fail(db2[c][a]):
            ctx.violation('policy-failed-alg/%s/%s' % (c, a), '%s requires/permits %s algorithm %r which the database rates as a failure: %r' % (where, c, a, db2[c][a][1]),
                          {'table': where, 'category': c, 'name': a, 'failures': db2[c][a][1]})
    samples.append({'kind': 'cross-reference', 'from': refs[0][0], 'category': refs[0][1], 'name': refs[0][2]})
    for i, a in enumerate(SSH1.CIPHERS):
        n += 1
        if a not in db1['enc']:
            ctx.violation('unknown-ref/ssh1-enc/%s' % a, 'SSH1.CIPHERS names %r unknown to the SSH-1 database' % a, {'name': a})
    for a in SSH1.AUTHS[1:]:
        n += 1
        if a not in db1['aut']:
            ctx.violation('unknown-ref/ssh1-aut/%s' % a, 'SSH1.AUTHS names %r unknown to the SSH-1 database' % a, {'name': a})
    # broken primitives and shape
    for dbn, db in (('ssh2', db2), ('ssh1', db1)):
        for c, ents in db.items():
            for a, d in ents.items():
                n += 1
                ms = [p for p, f in PATS.items() if f(toks(a))]
                if ms:
                    nontrivial.add(('broken', dbn, c, a))
                    if not has_fail(d):
                        ctx.violation('%s-%s-no-failure' % (dbn, a) if dbn == 'ssh1' else 'broken-no-failure/%s/%s/%s' % (dbn, c, a),
                                      '%s database entry %s/%r contains broken primitive(s) %s but carries no failure' % (dbn, c, a, ms),
                                      {'db': dbn, 'category': c, 'name': a, 'patterns': ms, 'entry': d})
                ok = isinstance(d, list) and 1 <= len(d) <= 4 and all(isinstance(x, list) for x in d) and len(d[0]) <= 3 \
                    and all(v is None or (isinstance(v, str) and all(VERSION_TOKEN.match(t) for t in v.split(','))) for v in d[0]) \
                    and all(isinstance(x, str) for comp in d[1:] for x in comp)
                if not ok:
                    ctx.violation('shape/%s/%s/%s' % (dbn, c, a), '%s database entry %s/%r does not have the documented shape: %r' % (dbn, c, a, d),
                                  {'db': dbn, 'category': c, 'name': a, 'entry': d})
    samples.append({'kind': 'entry', 'db': 'ssh2', 'category': 'mac', 'name': 'hmac-sha1', 'entry': db2['mac'].get('hmac-sha1')})
    ctx.cover(n, nontrivial, samples, 'exhaustive over the imported tables: every cross-reference of every built-in policy / probe table / DHEat table, every database entry (pattern rule + shape rule); non-trivial = a cross-reference or an entry matching a broken-primitive pattern')
    ctx.exhaustive = True


def model_failures(ctx):
    """When a C17 theorem no longer builds: ask the model for its offender lists (the counter-examples)."""
    out = {}
    for name in ('policies_unknown', 'policies_failed', 'hostkey_table_unknown', 'dheat_tables_unknown', 'ssh1_tables_unknown',
                 'broken_without_failure ssh2_db', 'ssh1_broken_unlisted', 'badly_shaped ssh2_db', 'badly_shaped ssh1_db',
                 'duplicate_keys ssh2_db', 'duplicate_keys ssh1_db'):
        rc, txt = common.coq_eval('c17f', ['VModel:TablesSpec'], '', name)
        out[name] = txt[-800:] if rc == 0 else 'coqc failed: ' + txt[-300:]
    return out


def run(ctx):
    ok = ctx.proofs(['C17'])
    oracle(ctx)
    if not ok:
        ctx.extra['model_offender_lists'] = model_failures(ctx)
        for b in ctx.broken:
            if b['kind'] == 'proof':
                b['detail'] += ' || model offender lists: ' + str({k: v for k, v in ctx.extra['model_offender_lists'].items() if '[]' not in v[:12]})[:1200]
