"""C13 - recommendations are consistent with the ratings shown."""
import re

import canon
import inproc
from props import reportfam


def numeric_ge(a, b):
    """Independent availability rule from the property text: component-wise numeric >=, proper prefix is older."""
    ta, tb = [int(x) for x in a.split('.')], [int(x) for x in b.split('.')]
    return ta >= tb


def identified(banner):
    """(product prefix used in the table, version) for the recognised products, written from the documentation."""
    if banner is None: return None
    m = re.match(r'^SSH-[\d.]+-OpenSSH[_.-]+(\d+(?:\.\d+)*)', banner)
    if m: return ('', m.group(1))
    m = re.match(r'^SSH-[\d.]+-dropbear_(\d+(?:\.\d+)*)', banner)
    if m: return ('d', m.group(1))
    m = re.match(r'^SSH-[\d.]+-libssh[-_](\d+(?:\.\d+)*)', banner)
    if m: return ('l1', m.group(1))
    return None


def run(ctx):
    ctx.proofs(['C13'])
    q = ctx.quick
    rng = ctx.rng
    g = inproc.Gen(rng)
    db = inproc.tables()
    # banners of every recognised product at versions just below / at / above first-appeared versions of the table
    vers = {'': set(), 'd': set(), 'l1': set()}
    for cat, ents in db.items():
        for n, d in ents.items():
            if d[0] and d[0][0]:
                for v in d[0][0].split(','):
                    v = v.rstrip('C')
                    pre = 'd' if v.startswith('d') else 'l1' if v.startswith('l1') else ''
                    v = v[len(pre):]
                    if re.match(r'^\d+(\.\d+)*$', v): vers[pre].add(v)

    def around(v):
        t = [int(x) for x in v.split('.')]
        lo = list(t); lo[-1] = max(0, lo[-1] - 1)
        hi = list(t); hi[-1] += 1
        return ['.'.join(map(str, x)) for x in (lo, t, hi)]
    banners = []
    for pre, fmt in (('', 'SSH-2.0-OpenSSH_%s'), ('d', 'SSH-2.0-dropbear_%s'), ('l1', 'SSH-2.0-libssh_%s')):
        for v in sorted(vers[pre]):
            banners += [fmt % x for x in around(v)]
    banners += ['SSH-2.0-OpenSSH_10.0', 'SSH-2.0-OpenSSH_10.1p1', 'SSH-2.0-libssh_0.10.6', 'SSH-2.0-libssh_0.11.0', 'SSH-2.0-tinyssh_20230101', 'SSH-2.0-PuTTY_Release_0.80',
                'SSH-2.0-Cisco-1.25', 'SSH-2.0-Unknown_1.0', 'SSH-2.0-OpenSSH_7.4p1 Debian-10+deb9u7']
    banners = sorted(set(banners))
    if q: banners = rng.sample(banners, min(120, len(banners)))
    peers = []
    for b in banners:
        p = g.peer()
        p['banner'] = b
        peers.append(p)
    peers += [g.peer() for _ in range(80 if q else 3000)]
    # "settled" peers: lists to which the tool's own add/remove advice has been applied until none is left, while one measured attribute
    # (small RSA host key, small group-exchange modulus) keeps a warning or failure: the only recommendation of that category is a change
    def settle(p, keep):
        for _ in range(8):
            rr = canon.parse_recs(canon.parse_text(inproc.run_output(p)['text']))
            moved = False
            for (lvl, act, cat, name, notes) in rr:
                if act == 'add' and name not in p[cat]:
                    p[cat].append(name); moved = True
                elif act == 'del' and name in p[cat] and name not in keep and len(p[cat]) > 1:
                    p[cat].remove(name); moved = True
            if not moved:
                break
        return p
    for ban in (['SSH-2.0-OpenSSH_8.4', 'SSH-2.0-OpenSSH_9.6'] if q else ['SSH-2.0-OpenSSH_7.4', 'SSH-2.0-OpenSSH_8.4', 'SSH-2.0-OpenSSH_9.6', 'SSH-2.0-dropbear_2022.83', 'SSH-2.0-libssh_0.9.6']):
        for size in (1024, 2048, 4096):
            base = lambda: dict(banner=ban, client_audit=False, comp=['none'], kex=['curve25519-sha256'], enc=['aes256-ctr'], mac=['hmac-sha2-512-etm@openssh.com'])
            a = dict(base(), key=['rsa-sha2-512', 'rsa-sha2-256', 'ssh-ed25519'], dh={},
                     hostkeys={t: (b'blob', size, '', 0) for t in ('ssh-rsa', 'rsa-sha2-256', 'rsa-sha2-512')})
            peers.append(settle(a, ('rsa-sha2-512', 'rsa-sha2-256')))
            b = dict(base(), kex=['curve25519-sha256', 'diffie-hellman-group-exchange-sha256'], key=['ssh-ed25519'], hostkeys={}, dh={'diffie-hellman-group-exchange-sha256': size})
            peers.append(settle(b, ('diffie-hellman-group-exchange-sha256',)))
    recs = reportfam.standard(ctx, 0, peers=peers, parts=('recs', 'items', 'json'))
    recs += reportfam.cli_records(ctx, rng.sample(peers, min(len(peers), 16 if q else 300)), parts=('recs', 'items', 'json'))   # end to end, both roles
    nontriv = set()
    for r in recs:
        p = r['peer']
        algs = {(a['cat'], a['name']): a for a in r['ptext']['algs']}
        trecs = canon.parse_recs(r['ptext'])
        jrecs = canon.json_recs(r['pjson'])
        if sorted((a, c, n, x) for (_, a, c, n, x) in trecs) != sorted((a, c, n, x) for (_, a, c, n, x) in jrecs):
            ctx.violation('rec-text-json-differ', 'text and JSON recommendations differ', {'op': 'output', 'peer': reportfam.jsonable_peer(p)})
        idn = identified(p['banner'])
        pj = reportfam.jsonable_peer(p)
        seen = {}
        nontriv.add((p['banner'] or '').split('_')[0][:24] + '/' + str(len(trecs) > 0))
        adv = {'kex': p['kex'], 'key': p['key'], 'enc': p['enc'], 'mac': p['mac']}
        for (lvl, act, cat, name, notes) in jrecs:
            if (cat, name) in seen and seen[(cat, name)] != act and 'add' in (act, seen[(cat, name)]):
                ctx.violation('rec-both-ways', '%s %r is recommended both for addition and removal' % (cat, name), {'op': 'output', 'peer': pj})
            seen[(cat, name)] = act
            d = db[cat].get(name)
            if act in ('del', 'chg'):
                a = algs.get((cat, name))
                sev = {l for (l, t) in a['notes']} if a else set()
                if name not in adv[cat] or not (sev & {'fail', 'warn'}):
                    ctx.violation('rec-del-unsound', '%s %r recommended for %s but it is %s' % (cat, name, act, 'not advertised' if name not in adv[cat] else 'not rated fail/warn'), {'op': 'output', 'peer': pj})
                if (lvl == 'critical') != ('fail' in sev):
                    ctx.violation('rec-level', '%s %r: recommendation level %s but failure present: %r' % (cat, name, lvl, 'fail' in sev), {'op': 'output', 'peer': pj})
            else:
                bad = []
                if name in adv[cat]: bad.append('advertised')
                if d is None: bad.append('not in database')
                elif (len(d) > 1 and d[1]) or (len(d) > 2 and d[2]): bad.append('carries failure/warning')
                if cat == 'key' and ('-cert-' in name or name.startswith('sk-')): bad.append('certificate/security-key type')
                if cat == 'kex' and (name.startswith('ext-info-') or name.startswith('kex-strict-')): bad.append('pseudo algorithm')
                if idn is None and not (p['banner'] or '').startswith('SSH-2.0-tinyssh'): bad.append('software not recognised')
                if idn is not None and d is not None:
                    toks = [v for v in (d[0][0] or '').split(',')] if d[0] and d[0][0] else []
                    ok = False
                    for v in toks:
                        if v.endswith('C'): continue
                        pre = 'd' if v.startswith('d') else 'l1' if v.startswith('l1') else ''
                        vv = v[len(pre):]
                        if pre == idn[0] and re.match(r'^\d+(\.\d+)*$', vv) and numeric_ge(idn[1], vv): ok = True
                    if not ok: bad.append('not available in %s%s per the database' % idn)
                if bad:
                    ctx.violation('rec-add-unsound/' + bad[0].split(' ')[0], '%s %r recommended for addition although: %s (banner %r)' % (cat, name, ', '.join(bad), p['banner']), {'op': 'output', 'peer': pj})
        # completeness: every advertised fail/warn algorithm the database knows (in this version) is recommended for removal/change unless suppressed
        if idn is not None and 'enc_c' not in p:   # asymmetric directions are explored, not judged (DESIGN C01)
            supp_note = 'regardless of server configuration'
            for (cat, name), a in algs.items():
                sev = {l for (l, t) in a['notes']}
                if not (sev & {'fail', 'warn'}): continue
                d = db[cat].get(name)
                if d is None:
                    if cat == 'kex' and name.startswith('gss-') and any(l in ('fail', 'warn') and t != 'unknown algorithm' for (l, t) in a['notes']):
                        if (cat, name) not in seen:
                            ctx.violation('gss-not-recommended-for-removal', 'gss key exchange %r is rated %s but never recommended for removal' % (name, sorted(sev)), {'op': 'output', 'peer': pj})
                    continue
                toks = (d[0][0] or '').split(',') if d[0] and d[0][0] else None
                known = True
                if toks is not None:
                    known = False
                    for v in toks:
                        if v.endswith('C'): continue
                        pre = 'd' if v.startswith('d') else 'l1' if v.startswith('l1') else ''
                        vv = v[len(pre):]
                        if pre == idn[0] and re.match(r'^\d+(\.\d+)*$', vv) and numeric_ge(idn[1], vv): known = True
                outside = any(supp_note in t for (l, t) in a['notes'])
                if known and not outside and (cat, name) not in seen:
                    ctx.violation('rec-del-incomplete', '%s %r is rated %s and known in this version but not recommended for removal/change' % (cat, name, sorted(sev & {'fail', 'warn'})), {'op': 'output', 'peer': pj})
    ctx.cover(len(recs), nontriv, [reportfam.jsonable_peer(recs[0]['peer'])],
              'in-process output() text+JSON for generated peers x banners of every recognised product at versions just below/at/above every first-appeared version of the table (+10.x, 0.10.x, unrecognised products); non-trivial = distinct (product prefix, any recommendation)')
