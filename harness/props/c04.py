"""C04 - Terrapin exposure is flagged exactly per the published rule (exhaustive context grid x names)."""
import itertools

import canon
import inproc
from props import reportfam

TW = 'vulnerable to the Terrapin attack'


def is_chacha(n): return n.startswith('chacha20-poly1305')
def is_cbc(n): return n.endswith('-cbc') or n.endswith('-cbc@openssh.org') or n.endswith('-cbc@ssh.com') or n == 'rijndael-cbc@lysator.liu.se' or ('cbc' in n.lower() and n in CBC_BY_NAME)
CBC_BY_NAME = ('des-cbc-ssh1',)   # database names that are CBC ciphers without ending in one of the suffixes (every 'cbc' name of the table is covered: see run())
def is_etm(n): return n.endswith('-etm@openssh.com')


def expected_marked(peer):
    """The published rule, written from the property statement."""
    ca = bool(peer.get('client_audit'))
    marker = ('kex-strict-c-v00@openssh.com' if ca else 'kex-strict-s-v00@openssh.com') in peer['kex']
    ciphers = peer.get('enc_c', peer['enc']) if ca else peer['enc']
    macs = peer.get('mac_c', peer['mac']) if ca else peer['mac']
    cbc = [c for c in ciphers if is_cbc(c)]
    etm = [m for m in macs if is_etm(m)]
    enc = {c for c in ciphers if is_chacha(c)} | (set(cbc) if cbc and etm else set())
    mac = set(etm) if cbc and etm else set()
    return marker, enc, mac


def run(ctx):
    ctx.proofs(['C04'])
    q = ctx.quick
    rng = ctx.rng
    g = inproc.Gen(rng)
    db = inproc.tables()
    # the rule of the statement speaks of CBC-mode ciphers and ETM MACs, not of name suffixes: every table name that says cbc / etm / chacha must be covered
    for n in db['enc']:
        if ('cbc' in n.lower() and not is_cbc(n)) or ('chacha' in n.lower() and not is_chacha(n)):
            ctx.violation('terrapin-name-not-covered/enc/%s' % n, 'database cipher %r is a CBC/ChaCha20 cipher by name but the rule does not cover it' % n, {'op': 'table', 'name': n})
    for n in db['mac']:
        if 'etm' in n.lower() and not is_etm(n):
            ctx.violation('terrapin-name-not-covered/mac/%s' % n, 'database MAC %r is an encrypt-then-MAC MAC by name but the rule does not cover it' % n, {'op': 'table', 'name': n})
    chachas = [n for n in db['enc'] if is_chacha(n)] + ['chacha20-poly1305-zz@example.com']
    cbcs = [n for n in db['enc'] if is_cbc(n)] + ['zz-cbc', 'zz-cbc@ssh.com']
    etms = [n for n in db['mac'] if is_etm(n)] + ['zz-etm@openssh.com']
    plain_enc = ['aes128-ctr', 'aes256-gcm@openssh.com']
    plain_mac = ['hmac-sha2-256', 'umac-128@openssh.com']
    peers = []
    reps = 2 if q else 12
    for role, marker, ch, cb, et in itertools.product([False, True], ['own', 'other', 'none'], [False, True], [False, True], [False, True]):
        for _ in range(reps):
            own, other = ('kex-strict-c-v00@openssh.com', 'kex-strict-s-v00@openssh.com') if role else ('kex-strict-s-v00@openssh.com', 'kex-strict-c-v00@openssh.com')
            kex = ['curve25519-sha256'] + ([own] if marker == 'own' else [other] if marker == 'other' else [])
            enc = list(plain_enc) + ([rng.choice(chachas)] if ch else []) + (rng.sample(cbcs, rng.randint(1, 3)) if cb else [])
            mac = list(plain_mac) + (rng.sample(etms, rng.randint(1, 2)) if et else [])
            rng.shuffle(enc); rng.shuffle(mac)
            p = {'banner': rng.choice(['SSH-2.0-OpenSSH_9.6', 'SSH-2.0-dropbear_2022.83', None]), 'kex': kex, 'key': ['ssh-ed25519'], 'enc': enc, 'mac': mac, 'client_audit': role}
            if role and rng.random() < 0.5:   # client audits look at the client-to-server lists
                p['enc_c'], p['mac_c'] = list(enc), list(mac)
                p['enc'], p['mac'] = list(plain_enc), list(plain_mac)
            peers.append(p)
    if not q:  # every matching database name at least once in a vulnerable context
        for n in chachas + cbcs:
            peers.append({'banner': 'SSH-2.0-OpenSSH_9.6', 'kex': ['curve25519-sha256'], 'key': ['ssh-ed25519'], 'enc': [n, 'aes128-ctr'], 'mac': ['hmac-sha2-256-etm@openssh.com'], 'client_audit': False})
        for n in etms:
            peers.append({'banner': 'SSH-2.0-OpenSSH_9.6', 'kex': ['curve25519-sha256'], 'key': ['ssh-ed25519'], 'enc': ['aes128-cbc'], 'mac': [n], 'client_audit': False})
    peers += [g.peer() for _ in range(60 if q else 1500)]
    # look-alikes: a name that differs from the marker / a ChaCha20 / CBC / ETM name only by a control character is a different name (no implementation
    # negotiates it as the marker or as that cipher); the rule applies to the names as sent
    lookalikes = []
    for role in (False, True):
        own = 'kex-strict-c-v00@openssh.com' if role else 'kex-strict-s-v00@openssh.com'
        for ctl in ('\x7f', '\x07') if q else ('\x7f', '\x07', '\x00', '\x1b', '\x1f'):
            lookalikes.append({'banner': 'SSH-2.0-OpenSSH_9.6', 'kex': ['curve25519-sha256', own + ctl], 'key': ['ssh-ed25519'], 'enc': ['chacha20-poly1305@openssh.com', 'aes128-ctr'], 'mac': ['hmac-sha2-256'], 'client_audit': role})
            lookalikes.append({'banner': 'SSH-2.0-OpenSSH_9.6', 'kex': ['curve25519-sha256'], 'key': ['ssh-ed25519'], 'enc': ['aes128-cbc' + ctl, 'aes128-ctr'], 'mac': ['hmac-sha2-256-etm@openssh.com'], 'client_audit': role})
            lookalikes.append({'banner': 'SSH-2.0-OpenSSH_9.6', 'kex': ['curve25519-sha256'], 'key': ['ssh-ed25519'], 'enc': ['aes128-cbc', 'aes128-ctr'], 'mac': ['hmac-sha2-256-etm@openssh.com' + ctl, 'hmac-sha2-256'], 'client_audit': role})
    peers += lookalikes
    recs = reportfam.standard(ctx, 0, peers=peers)
    # the same rule end to end: real command line over TCP, server audits and -c client audits (the role decides which marker and which direction counts)
    recs += reportfam.cli_records(ctx, rng.sample(peers, min(len(peers), 16 if q else 300)) + lookalikes)
    nontriv = set()
    for r in recs:
        p = r['peer']
        marker, enc_m, mac_m = expected_marked(p)
        ca = bool(p.get('client_audit'))
        nontriv.add((ca, marker, bool(enc_m), bool(mac_m), any(is_chacha(c) for c in enc_m)))
        for view, algs in (('text', r['ptext']['algs']), ('json', canon.json_algs(r['pjson']))):
            for a in algs:
                carries = any(TW in t for (l, t) in a['notes'] if l == 'warn')
                # the report shows the server-to-client lists; in a client audit the marked lists are client-to-server
                listed = (a['cat'] == 'enc' and a['name'] in enc_m) or (a['cat'] == 'mac' and a['name'] in mac_m)
                known = a['name'] in db.get(a['cat'], {})
                want = listed and not marker
                if carries and not want:
                    ctx.violation('terrapin-extra-mark/%s' % a['cat'], '%s view: %s %r carries the Terrapin warning but the rule does not mark it (marker=%r)' % (view, a['cat'], a['name'], marker),
                                  {'op': 'output', 'peer': reportfam.jsonable_peer(p)})
                if want and not carries:
                    if not known:
                        ctx.violation('terrapin-unknown-name-not-marked', '%s view: unknown %s name %r of vulnerable shape does not carry the Terrapin warning' % (view, a['cat'], a['name']),
                                      {'op': 'output', 'peer': reportfam.jsonable_peer(p)})
                    else:
                        ctx.violation('terrapin-missing-mark/%s' % a['cat'], '%s view: %s %r should carry the Terrapin warning (no marker) but does not' % (view, a['cat'], a['name']),
                                      {'op': 'output', 'peer': reportfam.jsonable_peer(p)})
        # advisory note
        notes = [b for (c, b) in r['ptext']['nfo'] if 'strict key exchange method' in b]
        jnotes = [b for b in r['pjson'].get('additional_notes', []) if 'strict key exchange method' in b]
        want_names = ([c for c in (p.get('enc_c', p['enc']) if ca else p['enc']) if is_chacha(c)] + [c for c in (p.get('enc_c', p['enc']) if ca else p['enc']) if is_cbc(c) and c in enc_m]
                      + [m for m in (p.get('mac_c', p['mac']) if ca else p['mac']) if m in mac_m]) if marker else []
        for src, nn in (('text', notes), ('json', jnotes)):
            if marker and want_names:
                ok = len(nn) == 1 and ('with this target: ' + ', '.join(want_names) + '.  If any CBC') in nn[0]
            else:
                ok = len(nn) == 0
            if not ok:
                ctx.violation('terrapin-advisory', '%s view: advisory note %r, expected to name exactly %r (marker=%r)' % (src, nn, want_names, marker), {'op': 'output', 'peer': reportfam.jsonable_peer(p)})
        # disabled ciphers/MACs are never recommended for addition
        for rec in canon.parse_recs(r['ptext']) + canon.json_recs(r['pjson']):
            lvl, act, cat, name, _ = rec
            ciphers = p.get('enc_c', p['enc']) if ca else p['enc']
            macs = p.get('mac_c', p['mac']) if ca else p['mac']
            if act == 'add' and ((cat == 'enc' and (is_chacha(name) or is_cbc(name)) and name not in ciphers) or (cat == 'mac' and is_etm(name) and name not in macs)):
                ctx.violation('terrapin-disabled-recommended', 'not-enabled %s %r is recommended for addition' % (cat, name), {'op': 'output', 'peer': reportfam.jsonable_peer(p)})
    ctx.cover(len(recs), nontriv, [reportfam.jsonable_peer(recs[0]['peer'])],
              'exhaustive grid role x marker(own/other/none) x chacha x cbc x etm instantiated with database names and unknown names of the same shape (thorough: every matching database name), plus random peers; in-process output() text+JSON; non-trivial = distinct (role, marker, enc marked, mac marked, chacha)')
    ctx.exhaustive = True
