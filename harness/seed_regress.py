#!/venv/bin/python
"""Regression over the kept seeded changes WITHOUT touching /repo: every patch is applied to a scratch copy of the repository
(first argument, or $VP_RUN_REPO: the snapshot `vp run --with-repo` provides), the property's own check is run against that copy
(VERIF_REPO), and the copy is restored.  Prints one line per seed and a summary; exit 1 when a seed is no longer caught.
usage: seed_regress.py <scratch-repo> [seed-id ...]
Meant for `vp run --with-repo -- bash -c 'bin/setup >/dev/null 2>&1; harness/seed_regress.py'` (own snapshot of /verif, own build)."""
import json
import os
import subprocess
import sys
import time

V = os.path.dirname(os.path.dirname(os.path.abspath(__file__)))
args = sys.argv[1:]
wt = os.environ.get('VP_RUN_REPO')
if args and os.path.isdir(args[0]):
    wt, args = args[0], args[1:]
assert wt and os.path.isdir(wt) and os.path.realpath(wt) != '/repo', 'need a scratch copy of the repository'
ids = args or sorted(d for d in os.listdir(os.path.join(V, 'seeded')) if os.path.isdir(os.path.join(V, 'seeded', d)))


def sh(cmd, cwd=None, env=None, timeout=3000):
    e = dict(os.environ)
    e.update(env or {})
    p = subprocess.run(cmd, shell=True, cwd=cwd, env=e, capture_output=True, text=True, timeout=timeout)
    return p.returncode, p.stdout + p.stderr


missed, noapply = [], []
for sid in ids:
    d = os.path.join(V, 'seeded', sid)
    meta = json.load(open(os.path.join(d, 'meta.json')))
    prop = meta['property']
    rc, o = sh('git apply %s' % os.path.join(d, 'patch.diff'), cwd=wt)
    if rc != 0:
        noapply.append(sid)
        print(sid, 'PATCH DOES NOT APPLY', o[-200:], flush=True)
        continue
    t0 = time.time()
    try:
        rc, o = sh('bin/check %s --tier quick' % prop, cwd=V, env={'VERIF_REPO': wt})
    finally:
        rr, ro = sh('git apply -R %s' % os.path.join(d, 'patch.diff'), cwd=wt)
        assert rr == 0, 'cannot restore the scratch copy: ' + ro
    lines = [l[:160] for l in o.split('\n') if l.startswith('VIOLATION')][:2]
    print(sid, prop, 'exit', rc, '%.0fs' % (time.time() - t0), lines, flush=True)
    if rc != 1:
        missed.append(sid)
print('SUMMARY seeds', len(ids), 'missed', missed, 'noapply', noapply)
sys.exit(1 if missed or noapply else 0)
