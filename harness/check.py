import argparse
import importlib
import os
import sys
import traceback

HERE = os.path.dirname(os.path.abspath(__file__))
sys.path.insert(0, HERE)
import common  # noqa: E402
sys.set_int_max_str_digits(0)


def main():
    ap = argparse.ArgumentParser()
    ap.add_argument('prop')
    ap.add_argument('--tier', default=None, choices=['quick', 'thorough'])
    ap.add_argument('--replay', default=None)
    a = ap.parse_args()
    tier = a.tier or os.environ.get('VERIF_TIER') or 'quick'
    if tier not in ('quick', 'thorough'):
        tier = 'quick'
    try:
        seed = int(os.environ.get('VERIF_SEED', '1'))
    except ValueError:
        seed = 1
    mod = importlib.import_module('props.' + a.prop.lower())
    ctx = common.Ctx(a.prop, tier, seed)
    ctx.replay = a.replay
    try:
        mod.run(ctx)
    except common.CheckError as e:
        ctx.broken.append({'kind': 'correspondence', 'name': 'harness', 'detail': str(e)[-1500:]})
    except Exception:
        ctx.broken.append({'kind': 'correspondence', 'name': 'harness-exception', 'detail': traceback.format_exc()[-2000:]})
    sys.exit(ctx.finish())


if __name__ == '__main__':
    main()
