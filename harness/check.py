import argparse
import importlib
import os
import sys
import traceback

HERE = os.path.dirname(os.path.abspath(__file__))
sys.path.insert(0, HERE)
import common  # noqa: E402
sys.set_int_max_str_digits(0)


def main():
    ap = argparse.ArgumentParser()
    ap.add_argument('prop')
    ap.add_argument('--tier', default=None, choices=['quick', 'thorough'])
    ap.add_argument('--replay', default=None)
    a = ap.parse_args()
    tier = a.tier or os.environ.get('VERIF_TIER') or 'quick'
    if tier not in ('quick', 'thorough'):
        tier = 'quick'
    try:
        seed = int(os.environ.get('VERIF_SEED', '1'))
    except ValueError:
        seed = 1
    mod = importlib.import_module('props.' + a.prop.lower())

    def one_run():
        ctx = common.Ctx(a.prop, tier, seed)
        ctx.replay = a.replay
        try:
            mod.run(ctx)
        except common.CheckError as e:
            ctx.broken.append({'kind': 'correspondence', 'name': 'harness', 'detail': str(e)[-1500:]})
        except Exception:
            ctx.broken.append({'kind': 'correspondence', 'name': 'harness-exception', 'detail': traceback.format_exc()[-2000:]})
        return ctx
    ctx = one_run()
    # Every case is generated from the seed, so a real violation shows again when the check is run again.  What the real command line
    # does over TCP on a loaded machine (a probe timing out, a build step hit by another process) does not.  An alarm is therefore only
    # raised for what a second, identical run shows as well; what did not repeat is recorded in the evidence, not reported.
    alarms = [v for v in ctx.violations if common.known_status(a.prop, v['key']) != 'known']
    if (alarms or ctx.broken) and os.environ.get('VERIF_NO_CONFIRM') != '1':
        ctx2 = one_run()
        keys2 = {v['key'] for v in ctx2.violations}
        broken2 = {(b['kind'], b['name']) for b in ctx2.broken}
        dropped = sorted({v['key'] for v in alarms if v['key'] not in keys2}) + sorted({'%s:%s' % (b['kind'], b['name']) for b in ctx.broken if (b['kind'], b['name']) not in broken2})
        ctx.violations = [v for v in ctx.violations if v['key'] in keys2 or common.known_status(a.prop, v['key']) == 'known']
        ctx.broken = [b for b in ctx.broken if (b['kind'], b['name']) in broken2]
        if dropped:
            ctx.notes.append('not reproduced by the confirmation run (same seed), not reported: %s' % ', '.join(dropped)[:1500])
            print('  not reproduced by the confirmation run, not reported: %s' % ', '.join(dropped)[:400])
    sys.exit(ctx.finish())


if __name__ == '__main__':
    main()
