import argparse
import importlib
import os
import sys
import traceback

HERE = os.path.dirname(os.path.abspath(__file__))
sys.path.insert(0, HERE)
import common  # noqa: E402
sys.set_int_max_str_digits(0)


def main():
    ap = argparse.ArgumentParser()
    ap.add_argument('prop')
    ap.add_argument('--tier', default=None, choices=['quick', 'thorough'])
    ap.add_argument('--replay', default=None)
    a = ap.parse_args()
    tier = a.tier or os.environ.get('VERIF_TIER') or 'quick'
    if tier not in ('quick', 'thorough'):
        tier = 'quick'
    try:
        seed = int(os.environ.get('VERIF_SEED', '1'))
    except ValueError:
        seed = 1
    mod = importlib.import_module('props.' + a.prop.lower())

    def one_run():
        ctx = common.Ctx(a.prop, tier, seed)
        ctx.replay = a.replay
        try:
            mod.run(ctx)
        except common.CheckError as e:
            ctx.broken.append({'kind': 'correspondence', 'name': 'harness', 'detail': str(e)[-1500:]})
        except Exception:
            ctx.broken.append({'kind': 'correspondence', 'name': 'harness-exception', 'detail': traceback.format_exc()[-2000:]})
        return ctx
    def aborted(c):
        return any(b['name'] in ('harness', 'harness-exception') for b in c.broken)

    def complete_run(notes):
        # A run that ended in an exception of the harness itself (a port taken by another process, a helper process that died) has not looked at all its
        # cases: its result is not a result.  It is repeated (same seed); only when it aborts three times in a row is the abort itself what the check reports.
        c = one_run()
        for _ in range(2):
            if not aborted(c):
                break
            notes.append('a run aborted in the harness and was repeated: %s' % '; '.join(b['detail'][-300:] for b in c.broken if b['name'] in ('harness', 'harness-exception'))[:800])
            print('  a run aborted in the harness and is repeated')
            c = one_run()
        return c
    pre_notes = []
    ctx = complete_run(pre_notes)
    ctx.notes += pre_notes
    # Every case is generated from the seed, so a real violation shows again when the check is run again.  What the real command line
    # does over TCP on a loaded machine (a probe timing out, a build step hit by another process) does not.  An alarm is therefore only
    # raised for what a second, identical run shows as well; what did not repeat is recorded in the evidence, not reported.
    alarms = [v for v in ctx.violations if common.known_status(a.prop, v['key']) != 'known']
    if (alarms or ctx.broken) and os.environ.get('VERIF_NO_CONFIRM') != '1':
        ctx2 = complete_run(ctx.notes)
        keys2 = {v['key'] for v in ctx2.violations}
        broken2 = {(b['kind'], b['name']) for b in ctx2.broken}
        dropped = sorted({v['key'] for v in alarms if v['key'] not in keys2}) + sorted({'%s:%s' % (b['kind'], b['name']) for b in ctx.broken if (b['kind'], b['name']) not in broken2})
        ctx.violations = [v for v in ctx.violations if v['key'] in keys2 or common.known_status(a.prop, v['key']) == 'known']
        ctx.broken = [b for b in ctx.broken if (b['kind'], b['name']) in broken2]
        if dropped:
            ctx.notes.append('not reproduced by the confirmation run (same seed), not reported: %s' % ', '.join(dropped)[:1500])
            print('  not reproduced by the confirmation run, not reported: %s' % ', '.join(dropped)[:400])
    sys.exit(ctx.finish())


if __name__ == '__main__':
    main()
