#!/venv/bin/python
"""Evaluate one seeded change: usage seed_eval.py <worktree> <Cnn> [<seed-id>] [extra checks ...]
Confirms (in the scratch worktree): existing tests pass with the change; demo fails with it and passes without it;
then runs bin/check against the worktree (VERIF_REPO) and records everything under /verif/seeded/<seed-id>/."""
import json
import os
import shutil
import subprocess
import sys
import time

wt, prop = sys.argv[1], sys.argv[2]
sid = sys.argv[3] if len(sys.argv) > 3 else prop
extra = sys.argv[4:]
V = '/verif'
VRUN = os.environ.get('SEED_EVAL_VERIF', V)   # where the checks are run (a second checkout of /verif with its own build, so that evaluation does not disturb work in /verif)
out = os.path.join(V, 'seeded', sid)
os.makedirs(out, exist_ok=True)


def sh(cmd, env=None, cwd=None, timeout=3000):
    e = dict(os.environ)
    e.update(env or {})
    p = subprocess.run(cmd, shell=True, cwd=cwd, env=e, capture_output=True, text=True, timeout=timeout)
    return p.returncode, (p.stdout + p.stderr)


penv = {'PYTHONPATH': wt + '/src', 'SEED_REPO': wt, 'PYTHONHASHSEED': '0'}
rc, patch = sh('git diff -- src', cwd=wt)
if not patch.strip():
    rc, _ = sh('git apply _seed/patch.diff', cwd=wt)
    rc, patch = sh('git diff -- src', cwd=wt)
open(os.path.join(out, 'patch.diff'), 'w').write(patch)
res = {}
res['tests_with_change'] = sh('/venv/bin/python -m pytest -q -p no:cacheprovider 2>&1 | tail -1', env=penv, cwd=wt)[1].strip()
rcw, ow = sh('/venv/bin/python _seed/demo.py', env=penv, cwd=wt)
res['demo_with_change'] = {'rc': rcw, 'tail': ow[-400:]}
saved = os.path.join(out, 'patch.diff')
sh('git checkout -- src', cwd=wt)
try:
    res['tests_without_change'] = sh('/venv/bin/python -m pytest -q -p no:cacheprovider 2>&1 | tail -1', env=penv, cwd=wt)[1].strip()
    rco, oo = sh('/venv/bin/python _seed/demo.py', env=penv, cwd=wt)
    res['demo_without_change'] = {'rc': rco, 'tail': oo[-300:]}
finally:
    sh('git apply %s' % saved, cwd=wt)
res['confirmed'] = ('129 passed' in res['tests_with_change']) and rcw != 0 and rco == 0
checks = {}
for p in [prop] + extra:
    t0 = time.time()
    rc, o = sh('bin/check %s --tier quick' % p, env={'VERIF_REPO': wt}, cwd=VRUN)
    lines = [l for l in o.split('\n') if l.startswith('VIOLATION') or l.startswith('  violation') or l.startswith('  broken')]
    checks[p] = {'exit': rc, 'wall_s': round(time.time() - t0, 1), 'lines': [l[:300] for l in lines[:6]]}
res['checks_quick'] = checks
res['caught_by'] = [p for p, c in checks.items() if c['exit'] == 1]
for f in ('demo.py', 'meta.json'):
    if os.path.exists(os.path.join(wt, '_seed', f)):
        shutil.copy(os.path.join(wt, '_seed', f), os.path.join(out, f if f != 'meta.json' else 'meta_author.json'))
author = {}
try:
    author = json.load(open(os.path.join(wt, '_seed', 'meta.json')))
except Exception:
    pass
meta = {'property': prop, 'summary': author.get('summary'), 'needs': author.get('needs'), 'files': author.get('files'),
        'what_i_ran': 'harness/seed_eval.py: pytest with/without the change in the scratch worktree, demo.py with/without, bin/check (quick) with VERIF_REPO=<worktree>', 'results': res}
json.dump(meta, open(os.path.join(out, 'meta.json'), 'w'), indent=1)
print(sid, 'confirmed' if res['confirmed'] else 'NOT-CONFIRMED', 'caught_by', res['caught_by'], {p: (c['exit'], c['wall_s']) for p, c in checks.items()})
# restore the evidence files / replays of the unchanged tree are rewritten by the next normal run
