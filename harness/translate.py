#!/venv/bin/python
"""T1 translator: dump the *data* of /repo's working tree as Coq literals -> coq/gen/Tables.v.

Fail-closed: every shape assumption is asserted; every literal that lives inside a function is
located by an `ast` pattern and the translator raises TranslateError when the pattern is not
found exactly once.  Import-and-dump happens in THIS process, so run it with a fresh interpreter
(`/venv/bin/python harness/translate.py`), PYTHONPATH is forced to /repo/src.
"""
import ast
import os
import sys

REPO = os.environ.get('VERIF_REPO', '/repo')
sys.path[0:0] = [os.path.join(REPO, 'src')]
HERE = os.path.dirname(os.path.abspath(__file__))
sys.path.insert(0, HERE)
from coqlit import cstr, cz, cbool, clist, copt, cpair, cstrs  # noqa: E402


class TranslateError(Exception):
    pass


def need(cond, msg):
    if not cond:
        raise TranslateError(msg)


def src(path):
    with open(os.path.join(REPO, 'src', 'ssh_audit', path), encoding='utf-8') as f:
        return f.read()


def func_node(tree, qualname):
    """Find a (possibly nested / method) function by dotted name."""
    parts = qualname.split('.')
    nodes = [tree]
    for p in parts:
        nxt = []
        for n in nodes:
            for c in ast.walk(n):
                if isinstance(c, (ast.FunctionDef, ast.ClassDef)) and c.name == p and c is not n:
                    nxt.append(c)
        nodes = nxt
    need(len(nodes) >= 1, 'function %s not found' % qualname)
    return nodes[0]


def lit(node):
    try:
        return ast.literal_eval(node)
    except Exception as e:  # noqa
        raise TranslateError('not a literal: %s' % ast.dump(node)[:200])


def dump_db(db):
    need(isinstance(db, dict), 'db not a dict')
    cats = []
    for cat, entries in db.items():
        need(isinstance(cat, str) and isinstance(entries, dict), 'db category shape')
        ents = []
        for name, desc in entries.items():
            need(isinstance(name, str) and isinstance(desc, list), 'db entry shape: %r' % (name,))
            comps = []
            for comp in desc:
                need(isinstance(comp, list), 'db component not a list: %r' % (name,))
                for x in comp:
                    need(x is None or isinstance(x, str), 'db leaf not str/None: %r' % (name,))
                comps.append(clist(comp, lambda x: copt(x, cstr)))
            ents.append('  ' + cpair(cstr(name), '[' + '; '.join(comps) + ']'))
        cats.append(' ' + cpair(cstr(cat), '[\n' + ';\n'.join(ents) + ']'))
    return '[\n' + ';\n'.join(cats) + ']'



# ---- T1b: integer kernels translated statement by statement (fail-closed) ----
# Python ints are unbounded like Z; // and % are floor division/modulo with the divisor's sign (Z.div / Z.modulo), >> and & act on the
# infinite two's-complement representation (Z.shiftr / Z.land).  Supported: names, int constants, + - * // % >> << & | unary -, comparisons,
# assignments, augmented assignments, `if` blocks that only assign, `return`.  Anything else raises TranslateError.
def _zexpr(n, env):
    if isinstance(n, ast.Constant) and isinstance(n.value, int) and not isinstance(n.value, bool):
        return '(%d)' % n.value
    if isinstance(n, ast.Name):
        need(n.id in env, 'integer kernel: unknown name %r' % n.id)
        return env[n.id]
    if isinstance(n, ast.UnaryOp) and isinstance(n.op, ast.USub):
        return '(- %s)' % _zexpr(n.operand, env)
    if isinstance(n, ast.BinOp):
        ops = {ast.Add: '(%s + %s)', ast.Sub: '(%s - %s)', ast.Mult: '(%s * %s)', ast.FloorDiv: '(%s / %s)', ast.Mod: '(%s mod %s)',
               ast.RShift: '(Z.shiftr %s %s)', ast.LShift: '(Z.shiftl %s %s)', ast.BitAnd: '(Z.land %s %s)', ast.BitOr: '(Z.lor %s %s)'}
        need(type(n.op) in ops, 'integer kernel: operator %s' % type(n.op).__name__)
        return ops[type(n.op)] % (_zexpr(n.left, env), _zexpr(n.right, env))
    if isinstance(n, ast.Call) and isinstance(n.func, ast.Name) and n.func.id == 'len' and len(n.args) == 1:
        key = 'len(%s)' % ast.unparse(n.args[0])
        need(key in env, 'integer kernel: %s is not a declared input' % key)
        return env[key]
    need(False, 'integer kernel: expression %s' % ast.dump(n)[:80])


def _zcond(n, env):
    need(isinstance(n, ast.Compare) and len(n.ops) == 1, 'integer kernel: condition %s' % ast.dump(n)[:80])
    a, b = _zexpr(n.left, env), _zexpr(n.comparators[0], env)
    ops = {ast.Lt: '(%s <? %s)', ast.LtE: '(%s <=? %s)', ast.Gt: '(%s >? %s)', ast.GtE: '(%s >=? %s)', ast.Eq: '(%s =? %s)', ast.NotEq: '(negb (%s =? %s))'}
    need(type(n.ops[0]) in ops, 'integer kernel: comparison %s' % type(n.ops[0]).__name__)
    return ops[type(n.ops[0])] % (a, b)


def _zbool(n, env):
    if isinstance(n, ast.BoolOp):
        op = ' || ' if isinstance(n.op, ast.Or) else ' && '
        return '(' + op.join(_zbool(v, env) for v in n.values) + ')'
    if isinstance(n, ast.UnaryOp) and isinstance(n.op, ast.Not):
        return '(negb %s)' % _zbool(n.operand, env)
    return _zcond(n, env)


def _zblock(stmts, env, result):
    """stmts -> Coq expression; `result` is the expression (over Coq variable names) to yield when the block falls through."""
    if not stmts:
        return result(env)
    st, rest = stmts[0], stmts[1:]
    if isinstance(st, ast.Return):
        return _zexpr(st.value, env)
    if isinstance(st, (ast.Assign, ast.AugAssign)):
        tgt = st.targets[0] if isinstance(st, ast.Assign) else st.target
        need(isinstance(tgt, ast.Name) and (isinstance(st, ast.AugAssign) or len(st.targets) == 1), 'integer kernel: assignment target')
        val = st.value if isinstance(st, ast.Assign) else ast.BinOp(left=ast.Name(id=tgt.id, ctx=ast.Load()), op=st.op, right=st.value)
        e = _zexpr(val, env)
        v = 'v_%s_%d' % (tgt.id, len(env))
        env2 = dict(env); env2[tgt.id] = v
        return '(let %s := %s in %s)' % (v, e, _zblock(rest, env2, result))
    if isinstance(st, ast.If):
        need(all(isinstance(x, (ast.Assign, ast.AugAssign)) for x in st.body + st.orelse), 'integer kernel: if-body with other statements')
        names = []
        for x in st.body + st.orelse:
            t = x.targets[0] if isinstance(x, ast.Assign) else x.target
            need(isinstance(t, ast.Name), 'integer kernel: if-body target')
            if t.id not in names:
                names.append(t.id)
        need(all(nm in env for nm in names), 'integer kernel: variable first assigned inside an if')
        tup = lambda e: e[names[0]] if len(names) == 1 else '(' + ', '.join(e[nm] for nm in names) + ')'
        then_e = _zblock(st.body, env, tup)
        else_e = _zblock(st.orelse, env, tup)
        fresh = ['v_%s_%d' % (nm, len(env)) for nm in names]
        env2 = dict(env)
        for nm, f in zip(names, fresh):
            env2[nm] = f
        pat = fresh[0] if len(names) == 1 else "'(" + ', '.join(fresh) + ')'
        return '(let %s := (if %s then %s else %s) in %s)' % (pat, _zcond(st.test, env), then_e, else_e, _zblock(rest, env2, result))
    need(False, 'integer kernel: statement %s' % type(st).__name__)


def int_kernel(name, params, stmts, inputs=None, result=None):
    """Coq definition text `Definition <name> (params : Z) : Z := ...` for the given statements."""
    env = {p: p for p in params}
    env.update(inputs or {})
    body = _zblock(stmts, env, result or (lambda e: need(False, 'integer kernel %s falls through without a result' % name)))
    args = ' '.join('(%s : Z)' % p for p in params)
    return 'Definition %s %s : Z := %s.' % (name, args, body)


# ---- T1c: pure kernels over integers, booleans, strings and lists of strings/integers, translated statement by statement (fail-closed) ----
# A typed extension of T1b.  Types: 'Z', 'bool', 'string', 'list string', 'list Z'.  The environment maps a Python name - or the source text of an
# expression declared as an input, e.g. 'exitcodes.FAILURE' or 'algs.ssh2kex.client.encryption' - to (Coq term, type).
# Expressions: constants; names; declared inputs; + - * // % >> << & | ^ and unary - on Z; + on strings; and/or/not; comparisons == != < <= > >= ;
# `x in (lit, ...)`, `x in <list variable>` and their negations; `a if c else b`; `s.startswith(lit | tuple)`, `s.endswith(lit | tuple)`;
# `len(x)`; `l.index(x)` and `l[i]` for lists of integers (src_zindex / src_znth, defined below: `index` of an absent value yields the length,
# an index outside the list yields 0 - Python raises in both cases, so tie lemmas state them under the guard that excludes the exception).
# Statements: assignments, augmented assignments, if/elif/else blocks that only assign, if-blocks ending in `return`, `return`.
T1C_PRELUDE = [
    'Fixpoint src_zindex (x : Z) (l : list Z) : Z := match l with [] => 0 | y :: r => if x =? y then 0 else 1 + src_zindex x r end.',
    'Definition src_znth (l : list Z) (i : Z) : Z := nth (Z.to_nat i) l 0.',
    'Fixpoint src_sindex (x : string) (l : list string) : Z := match l with [] => 0 | y :: r => if String.eqb x y then 0 else 1 + src_sindex x r end.',
    # Python `a < b` on str: code-point lexicographic order, a proper prefix is smaller
    'Fixpoint src_str_ltb (a b : string) : bool := match a, b with | _, EmptyString => false | EmptyString, String _ _ => true '
    '| String x a1, String y b1 => if (N_of_ascii x <? N_of_ascii y)%N then true else if (N_of_ascii y <? N_of_ascii x)%N then false else src_str_ltb a1 b1 end.',
]


def _lits(n):
    """a string constant or a tuple/list of string constants -> list of str"""
    if isinstance(n, ast.Constant) and isinstance(n.value, str):
        return [n.value]
    if isinstance(n, (ast.Tuple, ast.List)) and n.elts and all(isinstance(e, ast.Constant) and isinstance(e.value, str) for e in n.elts):
        return [e.value for e in n.elts]
    return None


def _texpr(n, env):
    key = ast.unparse(n)
    if key in env and not isinstance(n, ast.Name):
        return env[key]
    if isinstance(n, ast.Constant):
        if isinstance(n.value, bool):
            return ('true' if n.value else 'false', 'bool')
        if isinstance(n.value, int):
            return ('(%d)' % n.value, 'Z')
        if isinstance(n.value, str):
            return (cstr(n.value), 'string')
    if isinstance(n, ast.Name):
        need(n.id in env, 'kernel: unknown name %r' % n.id)
        return env[n.id]
    if isinstance(n, ast.UnaryOp) and isinstance(n.op, ast.USub):
        e, t = _texpr(n.operand, env)
        need(t == 'Z', 'kernel: unary minus on %s' % t)
        return ('(- %s)' % e, 'Z')
    if isinstance(n, ast.UnaryOp) and isinstance(n.op, ast.Not):
        e, t = _texpr(n.operand, env)
        if t == 'string':
            return ('(String.eqb %s "")' % e, 'bool')      # `not s`: the empty string is the only false string
        need(t == 'bool', 'kernel: not on %s' % t)
        return ('(negb %s)' % e, 'bool')
    if isinstance(n, ast.List):
        parts = [_texpr(e, env) for e in n.elts]
        need(len({t for _, t in parts}) <= 1 and all(t in ('string', 'Z', 'string * string') for _, t in parts), 'kernel: list literal %s' % key[:80])
        ty = parts[0][1] if parts else 'string'
        return ('[' + '; '.join(e for e, _ in parts) + ']', 'list (%s)' % ty if ' ' in ty else 'list ' + ty)
    if isinstance(n, ast.BinOp) and isinstance(n.op, ast.Mod) and isinstance(n.left, ast.Constant) and isinstance(n.left.value, str):
        # 'text %d text' % <integer>: the decimal rendering of the integer between the two pieces of text
        fmt = n.left.value
        need(fmt.count('%') == 1 and fmt.count('%d') == 1, 'kernel: format string %r' % fmt)
        z, tz = _texpr(n.right, env)
        need(tz == 'Z', 'kernel: %%d of a %s' % tz)
        pre, post = fmt.split('%d')
        return ('(String.append %s (String.append (z_to_string %s) %s))' % (cstr(pre), z, cstr(post)), 'string')
    if isinstance(n, ast.BinOp):
        (a, ta), (b, tb) = _texpr(n.left, env), _texpr(n.right, env)
        if isinstance(n.op, ast.Add) and ta == tb == 'string':
            return ('(%s ++ %s)%%string' % (a, b), 'string')
        if isinstance(n.op, ast.Add) and ta == tb and ta.startswith('list '):
            return ('(%s ++ %s)%%list' % (a, b), ta)
        ops = {ast.Add: '(%s + %s)', ast.Sub: '(%s - %s)', ast.Mult: '(%s * %s)', ast.FloorDiv: '(%s / %s)', ast.Mod: '(%s mod %s)',
               ast.RShift: '(Z.shiftr %s %s)', ast.LShift: '(Z.shiftl %s %s)', ast.BitAnd: '(Z.land %s %s)', ast.BitOr: '(Z.lor %s %s)', ast.BitXor: '(Z.lxor %s %s)'}
        need(type(n.op) in ops and ta == tb == 'Z', 'kernel: operator %s on %s, %s' % (type(n.op).__name__, ta, tb))
        return (ops[type(n.op)] % (a, b), 'Z')
    if isinstance(n, ast.BoolOp):
        parts = [_texpr(v, env) for v in n.values]
        need(all(t == 'bool' for _, t in parts), 'kernel: and/or over non-booleans: %s' % key[:80])
        return ('(' + (' || ' if isinstance(n.op, ast.Or) else ' && ').join(e for e, _ in parts) + ')', 'bool')
    if isinstance(n, ast.IfExp):
        (c, tc), (a, ta), (b, tb) = _texpr(n.test, env), _texpr(n.body, env), _texpr(n.orelse, env)
        need(tc == 'bool' and ta == tb, 'kernel: conditional expression types %s / %s / %s' % (tc, ta, tb))
        return ('(if %s then %s else %s)' % (c, a, b), ta)
    if isinstance(n, ast.Compare) and len(n.ops) > 1:
        # a < b < c  ==  a < b and b < c  (the operands here are names and constants: evaluating b twice is the same)
        terms = [n.left] + list(n.comparators)
        need(all(isinstance(t, (ast.Name, ast.Constant)) for t in terms), 'kernel: chained comparison over compound operands %s' % key[:80])
        parts = [_texpr(ast.Compare(left=terms[i], ops=[n.ops[i]], comparators=[terms[i + 1]]), env) for i in range(len(n.ops))]
        return ('(' + ' && '.join(e for e, _ in parts) + ')', 'bool')
    if isinstance(n, ast.Compare):
        op, rhs = n.ops[0], n.comparators[0]
        if isinstance(op, (ast.Eq, ast.NotEq)) and isinstance(n.left, ast.Call) and isinstance(n.left.func, ast.Attribute) and n.left.func.attr == 'find' \
                and len(n.left.args) == 1 and ast.unparse(rhs) == '-1':
            # s.find(lit) != -1  /  == -1 : lit occurs (does not occur) in s
            x, tx = _texpr(n.left.func.value, env)
            ls = _lits(n.left.args[0])
            need(tx == 'string' and ls is not None and len(ls) == 1, 'kernel: find with a non-literal argument')
            r = '(match index 0 %s %s with Some _ => true | None => false end)' % (cstr(ls[0]), x)
            return (r if isinstance(op, ast.NotEq) else '(negb %s)' % r, 'bool')
        if isinstance(op, (ast.Is, ast.IsNot)) and isinstance(rhs, ast.Constant) and rhs.value is None:
            a, ta = _texpr(n.left, env)
            need(ta == 'option string', 'kernel: `is None` on %s' % ta)
            r = '(match %s with Some _ => false | None => true end)' % a
            return (r if isinstance(op, ast.Is) else '(negb %s)' % r, 'bool')
        if isinstance(op, (ast.Is, ast.IsNot)):
            a, ta = _texpr(n.left, env)
            need(ta == 'bool' and isinstance(rhs, ast.Constant) and isinstance(rhs.value, bool), 'kernel: `is` other than <bool> is True/False: %s' % key[:80])
            r = '(Bool.eqb %s %s)' % (a, 'true' if rhs.value else 'false')
            return (r if isinstance(op, ast.Is) else '(negb %s)' % r, 'bool')
        if isinstance(op, (ast.In, ast.NotIn)) and isinstance(n.left, ast.Constant) and isinstance(n.left.value, str):
            b, tb = _texpr(rhs, env)
            if tb == 'string':      # 'lit' in s : substring test
                r = '(match index 0 %s %s with Some _ => true | None => false end)' % (cstr(n.left.value), b)
                return (r if isinstance(op, ast.In) else '(negb %s)' % r, 'bool')
        if isinstance(op, (ast.In, ast.NotIn)):
            a, ta = _texpr(n.left, env)
            ls = _lits(rhs) if isinstance(rhs, (ast.Tuple, ast.List)) else None
            if ls is not None:
                need(ta == 'string', 'kernel: membership of a %s in a tuple of strings' % ta)
                r = '(mem %s %s)' % (a, cstrs(ls))
            else:
                b, tb = _texpr(rhs, env)
                need((ta, tb) in (('string', 'list string'), ('Z', 'list Z')), 'kernel: membership %s in %s' % (ta, tb))
                r = '(mem %s %s)' % (a, b) if ta == 'string' else '(existsb (Z.eqb %s) %s)' % (a, b)
            return (r if isinstance(op, ast.In) else '(negb %s)' % r, 'bool')
        (a, ta), (b, tb) = _texpr(n.left, env), _texpr(rhs, env)
        need(ta == tb, 'kernel: comparison of %s with %s: %s' % (ta, tb, key[:80]))
        if isinstance(op, (ast.Eq, ast.NotEq)):
            eqs = {'Z': '(%s =? %s)', 'string': '(String.eqb %s %s)', 'bool': '(Bool.eqb %s %s)', 'list string': '(strs_eqb %s %s)'}
            need(ta in eqs, 'kernel: equality on %s' % ta)
            r = eqs[ta] % (a, b)
            return (r if isinstance(op, ast.Eq) else '(negb %s)' % r, 'bool')
        if ta == 'string' and isinstance(op, (ast.Lt, ast.Gt)):
            return ('(src_str_ltb %s %s)' % ((a, b) if isinstance(op, ast.Lt) else (b, a)), 'bool')
        ops = {ast.Lt: '(%s <? %s)', ast.LtE: '(%s <=? %s)', ast.Gt: '(%s >? %s)', ast.GtE: '(%s >=? %s)'}
        need(type(op) in ops and ta == 'Z', 'kernel: comparison %s on %s' % (type(op).__name__, ta))
        return (ops[type(op)] % (a, b), 'bool')
    if isinstance(n, ast.Call):
        f = n.func
        if isinstance(f, ast.Attribute) and f.attr in ('startswith', 'endswith') and len(n.args) == 1 and not n.keywords:
            s, ts = _texpr(f.value, env)
            ls = _lits(n.args[0])
            need(ts == 'string' and ls is not None, 'kernel: %s with a non-literal argument' % f.attr)
            fn = 'starts_with' if f.attr == 'startswith' else 'ends_with'
            return ('(' + ' || '.join('%s %s %s' % (fn, cstr(x), s) for x in ls) + ')', 'bool')
        if isinstance(f, ast.Attribute) and f.attr == 'format' and isinstance(f.value, ast.Constant) and isinstance(f.value.value, str) and not n.keywords:
            # 'a{}b{}c'.format(x, y) with string arguments: concatenation
            pieces = f.value.value.split('{}')
            need(len(pieces) == len(n.args) + 1 and '{' not in ''.join(pieces) and '}' not in ''.join(pieces), 'kernel: format string %r' % f.value.value)
            args = [_texpr(a, env) for a in n.args]
            need(all(t == 'string' for _, t in args), 'kernel: format() of non-strings')
            parts = []
            for i, pc in enumerate(pieces):
                if pc:
                    parts.append(cstr(pc))
                if i < len(args):
                    parts.append(args[i][0])
            e = parts[-1]
            for x in reversed(parts[:-1]):
                e = '(String.append %s %s)' % (x, e)
            return (e, 'string')
        if isinstance(f, ast.Attribute) and f.attr == 'join' and isinstance(f.value, ast.Constant) and isinstance(f.value.value, str) and len(n.args) == 1 and not n.keywords:
            x, tx = _texpr(n.args[0], env)
            need(tx == 'list string', 'kernel: join over %s' % tx)
            return ('(join %s %s)' % (cstr(f.value.value), x), 'string')
        if isinstance(f, ast.Attribute) and f.attr == 'rstrip' and len(n.args) == 1 and isinstance(n.args[0], ast.Constant) and isinstance(n.args[0].value, str) and not n.keywords:
            x, tx = _texpr(f.value, env)
            need(tx == 'string', 'kernel: rstrip of %s' % tx)
            return ('(rstrip_chars %s %s)' % (cstr(n.args[0].value), x), 'string')
        if isinstance(f, ast.Attribute) and f.attr == 'index' and len(n.args) == 1 and not n.keywords:
            (l, tl), (x, tx) = _texpr(f.value, env), _texpr(n.args[0], env)
            need((tl, tx) in (('list Z', 'Z'), ('list string', 'string')), 'kernel: index on %s' % tl)
            return ('(%s %s %s)' % ('src_zindex' if tx == 'Z' else 'src_sindex', x, l), 'Z')
        if isinstance(f, ast.Name) and f.id == '__somes_map__' and len(n.args) == 3:
            var, elt, it = n.args
            l, tl = _texpr(it, env)
            need(tl == 'list (option string)', 'kernel: loop over %s' % tl)
            env2 = dict(env); env2[var.id] = ('c_' + var.id, 'string')
            e, te = _texpr(elt, env2)
            return ('(flat_map (fun o_ => match o_ with Some c_%s => [%s] | None => [] end) %s)' % (var.id, e, l), 'list (%s)' % te if ' ' in te else 'list ' + te)
        if isinstance(f, ast.Name) and f.id == 'pow' and len(n.args) == 2 and not n.keywords:
            (a, ta), (b, tb) = _texpr(n.args[0], env), _texpr(n.args[1], env)
            need(ta == tb == 'Z', 'kernel: pow on %s, %s' % (ta, tb))
            return ('(Z.pow %s %s)' % (a, b), 'Z')      # for a non-negative exponent (Python yields a float otherwise)
        if isinstance(f, ast.Attribute) and f.attr == 'group' and len(n.args) == 1 and isinstance(n.args[0], ast.Constant) and n.args[0].value == 1 and not n.keywords:
            x, tx = _texpr(f.value, env)
            need(tx == 'option string', 'kernel: group(1) of a %s' % tx)
            # a match input carries its group 1; the source reads it only behind `is not None` (None would raise)
            return ('(match %s with Some s_ => s_ | None => EmptyString end)' % x, 'string')
        if isinstance(f, ast.Name) and f.id == 'cast' and len(n.args) == 2 and not n.keywords:
            return _texpr(n.args[1], env)       # typing.cast(T, e) is e
        if isinstance(f, ast.Name) and f.id == 'bool' and len(n.args) == 1 and not n.keywords:
            x, tx = _texpr(n.args[0], env)
            if tx == 'string':
                return ('(negb (String.eqb %s ""))' % x, 'bool')    # bool(s): s is not empty
            if tx == 'option string':
                return ('(match %s with Some _ => true | None => false end)' % x, 'bool')    # bool(m) of a match object / None
            need(tx == 'bool', 'kernel: bool() of a %s' % tx)
            return (x, 'bool')
        if isinstance(f, ast.Name) and f.id == 'len' and len(n.args) == 1:
            x, tx = _texpr(n.args[0], env)
            if tx == 'option string':      # len(x) of a value the source has just tested with `is not None`
                return ('(Z.of_nat (String.length (match %s with Some s_ => s_ | None => EmptyString end)))' % x, 'Z')
            need(tx in ('string', 'list string', 'list Z', 'list (list (option string))', 'list (string * string)', 'list (option string)'), 'kernel: len of %s' % tx)
            return ('(Z.of_nat (%s %s))' % ('String.length' if tx == 'string' else 'List.length', x), 'Z')
    if isinstance(n, ast.ListComp) and len(n.generators) == 1 and isinstance(n.elt, ast.Name) and isinstance(n.generators[0].target, ast.Name) \
            and n.elt.id == n.generators[0].target.id and len(n.generators[0].ifs) == 1 and not n.generators[0].is_async:
        # [x for x in L if c(x)]
        g = n.generators[0]
        l, tl = _texpr(g.iter, env)
        need(tl == 'list string', 'kernel: comprehension over %s' % tl)
        env2 = dict(env); env2[g.target.id] = ('c_' + g.target.id, 'string')
        c, tc = _texpr(g.ifs[0], env2)
        need(tc == 'bool', 'kernel: comprehension filter of type %s' % tc)
        return ('(filter (fun c_%s => %s) %s)' % (g.target.id, c, l), 'list string')
    if isinstance(n, ast.Tuple) and n.elts:
        parts = [_texpr(e, env) for e in n.elts]
        # an optional string stored as a string (the source has tested it with `is not None` on this path): its content
        parts = [(('(match %s with Some s_ => s_ | None => EmptyString end)' % e, 'string') if t == 'option string' else (e, t)) for e, t in parts]
        return ('(' + ', '.join(e for e, _ in parts) + ')', ' * '.join(t for _, t in parts))
    if isinstance(n, ast.Subscript) and isinstance(n.slice, ast.Slice):
        x, tx = _texpr(n.value, env)
        sl = n.slice
        need(tx == 'string' and sl.step is None, 'kernel: slice of a %s' % tx)
        if sl.lower is None and ast.unparse(sl.upper) == '-1':
            return ('(drop_last %s)' % x, 'string')          # s[:-1]
        if sl.upper is None and isinstance(sl.lower, ast.Constant) and isinstance(sl.lower.value, int) and sl.lower.value >= 0:
            return ('(str_skip %d %s)' % (sl.lower.value, x), 'string')   # s[k:]
        need(False, 'kernel: slice %s' % key[:60])
    if isinstance(n, ast.Subscript) and not isinstance(n.slice, ast.Slice) and _texpr(n.value, env)[1] == 'list (list (option string))':
        (l, tl), (i, ti) = _texpr(n.value, env), _texpr(n.slice, env)
        need(ti == 'Z', 'kernel: subscript of an entry by %s' % ti)
        return ('(nth (Z.to_nat %s) %s [])' % (i, l), 'list (option string)')      # for an index within the entry (guarded by the length test in the source)
    if isinstance(n, ast.Subscript) and not isinstance(n.slice, ast.Slice):
        (l, tl), (i, ti) = _texpr(n.value, env), _texpr(n.slice, env)
        need(tl == 'list Z' and ti == 'Z', 'kernel: subscript of %s by %s' % (tl, ti))
        return ('(src_znth %s %s)' % (l, i), 'Z')
    need(False, 'kernel: expression %s' % ast.dump(n)[:120])


class _Subst(ast.NodeTransformer):
    def __init__(self, name, value):
        self.name, self.value = name, value

    def visit_Name(self, node):
        if node.id == self.name and isinstance(node.ctx, ast.Load):
            return ast.Constant(value=self.value)
        return node


def _subst_const(node, name, value):
    import copy
    return ast.fix_missing_locations(_Subst(name, value).visit(copy.deepcopy(node)))


def _guard_continue(body):
    """[..., `if c: continue`, rest...]  ->  [..., `if not c: rest`]"""
    for k, st in enumerate(body):
        if isinstance(st, ast.If) and len(st.body) == 1 and isinstance(st.body[0], ast.Continue) and not st.orelse:
            rest = _guard_continue(body[k + 1:])
            return body[:k] + ([ast.If(test=ast.UnaryOp(op=ast.Not(), operand=st.test), body=rest, orelse=[])] if rest else [])
        def own_jumps(node):     # continue / break that belong to THIS loop (those of nested loops are theirs)
            for ch in ast.iter_child_nodes(node):
                if isinstance(ch, (ast.For, ast.While)):
                    continue
                if isinstance(ch, (ast.Continue, ast.Break)):
                    yield ch
                yield from own_jumps(ch)
        need(not isinstance(st, (ast.Continue, ast.Break)) and (isinstance(st, (ast.For, ast.While)) or not list(own_jumps(st))),
             'kernel: continue / break in a place other than `if c: continue` at the level of the loop body')
    return body


def _norm_stmts(stmts):
    """x.append(e) -> x += [e];  a = b = e -> b = e; a = b   (recursively through if-blocks)"""
    out = []
    for st in stmts:
        if isinstance(st, ast.Expr) and isinstance(st.value, ast.Call) and isinstance(st.value.func, ast.Attribute) and st.value.func.attr == 'append' \
                and isinstance(st.value.func.value, ast.Name) and len(st.value.args) == 1 and not st.value.keywords:
            out.append(ast.AugAssign(target=ast.Name(id=st.value.func.value.id, ctx=ast.Store()), op=ast.Add(), value=ast.List(elts=[st.value.args[0]], ctx=ast.Load())))
        elif isinstance(st, ast.Assign) and len(st.targets) > 1 and all(isinstance(t, ast.Name) for t in st.targets):
            last = st.targets[-1]
            out.append(ast.Assign(targets=[last], value=st.value))
            for t in st.targets[:-1]:
                out.append(ast.Assign(targets=[t], value=ast.Name(id=last.id, ctx=ast.Load())))
        elif isinstance(st, ast.If):
            out.append(ast.If(test=st.test, body=_norm_stmts(st.body), orelse=_norm_stmts(st.orelse)))
        elif isinstance(st, ast.For) and isinstance(st.target, ast.Name) and isinstance(st.iter, ast.Call) and getattr(st.iter.func, 'id', None) == 'range' and not st.orelse \
                and all(isinstance(a, ast.Constant) and isinstance(a.value, int) for a in st.iter.args) and 1 <= len(st.iter.args) <= 2:
            # for i in range(a, b) with constant bounds: unrolled, i replaced by its value; `if c: continue` guards the rest of the body
            rng_ = range(*[a.value for a in st.iter.args])
            need(len(rng_) <= 8, 'kernel: range loop of %d iterations' % len(rng_))
            reassigned = any(isinstance(x, ast.Name) and x.id == st.target.id and isinstance(x.ctx, ast.Store) for b in st.body for x in ast.walk(b))
            for i in rng_:
                if reassigned:
                    out.append(ast.Assign(targets=[ast.Name(id=st.target.id, ctx=ast.Store())], value=ast.Constant(value=i)))
                    out += _norm_stmts(_guard_continue(list(st.body)))
                else:
                    out += _norm_stmts(_guard_continue([_subst_const(b, st.target.id, i) for b in st.body]))
        elif isinstance(st, ast.For) and isinstance(st.target, ast.Tuple) and len(st.target.elts) == 2 and isinstance(st.iter, ast.Call) and getattr(st.iter.func, 'id', None) == 'enumerate' \
                and len(st.iter.args) == 1 and isinstance(st.iter.args[0], ast.List) and all(isinstance(e, ast.Constant) for e in st.iter.args[0].elts) and not st.orelse:
            # for i, x in enumerate([c0, c1, ...]): unrolled; the loop variables are ordinary variables (they may be reassigned in the body)
            need(len(st.iter.args[0].elts) <= 8, 'kernel: enumerate loop of %d iterations' % len(st.iter.args[0].elts))
            for i, c in enumerate(st.iter.args[0].elts):
                out.append(ast.Assign(targets=[ast.Name(id=st.target.elts[0].id, ctx=ast.Store())], value=ast.Constant(value=i)))
                out.append(ast.Assign(targets=[ast.Name(id=st.target.elts[1].id, ctx=ast.Store())], value=c))
                out += _norm_stmts(_guard_continue(list(st.body)))
        elif isinstance(st, ast.For) and isinstance(st.target, ast.Name) and not st.orelse and len(st.body) == 2 and isinstance(st.body[0], ast.If) \
                and ast.unparse(st.body[0].test) == '%s is None' % st.target.id and len(st.body[0].body) == 1 and isinstance(st.body[0].body[0], ast.Continue) and not st.body[0].orelse \
                and isinstance(st.body[1], ast.Expr) and isinstance(st.body[1].value, ast.Call) and isinstance(st.body[1].value.func, ast.Attribute) and st.body[1].value.func.attr == 'append':
            # for t in <list of optional strings>: if t is None: continue; acc.append(f(t))   ->   acc += [f(t) for the present entries]
            call = st.body[1].value
            out.append(ast.AugAssign(target=ast.Name(id=call.func.value.id, ctx=ast.Store()), op=ast.Add(),
                                     value=ast.Call(func=ast.Name(id='__somes_map__', ctx=ast.Load()), args=[ast.Name(id=st.target.id, ctx=ast.Load()), call.args[0], st.iter], keywords=[])))
        elif isinstance(st, ast.Expr) and isinstance(st.value, ast.Constant) and isinstance(st.value.value, str):
            pass    # docstring / bare string
        else:
            out.append(st)
    return out


def _assigned(stmts):
    """names assigned by a block made of assignments and nested assign-only ifs (None when the block has anything else)"""
    names = []
    for st in stmts:
        if isinstance(st, (ast.Assign, ast.AugAssign)):
            t = st.targets[0] if isinstance(st, ast.Assign) else st.target
            if not isinstance(t, ast.Name) or (isinstance(st, ast.Assign) and len(st.targets) != 1):
                return None
            if t.id not in names:
                names.append(t.id)
        elif isinstance(st, ast.If):
            for sub in (_assigned(st.body), _assigned(st.orelse)):
                if sub is None:
                    return None
                names += [x for x in sub if x not in names]
        else:
            return None
    return names


def _returns(stmts):
    """every path through the block ends in `return`"""
    if not stmts:
        return False
    last = stmts[-1]
    if isinstance(last, ast.Return):
        return True
    return isinstance(last, ast.If) and _returns(last.body) and _returns(last.orelse)


def _tblock(stmts, env, result):
    if not stmts:
        return result(env)
    st, rest = stmts[0], stmts[1:]
    if isinstance(st, ast.Return):
        need(st.value is not None, 'kernel: bare return')
        return _texpr(st.value, env)
    if isinstance(st, (ast.Assign, ast.AugAssign)):
        tgt = st.targets[0] if isinstance(st, ast.Assign) else st.target
        need(isinstance(tgt, ast.Name) and (isinstance(st, ast.AugAssign) or len(st.targets) == 1), 'kernel: assignment target')
        val = st.value if isinstance(st, ast.Assign) else ast.BinOp(left=ast.Name(id=tgt.id, ctx=ast.Load()), op=st.op, right=st.value)
        e, t = _texpr(val, env)
        v = 'v_%s_%d' % (tgt.id, len(env))
        env2 = dict(env); env2[tgt.id] = (v, t)
        b, tb = _tblock(rest, env2, result)
        return ('(let %s := %s in %s)' % (v, e, b), tb)
    if isinstance(st, ast.If):
        c, tc = _texpr(st.test, env)
        need(tc == 'bool', 'kernel: if on %s' % tc)
        if _returns(st.body):
            a, ta = _tblock(st.body, env, result)
            b, tb = _tblock((st.orelse or []) + rest, env, result)
            need(ta == tb, 'kernel: branches of different types %s / %s' % (ta, tb))
            return ('(if %s then %s else %s)' % (c, a, b), ta)
        if any(isinstance(x, ast.Return) for x in ast.walk(st)):
            # some path through the if returns: the statements after the if are the continuation of both branches
            a, ta = _tblock(list(st.body) + rest, env, result)
            b, tb = _tblock(list(st.orelse or []) + rest, env, result)
            need(ta == tb, 'kernel: branches of different types %s / %s' % (ta, tb))
            return ('(if %s then %s else %s)' % (c, a, b), ta)
        names = _assigned([st])
        need(names is not None and names, 'kernel: if-block with statements other than assignments')
        # a variable first assigned inside the if is local to its branch (a later use outside fails as an unknown name) - unless both branches assign it
        def definite(stmts):
            d = set()
            for x in stmts:
                if isinstance(x, (ast.Assign, ast.AugAssign)):
                    t = x.targets[0] if isinstance(x, ast.Assign) else x.target
                    d.add(t.id)
                elif isinstance(x, ast.If):
                    d |= definite(x.body) & definite(x.orelse)
            return d
        both = definite(st.body) & definite(st.orelse)
        names = [nm for nm in names if nm in env or nm in both]
        need(names, 'kernel: if-block that changes no variable of the enclosing block')
        seen_ty = {}

        def probe(e):
            for nm in names:
                seen_ty[nm] = e[nm][1]
            return ('tt', 'unit')
        _tblock(st.body, env, probe)
        tys = [env[nm][1] if nm in env else seen_ty[nm] for nm in names]
        tup = lambda e: (e[names[0]][0] if len(names) == 1 else '(' + ', '.join(e[nm][0] for nm in names) + ')', '*'.join(tys))

        def branch(body):
            def res(e):
                need(all(e[nm][1] == ty for nm, ty in zip(names, tys)), 'kernel: a variable has different types in the branches of an if')
                return tup(e)
            return _tblock(body, env, res)[0]
        fresh = ['v_%s_%d' % (nm, len(env)) for nm in names]
        env2 = dict(env)
        for nm, f, t in zip(names, fresh, tys):
            env2[nm] = (f, t)
        pat = fresh[0] if len(names) == 1 else "'(" + ', '.join(fresh) + ')'
        b, tb = _tblock(rest, env2, result)
        return ('(let %s := (if %s then %s else %s) in %s)' % (pat, c, branch(st.body), branch(st.orelse), b), tb)
    need(False, 'kernel: statement %s' % type(st).__name__)


def kernel(name, params, stmts, inputs=None, result=None):
    """`Definition <name> (p : T)... : R := ...` for the statements; params = [(python name, type)], inputs = {source text: (Coq term, type)},
    result = name of the variable (or tuple of names) yielded when the block falls through."""
    env = {p: (p, t) for p, t in params}
    env.update(inputs or {})
    if result is None:
        res = lambda e: need(False, 'kernel %s falls through without a result' % name)
    elif isinstance(result, str):
        res = lambda e: e[result]
    else:
        res = lambda e: ('(' + ', '.join(e[r][0] for r in result) + ')', ' * '.join(e[r][1] for r in result))
    body, ty = _tblock(_norm_stmts(list(stmts)), env, res)
    args = ' '.join('(%s : %s)' % (p, t) for p, t in params)
    return 'Definition %s %s : %s := %s.' % (name, args, ty.replace('*', ' * ') if '*' in ty and ' * ' not in ty else ty, body)


def main(out_path):
    from ssh_audit.ssh2_kexdb import SSH2_KexDB
    from ssh_audit.ssh1_kexdb import SSH1_KexDB
    from ssh_audit.builtin_policies import BUILTIN_POLICIES
    from ssh_audit.hostkeytest import HostKeyTest
    from ssh_audit.dheat import DHEat
    from ssh_audit.ssh1 import SSH1
    from ssh_audit import exitcodes
    from ssh_audit.protocol import Protocol
    from ssh_audit.product import Product
    from ssh_audit.globals import SSH_HEADER

    o = []
    w = o.append
    w('(* GENERATED by harness/translate.py from the working tree of the repository under check -- do not edit. *)')
    w('From VModel Require Import Base.')
    w('Open Scope string_scope. Open Scope list_scope. Open Scope Z_scope.')
    w('Definition rawdb := list (string * list (string * list (list (option string)))).')
    w('Definition ssh2_db : rawdb := ' + dump_db(SSH2_KexDB.MASTER_DB) + '.')
    w('Definition ssh1_db : rawdb := ' + dump_db(SSH1_KexDB.MASTER_DB) + '.')

    # string constants of the two DB classes
    for cls, pre in ((SSH2_KexDB, 'k2_'), (SSH1_KexDB, 'k1_')):
        for k, v in sorted(vars(cls).items()):
            if k.isupper() and isinstance(v, str) and k.split('_')[0] in ('FAIL', 'WARN', 'INFO', 'TEXT'):
                w('Definition %s%s : string := %s.' % (pre, k, cstr(v)))
    need(isinstance(SSH2_KexDB.FAIL_UNKNOWN, str), 'FAIL_UNKNOWN')

    # built-in policies
    fields = ['version', 'changelog', 'banner', 'compressions', 'host_keys', 'optional_host_keys', 'kex', 'ciphers', 'macs', 'hostkey_sizes', 'dh_modulus_sizes', 'server_policy']
    pols = []
    for name, p in BUILTIN_POLICIES.items():
        need(isinstance(name, str) and isinstance(p, dict), 'policy shape')
        need(set(p.keys()) == set(fields), 'policy %r has fields %r' % (name, sorted(p.keys())))
        def optlist(x):
            need(x is None or (isinstance(x, list) and all(isinstance(i, str) for i in x)), 'policy list field')
            return copt(x, cstrs)
        hks = p['hostkey_sizes']
        need(hks is None or isinstance(hks, dict), 'hostkey_sizes')
        hk_l = None
        if hks is not None:
            hk_l = []
            for t, d in hks.items():
                need(set(d.keys()) <= {'hostkey_size', 'ca_key_type', 'ca_key_size'} and 'hostkey_size' in d, 'hostkey_sizes entry %r' % (d,))
                hk_l.append('(%s, %s, %s, %s)' % (cstr(t), cz(d['hostkey_size']), cstr(d.get('ca_key_type', '')), cz(d.get('ca_key_size', 0))))
        dh = p['dh_modulus_sizes']
        need(dh is None or isinstance(dh, dict), 'dh_modulus_sizes')
        dh_l = None if dh is None else [cpair(cstr(k), cz(v)) for k, v in dh.items()]
        need(isinstance(p['version'], str) and isinstance(p['server_policy'], bool), 'policy scalars')
        pols.append('  (%s, (%s, %s, (%s, %s, %s, %s, %s, %s, %s, %s, %s)))' % (
            cstr(name), cstr(p['version']), cbool(p['server_policy']),
            copt(p['banner'], cstr), optlist(p['compressions']), optlist(p['host_keys']), optlist(p['optional_host_keys']),
            optlist(p['kex']), optlist(p['ciphers']), optlist(p['macs']),
            'None' if hk_l is None else '(Some [' + '; '.join(hk_l) + '])',
            'None' if dh_l is None else '(Some [' + '; '.join(dh_l) + '])'))
    w('Definition rawpolicy := (string * (string * bool * (option string * option (list string) * option (list string) * option (list string) * option (list string) * option (list string) * option (list string) * option (list (string * Z * string * Z)) * option (list (string * Z)))))%type.')
    w('Definition builtin_policies : list rawpolicy := [\n' + ';\n'.join(pols) + '].')

    # host key probe table
    hk = []
    for t, d in HostKeyTest.HOST_KEY_TYPES.items():
        need(set(d.keys()) == {'cert', 'variable_key_len'}, 'HOST_KEY_TYPES entry')
        hk.append('(%s, %s, %s)' % (cstr(t), cbool(d['cert']), cbool(d['variable_key_len'])))
    w('Definition host_key_types : list (string * bool * bool) := [' + '; '.join(hk) + '].')
    w('Definition rsa_family : list string := ' + cstrs(HostKeyTest.RSA_FAMILY) + '.')
    w('Definition hk_two2k_warning : string := ' + cstr(HostKeyTest.TWO2K_MODULUS_WARNING) + '.')
    w('Definition hk_small_ecc_warning : string := ' + cstr(HostKeyTest.SMALL_ECC_MODULUS_WARNING) + '.')

    # DHEat tables
    w('Definition dheat_gex_algs : list string := ' + cstrs(DHEat.gex_algs) + '.')
    w('Definition dheat_alg_priority : list string := ' + cstrs(DHEat.alg_priority) + '.')
    w('Definition dheat_alg_modulus_sizes : list (string * Z) := ' + clist(DHEat.alg_modulus_sizes.items(), lambda kv: cpair(cstr(kv[0]), cz(kv[1]))) + '.')
    w('Definition dheat_tested_algs : list string := ' + cstrs(DHEat.tested_algs) + '.')
    need(isinstance(DHEat.MAX_SAFE_RATE, float) and DHEat.MAX_SAFE_RATE == int(DHEat.MAX_SAFE_RATE), 'MAX_SAFE_RATE')
    w('Definition dheat_max_safe_rate : Z := ' + cz(int(DHEat.MAX_SAFE_RATE)) + '.')

    # SSH1 tables
    w('Definition ssh1_ciphers : list string := ' + cstrs(SSH1.CIPHERS) + '.')
    w('Definition ssh1_auths : list string := ' + cstrs(SSH1.AUTHS) + '.')
    # the CRC-32 table SSH1_CRC32.__init__ builds at run time (C10 proves it equal to the bit-serial model table)
    from ssh_audit.ssh1_crc32 import SSH1_CRC32
    tbl = SSH1_CRC32()._table  # pylint: disable=protected-access
    need(isinstance(tbl, list) and len(tbl) == 256 and all(isinstance(x, int) and 0 <= x < 2 ** 32 for x in tbl), 'SSH1_CRC32._table shape')
    w('Definition py_crc_table : list Z := [' + '; '.join(str(x) for x in tbl) + '].')

    # exit codes, protocol numbers, products
    for k in ('FAILURE', 'WARNING', 'CONNECTION_ERROR', 'GOOD', 'UNKNOWN_ERROR'):
        w('Definition exit_%s : Z := %s.' % (k, cz(getattr(exitcodes, k))))
    for k, v in sorted(vars(Protocol).items()):
        if k.isupper() and isinstance(v, int):
            w('Definition proto_%s : Z := %s.' % (k, cz(v)))
    for k, v in sorted(vars(Product).items()):
        if not k.startswith('_') and isinstance(v, str):
            w('Definition product_%s : string := %s.' % (k, cstr(v)))
    w('Definition ssh_header_fmt : string := ' + cstr(SSH_HEADER) + '.')

    # ---- literals inside functions (ast patterns, fail-closed) ----
    t_main = ast.parse(src('ssh_audit.py'))
    # Each of the following extractions is needed to BUILD the models (they are definitions the models use).  When the source no longer has the expected shape the
    # definition falls back to the value it had when this framework was written - so that the other properties' models still build and their checks are not
    # disturbed - and extract_ok_<name> becomes false, which the tie file of the owning property requires to be true (only that property's check then fails).
    early_failures = []

    class guarded:
        def __init__(self, name, props, fallback):
            self.name, self.props, self.fallback = name, props, fallback

        def __enter__(self):
            self.mark = len(o)

        def __exit__(self, et, ev, tb):
            if et is not None and issubclass(et, (TranslateError, AttributeError, IndexError, KeyError, TypeError, ValueError)):
                del o[self.mark:]
                w('(* EXTRACTION FAILED (%s): %s -- fallback values follow; the tie lemma extract_ok of %s cannot be proved *)' % (self.name, str(ev).replace('*)', '* )')[:300], ', '.join(self.props)))
                for ln in self.fallback:
                    w(ln)
                w('Definition extract_ok_%s : bool := false.' % self.name)
                early_failures.append({'what': self.name, 'properties': self.props, 'reason': '%s: %s' % (et.__name__, str(ev)[:300])})
                return True
            if et is None:
                w('Definition extract_ok_%s : bool := true.' % self.name)
            return False

    with guarded('ranked_return_codes', ['C08'], ['Definition ranked_return_codes : list Z := [exit_GOOD; exit_WARNING; exit_FAILURE; exit_CONNECTION_ERROR; exit_UNKNOWN_ERROR].']):
        # ranked_return_codes = [exitcodes.GOOD, ...]
        found = []
        for n in ast.walk(func_node(t_main, 'main')):
            if isinstance(n, ast.Assign) and len(n.targets) == 1 and isinstance(n.targets[0], ast.Name) and n.targets[0].id == 'ranked_return_codes':
                need(isinstance(n.value, ast.List), 'ranked_return_codes not a list')
                names = []
                for e in n.value.elts:
                    need(isinstance(e, ast.Attribute) and isinstance(e.value, ast.Name) and e.value.id == 'exitcodes', 'ranked_return_codes element')
                    names.append(e.attr)
                found.append(names)
        need(len(found) == 1, 'ranked_return_codes pattern')
        w('Definition ranked_return_codes : list Z := [' + '; '.join('exit_' + x for x in found[0]) + '].')

    with guarded('rate_check_arguments', ['C19'], ['Definition rate_max_time_ms : Z := 1500.', 'Definition rate_max_connections : Z := 38.', 'Definition rate_concurrent_sockets : Z := 3.']):
        # audit(): DHEat.dh_rate_test(out, aconf, kex, 1.5, 38, 3)
        found = []
        for n in ast.walk(func_node(t_main, 'audit')):
            if isinstance(n, ast.Call) and isinstance(n.func, ast.Attribute) and n.func.attr == 'dh_rate_test' and len(n.args) == 6:
                found.append([lit(a) for a in n.args[3:]])
        need(len(found) == 2, 'dh_rate_test call sites: %r' % (found,))
        std = [f for f in found if f != [0, 0, 0]]
        need(len(std) == 1, 'standard dh_rate_test call')
        mt, mc, cs = std[0]
        need(isinstance(mc, int) and isinstance(cs, int), 'rate test ints')
        w('Definition rate_max_time_ms : Z := %s.' % cz(int(round(mt * 1000))))
        w('Definition rate_max_connections : Z := %s.' % cz(mc))
        w('Definition rate_concurrent_sockets : Z := %s.' % cz(cs))

    with guarded('recommendation_lists', ['C13'], ['Definition rec_chg_names : list string := ["diffie-hellman-group-exchange-sha256"; "rsa-sha2-256"; "rsa-sha2-512"; "rsa-sha2-256-cert-v01@openssh.com"; "rsa-sha2-512-cert-v01@openssh.com"].', 'Definition rec_vproducts : list string := [product_OpenSSH; product_DropbearSSH; product_LibSSH; product_TinySSH].']):
        # algorithms.py: chg list, vproducts
        t_algs = ast.parse(src('algorithms.py'))
        chg = []
        for n in ast.walk(func_node(t_algs, 'get_recommendations')):
            if isinstance(n, ast.Compare) and len(n.ops) == 1 and isinstance(n.ops[0], ast.In) and isinstance(n.left, ast.Name) and n.left.id == 'n' and isinstance(n.comparators[0], ast.List):
                chg.append(lit(n.comparators[0]))
        need(len(chg) == 1, 'chg-list pattern')
        w('Definition rec_chg_names : list string := ' + cstrs(chg[0]) + '.')
        vp = []
        for n in ast.walk(func_node(t_algs, 'get_recommendations')):
            if isinstance(n, ast.Assign) and isinstance(n.targets[0], ast.Name) and n.targets[0].id == 'vproducts':
                need(isinstance(n.value, ast.List), 'vproducts')
                for e in n.value.elts:
                    need(isinstance(e, ast.Attribute) and e.value.id == 'Product', 'vproducts elt')
                    vp.append(e.attr)
        need(len(vp) >= 1, 'vproducts pattern')
        w('Definition rec_vproducts : list string := [' + '; '.join('product_' + x for x in vp) + '].')

    with guarded('gex_probe_constants', ['C12'], ['Definition gex_first_probe : (Z * Z * Z) := (512, 1024, 1536).', 'Definition gex_second_pass : (Z * Z * Z) := (2048, 3072, 4096).', 'Definition gex_probe_sizes : list Z := [512; 768; 1024; 1536; 2048; 3072; 4096].', 'Definition gex_algs : list string := ["diffie-hellman-group-exchange-sha1"; "diffie-hellman-group-exchange-sha256"].', 'Definition gex_fail_below : Z := 2048. Definition gex_warn_below : Z := 3072. Definition gex_openssh_trigger : Z := 2048.']):
        # gextest.py run(): first probe (512,1024,1536), the list, second pass (2048,3072,4096), GEX_ALGS keys
        t_gex = ast.parse(src('gextest.py'))
        run = func_node(t_gex, 'GEXTest.run')
        sends = []
        for n in ast.walk(run):
            if isinstance(n, ast.Call) and isinstance(n.func, ast.Attribute) and n.func.attr == '_send_init':
                sends.append(n.args[5:8])
        need(len(sends) == 3, 'gextest _send_init sites')
        lits = []
        for a in sends:
            try:
                lits.append([ast.literal_eval(x) for x in a])
            except Exception:
                lits.append(None)
        consts = [x for x in lits if x is not None]
        need(len(consts) == 2 and lits[1] is None, 'gextest _send_init literal sites: %r' % (lits,))
        w('Definition gex_first_probe : (Z * Z * Z) := (%s, %s, %s).' % tuple(cz(x) for x in consts[0]))
        w('Definition gex_second_pass : (Z * Z * Z) := (%s, %s, %s).' % tuple(cz(x) for x in consts[1]))
        loops = [n for n in ast.walk(run) if isinstance(n, ast.For) and isinstance(n.target, ast.Name) and n.target.id == 'bits']
        need(len(loops) == 1 and isinstance(loops[0].iter, ast.List), 'gextest bits loop')
        w('Definition gex_probe_sizes : list Z := ' + clist(lit(loops[0].iter), cz) + '.')
        gk = []
        for n in ast.walk(run):
            if isinstance(n, ast.Assign) and isinstance(n.targets[0], ast.Name) and n.targets[0].id == 'GEX_ALGS':
                need(isinstance(n.value, ast.Dict), 'GEX_ALGS')
                gk.append([lit(k) for k in n.value.keys])
        need(len(gk) == 1, 'GEX_ALGS pattern')
        w('Definition gex_algs : list string := ' + cstrs(gk[0]) + '.')
        # thresholds in gextest.run: `smallest_modulus < 2048`, `< 3072`, `== 2048`
        cmps = []
        for n in ast.walk(run):
            if isinstance(n, ast.Compare) and isinstance(n.left, ast.Name) and n.left.id == 'smallest_modulus' and len(n.ops) == 1 and isinstance(n.comparators[0], ast.Constant):
                cmps.append((type(n.ops[0]).__name__, n.comparators[0].value))
        need(sorted(cmps) == sorted([('Eq', 2048), ('Gt', 0), ('NotEq', 2048), ('Gt', 0), ('Lt', 2048), ('Lt', 3072)]), 'gextest thresholds: %r' % (cmps,))
        w('Definition gex_fail_below : Z := 2048. Definition gex_warn_below : Z := 3072. Definition gex_openssh_trigger : Z := 2048.')

    with guarded('hostkey_probe_constants', ['C11'], ['Definition hk_kex_to_group : list (string * string) := [("diffie-hellman-group1-sha1", "KexGroup1"); ("diffie-hellman-group14-sha1", "KexGroup14_SHA1"); ("diffie-hellman-group14-sha256", "KexGroup14_SHA256"); ("curve25519-sha256", "KexCurve25519_SHA256"); ("curve25519-sha256@libssh.org", "KexCurve25519_SHA256"); ("diffie-hellman-group16-sha512", "KexGroup16_SHA512"); ("diffie-hellman-group18-sha512", "KexGroup18_SHA512"); ("diffie-hellman-group-exchange-sha1", "KexGroupExchange_SHA1"); ("diffie-hellman-group-exchange-sha256", "KexGroupExchange_SHA256"); ("ecdh-sha2-nistp256", "KexNISTP256"); ("ecdh-sha2-nistp384", "KexNISTP384"); ("ecdh-sha2-nistp521", "KexNISTP521")].', 'Definition hk_min_good_rsa : Z := 3072. Definition hk_min_warn_rsa : Z := 2048. Definition hk_min_good_ecc : Z := 256. Definition hk_min_warn_ecc : Z := 224.']):
        # hostkeytest.py: KEX_TO_DHGROUP keys; thresholds
        t_hk = ast.parse(src('hostkeytest.py'))
        kk = []
        for n in ast.walk(func_node(t_hk, 'HostKeyTest.run')):
            if isinstance(n, ast.Assign) and isinstance(n.targets[0], ast.Name) and n.targets[0].id == 'KEX_TO_DHGROUP':
                kk.append([(lit(k), v.id) for k, v in zip(n.value.keys, n.value.values)])
        need(len(kk) == 1, 'KEX_TO_DHGROUP pattern')
        w('Definition hk_kex_to_group : list (string * string) := ' + clist(kk[0], lambda kv: cpair(cstr(kv[0]), cstr(kv[1]))) + '.')
        pt = func_node(t_hk, 'HostKeyTest.perform_test')
        th = {}
        for n in ast.walk(pt):
            if isinstance(n, ast.Assign) and isinstance(n.value, ast.Constant) and isinstance(n.value.value, int):
                for t in n.targets:
                    if isinstance(t, ast.Name):
                        th.setdefault(t.id, []).append(n.value.value)
        for k, exp in (('hostkey_min_good', [3072, 256]), ('cakey_min_good', [3072, 256]), ('hostkey_min_warn', [2048, 224]), ('cakey_min_warn', [2048, 224])):
            need(th.get(k) == exp, 'hostkeytest threshold %s = %r' % (k, th.get(k)))
        w('Definition hk_min_good_rsa : Z := 3072. Definition hk_min_warn_rsa : Z := 2048. Definition hk_min_good_ecc : Z := 256. Definition hk_min_warn_ecc : Z := 224.')

    with guarded('send_kexinit_defaults', ['C19'], ['Definition kexinit_default_key_exchanges : list string := ["curve25519-sha256"; "curve25519-sha256@libssh.org"; "ecdh-sha2-nistp256"; "ecdh-sha2-nistp384"; "ecdh-sha2-nistp521"; "diffie-hellman-group-exchange-sha256"; "diffie-hellman-group16-sha512"; "diffie-hellman-group18-sha512"; "diffie-hellman-group14-sha256"].', 'Definition kexinit_default_hostkeys : list string := ["rsa-sha2-512"; "rsa-sha2-256"; "ssh-rsa"; "ecdsa-sha2-nistp256"; "ssh-ed25519"].', 'Definition kexinit_default_ciphers : list string := ["chacha20-poly1305@openssh.com"; "aes128-ctr"; "aes192-ctr"; "aes256-ctr"; "aes128-gcm@openssh.com"; "aes256-gcm@openssh.com"].', 'Definition kexinit_default_macs : list string := ["umac-64-etm@openssh.com"; "umac-128-etm@openssh.com"; "hmac-sha2-256-etm@openssh.com"; "hmac-sha2-512-etm@openssh.com"; "hmac-sha1-etm@openssh.com"; "umac-64@openssh.com"; "umac-128@openssh.com"; "hmac-sha2-256"; "hmac-sha2-512"; "hmac-sha1"].', 'Definition kexinit_default_compressions : list string := ["none"; "zlib@openssh.com"].', 'Definition kexinit_default_languages : list string := [""].']):
        # ssh_socket.send_kexinit defaults
        t_sock = ast.parse(src('ssh_socket.py'))
        sk = func_node(t_sock, 'SSH_Socket.send_kexinit')
        names = [a.arg for a in sk.args.args][1:]
        defs = [lit(d) for d in sk.args.defaults]
        need(names == ['key_exchanges', 'hostkeys', 'ciphers', 'macs', 'compressions', 'languages'] and len(defs) == 6, 'send_kexinit signature')
        for nme, d in zip(names, defs):
            w('Definition kexinit_default_%s : list string := %s.' % (nme, cstrs(d)))

    with guarded('terrapin_texts', ['C04'], ['Definition terrapin_warning : string := "vulnerable to the Terrapin attack (CVE-2023-48795), allowing message prefix truncation".', 'Definition openssh_2048_note : string := "A bug in OpenSSH causes it to fall back to a 2048-bit modulus regardless of server configuration (https://bugzilla.mindrot.org/show_bug.cgi?id=2793)".']):
        # ssh_audit.post_process_findings: marker names and the terrapin text
        pp = func_node(t_main, 'post_process_findings')
        strs = sorted({n.value for n in ast.walk(pp) if isinstance(n, ast.Constant) and isinstance(n.value, str)})
        PP_LITERALS = ('kex-strict-c-v00@openssh.com', 'kex-strict-s-v00@openssh.com', 'chacha20-poly1305', '-cbc', '-cbc@openssh.org', '-cbc@ssh.com', 'rijndael-cbc@lysator.liu.se', 'des-cbc-ssh1', '-etm@openssh.com')
        tw = [s for s in strs if s.startswith('vulnerable to the Terrapin attack')]
        need(len(tw) == 1, 'terrapin warning text')
        w('Definition terrapin_warning : string := ' + cstr(tw[0]) + '.')
        gn = [s for s in strs if s.startswith('A bug in OpenSSH causes it to fall back')]
        need(len(gn) == 1, 'openssh 2048 note text')
        w('Definition openssh_2048_note : string := ' + cstr(gn[0]) + '.')

    # ---- literals and integer kernels that the hand-written models repeat; proofs/TieCnn.v proves each copy equal to what is emitted here.
    # These extractions are SOFT: when the source no longer has the expected shape, the definition is left out (with a comment saying why) and
    # only the tie file of the property concerned stops compiling - the other properties' checks are not affected by that rewrite.
    soft_failures = []

    def soft(what, props, fn):
        mark = len(o)
        try:
            fn()
        except (TranslateError, NameError, AttributeError, IndexError, KeyError, TypeError) as e:     # NameError: an earlier (guarded) extraction this one builds on has failed
            del o[mark:]
            w('(* NOT EXTRACTED (%s): %s -- the tie lemmas of %s cannot be checked *)' % (what, str(e).replace('*)', '* )')[:300], ', '.join(props)))
            soft_failures.append({'what': what, 'properties': props, 'reason': str(e)[:300]})

    def ex_markers():
        for s_ in PP_LITERALS:      # (soft: a rewrite of these literals concerns the Terrapin rule only)
            need(s_ in strs, 'post_process_findings lost the literal %r' % s_)
        mk = sorted(x for x in strs if x.startswith('kex-strict-') and x.endswith('@openssh.com'))
        need(len(mk) == 2, 'post_process_findings marker names: %r' % (mk,))
        w('Definition src_pp_markers : list string := ' + cstrs(mk) + '.')
        adv = [x for x in strs if x.startswith('Be aware that, while this target properly supports the strict key exchange method')]
        need(len(adv) == 1 and adv[0].count('%s') == 1, 'terrapin advisory note template')
        w('Definition src_advisory_prefix : string := ' + cstr(adv[0].split('%s')[0]) + '.')
        w('Definition src_advisory_suffix : string := ' + cstr(adv[0].split('%s')[1]) + '.')
    soft('Terrapin marker names and advisory template (post_process_findings)', ['C04'], ex_markers)

    def ex_policy_markers():
        t_pol = ast.parse(src('policy.py'))
        ev = func_node(t_pol, 'Policy.evaluate')
        pmk = sorted({n.value for n in ast.walk(ev) if isinstance(n, ast.Constant) and isinstance(n.value, str) and n.value.startswith('kex-strict-')})
        need(len(pmk) == 2, 'Policy.evaluate marker names: %r' % (pmk,))
        w('Definition src_policy_markers : list string := ' + cstrs(pmk) + '.')
    soft('strict-KEX marker names (Policy.evaluate)', ['C06'], ex_policy_markers)

    def ex_mismatch():
        au = func_node(t_main, 'audit')
        mm = [c.comparators[0].value for c in ast.walk(au) if isinstance(c, ast.Compare) and isinstance(c.left, ast.Name) and c.left.id == 'payload_txt'
              and len(c.ops) == 1 and isinstance(c.ops[0], ast.Eq) and isinstance(c.comparators[0], ast.Constant) and isinstance(c.comparators[0].value, str)]
        need(len(mm) == 1, 'audit(): comparison of payload_txt with the protocol mismatch text: %r' % (mm,))
        w('Definition src_protocol_mismatch_text : string := ' + cstr(mm[0]) + '.')
    soft('protocol mismatch text (audit)', ['C09'], ex_mismatch)

    def ex_chg():
        gr = func_node(t_main, 'get_algorithm_recommendations')
        cn = sorted({n.value for n in ast.walk(gr) if isinstance(n, ast.Constant) and isinstance(n.value, str) and n.value.startswith('increase modulus size')})
        need(len(cn) == 1, 'change recommendation note: %r' % (cn,))
        w('Definition src_chg_note : string := ' + cstr(cn[0]) + '.')
    soft('change recommendation note (get_algorithm_recommendations)', ['C13'], ex_chg)

    def ex_unknown():
        oa = func_node(t_main, 'output_algorithm')
        ua = sorted({n.value for n in ast.walk(oa) if isinstance(n, ast.Constant) and isinstance(n.value, str) and 'unknown algorithm' in n.value})
        need(ua == ['unknown algorithm'], 'output_algorithm unknown text: %r' % (ua,))
        w('Definition src_unknown_text : string := ' + cstr(ua[0]) + '.')
    soft('unknown-algorithm text (output_algorithm)', ['C03'], ex_unknown)

    def ex_multi():
        # main(): what the multi-target loop itself prints (brackets, separator, delimiter line)
        mn = func_node(t_main, 'main')
        prints = [n for n in ast.walk(mn) if isinstance(n, ast.Call) and isinstance(n.func, ast.Name) and n.func.id == 'print']
        consts = sorted(n.args[0].value for n in prints if n.args and isinstance(n.args[0], ast.Constant) and isinstance(n.args[0].value, str))
        need(consts == [', ', '[', ']'], 'main(): constant print() arguments %r' % (consts,))
        dl = [n.args[0] for n in prints if n.args and isinstance(n.args[0], ast.BinOp) and isinstance(n.args[0].op, ast.Add)]
        need(len(dl) == 1 and isinstance(dl[0].left, ast.BinOp) and isinstance(dl[0].left.op, ast.Mult) and lit(dl[0].left.left) == '-' and isinstance(lit(dl[0].left.right), int)
             and lit(dl[0].right) == '\n', 'main(): delimiter print')
        w('Definition src_multi_delim_char : string := ' + cstr(lit(dl[0].left.left)) + '. Definition src_multi_delim_count : nat := %d%%nat.' % lit(dl[0].left.right))
        w('Definition src_multi_json_open : string := %s. Definition src_multi_json_sep : string := %s. Definition src_multi_json_close : string := %s.' % (cstr(consts[1]), cstr(consts[0]), cstr(consts[2])))
    soft('multi-target delimiter and JSON brackets (main)', ['C08'], ex_multi)

    # integer kernels, translated statement by statement from the current source
    def ex_adjust():
        t_kexdh = ast.parse(src('kexdh.py'))
        adj = func_node(t_kexdh, 'KexDH.__adjust_key_size')
        need([a.arg for a in adj.args.args] == ['size'], '__adjust_key_size signature')
        w(int_kernel('src_adjust_key_size', ['size'], adj.body))
    soft('KexDH.__adjust_key_size', ['C11'], ex_adjust)

    def ex_framing():
        sp = func_node(t_sock, 'SSH_Socket.send_packet')
        # statements between `payload = self.write_flush()` and the first use of struct.pack: the padding and length computation
        seg = []
        for st in sp.body[1:]:
            if isinstance(st, ast.Assign) and isinstance(st.targets[0], ast.Name) and st.targets[0].id in ('pad_bytes', 'data'):
                break
            seg.append(st)
        need(len(seg) >= 2 and isinstance(sp.body[0], ast.Assign) and sp.body[0].targets[0].id == 'payload', 'send_packet shape')
        w(int_kernel('src_send_packet_padding', ['n'], seg, inputs={'len(payload)': 'n'}, result=lambda e: e['padding']))
        w(int_kernel('src_send_packet_length', ['n'], seg, inputs={'len(payload)': 'n'}, result=lambda e: e['plen']))
        rp = func_node(t_sock, 'SSH_Socket.read_packet')
        asg = lambda name: [st for st in ast.walk(rp) if isinstance(st, ast.Assign) and isinstance(st.targets[0], ast.Name) and st.targets[0].id == name and isinstance(st.value, ast.BinOp)]
        s1 = asg('padding_length')
        need(len(s1) == 1, 'read_packet: SSH-1 padding_length computation')
        w(int_kernel('src_ssh1_padding_length', ['packet_length'], [ast.Return(value=s1[0].value)]))
        pl = asg('payload_length')
        need(len(pl) == 1, 'read_packet: SSH-2 payload_length computation')
        w(int_kernel('src_ssh2_payload_length', ['packet_length', 'padding_length'], [ast.Return(value=pl[0].value)]))
        cs = asg('check_size')
        need(len(cs) == 2, 'read_packet: check_size computations')
        w(int_kernel('src_ssh1_check_size', ['padding_length', 'payload_length'], [ast.Return(value=cs[0].value)]))
        w(int_kernel('src_ssh2_check_size', ['payload_length', 'padding_length'], [ast.Return(value=cs[1].value)]))
        init = func_node(t_sock, 'SSH_Socket.__init__')
        bs = [st.value.value for st in ast.walk(init) if isinstance(st, ast.Assign) and isinstance(st.targets[0], ast.Attribute) and st.targets[0].attr.endswith('block_size') and isinstance(st.value, ast.Constant)]
        need(len(bs) == 1 and isinstance(bs[0], int), 'SSH_Socket block size')
        w('Definition src_block_size : Z := %d.' % bs[0])
    soft('packet framing arithmetic (SSH_Socket.send_packet / read_packet)', ['C10'], ex_framing)

    def ex_dheat_padding():
        # dheat.py has its own packet builder; its padding rule is the one of send_packet
        t_dh = ast.parse(src('dheat.py'))
        gp = func_node(t_dh, 'DHEat.get_padding')
        body = [st for st in gp.body if not (isinstance(st, ast.Expr) and isinstance(st.value, ast.Constant))]
        need(len(body) == 4 and isinstance(body[0], ast.Assign) and isinstance(body[1], ast.If) and ast.unparse(body[2]) in ("padding = b'\\x00' * pad_len",) and ast.unparse(body[3]) == 'return (pad_len, padding)',
             'DHEat.get_padding: padding length, adjustment, THEN the padding bytes of that length: %r' % ([ast.unparse(x)[:50] for x in body],))
        w(int_kernel('src_dheat_padding', ['n'], body[:2], inputs={'len(payload)': 'n'}, result=lambda e: e['pad_len']))
    soft('padding rule of the second packet builder (DHEat.get_padding)', ['C10'], ex_dheat_padding)

    def ex_ports():
        # every place that validates a port number: `if <name> < 1 or <name> > 65535:`
        sites = [('auditconf.py', 'AuditConf.__setattr__'), ('ssh_audit.py', 'process_commandline'), ('ssh_socket.py', 'SSH_Socket.__init__')]
        k = 0
        for fn, qn in sites:
            fnode = func_node(ast.parse(src(fn)), qn)
            tests = [n.test for n in ast.walk(fnode) if isinstance(n, ast.If) and any(isinstance(c, ast.Constant) and c.value == 65535 for c in ast.walk(n.test))]
            need(len(tests) >= 1, 'port range test in %s' % qn)
            for t in tests:
                names = sorted({x.id for x in ast.walk(t) if isinstance(x, ast.Name)})
                need(len(names) == 1, 'port range test over one variable in %s: %r' % (qn, names))
                w('Definition src_port_invalid_%d (p : Z) : bool := %s.   (* %s: %s *)' % (k, _zbool(t, {names[0]: 'p'}), qn, ast.unparse(t)))
                k += 1
        w('Definition src_port_invalid_all (p : Z) : list bool := [%s].' % '; '.join('src_port_invalid_%d p' % i for i in range(k)))
    soft('port range tests (AuditConf, process_commandline, SSH_Socket)', ['C18'], ex_ports)
    # ---- T1c kernels: decision logic translated from the source (strings, booleans, lists) ----
    for ln in T1C_PRELUDE:
        w(ln)

    def ex_status_step():
        # output_algorithm(): `for level, text in texts:` - the first statement of the body updates program_retval from the note's level
        oa = func_node(t_main, 'output_algorithm')
        loops = [n for n in ast.walk(oa) if isinstance(n, ast.For) and isinstance(n.target, ast.Tuple) and [getattr(e, 'id', None) for e in n.target.elts] == ['level', 'text']]
        need(len(loops) == 1 and isinstance(loops[0].body[0], ast.If), 'output_algorithm: loop over (level, text) starting with the status update')
        inputs = {'exitcodes.' + k: ('exit_' + k, 'Z') for k in ('FAILURE', 'WARNING', 'GOOD', 'CONNECTION_ERROR', 'UNKNOWN_ERROR')}
        w(kernel('src_status_step', [('program_retval', 'Z'), ('level', 'string')], [loops[0].body[0]], inputs=inputs, result='program_retval'))
        # no other statement of the function assigns program_retval
        others = [n for n in ast.walk(oa) if isinstance(n, (ast.Assign, ast.AugAssign)) and any(isinstance(t, ast.Name) and t.id == 'program_retval' for t in (n.targets if isinstance(n, ast.Assign) else [n.target]))]
        inside = [n for n in ast.walk(loops[0].body[0]) if isinstance(n, (ast.Assign, ast.AugAssign))]
        need(all(any(x is y for y in inside) for x in others), 'output_algorithm: program_retval is assigned outside the status update')
    soft('status update per note (output_algorithm)', ['C02'], ex_status_step)

    def ex_terrapin_preds():
        # post_process_findings(): the three _get_*_enabled helpers = a filter over the peer's list of one direction; the three _get_*_not_enabled helpers = the
        # same name test over the database names, conjoined with `not in <enabled>`
        dirs = {'algs.ssh2kex.client.encryption': ('enc_c', 'list string'), 'algs.ssh2kex.server.encryption': ('enc_s', 'list string'),
                'algs.ssh2kex.client.mac': ('mac_c', 'list string'), 'algs.ssh2kex.server.mac': ('mac_s', 'list string'), 'client_audit': ('client_audit', 'bool')}
        for short, var in (('chacha_ciphers', 'cipher'), ('cbc_ciphers', 'cipher'), ('etm_macs', 'mac')):
            fn = func_node(pp, '_get_%s_enabled' % short)
            body = [st for st in fn.body if not (isinstance(st, ast.Expr) and isinstance(st.value, ast.Constant))]
            need(len(body) == 3 and isinstance(body[0], ast.Assign) and ast.unparse(body[0]) == 'ret = []' and isinstance(body[1], ast.If) and ast.unparse(body[1].test) == 'algs.ssh2kex is not None'
                 and not body[1].orelse and isinstance(body[2], ast.Return) and ast.unparse(body[2]) == 'return ret', '_get_%s_enabled: shape' % short)
            inner = body[1].body
            need(len(inner) == 2 and isinstance(inner[0], ast.Assign) and isinstance(inner[0].targets[0], ast.Name) and isinstance(inner[1], ast.For), '_get_%s_enabled: list selection followed by the loop' % short)
            lst = inner[0].targets[0].id
            loop = inner[1]
            need(isinstance(loop.target, ast.Name) and loop.target.id == var and ast.unparse(loop.iter) == lst and len(loop.body) == 1 and isinstance(loop.body[0], ast.If) and not loop.body[0].orelse and not loop.orelse
                 and ast.unparse(loop.body[0].body[0]) == 'ret.append(%s)' % var and len(loop.body[0].body) == 1, '_get_%s_enabled: loop appending the names that pass one test' % short)
            sel, tsel = _texpr(inner[0].value, dirs)
            need(tsel == 'list string', '_get_%s_enabled: list selection' % short)
            w('Definition src_%s_list (client_audit : bool) (enc_c enc_s mac_c mac_s : list string) : list string := %s.' % (short, sel))
            w(kernel('src_is_%s' % short, [(var, 'string')], [ast.Return(value=loop.body[0].test)]))
            # the database-side helper
            fn2 = func_node(pp, '_get_%s_not_enabled' % short)
            loops2 = [n for n in ast.walk(fn2) if isinstance(n, ast.For)]
            need(len(loops2) == 1 and isinstance(loops2[0].target, ast.Name) and loops2[0].target.id == var and len(loops2[0].body) == 1 and isinstance(loops2[0].body[0], ast.If), '_get_%s_not_enabled: loop' % short)
            t2 = loops2[0].body[0].test
            need(isinstance(t2, ast.BoolOp) and isinstance(t2.op, ast.And) and len(t2.values) == 2 and ast.unparse(t2.values[1]) == '%s not in _get_%s_enabled(algs)' % (var, short), '_get_%s_not_enabled: <name test> and <not enabled>' % short)
            w(kernel('src_is_%s_db' % short, [(var, 'string')], [ast.Return(value=t2.values[0])]))
    soft('Terrapin name tests and direction selection (post_process_findings)', ['C04'], ex_terrapin_preds)

    def ex_terrapin_marker():
        # post_process_findings(): which strict-KEX marker counts for which role
        mk = [n for n in ast.walk(pp) if isinstance(n, ast.If) and len(n.body) == 1 and ast.unparse(n.body[0]) == 'kex_strict_marker = True']
        need(len(mk) == 1 and isinstance(mk[0].test, ast.BoolOp) and isinstance(mk[0].test.op, ast.And) and len(mk[0].test.values) == 2 and ast.unparse(mk[0].test.values[0]) == 'algs.ssh2kex is not None'
             and any(ast.unparse(n) == 'kex_strict_marker = False' for n in ast.walk(pp)), 'post_process_findings: the strict-KEX marker test')
        asg = [n for n in ast.walk(pp) if isinstance(n, ast.Assign) and ast.unparse(n.targets[0]) == 'kex_strict_marker']
        need(len(asg) == 2, 'post_process_findings: kex_strict_marker assigned elsewhere')
        w(kernel('src_has_marker', [('client_audit', 'bool'), ('kex_algorithms', 'list string')], [ast.Return(value=mk[0].test.values[1])], inputs={'algs.ssh2kex.kex_algorithms': ('kex_algorithms', 'list string')}))
    soft('strict-KEX marker test per role (post_process_findings)', ['C04'], ex_terrapin_marker)

    def ex_rank():
        mn = func_node(t_main, 'main')
        ifs = [n for n in ast.walk(mn) if isinstance(n, ast.If) and 'ranked_return_codes.index' in ast.unparse(n.test)]
        need(len(ifs) == 1, 'main(): one rank comparison')
        w(kernel('src_rank_update', [('ret', 'Z'), ('worker_ret', 'Z')], [ifs[0]], inputs={'ranked_return_codes': ('ranked_return_codes', 'list Z')}, result='ret'))
    soft('ranked return code update (main)', ['C08'], ex_rank)

    def ex_crc():
        t_crc = ast.parse(src('ssh1_crc32.py'))
        calc = func_node(t_crc, 'SSH1_CRC32.calc')
        loops = [n for n in calc.body if isinstance(n, ast.For)]
        need(len(loops) == 1 and ast.unparse(loops[0].iter) == 'range(length)' and ast.unparse(calc.body[0]) == 'crc, length = (0, len(v))' and ast.unparse(calc.body[-1]) == 'return crc' and len(calc.body) == 3, 'SSH1_CRC32.calc: shape')
        w(kernel('src_crc_step', [('table', 'list Z'), ('crc', 'Z'), ('byte', 'Z')], loops[0].body, inputs={'ord(v[i:i + 1])': ('byte', 'Z'), 'self._table': ('table', 'list Z')}, result='crc'))
        init = func_node(t_crc, 'SSH1_CRC32.__init__')
        outer = [n for n in init.body if isinstance(n, ast.For)]
        need(len(outer) == 1 and ast.unparse(outer[0].iter) == 'range(256)' and ast.unparse(outer[0].body[0]) == 'crc = 0' and ast.unparse(outer[0].body[1]) == 'n = i', 'SSH1_CRC32.__init__: outer loop')
        inner = [n for n in outer[0].body if isinstance(n, ast.For)]
        need(len(inner) == 1 and ast.unparse(inner[0].iter) == 'range(8)', 'SSH1_CRC32.__init__: inner loop of 8 steps')
        steps = [st for st in inner[0].body if not (isinstance(st, ast.Assign) and isinstance(st.targets[0], ast.Subscript))]
        stores = [st for st in inner[0].body if isinstance(st, ast.Assign) and isinstance(st.targets[0], ast.Subscript)]
        need(len(stores) == 1 and ast.unparse(stores[0]) == 'self._table[i] = crc', 'SSH1_CRC32.__init__: table store')
        w(kernel('src_crc_bit_step', [('crc', 'Z'), ('n', 'Z')], steps, result=('crc', 'n')))
    soft('CRC-32 byte step and table-building bit step (SSH1_CRC32)', ['C10'], ex_crc)

    def ex_hostkey_notes():
        # HostKeyTest.perform_test(): the block `if hostkey_modulus_size > 0 or ca_modulus_size > 0:` appends to key_fail_comments / key_warn_comments, which start empty for each probed type
        inits = [ast.unparse(n) for n in ast.walk(pt) if isinstance(n, ast.Assign) and isinstance(n.targets[0], ast.Name) and n.targets[0].id in ('key_fail_comments', 'key_warn_comments')]
        need(sorted(inits) == ['key_fail_comments = []', 'key_warn_comments = []'], 'perform_test: comment lists initialised once, empty: %r' % (inits,))
        blocks = [n for n in ast.walk(pt) if isinstance(n, ast.If) and ast.unparse(n.test) == 'hostkey_modulus_size > 0 or ca_modulus_size > 0']
        need(len(blocks) == 1 and not blocks[0].orelse, 'perform_test: the size rating block')
        # nothing else appends to the two lists
        apps = [n for n in ast.walk(pt) if isinstance(n, ast.Call) and isinstance(n.func, ast.Attribute) and n.func.attr in ('append', 'extend', 'insert') and isinstance(n.func.value, ast.Name) and n.func.value.id in ('key_fail_comments', 'key_warn_comments')]
        inside = [n for n in ast.walk(blocks[0]) if isinstance(n, ast.Call)]
        need(all(any(a is b for b in inside) for a in apps), 'perform_test: the comment lists are changed outside the size rating block')
        inputs = {'HostKeyTest.TWO2K_MODULUS_WARNING': ('hk_two2k_warning', 'string'), 'HostKeyTest.SMALL_ECC_MODULUS_WARNING': ('hk_small_ecc_warning', 'string'),
                  'key_fail_comments': ('(@nil string)', 'list string'), 'key_warn_comments': ('(@nil string)', 'list string')}
        w(kernel('src_hostkey_notes', [('host_key_type', 'string'), ('cert', 'bool'), ('hostkey_modulus_size', 'Z'), ('ca_key_type', 'string'), ('ca_modulus_size', 'Z')],
                 [blocks[0]], inputs=inputs, result=('key_fail_comments', 'key_warn_comments')))
    soft('host-key and CA size rating (HostKeyTest.perform_test)', ['C11'], ex_hostkey_notes)

    def ex_gex_decisions():
        # GEXTest.run(): the early break of the exact-size loop, the condition of the second pass against OpenSSH, and openssh_test_updated
        brk = [n for n in ast.walk(loops[0]) if isinstance(n, ast.If) and len(n.body) == 1 and isinstance(n.body[0], ast.Break)]
        need(len(brk) == 1 and loops[0].body[0] is brk[0], 'gextest: the exact-size loop starts with its early break')
        w(kernel('src_gex_break', [('bits', 'Z'), ('smallest_modulus', 'Z')], [ast.Return(value=brk[0].test)]))
        sp = [n for n in ast.walk(run) if isinstance(n, ast.If) and "find('OpenSSH')" in ast.unparse(n.test)]
        need(len(sp) == 1 and isinstance(sp[0].test, ast.BoolOp) and isinstance(sp[0].test.op, ast.And) and len(sp[0].test.values) == 4
             and ast.unparse(sp[0].test.values[1]) == 'banner is not None' and ast.unparse(sp[0].test.values[2]) == 'banner.software is not None', 'gextest: condition of the second pass')
        cond = ast.BoolOp(op=ast.And(), values=[sp[0].test.values[0], ast.Name(id='has_software', ctx=ast.Load()), sp[0].test.values[3]])
        w(kernel('src_gex_second_pass', [('smallest_modulus', 'Z'), ('has_software', 'bool'), ('software', 'string')], [ast.Return(value=cond)], inputs={'banner.software': ('software', 'string')}))
        upd = [n for n in ast.walk(sp[0]) if isinstance(n, ast.Assign) and isinstance(n.targets[0], ast.Name) and n.targets[0].id == 'openssh_test_updated']
        need(len(upd) == 1, 'gextest: openssh_test_updated inside the second pass')
        w(kernel('src_gex_updated', [('smallest_modulus', 'Z')], [ast.Return(value=upd[0].value)]))
        setsz = [n for n in ast.walk(run) if isinstance(n, ast.If) and ast.unparse(n.test) == 'smallest_modulus > 0' and any('set_dh_modulus_size' in ast.unparse(x) for x in n.body[:1])]
        need(len(setsz) == 1, 'gextest: `if smallest_modulus > 0:` guarding set_dh_modulus_size and the rating')
    soft('group-exchange probe decisions (GEXTest.run)', ['C12'], ex_gex_decisions)

    def ex_outbuf():
        t_ob = ast.parse(src('outputbuffer.py'))
        cls = func_node(t_ob, 'OutputBuffer')
        lv = [n for n in cls.body if isinstance(n, ast.AnnAssign) and isinstance(n.target, ast.Name) and n.target.id == 'LEVELS']
        need(len(lv) == 1 and isinstance(lit(lv[0].value), tuple) and all(isinstance(x, str) for x in lit(lv[0].value)), 'OutputBuffer.LEVELS')
        w('Definition src_outbuf_levels : list string := ' + cstrs(list(lit(lv[0].value))) + '.')
        gl = func_node(t_ob, 'OutputBuffer.get_level')
        need([a.arg for a in gl.args.args] == ['self', 'name'], 'get_level signature')
        # sys.maxsize stands for "not a level: never filtered"; any value above every level index does (the model says None)
        w('Definition src_maxsize : Z := 9223372036854775807.')
        w(kernel('src_get_level', [('name', 'string')], gl.body, inputs={'self.LEVELS': ('src_outbuf_levels', 'list string'), 'sys.maxsize': ('src_maxsize', 'Z')}))
        pr = func_node(t_ob, 'OutputBuffer._print')
        body = [st for st in pr.body if not (isinstance(st, ast.Expr) and isinstance(st.value, ast.Constant))]
        need(len(body) >= 2 and isinstance(body[0], ast.If) and len(body[0].body) == 1 and isinstance(body[0].body[0], ast.Return) and body[0].body[0].value is None and not body[0].orelse,
             '_print: starts with the level filter (`if ...: return`)')
        ins = {'self.json': ('json', 'bool'), 'self.get_level(level)': ('lvl', 'Z'), 'self.__level': ('cur', 'Z')}
        w(kernel('src_print_filtered', [('always_print', 'bool'), ('json', 'bool'), ('lvl', 'Z'), ('cur', 'Z')], [ast.Return(value=body[0].test)], inputs=ins))
        need(isinstance(body[1], ast.If) and not body[1].orelse and len(body[1].body) == 1 and isinstance(body[1].body[0], ast.Assign) and ast.unparse(body[1].body[0].targets[0]) == 's', '_print: the colouring step follows the filter')
        ins2 = {'self.use_colors': ('use_colors', 'bool'), 'self.colors_supported': ('true', 'bool')}
        w(kernel('src_print_coloured', [('use_colors', 'bool'), ('s', 'string'), ('level', 'string')], [ast.Return(value=body[1].test)], inputs=ins2))
        fmt = body[1].body[0].value
        need(isinstance(fmt, ast.BinOp) and isinstance(fmt.op, ast.Mod) and isinstance(fmt.left, ast.Constant) and fmt.left.value == '\x1b[0;%dm%s\x1b[0m' and ast.unparse(fmt.right) == '(self.COLORS[level], s)', '_print: colour escape format')
        cols = [n for n in cls.body if isinstance(n, ast.Assign) and isinstance(n.targets[0], ast.Name) and n.targets[0].id == 'COLORS']
        need(len(cols) == 1 and isinstance(lit(cols[0].value), dict), 'OutputBuffer.COLORS')
        w('Definition src_outbuf_colors : list (string * Z) := ' + clist(lit(cols[0].value).items(), lambda kv: cpair(cstr(kv[0]), cz(kv[1]))) + '.')
    soft('level filter and colouring (OutputBuffer)', ['C15'], ex_outbuf)

    def ex_policy_exit():
        # audit(): `program_retval = exitcodes.GOOD if evaluate_policy(...) else exitcodes.FAILURE`; evaluate_policy() returns the verdict of Policy.evaluate on every path
        au = func_node(t_main, 'audit')
        sites = [n for n in ast.walk(au) if isinstance(n, ast.Assign) and isinstance(n.value, ast.IfExp) and isinstance(n.value.test, ast.Call) and getattr(n.value.test.func, 'id', None) == 'evaluate_policy']
        need(len(sites) == 1 and ast.unparse(sites[0].targets[0]) == 'program_retval', 'audit(): one status assignment from evaluate_policy()')
        inputs = {'exitcodes.' + k: ('exit_' + k, 'Z') for k in ('FAILURE', 'WARNING', 'GOOD', 'CONNECTION_ERROR', 'UNKNOWN_ERROR')}
        inputs[ast.unparse(sites[0].value.test)] = ('passed', 'bool')
        w(kernel('src_policy_exit', [('passed', 'bool')], [ast.Return(value=sites[0].value)], inputs=inputs))
        ep = func_node(t_main, 'evaluate_policy')
        rets = [n for n in ast.walk(ep) if isinstance(n, ast.Return)]
        need(len(rets) == 1 and ep.body[-1] is rets[0] and ast.unparse(rets[0]) == 'return passed', 'evaluate_policy(): a single `return passed`, as the last statement of the function body')
        asg = [n for n in ast.walk(ep) if isinstance(n, (ast.Assign, ast.AugAssign, ast.AnnAssign)) and any(isinstance(x, ast.Name) and x.id == 'passed' and isinstance(x.ctx, ast.Store) for x in ast.walk(n))]
        need(len(asg) == 1 and ast.unparse(asg[0]) == 'passed, error_struct, error_str = aconf.policy.evaluate(banner, kex)', 'evaluate_policy(): `passed` comes from Policy.evaluate and is not reassigned')
    soft('policy verdict to exit status (audit / evaluate_policy)', ['C02'], ex_policy_exit)

    globals()['LAST_SOFT_FAILURES'] = soft_failures

    def ex_policy_parser_keys():
        # Policy.__init__: which keys a policy file may use (the invalid-key test), which keys hold quoted strings and which hold algorithm lists
        t_pol = ast.parse(src('policy.py'))
        ini = func_node(t_pol, 'Policy.__init__')
        bad = [n for n in ast.walk(ini) if isinstance(n, ast.If) and ast.unparse(n.test).startswith("key not in ['name'")]
        need(len(bad) == 1 and isinstance(bad[0].body[-1], ast.Raise), 'Policy.__init__: the invalid-key test')
        w(kernel('src_policy_key_invalid', [('key', 'string')], [ast.Return(value=bad[0].test)]))
        lists = [n for n in ast.walk(ini) if isinstance(n, ast.If) and isinstance(n.test, ast.Compare) and ast.unparse(n.test.left) == 'key' and isinstance(n.test.ops[0], ast.In) and isinstance(n.test.comparators[0], ast.List)]
        got = [lit(n.test.comparators[0]) for n in sorted(lists, key=lambda x: x.lineno)]
        need(len(got) == 2 and got[0] == ['name', 'banner'], 'Policy.__init__: quoted-string keys and list keys: %r' % (got,))
        w('Definition src_policy_quoted_keys : list string := ' + cstrs(got[0]) + '. Definition src_policy_list_keys : list string := ' + cstrs(got[1]) + '.')
    soft('keys of the policy file format (Policy.__init__)', ['C05'], ex_policy_parser_keys)

    def ex_policy_decisions():
        # Policy.evaluate(): every decision of the function as an expression over the policy's and the peer's values, in source order, plus the error labels in source order
        t_pol = ast.parse(src('policy.py'))
        ev = func_node(t_pol, 'Policy.evaluate')
        ifs = [n for n in ast.walk(ev) if isinstance(n, ast.If)]
        # (1) the three size comparisons
        sizes = [n for n in ifs if 'self._allow_larger_keys' in ast.unparse(n.test)]
        need(len(sizes) == 3, 'Policy.evaluate: three size comparisons (host key, CA, modulus): %d' % len(sizes))
        for k, n in enumerate(sorted(sizes, key=lambda x: x.lineno)):
            names = sorted({x.id for x in ast.walk(n.test) if isinstance(x, ast.Name) and x.id != 'self'})
            act = [x for x in names if x.startswith('actual_')]
            exp = [x for x in names if x.startswith('expected_')]
            need(len(act) == 1 and len(exp) == 1 and len(names) == 2, 'Policy.evaluate: size comparison over %r' % (names,))
            w(kernel('src_policy_size_bad_%d' % k, [('larger', 'bool'), (act[0], 'Z'), (exp[0], 'Z')], [ast.Return(value=n.test)], inputs={'self._allow_larger_keys': ('larger', 'bool')}))
        # (2) the strict-KEX marker condition
        mk = [n for n in ifs if 'kex-strict-s-v00@openssh.com' in ast.unparse(n.test)]
        need(len(mk) == 1, 'Policy.evaluate: the marker condition')
        w(kernel('src_policy_marker_missing', [('pol_kex', 'list string'), ('peer_kex', 'list string')], [ast.Return(value=mk[0].test)],
                 inputs={'self._kex': ('pol_kex', 'list string'), 'kex.kex_algorithms': ('peer_kex', 'list string')}))
        # (3) exact comparisons  <peer list> != <policy list>
        ex = [n for n in ifs if isinstance(n.test, ast.Compare) and isinstance(n.test.ops[0], ast.NotEq) and ast.unparse(n.test.comparators[0]) in
              ('self._compressions', 'self._host_keys', 'self._kex', 'self._ciphers', 'self._macs')]
        ex += [n for n in ifs if isinstance(n.test, ast.BoolOp) and len(n.test.values) == 2 and ast.unparse(n.test.values[0]) == 'self._compressions is not None']
        got = []
        for n in sorted(ex, key=lambda x: x.lineno):
            t = n.test.values[1] if isinstance(n.test, ast.BoolOp) else n.test
            need(isinstance(t, ast.Compare) and isinstance(t.ops[0], ast.NotEq), 'Policy.evaluate: exact comparison')
            got.append((ast.unparse(t.left), ast.unparse(t.comparators[0])))
            w(kernel('src_policy_exact_differs_%d' % (len(got) - 1), [('actual', 'list string'), ('pol', 'list string')], [ast.Return(value=t)],
                     inputs={ast.unparse(t.left): ('actual', 'list string'), ast.unparse(t.comparators[0]): ('pol', 'list string')}))
        need(got == [('kex.server.compression', 'self._compressions'), ('pruned_host_keys', 'self._host_keys'), ('kex.kex_algorithms', 'self._kex'),
                     ('kex.server.encryption', 'self._ciphers'), ('kex.server.mac', 'self._macs')], 'Policy.evaluate: exact comparisons %r' % (got,))
        # (4) subset mode: `for x in <peer list>: if x not in <policy list>: ...; break`
        loops = [n for n in ast.walk(ev) if isinstance(n, ast.For) and len(n.body) == 1 and isinstance(n.body[0], ast.If) and isinstance(n.body[0].body[-1], ast.Break)]
        sub = []
        for n in sorted(loops, key=lambda x: x.lineno):
            t = n.body[0].test
            need(isinstance(n.target, ast.Name) and isinstance(t, ast.Compare) and isinstance(t.ops[0], ast.NotIn) and ast.unparse(t.left) == n.target.id and not n.orelse and not n.body[0].orelse,
                 'Policy.evaluate: subset loop shape')
            sub.append((ast.unparse(n.iter), ast.unparse(t.comparators[0])))
        need(sub == [('kex.key_algorithms', 'self._host_keys'), ('kex.kex_algorithms', 'self._kex'), ('kex.server.encryption', 'self._ciphers'), ('kex.server.mac', 'self._macs')],
             'Policy.evaluate: subset loops %r' % (sub,))
        w('Definition src_policy_not_all_in (actual pol : list string) : bool := existsb (fun x => negb (mem x pol)) actual.   (* for x in actual: if x not in pol: <error>; break  -- %d sites *)' % len(sub))
        # (5) pruning of the optional host keys
        pr = [n for n in ast.walk(ev) if isinstance(n, ast.Assign) and isinstance(n.targets[0], ast.Name) and n.targets[0].id == 'pruned_host_keys' and isinstance(n.value, ast.ListComp)]
        need(len(pr) == 1, 'Policy.evaluate: pruning comprehension')
        w(kernel('src_policy_pruned', [('keys', 'list string'), ('opt', 'list string')], [ast.Return(value=pr[0].value)],
                 inputs={'kex.key_algorithms': ('keys', 'list string'), 'self._optional_host_keys': ('opt', 'list string')}))
        # (6) "a CA is specified" and "CA type differs"
        ca = [n for n in ifs if "['ca_key_type']" in ast.unparse(n.test) and "['ca_key_size']" in ast.unparse(n.test)]
        need(len(ca) == 1 and isinstance(ca[0].test, ast.BoolOp) and len(ca[0].test.values) == 3 and ast.unparse(ca[0].test.values[0]) == 'self._hostkey_sizes is not None', 'Policy.evaluate: CA-specified condition')
        cond = ast.BoolOp(op=ast.And(), values=ca[0].test.values[1:])
        w(kernel('src_policy_ca_specified', [('ca_type', 'string'), ('ca_size', 'Z')], [ast.Return(value=cond)],
                 inputs={"self._hostkey_sizes[hostkey_type]['ca_key_type']": ('ca_type', 'string'), "self._hostkey_sizes[hostkey_type]['ca_key_size']": ('ca_size', 'Z')}))
        # (7) the error labels, in source order
        labels = []
        for n in sorted([c for c in ast.walk(ev) if isinstance(c, ast.Call) and isinstance(c.func, ast.Attribute) and c.func.attr == '_append_error'], key=lambda x: (x.lineno, x.col_offset)):
            a0 = n.args[0]
            if isinstance(a0, ast.Constant) and isinstance(a0.value, str):
                labels.append(a0.value)
            else:
                need(isinstance(a0, ast.BinOp) and isinstance(a0.op, ast.Mod) and isinstance(a0.left, ast.Constant) and a0.left.value.count('%s') == 1, 'Policy.evaluate: error label %s' % ast.unparse(a0))
                labels.append(a0.left.value)
        w('Definition src_policy_error_labels : list string := ' + cstrs(labels) + '.')
    soft('decisions and error labels of Policy.evaluate', ['C06'], ex_policy_decisions)

    def ex_recs():
        gr = func_node(t_algs, 'get_recommendations')
        # (a) the fault points of an entry: `adl, faults = len(alg_desc), 0` followed by the loop over range(1, 3)
        floops = [n for n in ast.walk(gr) if isinstance(n, ast.For) and ast.unparse(n.iter) == 'range(1, 3)']
        need(len(floops) == 1, 'get_recommendations: fault loop')
        inits = [n for n in ast.walk(gr) if isinstance(n, ast.Assign) and ast.unparse(n) == 'adl, faults = (len(alg_desc), 0)']
        need(len(inits) == 1, 'get_recommendations: `adl, faults = len(alg_desc), 0`')
        w(kernel('src_rec_faults', [('adl', 'Z'), ('fc1', 'Z'), ('fc2', 'Z')], [ast.parse('faults = 0').body[0], floops[0]],
                 inputs={'len(alg_desc[1])': ('fc1', 'Z'), 'len(alg_desc[2])': ('fc2', 'Z')}, result='faults'))
        # (b) what is never recommended for addition
        skips = [n for n in ast.walk(gr) if isinstance(n, ast.If) and 'empty_version' in ast.unparse(n.test) and 'faults > 0' in ast.unparse(n.test)]
        need(len(skips) == 1 and len(skips[0].body) == 1 and isinstance(skips[0].body[0], ast.Continue), 'get_recommendations: the not-to-be-added test')
        w(kernel('src_rec_skip_add', [('faults', 'Z'), ('alg_type', 'string'), ('n', 'string'), ('empty_version', 'bool')], [ast.Return(value=skips[0].test)]))
        # (c) the version filter: the `continue` conditions of the loop over the tokens of the first-appeared string, in order
        vloops = [n for n in ast.walk(gr) if isinstance(n, ast.For) and ast.unparse(n.iter) == "versions[0].split(',')"]
        need(len(vloops) == 1, 'get_recommendations: token loop')
        body = vloops[0].body
        need(ast.unparse(body[0]) == 'ssh_prefix, ssh_version, is_cli = Algorithm.get_ssh_version(v)' and ast.unparse(body[-1]) == 'break' and ast.unparse(body[-2]) == 'matches = True'
             and all(isinstance(x, ast.If) and len(x.body) == 1 and isinstance(x.body[0], ast.Continue) and not x.orelse for x in body[1:-2]), 'get_recommendations: token loop shape')
        ins = {'software is not None': ('has_software', 'bool'), 'software.product': ('product', 'string'), 'software.compare_version(ssh_version)': ('cmp', 'Z')}
        conds = [x.test for x in body[1:-2]]
        need(len(conds) == 4, 'get_recommendations: four skip conditions in the token loop: %d' % len(conds))
        w(kernel('src_rec_token_skipped', [('ssh_prefix', 'string'), ('ssh_version', 'string'), ('is_cli', 'bool'), ('for_server', 'bool'), ('has_software', 'bool'), ('product', 'string'), ('cmp', 'Z')],
                 [ast.Return(value=ast.BoolOp(op=ast.Or(), values=conds))], inputs=ins))
        # (d) ssh_audit.get_algorithm_recommendations: level from points, note of a change, category and action order, suppression
        ga = func_node(t_main, 'get_algorithm_recommendations')
        lv = [n for n in ast.walk(ga) if isinstance(n, ast.If) and ast.unparse(n.test) == 'points >= 10']
        need(len(lv) == 1, 'get_algorithm_recommendations: level thresholds')
        w(kernel('src_rec_level', [('points', 'Z')], [ast.parse("level = 'informational'").body[0], lv[0]], result='level'))
        need(any(ast.unparse(n) == "level = 'informational'" for n in ast.walk(ga)), "get_algorithm_recommendations: level starts as 'informational'")
        nt = [n for n in ast.walk(ga) if isinstance(n, ast.If) and ast.unparse(n.test) == "action == 'chg'"]
        need(len(nt) == 1 and any(ast.unparse(n) == "notes = ''" for n in ast.walk(ga)), 'get_algorithm_recommendations: change note')
        w(kernel('src_rec_notes', [('action', 'string')], [ast.parse("notes = ''").body[0], nt[0]], result='notes'))
        orders = {ast.unparse(n.target): lit(n.iter) for n in ast.walk(ga) if isinstance(n, ast.For) and isinstance(n.iter, ast.List)}
        need(set(orders) == {'alg_type', 'action'}, 'get_algorithm_recommendations: category / action loops: %r' % (orders,))
        w('Definition src_rec_categories : list string := ' + cstrs(orders['alg_type']) + '. Definition src_rec_actions : list string := ' + cstrs(orders['action']) + '.')
        sp = [n for n in ast.walk(ga) if isinstance(n, ast.If) and 'algorithm_recommendation_suppress_list' in ast.unparse(n.test)]
        need(len(sp) == 1 and isinstance(sp[0].body[0], ast.Continue) and ast.unparse(sp[0].test) == 'algorithm_recommendation_suppress_list is not None and name in algorithm_recommendation_suppress_list',
             'get_algorithm_recommendations: suppression test')
    soft('recommendation decisions (Algorithms.get_recommendations, get_algorithm_recommendations)', ['C13'], ex_recs)

    def ex_alg_texts():
        # output_algorithm(): the notes of a name the database knows: `if alg_name_native in alg_db[alg_type]:` body (texts starts empty), and the unknown branch
        oa = func_node(t_main, 'output_algorithm')
        known = [n for n in ast.walk(oa) if isinstance(n, ast.If) and ast.unparse(n.test) == 'alg_name_native in alg_db[alg_type]']
        need(len(known) == 1, 'output_algorithm: the known-name test')
        need(any(ast.unparse(n) == 'texts = []' for n in oa.body), 'output_algorithm: texts starts empty')
        body = known[0].body
        need(ast.unparse(body[0]) == 'alg_desc = alg_db[alg_type][alg_name_native]', 'output_algorithm: the entry is looked up under the native name')
        ins = {'Algorithm.get_since_text(versions)': ('since', 'option string'), 'texts': ('(@nil (string * string))', 'list (string * string)')}
        w(kernel('src_alg_texts_known', [('alg_desc', 'list (list (option string))'), ('since', 'option string')], body[1:], inputs=ins, result='texts'))
        # `versions` handed to get_since_text is component 0 of the entry
        need(any(ast.unparse(n) == 'versions = alg_desc[0]' for n in ast.walk(known[0])), 'output_algorithm: versions = alg_desc[0]')
        unk = known[0].orelse
        need(len(unk) == 2 and ast.unparse(unk[0]) == "texts.append(('warn', 'unknown algorithm'))", 'output_algorithm: the unknown-name branch: %r' % ([ast.unparse(x)[:60] for x in unk],))
    soft('notes of one algorithm (output_algorithm)', ['C03'], ex_alg_texts)

    def ex_gss_lookup():
        # the gss-* wildcard normalisation is done twice: output_algorithm() (text) and build_struct.fetch_notes() (JSON); same test, same rewrite
        oa = func_node(t_main, 'output_algorithm')
        fnn = func_node(t_main, 'build_struct.fetch_notes')
        t1 = [n for n in ast.walk(oa) if isinstance(n, ast.If) and "startswith('gss-')" in ast.unparse(n.test)]
        t2 = [n for n in ast.walk(fnn) if isinstance(n, ast.If) and "startswith('gss-')" in ast.unparse(n.test)]
        need(len(t1) == 1 and len(t2) == 1, 'gss-* normalisation sites')
        w(kernel('src_gss_lookup_text', [('alg_type', 'string'), ('alg_name', 'string')], [ast.Return(value=t1[0].test)]))
        w(kernel('src_gss_lookup_json', [('alg_type', 'string'), ('algorithm', 'string')], [ast.Return(value=t2[0].test)]))
        b1 = [ast.unparse(x) for x in t1[0].body]
        b2 = [ast.unparse(x) for x in t2[0].body]
        need(b1 == ["last_dash = alg_name.rindex('-')", "alg_name = '%s-*' % alg_name[0:last_dash]"], 'output_algorithm: rewrite to the wildcard name: %r' % (b1,))
        need(b2 == ["algorithm = '%s-*' % algorithm[0:algorithm.rindex('-')]"], 'fetch_notes: rewrite to the wildcard name: %r' % (b2,))
    soft('gss-* lookup-name test, text and JSON sites', ['C03'], ex_gss_lookup)

    def ex_first_packet():
        # audit(): what the first packet leads to - the automatic SSH-1 retry, and which message types are an error
        au = func_node(t_main, 'audit')
        neg = [n for n in ast.walk(au) if isinstance(n, ast.If) and ast.unparse(n.test) == 'packet_type < 0']
        need(len(neg) == 1, 'audit(): `if packet_type < 0:`')
        mm = [n for n in neg[0].body if isinstance(n, ast.If) and ast.unparse(n.test) == "payload_txt == 'Protocol major versions differ.'"]
        need(len(mm) == 1 and len(mm[0].body) == 1 and isinstance(mm[0].body[0], ast.If) and not mm[0].orelse and len(mm[0].body[0].body) == 1 and isinstance(mm[0].body[0].body[0], ast.Return)
             and ast.unparse(mm[0].body[0].body[0].value).startswith('audit(out, aconf, 1'), 'audit(): the SSH-1 retry after a protocol mismatch')
        cond = ast.BoolOp(op=ast.And(), values=[ast.Name(id='is_mismatch_text', ctx=ast.Load()), mm[0].body[0].test])
        w(kernel('src_ssh1_retry', [('is_mismatch_text', 'bool'), ('sshv', 'Z'), ('ssh1_allowed', 'bool')], [ast.Return(value=cond)], inputs={'aconf.ssh1': ('ssh1_allowed', 'bool')}))
        # the else branch: err_pair is set for a message of the wrong type
        body = neg[0].orelse
        need(len(body) == 3 and ast.unparse(body[0]) == 'err_pair = None' and isinstance(body[1], ast.If) and isinstance(body[2], ast.If) and ast.unparse(body[2].test) == 'err_pair is not None', 'audit(): the wrong-message-type test')

        class Flag(ast.NodeTransformer):
            def visit_Assign(self, node):
                if ast.unparse(node.targets[0]) == 'err_pair':
                    return ast.Assign(targets=node.targets, value=ast.Constant(value=not (isinstance(node.value, ast.Constant) and node.value.value is None)))
                return node
        import copy
        stmts = [ast.fix_missing_locations(Flag().visit(copy.deepcopy(x))) for x in body[:2]]
        ins = {'Protocol.SMSG_PUBLIC_KEY': ('proto_SMSG_PUBLIC_KEY', 'Z'), 'Protocol.MSG_KEXINIT': ('proto_MSG_KEXINIT', 'Z')}
        w(kernel('src_first_packet_wrong_type', [('sshv', 'Z'), ('packet_type', 'Z')], stmts, inputs=ins, result='err_pair'))
    soft('first-packet classification (audit)', ['C09'], ex_first_packet)

    def ex_rate_loop():
        # DHEat._dh_rate_test: the two stop conditions of the outer loop and the condition under which another socket is opened
        t_dh = ast.parse(src('dheat.py'))
        rt = func_node(t_dh, 'DHEat._dh_rate_test')
        brk = [n for n in ast.walk(rt) if isinstance(n, ast.If) and len(n.body) == 1 and isinstance(n.body[0], ast.Break) and 'max_connections' in ast.unparse(n.test)]
        need(len(brk) == 2, 'rate test: two stop conditions over max_connections: %d' % len(brk))
        ins = {'interactive': ('interactive', 'bool'), 'now - start_timer >= max_time': ('time_up', 'bool'), 'len(socket_dict)': ('pending', 'Z')}
        brk.sort(key=lambda x: x.lineno)
        w(kernel('src_rate_stop_time_or_opened', [('interactive', 'bool'), ('time_up', 'bool'), ('num_opened_connections', 'Z'), ('max_connections', 'Z')], [ast.Return(value=brk[0].test)], inputs=ins))
        w(kernel('src_rate_stop_attempts', [('interactive', 'bool'), ('num_attempted_connections', 'Z'), ('max_connections', 'Z'), ('pending', 'Z')], [ast.Return(value=brk[1].test)], inputs=ins))
        wl = [n for n in ast.walk(rt) if isinstance(n, ast.While) and 'concurrent_sockets' in ast.unparse(n.test)]
        need(len(wl) == 1, 'rate test: the socket-opening loop')
        w(kernel('src_rate_open_more', [('interactive', 'bool'), ('pending', 'Z'), ('concurrent_sockets', 'Z'), ('num_opened_connections', 'Z'), ('num_attempted_connections', 'Z'), ('max_connections', 'Z')],
                 [ast.Return(value=wl[0].test)], inputs=ins))
        incs = [ast.unparse(n) for n in ast.walk(wl[0]) if isinstance(n, ast.AugAssign)]
        need('num_attempted_connections += 1' in incs, 'rate test: every connect attempt is counted')
    soft('stop and open conditions of the connection-rate check (DHEat._dh_rate_test)', ['C19'], ex_rate_loop)

    def ex_audit_phases():
        # audit(): the block between the parsed KEXINIT and the report decides which follow-up phases run (each phase = connections to the target).
        # Calls that start a phase are rewritten to `log.append(<phase>)`, every `return` to `return log`, debug output is dropped; the rest is translated as it stands.
        au = func_node(t_main, 'audit')
        start = [n for n in ast.walk(au) if isinstance(n, ast.If) and ast.unparse(n.test) == 'aconf.dheat is not None']
        need(len(start) == 1, 'audit(): the `if aconf.dheat is not None:` block')
        parent = [n for n in ast.walk(au) if isinstance(n, (ast.If, ast.Try, ast.FunctionDef, ast.With)) and any(start[0] is x for x in getattr(n, 'orelse', []) + getattr(n, 'body', []))]
        need(len(parent) == 1, 'audit(): enclosing block of the phase decisions')
        seq = parent[0].orelse if any(start[0] is x for x in parent[0].orelse) else parent[0].body
        i0 = [i for i, x in enumerate(seq) if x is start[0]][0]
        block = seq[i0:i0 + 3]
        need(len(block) == 3 and ast.unparse(block[1]) == "dh_rate_test_notes = ''" and isinstance(block[2], ast.If) and ast.unparse(block[2].test) == 'aconf.client_audit is False',
             'audit(): dheat / rate-flood branch, then the client_audit test')
        PH = {'DHEat(out, aconf, banner, kex).run()': 'dheat', 'DHEat.dh_rate_test(out, aconf, kex, 0, 0, 0)': 'rate-flood', 'HostKeyTest.run(out, s, kex)': 'hostkey',
              'GEXTest.run(out, s, banner, kex)': 'gex', 'run_gex_granular_modulus_size_test(out, s, kex, aconf)': 'gex-granular', 'DHEat.dh_rate_test(out, aconf, kex, 1.5, 38, 3)': 'rate-check'}
        seen = []

        def app(ph):
            seen.append(ph)
            return ast.AugAssign(target=ast.Name(id='log', ctx=ast.Store()), op=ast.Add(), value=ast.List(elts=[ast.Constant(value=ph)], ctx=ast.Load()))

        def rw(stmts):
            out_ = []
            for st in stmts:
                if isinstance(st, ast.Expr) and isinstance(st.value, ast.Call):
                    txt = ast.unparse(st.value)
                    if txt in PH:
                        out_.append(app(PH[txt]))
                    else:
                        need(txt.startswith('out.d('), 'audit(): call %s among the phase decisions' % txt[:60])
                elif isinstance(st, ast.Assign) and ast.unparse(st.targets[0]) == 'dh_rate_test_notes':
                    txt = ast.unparse(st.value)
                    if txt in PH:
                        out_.append(app(PH[txt]))
                    else:
                        need(txt == "''", 'audit(): dh_rate_test_notes = %s' % txt[:60])
                elif isinstance(st, ast.Return):
                    txt = ast.unparse(st.value)
                    if txt in PH:
                        out_.append(app(PH[txt]))
                    else:
                        need(txt == 'exitcodes.GOOD', 'audit(): return %s among the phase decisions' % txt[:60])
                    out_.append(ast.Return(value=ast.Name(id='log', ctx=ast.Load())))
                elif isinstance(st, ast.If):
                    b, o_ = rw(st.body), rw(st.orelse)
                    if not b and not o_:
                        continue
                    if not b:
                        out_.append(ast.If(test=ast.UnaryOp(op=ast.Not(), operand=st.test), body=o_, orelse=[]))
                    else:
                        out_.append(ast.If(test=st.test, body=b, orelse=o_))
                else:
                    need(False, 'audit(): statement %s among the phase decisions' % ast.unparse(st)[:60])
            return out_
        stmts = rw(block)
        need(sorted(seen) == sorted(PH.values()), 'audit(): phases started %r' % (seen,))
        ins = {'aconf.dheat is not None': ('dheat', 'bool'), 'aconf.conn_rate_test_enabled': ('flood', 'bool'), 'aconf.client_audit': ('client_audit', 'bool'),
               'aconf.gex_test': ('gex_test', 'string'), 'aconf.skip_rate_test': ('skip_rate_test', 'bool'), 'log': ('(@nil string)', 'list string')}
        w(kernel('src_audit_phases', [('dheat', 'bool'), ('flood', 'bool'), ('client_audit', 'bool'), ('gex_test', 'string'), ('skip_rate_test', 'bool')], stmts, inputs=ins, result='log'))
    soft('follow-up phases of an audit (audit)', ['C19'], ex_audit_phases)

    def ex_resolve_family():
        rs = func_node(t_sock, 'SSH_Socket._resolve')
        body = [st for st in rs.body if not (isinstance(st, ast.Expr) and isinstance(st.value, ast.Constant))]
        need(isinstance(body[0], ast.If) and ast.unparse(body[0].test) == 'len(self.__ip_version_preference) == 1', '_resolve: starts with the choice of the address family')
        ins = {'self.__ip_version_preference': ('pref', 'list Z'), 'socket.AF_INET': ('(2)', 'Z'), 'socket.AF_INET6': ('(10)', 'Z'), 'socket.AF_UNSPEC': ('(0)', 'Z')}
        w(kernel('src_resolve_family', [('pref', 'list Z')], [body[0]], inputs=ins, result='family'))
        gai = [n for n in ast.walk(rs) if isinstance(n, ast.Call) and ast.unparse(n.func) == 'socket.getaddrinfo']
        need(len(gai) == 1 and [ast.unparse(a) for a in gai[0].args] == ['self.__host', 'self.__port', 'family', 'stype'], '_resolve: getaddrinfo(host, port, family, stype)')
        srt = [n for n in ast.walk(rs) if isinstance(n, ast.If) and ast.unparse(n.test) == 'len(self.__ip_version_preference) == 2']
        need(len(srt) == 1 and len(srt[0].body) == 1 and isinstance(srt[0].body[0].value, ast.Call) and ast.unparse(srt[0].body[0].value.func) == 'sorted', '_resolve: the sort for two preferences')
        kw = {k.arg: k.value for k in srt[0].body[0].value.keywords}
        need(set(kw) == {'key', 'reverse'} and ast.unparse(kw['key']) == 'lambda x: x[0]', '_resolve: sorted(r, key=family, reverse=...)')
        w(kernel('src_resolve_reverse', [('pref', 'list Z')], [ast.Return(value=kw['reverse'])], inputs=ins))
    soft('address family choice and sort direction (SSH_Socket._resolve)', ['C18'], ex_resolve_family)

    def ex_print_ascii():
        # utils.py: the character filters of is_print_ascii / to_print_ascii (lambda bodies) and the replacement character of _to_ascii
        t_ut = ast.parse(src('utils.py'))
        lams = {}
        for fname in ('is_print_ascii', 'to_print_ascii'):
            f = func_node(t_ut, 'Utils.' + fname)
            ls = [n for n in ast.walk(f) if isinstance(n, ast.Lambda)]
            need(len(ls) == 1 and [a.arg for a in ls[0].args.args] == ['x'], 'Utils.%s: one filter lambda over x' % fname)
            lams[fname] = ls[0]
            w(kernel('src_%s_filter' % fname, [('x', 'Z')], [ast.Return(value=ls[0].body)]))
        ta = func_node(t_ut, 'Utils._to_ascii')
        reps = [n for n in ast.walk(ta) if isinstance(n, ast.Call) and ast.unparse(n.func) == 'r.append' and isinstance(n.args[0], ast.Constant)]
        need(len(reps) == 1 and isinstance(reps[0].args[0].value, int), 'Utils._to_ascii: replacement character')
        w('Definition src_to_ascii_replacement : Z := %d.' % reps[0].args[0].value)
    soft('printable-ASCII filters (Utils)', ['C16'], ex_print_ascii)

    def ex_thread_protocol():
        # C07's model (Multi.get_db / wdel / per-worker configuration copy) states a protocol; the statements that implement it are matched literally
        facts = []
        for fn, cls in (('ssh2_kexdb.py', 'SSH2_KexDB'), ('ssh1_kexdb.py', 'SSH1_KexDB')):
            t = ast.parse(src(fn))
            gd = [ast.unparse(st) for st in func_node(t, cls + '.get_db').body if not (isinstance(st, ast.Expr) and isinstance(st.value, ast.Constant))]
            need(gd == ['calling_thread_id = threading.get_ident()',
                        'if calling_thread_id not in %s.DB_PER_THREAD:\n    %s.DB_PER_THREAD[calling_thread_id] = copy.deepcopy(%s.MASTER_DB)' % (cls, cls, cls),
                        'return %s.DB_PER_THREAD[calling_thread_id]' % cls], '%s.get_db: deep copy of MASTER_DB on first use by the calling thread: %r' % (cls, gd))
            facts.append('%s.get_db: copy.deepcopy(MASTER_DB) on first use by a thread, then that copy' % cls)
            te = [ast.unparse(st) for st in func_node(t, cls + '.thread_exit').body if not (isinstance(st, ast.Expr) and isinstance(st.value, ast.Constant))]
            need(te == ['calling_thread_id = threading.get_ident()', 'if calling_thread_id in %s.DB_PER_THREAD:\n    del %s.DB_PER_THREAD[calling_thread_id]' % (cls, cls)], '%s.thread_exit: deletes the calling thread\'s entry only: %r' % (cls, te))
            facts.append('%s.thread_exit: deletes the entry of the calling thread, nothing else' % cls)
            cv = [n for n in ast.parse(src(fn)).body if isinstance(n, ast.ClassDef) and n.name == cls][0]
            dpt = [n for n in cv.body if isinstance(n, (ast.Assign, ast.AnnAssign)) and 'DB_PER_THREAD' in ast.unparse(n.targets[0] if isinstance(n, ast.Assign) else n.target)]
            need(len(dpt) == 1 and ast.unparse(dpt[0].value) == '{}', '%s.DB_PER_THREAD starts empty' % cls)
            others = [n for n in ast.walk(t) if isinstance(n, ast.Attribute) and n.attr in ('DB_PER_THREAD', 'MASTER_DB') and isinstance(n.ctx, (ast.Store, ast.Del))]
            need(others == [], '%s: MASTER_DB / DB_PER_THREAD rebound outside get_db / thread_exit' % cls)
        wk = func_node(t_main, 'target_worker_thread')
        trys = [n for n in wk.body if isinstance(n, ast.Try)]
        need(len(trys) == 1 and sorted(ast.unparse(x) for x in trys[0].finalbody) == ['SSH1_KexDB.thread_exit()', 'SSH2_KexDB.thread_exit()'], 'target_worker_thread: thread_exit() of both databases in `finally`')
        facts.append('target_worker_thread: both thread_exit() calls in the finally block of the audit')
        uses = [ast.unparse(st) for st in wk.body if any(isinstance(n, ast.Name) and n.id == 'shared_aconf' for n in ast.walk(st))]
        need(sorted(uses) == ['my_aconf = copy.deepcopy(shared_aconf)', 'out.verbose = shared_aconf.verbose'], 'target_worker_thread: works on a deep copy of the shared configuration only: %r' % (uses,))
        facts.append('target_worker_thread: audits with copy.deepcopy(shared_aconf)')
        aud = [n for n in ast.walk(trys[0]) if isinstance(n, ast.Call) and getattr(n.func, 'id', None) == 'audit']
        need(len(aud) == 1 and ast.unparse(aud[0].args[1]) == 'my_aconf', 'target_worker_thread: audit(out, my_aconf, ...)')
        w('Definition src_thread_protocol : list string := ' + cstrs(facts) + '.')
    soft('per-thread database life cycle and per-worker configuration copy', ['C07'], ex_thread_protocol)

    def ex_between():
        t_sw = ast.parse(src('software.py'))
        bv = func_node(t_sw, 'Software.between_versions')
        need([a.arg for a in bv.args.args] == ['self', 'vfrom', 'vtill'], 'between_versions signature')
        w(kernel('src_between_versions', [('vfrom', 'string'), ('vtill', 'string'), ('cmp_from', 'Z'), ('cmp_till', 'Z')], bv.body,
                 inputs={'self.compare_version(vfrom)': ('cmp_from', 'Z'), 'self.compare_version(vtill)': ('cmp_till', 'Z')}))
    soft('Software.between_versions', ['C14'], ex_between)

    def ex_patch_cmp():
        # the patch-level comparison of Software.compare_version: everything after the `version_cmp != 0` return, with the four regular
        # expression matches (all applied to the patch texts as they are on entry to the block) as inputs
        t_sw = ast.parse(src('software.py'))
        cv = func_node(t_sw, 'Software.compare_version')
        k = [i for i, st in enumerate(cv.body) if ast.unparse(st) == "spatch = self.patch or ''"]
        need(len(k) == 1 and k[0] > 0 and ast.unparse(cv.body[k[0] - 1]) == 'if version_cmp != 0:\n    return version_cmp', 'compare_version: the patch block follows the version comparison')
        block = cv.body[k[0] + 1:]
        calls = [n for st in block for n in ast.walk(st) if isinstance(n, ast.Call) and ast.unparse(n.func) == 're.match']
        want = {("^test\\d.*$", 'opatch'): ('o_test', 'bool'), ("^test\\d.*$", 'spatch'): ('s_test', 'bool'),
                ("^p(\\d).*", 'opatch'): ('o_pdigit', 'option string'), ("^p(\\d).*", 'spatch'): ('s_pdigit', 'option string')}
        inputs = {'self.product': ('product', 'string'), 'Product.DropbearSSH': ('product_DropbearSSH', 'string'), 'Product.OpenSSH': ('product_OpenSSH', 'string')}
        seen = set()
        for c in calls:
            need(len(c.args) == 2 and not c.keywords and isinstance(c.args[0], ast.Constant) and isinstance(c.args[1], ast.Name), 'compare_version: shape of a re.match call')
            kk = (c.args[0].value, c.args[1].id)
            need(kk in want, 'compare_version: unexpected pattern %r on %s' % kk)
            inputs[ast.unparse(c)] = want[kk]
            seen.add(kk)
        need(seen == set(want) and len(calls) == 4, 'compare_version: the four matches of the patch block')
        # each match must see the patch text of the block's entry: no assignment to its argument precedes it in its own branch
        for br, nm in ((block[0].body, ('opatch', 'spatch')), (block[0].orelse[0].body if block[0].orelse and isinstance(block[0].orelse[0], ast.If) else None, ('opatch', 'spatch'))):
            need(br is not None, 'compare_version: Dropbear / OpenSSH branches')
            assigned = set()
            for st in br:
                for n in ast.walk(st):
                    if isinstance(n, ast.Call) and ast.unparse(n.func) == 're.match':
                        need(n.args[1].id not in assigned or (n.args[1].id == 'spatch' and 'spatch' not in assigned), 'compare_version: a match applied to a rewritten patch text')
                for n in ast.walk(st):
                    if isinstance(n, ast.Name) and isinstance(n.ctx, ast.Store):
                        assigned.add(n.id)
        w(kernel('src_patch_cmp', [('product', 'string'), ('spatch', 'string'), ('opatch', 'string'), ('o_test', 'bool'), ('s_test', 'bool'), ('o_pdigit', 'option string'), ('s_pdigit', 'option string')],
                 block, inputs=inputs))
        # the same block together with the two statements before it: the version comparison decides first, the patch level only breaks ties
        need(k[0] >= 2 and ast.unparse(cv.body[k[0] - 2]) == 'version_cmp = Utils.compare_versions(self.version, oversion)', 'compare_version: version_cmp is the comparison of the two version texts')
        inputs2 = dict(inputs)
        inputs2['Utils.compare_versions(self.version, oversion)'] = ('vc', 'Z')
        inputs2["self.patch or ''"] = ('spatch0', 'string')
        w(kernel('src_compare_tail', [('vc', 'Z'), ('product', 'string'), ('spatch0', 'string'), ('opatch', 'string'), ('o_test', 'bool'), ('s_test', 'bool'), ('o_pdigit', 'option string'), ('s_pdigit', 'option string')],
                 cv.body[k[0] - 2:], inputs=inputs2))
    soft('Software.compare_version (patch block)', ['C14'], ex_patch_cmp)

    def ex_since_text():
        t_alg = ast.parse(src('algorithm.py'))
        gs = func_node(t_alg, 'Algorithm.get_since_text')
        body = [st for st in gs.body if not (isinstance(st, ast.Expr) and isinstance(st.value, ast.Constant))]
        need(len(body) == 5 and ast.unparse(body[0]) == 'tv = []' and isinstance(body[1], ast.If) and ast.unparse(body[1].test) == 'len(versions) == 0 or versions[0] is None'
             and ast.unparse(body[1].body[0]) == 'return None' and isinstance(body[2], ast.For) and ast.unparse(body[2].iter) == "versions[0].split(',')"
             and isinstance(body[3], ast.If) and ast.unparse(body[3].test) == 'len(tv) == 0' and ast.unparse(body[3].body[0]) == 'return None' and isinstance(body[4], ast.Return), 'get_since_text: shape')
        loop = body[2].body
        need(ast.unparse(loop[0]) == 'ssh_prod, ssh_ver, is_cli = cls.get_ssh_version(v)', 'get_since_text: the loop starts by reading the token')
        inputs = {'Product.' + k: ('product_' + k, 'string') for k in ('OpenSSH', 'DropbearSSH', 'LibSSH')}
        inputs['tv'] = ('(@nil string)', 'list string')
        # what one token contributes (the loop body after the unpacking; `continue` guards the rest)
        w(kernel('src_since_token', [('ssh_prod', 'string'), ('ssh_ver', 'string'), ('is_cli', 'bool')], _guard_continue(loop[1:]), inputs=inputs, result='tv'))
        w(kernel('src_since_join', [('tv', 'list string')], [body[4]]))
    soft('Algorithm.get_since_text', ['C03'], ex_since_text)

    def ex_ssh_version():
        t_alg = ast.parse(src('algorithm.py'))
        gv = func_node(t_alg, 'Algorithm.get_ssh_version')
        need([a.arg for a in gv.args.args] == ['version_desc'], 'get_ssh_version signature')
        inputs = {'Product.' + k: ('product_' + k, 'string') for k in ('OpenSSH', 'DropbearSSH', 'LibSSH')}
        w(kernel('src_get_ssh_version', [('version_desc', 'string')], gv.body, inputs=inputs))
    soft('Algorithm.get_ssh_version', ['C03', 'C13', 'C14'], ex_ssh_version)
    soft_failures[0:0] = early_failures
    globals()['LAST_SOFT_FAILURES'] = soft_failures

    # T1d: message codecs (gen/Codecs.v, beside Tables.v; it depends on model/Wire.v, which depends on Tables.v)
    import codectrans
    ctext, cfails = codectrans.generate()
    soft_failures.extend(cfails)
    globals()['LAST_SOFT_FAILURES'] = soft_failures

    def write_if_changed(path, text):
        old = None
        if os.path.exists(path):
            with open(path, encoding='utf-8') as f:
                old = f.read()
        if old != text:
            os.makedirs(os.path.dirname(path), exist_ok=True)   # a fresh checkout has no coq/gen (its files are generated)
            tmp = path + '.tmp.%d' % os.getpid()
            with open(tmp, 'w', encoding='utf-8') as f:
                f.write(text)
            os.replace(tmp, path)
            print('translate: wrote', path)
        else:
            print('translate: unchanged', os.path.basename(path))
    write_if_changed(out_path, '\n'.join(o) + '\n')
    write_if_changed(os.path.join(os.path.dirname(out_path), 'Codecs.v'), ctext)


if __name__ == '__main__':
    outp = sys.argv[1] if len(sys.argv) > 1 else os.path.join(HERE, '..', 'coq', 'gen', 'Tables.v')
    try:
        main(os.path.abspath(outp))
    except TranslateError as e:
        print('TRANSLATE-ERROR: %s' % e)
        sys.exit(3)
