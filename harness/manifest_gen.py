#!/usr/bin/env python3
"""Regenerates MANIFEST.json from the table below (so that it is always schema-valid)."""
import json, os
HERE = os.path.dirname(os.path.abspath(__file__))
VERIF = os.path.dirname(HERE)

NOTE = ("Trusted: Coq 8.16.1 kernel + vm_compute (no native_compute; coqchk in thorough tier); no axioms declared, "
        "Print Assumptions of every property theorem captured in the evidence; translator harness/translate.py regenerates "
        "coq/gen/Tables.v from /repo on every run; hand-written Gallina models tied to the code by differential correspondence "
        "(model evaluated in coqc on the same inputs as the implementation); Python oracles evaluate the property statement on the "
        "implementation. Modelled-not-verified: CPython primitives, re, json, hashlib, sockets, threads, time (DESIGN.md sections 3-4).")

CHECKS = {
    'C10': dict(technique='Coq: unbounded round-trip theorems (induction, lia/nia) over a hand-written model of the codecs and packet reader; model tied to the code by vm_compute case files; RFC-based Python oracle',
                text='Theorems for all values: byte/bool/u32/string/name-list round trips, SSH-2 mpint of either sign through the 32-bit word loop (the lemma the pre-fix code violated), minimal encoding, RFC 4253 framing for every payload length and read-back by the modelled reader. Correspondence: ~10k codec/framing/reader cases per quick run incl. truncation, mutation and segmentation. Not yet proved: SSH-1 mpint round trip, KEXINIT/PKM message round trips, CRC table = bit-serial division (covered by correspondence + zlib oracle only).',
                ref='DESIGN.md section 5 C10'),
    'C17': dict(technique='Coq: kernel-evaluated (vm_compute) theorems over translator-generated tables, lifted to forall-statements by flat_map lemmas; independent Python oracle over the imported tables',
                text='Proof over the complete, regenerated tables: cross-references, no failed algorithm in built-in policies, broken-primitive rule, entry shape. The property quantifies over the tables as they stand (finite), so kernel evaluation is the stated quantifier; a table edit regenerates Tables.v and the named theorem fails with the offending entries.',
                ref='DESIGN.md section 5 C17'),
}

def main():
    man = {
        'version': 1,
        'setup_cmd': 'bin/setup',
        'hooks': {'guard': 'SSH_AUDIT_VERIF', 'enable': 'no source hooks are needed: peers are real TCP sockets on 127.0.0.1 and the launcher patches the resolver in-process', 'baseline_off_cmd': 'cd /repo && /venv/bin/python -m pytest -ra -q -p no:cacheprovider --timeout=900 --continue-on-collection-errors', 'source_commits': [], 'add_only': True},
        'engines': [{'name': 'coq-proof', 'path': 'coq/', 'serves_properties': sorted(CHECKS), 'kind_free_text': 'Rocq/Coq 8.16.1 models + theorems; translator-generated tables; correspondence by vm_compute case files'}],
        'checks': [],
        'notes': 'bin/check <id> --tier quick|thorough; known findings in known_findings.json; see DESIGN.md',
        'not_applicable': [],
    }
    for pid in sorted(CHECKS):
        c = CHECKS[pid]
        man['checks'].append({
            'property_id': pid,
            'quick_cmd': 'bin/check %s --tier quick' % pid,
            'thorough_cmd': 'bin/check %s --tier thorough' % pid,
            'evidence_file': 'evidence/%s.json' % pid,
            'replay_cmd_template': 'bin/check %s --replay {path}' % pid,
            'engine': 'coq-proof',
            'level_claimed': {'category': 'proof', 'text': c['text'], 'design_ref': c['ref']},
            'level_note': NOTE,
            'technique': c['technique'],
        })
    all_ids = [json.loads(l)['id'] for l in open(os.path.join(VERIF, 'properties.jsonl'))]
    for pid in all_ids:
        if pid not in CHECKS:
            man['not_applicable'].append({'property_id': pid, 'reason': 'check not built yet in this session (claimed in DESIGN.md; will move to checks when its model, theorems and correspondence exist)'})
    json.dump(man, open(os.path.join(VERIF, 'MANIFEST.json'), 'w'), indent=1)

if __name__ == '__main__':
    main()
