#!/usr/bin/env python3
"""Regenerates MANIFEST.json from the table below (so that it is always schema-valid)."""
import json, os
HERE = os.path.dirname(os.path.abspath(__file__))
VERIF = os.path.dirname(HERE)

NOTE = ("Trusted: Coq 8.16.1 kernel + vm_compute (no native_compute; coqchk in thorough tier); no axioms declared, "
        "Print Assumptions of every property theorem captured in the evidence; translator harness/translate.py regenerates "
        "coq/gen/Tables.v from /repo on every run; hand-written Gallina models tied to the code by differential correspondence "
        "(model evaluated in coqc on the same inputs as the implementation); Python oracles evaluate the property statement on the "
        "implementation. Modelled-not-verified: CPython primitives, re, json, hashlib, sockets, threads, time (DESIGN.md sections 3-4).")

CHECKS = {
    'C09': dict(technique='Coq: the packet reader never raises for any byte sequence/segmentation/close-or-stall point (structural recursion on the peer script), documented-exit theorem for the whole initial handshake incl. the SSH-1 fallback, bad-handshake => status 1; fault enumeration over valid transcripts against the real CLI; handshake correspondence',
                text='Theorems: read_packet (SSH-1 and SSH-2 models) never yields an exception; every outcome of the initial handshake classifies to exit 1, the SSH-1 fallback, or a parsed message, so the audit ends through 0/1/2/3 and never Uncaught; a handshake without algorithm lists exits 1; ensure_read only succeeds with enough buffered bytes. Probe phases are contained by a blanket handler in the code (after the fix commits) - that part is established by enumeration: for five transcript archetypes every (connection, message, fault) of the quantifier, 1-byte segmentation, debug interleaving, pre-banner lines; status in {0,1,2,3}, no hang, time within budget, report kept iff the handshake was well-formed. PARTIAL: wall-clock bounds are observed only.',
                ref='DESIGN.md section 5 C09'),
    'C12': dict(technique='Coq: unbounded theorems over a model of GEXTest.run for ANY (stateful) server oracle (probe count, trace faithfulness, result = last answer, second pass, table-edit thresholds/monotonicity by induction/lia) + exhaustive kernel evaluation (vm_compute, forallb_forall) over the 6144-member family of the quantifier; model tied to gextest.py by vm_compute case files on the real GEXTest.run with a scripted _send_init and on the real CLI over TCP against scripted servers; statement oracle in Python',
                text='Theorems: <=9 probes per algorithm; a reported size was handed out in this run and is the answer to the last probe; no answer -> no size; OpenSSH second pass = answer of the 2048-4096 probe with the note iff another size; <2048 failure naming the size, 2048..3071 the warning once, >=3072 no size note, larger never rated worse. Family (every subset of 9 sizes x strict/round-up/OpenSSH-fallback x banner x sha1/sha256): reported size and note = statement, EXCEPT exactly where the banner says OpenSSH and a configured 2048 is the smallest handed out (refuted witness + partial + exactness theorems; known finding openssh-banner-configured-2048). Thorough tier exhaustive over the family through the real CLI.',
                ref='DESIGN.md section 5 C12'),
    'C14': dict(technique='Coq: theorems for all well-formed version texts (induction over strings/lists, lia) about a hand-written model of compare_versions / compare_version incl. the regex split and patch rules, the recommendation filter and the time-frame slot rule; finite vm_compute only for the 11-element suffix domains and the generated table; model tied to the code by vm_compute case files; numeric-tuple Python oracle',
                text='Proved: reading a dot-separated decimal text gives its numbers; compare_versions = lexicographic numeric order (prefix smaller); compare_version agrees with it whenever the numbers differ, is antisymmetric on the suffix domains, and is a total preorder (numbers, suffix rank) without p0; availability vs a table version iff numerically >=; the recommendation filter = exists token (product, role, numeric <=); every version token of the generated tables is well-formed; time-frame slots keep numeric max/min. Refuted and recorded: transitivity with OpenSSH p0; one-character versions are not split from a suffix.',
                ref='DESIGN.md section 5 C14'),
    'C18': dict(technique='Coq: forall-theorems (induction over strings/lists, lia) over a hand-written model of target parsing, command-line/targets-file handling, port validation, family preference and labels; model tied to the code by vm_compute case files fed from the real CLI run under a launcher with synthetic resolver and in-memory sockets; oracle from the property text',
                text='Theorems for all inputs: every documented spelling parses to exactly the named endpoint, on the command line (with or without -p, which is only the default) and in a targets file with arbitrary blank/padded lines; a run resolves exactly (host, port, family) and dials only resolver answers of that host/family/port; a run that is rejected has resolved and dialled nothing; no port outside 1-65535 is ever resolved or dialled; single -4/-6 filter, stable family order; the rate check picks the audit address; text labels are documented spellings of the endpoint. Refuted and recorded: -64 order lost by argparse, JSON target of IPv6 unbracketed.',
                ref='DESIGN.md section 5 C18'),
    'C19': dict(technique='Coq: bounds on the connection log of the audit skeleton for every server behaviour (induction over the probe table / probe list / clock budget): host-key, GEX, rate check and whole-audit bounds; skeleton tied to the code by comparing predicted and server-observed probe sequences; server-side footprint oracle',
                text='Theorems: at most one connection per advertised probe-table host-key type; at most 9 per offered GEX algorithm; rate-check attempts never exceed the cap for any clock budget and any answers, none when skipped or without DH kex; total <= 1 + H + 9G + 38; key-exchange requests only on probe connections. Oracle on the real CLI: counts per phase, requests per connection, concurrency, EOF seen on every connection before exit, rate connections with SSH/garbage/closing answers. PARTIAL: closed-at-exit is observed at the OS level, not proved.',
                ref='DESIGN.md section 5 C19'),
    'C01': dict(technique='Coq: KEXINIT parse(write k)=k for all well-formed messages, shown-names = advertised-names theorems for the text and JSON views of the report model, SSH-1 mask decoding for every mask (induction); wire-to-report correspondence; CLI oracle in server and client role',
                text='Theorems: parsing an encoded KEXINIT returns exactly its lists; per category the text report shows the advertised non-blank names once per occurrence in order, JSON shows every advertised name; no cross-category move; gss-*/size suffixes keep the advertised name as prefix; for every mask the SSH-1 names are the table entries with the bit set, in table order. Oracle: real CLI over TCP as server audit and client audit (-c), plain/batch/verbose/JSON, database/unknown/gss/duplicate/empty/4kB/non-UTF-8 names, compression and banner as sent, SSH-1 masks with -1.',
                ref='DESIGN.md section 5 C01'),
    'C06': dict(technique='Coq: forall-theorems (induction, lia) over a hand-written model of Policy.evaluate/_get_errors incl. the error accumulator; spec satisfies/error_for written from the statement; model tied to the code by vm_compute case files over the exhaustively enumerated small universe; independent Python oracle; in-process and -P CLI wiring runs',
                text='Theorems for all policies and peers: passed <-> satisfies; passed <-> no errors; reported errors are exactly the specified-and-unsatisfied fields with the policy\'s expected and the peer\'s actual value (CA type before CA size); accumulator only appends; subset-shrink and larger-keys-grow monotonicity; error text has one block per error naming its field. Correspondence: every pair of the small universe one focus field at a time (69k pairs thorough; slice in quick) + random large instances incl. text-loaded policies and re-used objects. Known finding: one-element int-like names are shown through int() in the error text (refuted + partial theorem).',
                ref='DESIGN.md section 5 C06'),
    'C16': dict(technique='Coq: theorems for all lines of the banner grammar over hand-written recognisers of RX_BANNER / the product expressions (induction over strings; character-class preservation through the parser); recognisers tied to re by vm_compute case files against in-process Banner.parse / Software.parse / get_banner; statement-based Python oracle',
                text='For every SSH-<d>.<digits>-<token>[ words] line with any blank gaps: accepted, parts equal the line (exact side condition absorbs), render/re-parse stable, shown text printable and flag = no replacement, header/banner separation over lines and CR LF/LF streams, product+version for all ten families. Refuted and recorded: protocol-looking software tokens (two shapes). The regex engine is not modelled; 7.9k (quick) / 251k (thorough) differential cases carry that link.',
                ref='DESIGN.md section 5 C16'),
    'C15': dict(technique='Coq: subsequence theorem for every write-free program of OutputBuffer operations (induction over programs; insertion-sort lemma for sorted sections, String.leb transitivity proved), model tied to outputbuffer.py by random-program correspondence; oracle over all option sets, JSON variants and hash seeds',
                text='Theorems: raising the minimum level yields a subsequence of the lower-level report for every program of lines/sections/heads/separators/sorted sections (also instantiated for code-point sorting); lines at or above the level are never removed; status is a function of items only. Refuted-and-recorded: immediate writes add a blank line. Oracle: status and findings identical under 2x2x2x3 option sets, JSON compact=indented=-l fail, JSON findings=text findings, byte identity across PYTHONHASHSEED values (observed, not proved).',
                ref='DESIGN.md section 5 C15'),
    'C02': dict(technique='Coq: induction over all note sequences (status fold), report model status theorem; correspondence of the report model with output() by vm_compute case files; CLI oracle over TCP (healthy, broken-handshake and policy peers)',
                text='Theorems: for every sequence/order of note levels the fold yields FAILURE iff a fail is present, WARNING iff warn without fail, GOOD iff neither; the status of the modelled report of ANY peer is the worst level among its items; policy verdict <-> status. Correspondence: model report (status+items) = real output() on generated peers. Oracle: real process exit status vs printed report under option sets; handshakes broken at each stage exit 1 with no algorithm report; built-in policy audits 0 iff Passed, 3 iff Failed. The incomplete-audit clause is proved in the C09 audit state machine.',
                ref='DESIGN.md section 5 C02'),
    'C03': dict(technique='Coq: pointwise characterisation of the final per-scan database (only channels: Terrapin marks, OpenSSH-2048 note), text/JSON agreement and unknown-name theorems over an arbitrary database; correspondence with output()/build_struct(); oracle across placements, roles, text/JSON/--lookup',
                text='Theorems for all databases, peers and names: the entry a scan renders from is master (+) a context-only edit; texts and JSON notes depend only on that entry; text and JSON carry the same notes; unknown names are flagged in both views and never yield status GOOD. Oracle: every database name in several list positions/neighbourhoods/roles gives identical notes; text = JSON = --lookup.',
                ref='DESIGN.md section 5 C03'),
    'C04': dict(technique='Coq: iff-theorem of the Terrapin rule over all peers, both roles and any Terrapin-free database (fold/update lemmas), advisory and suppression theorems; kernel-evaluated fact that the generated table is Terrapin-free; exhaustive context grid oracle on output()',
                text='terrapin_rule: a known cipher/MAC carries the warning IFF no own-role marker and (ChaCha offered, or CBC offered with an ETM MAC, or ETM offered with a CBC cipher); advisory names exactly the marked set when the marker is present; disabled ChaCha/CBC/ETM names are suppressed and suppressed names are never recommended. Oracle: role x marker x chacha x cbc x etm grid x database/unknown names through the real output(), text and JSON.',
                ref='DESIGN.md section 5 C04'),
    'C13': dict(technique='Coq: soundness/completeness/disjointness theorems of the recommendation pass over an arbitrary database and abstract availability predicate (instantiated by the C14 comparator); correspondence of recommendations with output(); statement-level oracle incl. independent numeric availability',
                text='Theorems: every del/chg names an advertised algorithm with faults (sound) and every such algorithm known in the identified version is recommended unless suppressed (complete); critical iff failure (given <10 warnings per entry); every add is unadvertised, fault-free, not cert/sk/pseudo, available in the identified version, software recognised; nothing both ways; no software, no recommendations.',
                ref='DESIGN.md section 5 C13'),
    'C10': dict(technique='Coq: unbounded round-trip theorems (induction, lia/nia) over a hand-written model of the codecs and packet reader; model tied to the code by vm_compute case files; RFC-based Python oracle',
                text='Theorems for all values: byte/bool/u32/string/name-list round trips, SSH-2 mpint of either sign through the 32-bit word loop (the lemma the pre-fix code violated), minimal encoding, RFC 4253 framing for every payload length and read-back by the modelled reader. Correspondence: ~10k codec/framing/reader cases per quick run incl. truncation, mutation and segmentation. Not yet proved: SSH-1 mpint round trip, KEXINIT/PKM message round trips, CRC table = bit-serial division (covered by correspondence + zlib oracle only).',
                ref='DESIGN.md section 5 C10'),
    'C17': dict(technique='Coq: kernel-evaluated (vm_compute) theorems over translator-generated tables, lifted to forall-statements by flat_map lemmas; independent Python oracle over the imported tables',
                text='Proof over the complete, regenerated tables: cross-references, no failed algorithm in built-in policies, broken-primitive rule, entry shape. The property quantifies over the tables as they stand (finite), so kernel evaluation is the stated quantifier; a table edit regenerates Tables.v and the named theorem fails with the offending entries.',
                ref='DESIGN.md section 5 C17'),
}

def main():
    man = {
        'version': 1,
        'setup_cmd': 'bin/setup',
        'hooks': {'guard': 'SSH_AUDIT_VERIF', 'enable': 'no source hooks are needed: peers are real TCP sockets on 127.0.0.1 and the launcher patches the resolver in-process', 'baseline_off_cmd': 'cd /repo && /venv/bin/python -m pytest -ra -q -p no:cacheprovider --timeout=900 --continue-on-collection-errors', 'source_commits': [], 'add_only': True},
        'engines': [{'name': 'coq-proof', 'path': 'coq/', 'serves_properties': sorted(CHECKS), 'kind_free_text': 'Rocq/Coq 8.16.1 models + theorems; translator-generated tables; correspondence by vm_compute case files'}],
        'checks': [],
        'notes': 'bin/check <id> --tier quick|thorough; known findings in known_findings.json; see DESIGN.md',
        'not_applicable': [],
    }
    for pid in sorted(CHECKS):
        c = CHECKS[pid]
        man['checks'].append({
            'property_id': pid,
            'quick_cmd': 'bin/check %s --tier quick' % pid,
            'thorough_cmd': 'bin/check %s --tier thorough' % pid,
            'evidence_file': 'evidence/%s.json' % pid,
            'replay_cmd_template': 'bin/check %s --replay {path}' % pid,
            'engine': 'coq-proof',
            'level_claimed': {'category': 'proof', 'text': c['text'], 'design_ref': c['ref']},
            'level_note': NOTE,
            'technique': c['technique'],
        })
    all_ids = [json.loads(l)['id'] for l in open(os.path.join(VERIF, 'properties.jsonl'))]
    for pid in all_ids:
        if pid not in CHECKS:
            man['not_applicable'].append({'property_id': pid, 'reason': 'check not built yet in this session (claimed in DESIGN.md; will move to checks when its model, theorems and correspondence exist)'})
    json.dump(man, open(os.path.join(VERIF, 'MANIFEST.json'), 'w'), indent=1)

if __name__ == '__main__':
    main()
