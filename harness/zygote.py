"""Single-threaded fork server: imports the working tree's ssh_audit once, then forks per request and runs the
real wrapper /repo/ssh-audit.py via runpy (module state as after a fresh import).  Protocol: one JSON object
per line on stdin -> one JSON object per line on stdout."""
import json
import os
import runpy
import signal
import sys
import tempfile
import time

REPO = os.environ.get('VERIF_REPO', '/repo')
sys.path.insert(0, os.path.join(REPO, 'src'))
import ssh_audit.ssh_audit  # noqa: E402,F401  (preload everything)

proto_out = os.fdopen(os.dup(1), 'w')
devnull = os.open(os.devnull, os.O_RDWR)
os.dup2(devnull, 1)
tmpdir = tempfile.mkdtemp(prefix='verif_zyg_')


def run(req, n):
    outp = os.path.join(tmpdir, 'o%d' % n)
    errp = os.path.join(tmpdir, 'e%d' % n)
    t0 = time.time()
    pid = os.fork()
    if pid == 0:
        try:
            fo = os.open(outp, os.O_WRONLY | os.O_CREAT | os.O_TRUNC)
            fe = os.open(errp, os.O_WRONLY | os.O_CREAT | os.O_TRUNC)
            os.dup2(fo, 1)
            os.dup2(fe, 2)
            os.dup2(devnull, 0)
            sys.stdout = os.fdopen(1, 'w', buffering=1, closefd=False, encoding='utf-8', errors='surrogateescape')
            sys.stderr = os.fdopen(2, 'w', buffering=1, closefd=False, encoding='utf-8', errors='surrogateescape')
            for k, v in (req.get('env') or {}).items():
                if v is None:
                    os.environ.pop(k, None)
                else:
                    os.environ[k] = v
            if req.get('cwd'):
                os.chdir(req['cwd'])
            pre = req.get('pre')
            if pre:
                exec(compile(pre, '<pre>', 'exec'), {'__name__': '__pre__'})
            sys.argv = [os.path.join(REPO, 'ssh-audit.py')] + list(req['argv'])
            code = 0
            try:
                runpy.run_path(os.path.join(REPO, 'ssh-audit.py'), run_name='__main__')
            except SystemExit as e:
                code = e.code if isinstance(e.code, int) else (0 if e.code is None else 1)
            except BaseException:  # noqa
                import traceback
                traceback.print_exc()
                code = 97
            try:
                sys.stdout.flush()
                sys.stderr.flush()
            except Exception:  # noqa
                pass
            os._exit(code & 0xff)
        except BaseException:  # noqa
            os._exit(98)
    timeout = req.get('timeout', 60)
    timed_out = False
    status = None
    while True:
        r, st = os.waitpid(pid, os.WNOHANG)
        if r != 0:
            status = st
            break
        if time.time() - t0 > timeout:
            timed_out = True
            os.kill(pid, signal.SIGKILL)
            _, status = os.waitpid(pid, 0)
            break
        time.sleep(0.002)
    wall = time.time() - t0
    with open(outp, 'rb') as f:
        out = f.read().decode('utf-8', 'surrogateescape')
    with open(errp, 'rb') as f:
        err = f.read().decode('utf-8', 'surrogateescape')
    os.unlink(outp)
    os.unlink(errp)
    rc = os.waitstatus_to_exitcode(status)
    return {'rc': rc, 'out': out, 'err': err, 'wall': round(wall, 3), 'timed_out': timed_out}


n = 0
for line in sys.stdin:
    line = line.strip()
    if not line:
        continue
    req = json.loads(line)
    if req.get('quit'):
        break
    n += 1
    res = run(req, n)
    proto_out.write(json.dumps(res) + '\n')
    proto_out.flush()
try:
    os.rmdir(tmpdir)
except OSError:
    pass
