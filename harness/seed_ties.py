#!/venv/bin/python
"""Which kept seeded changes break a PROOF obligation (a tie between the model and what the translators derive from the source), independently of any test input?
For every seed: apply the patch to a scratch copy of the repository, run the translators, and - when the generated files differ from those of the unchanged
tree - build the tie files and the property files against them.  Writes seeded/TIES.json {seed: {generated_differs, not_extracted, failing_files}}.
usage: seed_ties.py <scratch-repo> [seed-id ...]     (run in a checkout of /verif that is not used by anything else meanwhile)"""
import json
import os
import re
import subprocess
import sys

V = os.path.dirname(os.path.dirname(os.path.abspath(__file__)))
wt = sys.argv[1]
assert os.path.isdir(wt) and os.path.realpath(wt) != '/repo'
ids = sys.argv[2:] or sorted(d for d in os.listdir(os.path.join(V, 'seeded')) if os.path.isdir(os.path.join(V, 'seeded', d)))
COQ = os.path.join(V, 'coq')


def sh(cmd, cwd=None, env=None, timeout=3000):
    e = dict(os.environ)
    e.update(env or {})
    p = subprocess.run(cmd, shell=True, cwd=cwd, env=e, capture_output=True, text=True, timeout=timeout)
    return p.returncode, p.stdout + p.stderr


def translate():
    rc, o = sh('/venv/bin/python harness/translate.py', cwd=V, env={'VERIF_REPO': wt, 'PYTHONHASHSEED': '0', 'PYTHONPATH': wt + '/src'})
    return rc, o


def gen():
    return {f: open(os.path.join(COQ, 'gen', f)).read() for f in ('Tables.v', 'Codecs.v')}


def build():
    targets = ' '.join(sorted('proofs/' + f[:-2] + '.vo' for f in os.listdir(os.path.join(COQ, 'proofs')) if f.startswith('Tie') and f.endswith('.v')))
    targets += ' ' + ' '.join('props/C%02d.vo' % i for i in range(1, 20))
    rc, o = sh('coq_makefile -f _CoqProject $(ls gen/*.v model/*.v proofs/*.v props/*.v) -o Makefile >/dev/null 2>&1; rm -f .Makefile.files; timeout 1500 make -k -j16 %s 2>&1' % targets, cwd=COQ)
    bad = sorted(set(re.findall(r'File "\./([^"]+)", line \d+, characters [^\n]*\n(?:(?!File ")[^\n]*\n){0,12}?Error', o)))
    return rc, bad, o


sh('git checkout -- .', cwd=wt)
rc, o = translate()
assert rc == 0, o
base = gen()
rc, bad, o = build()
assert rc == 0 and not bad, (bad, o[-2000:])
res = {}
outp = os.path.join(V, 'seeded', 'TIES.json')
for sid in ids:
    d = os.path.join(V, 'seeded', sid)
    rc, o = sh('git apply %s' % os.path.join(d, 'patch.diff'), cwd=wt)
    if rc != 0:
        res[sid] = {'error': 'patch does not apply'}
        continue
    try:
        rc, o = translate()
        if rc != 0:
            res[sid] = {'generated_differs': True, 'translator_failed': o[-300:], 'failing_files': ['(translator: every check reports it)']}
        else:
            g = gen()
            differs = [f for f in g if g[f] != base[f]]
            ne = re.findall(r'\(\* NOT (?:EXTRACTED|TRANSLATED) \(([^)]*(?:\([^)]*\))?[^)]*)\)', ''.join(g.values()))
            if not differs:
                res[sid] = {'generated_differs': False}
            else:
                rc, bad, o = build()
                res[sid] = {'generated_differs': True, 'files': differs, 'not_extracted': ne, 'failing_files': bad}
    finally:
        sh('git apply -R %s' % os.path.join(d, 'patch.diff'), cwd=wt)
    print(sid, res[sid], flush=True)
    json.dump(res, open(outp, 'w'), indent=1, sort_keys=True)
translate()
build()
n = sum(1 for v in res.values() if v.get('failing_files'))
print('SUMMARY: %d of %d seeds break a proof obligation' % (n, len(res)))
