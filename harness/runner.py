"""CLI runner: a pool of zygote fork servers (see zygote.py)."""
import json
import os
import queue
import subprocess
import threading

HERE = os.path.dirname(os.path.abspath(__file__))
REPO = os.environ.get('VERIF_REPO', '/repo')
PY = '/venv/bin/python'


class Zygote:
    def __init__(self):
        env = dict(os.environ, PYTHONPATH=os.path.join(REPO, 'src'), PYTHONHASHSEED=os.environ.get('PYTHONHASHSEED', '0'), PYTHONDONTWRITEBYTECODE='1')
        env.pop('NO_COLOR', None)
        self.p = subprocess.Popen([PY, os.path.join(HERE, 'zygote.py')], stdin=subprocess.PIPE, stdout=subprocess.PIPE, text=True, env=env, bufsize=1)
        self.lock = threading.Lock()

    def run(self, argv, timeout=60, env=None, pre=None, cwd=None):
        with self.lock:
            self.p.stdin.write(json.dumps({'argv': argv, 'timeout': timeout, 'env': env, 'pre': pre, 'cwd': cwd}) + '\n')
            self.p.stdin.flush()
            line = self.p.stdout.readline()
        if not line:
            raise RuntimeError('zygote died')
        return json.loads(line)

    def close(self):
        try:
            self.p.stdin.write('{"quit": true}\n')
            self.p.stdin.flush()
            self.p.wait(timeout=5)
        except Exception:  # noqa
            self.p.kill()


class Pool:
    """n zygotes; map(fn, cases) runs fn(zygote, case) on n worker threads, results in input order."""

    def __init__(self, n=None, hashseed=None):
        n = n or min(16, os.cpu_count() or 4)
        if hashseed is not None:
            os.environ['PYTHONHASHSEED'] = str(hashseed)
        self.zs = [Zygote() for _ in range(n)]

    def map(self, fn, cases):
        q = queue.Queue()
        for i, c in enumerate(cases):
            q.put((i, c))
        res = [None] * len(cases)
        errs = []

        def worker(z):
            while True:
                try:
                    i, c = q.get_nowait()
                except queue.Empty:
                    return
                try:
                    res[i] = fn(z, c)
                except Exception as e:  # noqa
                    import traceback
                    errs.append((i, traceback.format_exc()))
        ths = [threading.Thread(target=worker, args=(z,)) for z in self.zs]
        for t in ths:
            t.start()
        for t in ths:
            t.join()
        if errs:
            raise RuntimeError('runner worker failed on case %d: %s' % errs[0])
        return res

    def close(self):
        for z in self.zs:
            z.close()

    def __enter__(self): return self
    def __exit__(self, *a): self.close()


def subprocess_run(argv, timeout=60, env=None):
    """Reference runner: a real subprocess (used to validate the fork runner)."""
    e = dict(os.environ, PYTHONPATH=os.path.join(REPO, 'src'), PYTHONHASHSEED='0')
    e.pop('NO_COLOR', None)
    e.update(env or {})
    p = subprocess.run([PY, os.path.join(REPO, 'ssh-audit.py')] + argv, capture_output=True, text=True, timeout=timeout, env=e, errors='surrogateescape')
    return {'rc': p.returncode, 'out': p.stdout, 'err': p.stderr}
