"""Scripted SSH peers on 127.0.0.1 (real TCP): a cooperative SSH-2 server that answers the tool's
host-key and group-exchange probes (no real crypto: the tool never verifies signatures), an SSH-1 server,
a scripted client for client audits, and fault injection on any message of any connection.
Everything is written from the RFCs, independently of /repo's encoders."""
import socket
import struct
import threading
import time


def u32(n): return struct.pack('>I', n)
def sstr(b): return u32(len(b)) + (b if isinstance(b, bytes) else b.encode())
def mpint(n):
    if n == 0: return u32(0)
    b = n.to_bytes((n.bit_length() + 8) // 8, 'big', signed=True) if n > 0 else n.to_bytes(((-n - 1).bit_length() + 8) // 8, 'big', signed=True)
    return sstr(b)
def namelist(l): return sstr(b','.join(x if isinstance(x, bytes) else x.encode() for x in l))


def frame2(payload, pad_extra=0):
    pad = -(len(payload) + 5) % 8
    if pad < 4: pad += 8
    pad += 8 * pad_extra
    return struct.pack('>IB', len(payload) + pad + 1, pad) + payload + bytes(pad)


def kexinit(kex, key, enc, mac, comp=('none',), enc_c=None, mac_c=None, comp_c=None, lang=(b'',), cookie=bytes(16), follows=False, reserved=0):
    p = bytes([20]) + cookie + namelist(kex) + namelist(key) + namelist(enc_c if enc_c is not None else enc) + namelist(enc) \
        + namelist(mac_c if mac_c is not None else mac) + namelist(mac) + namelist(comp_c if comp_c is not None else comp) + namelist(comp) \
        + namelist(lang) + namelist(lang) + bytes([1 if follows else 0]) + u32(reserved)
    return p


CRC_TABLE = []
for _i in range(256):
    _c = _i
    for _ in range(8):
        _c = (_c >> 1) ^ (0xedb88320 if _c & 1 else 0)
    CRC_TABLE.append(_c)


def crc32_ssh1(b):
    c = 0
    for x in b:
        c = (c >> 8) ^ CRC_TABLE[(c ^ x) & 0xff]
    return c


def frame1(payload_with_type, pad=None):
    plen = len(payload_with_type) + 4
    padlen = 8 - plen % 8
    pad = bytes(padlen) if pad is None else pad
    return u32(plen) + pad + payload_with_type + u32(crc32_ssh1(pad + payload_with_type))


def mpint1(n):
    bits = n.bit_length()
    return struct.pack('>H', bits) + n.to_bytes((bits + 7) // 8, 'big')


def pkm_payload(cmask, amask, host_n=(1 << 1023) | 12345, host_e=35, srv_n=(1 << 767) | 99, srv_e=35, cookie=bytes(8), flags=2):
    return bytes([2]) + cookie + u32(768) + mpint1(srv_e) + mpint1(srv_n) + u32(1024) + mpint1(host_e) + mpint1(host_n) + u32(flags) + u32(cmask) + u32(amask)


# ---- host key blobs ----
def rsa_modulus(bits, seed=1):
    """An odd integer with exactly `bits` bits (top bit set)."""
    n = (1 << (bits - 1)) | ((0x9e3779b97f4a7c15 * (seed + 1)) % (1 << max(bits - 2, 1))) | 1
    return n


def rsa_blob(bits, e=65537, ktype=b'ssh-rsa', seed=1):
    return sstr(ktype) + mpint(e) + mpint(rsa_modulus(bits, seed))


def ed25519_blob(seed=1):
    return sstr(b'ssh-ed25519') + sstr(bytes((seed * 7 + i) % 256 for i in range(32)))


def ed448_blob(seed=1):
    return sstr(b'ssh-ed448') + sstr(bytes((seed * 5 + i) % 256 for i in range(57)))


def ecdsa_blob(curve=b'nistp256', qlen=65):
    return sstr(b'ecdsa-sha2-' + curve) + sstr(curve) + sstr(b'\x04' + bytes(qlen - 1))


def cert_blob(ktype, key_fields, ca_blob, cert_type=2):
    """OpenSSH certificate: string type, string nonce, <key fields>, uint64 serial, uint32 type, string key id,
    string principals, uint64 after, uint64 before, string critical, string extensions, string reserved, string CA key, string sig."""
    return (sstr(ktype) + sstr(bytes(32)) + key_fields + struct.pack('>Q', 7) + u32(cert_type) + sstr(b'host-key-id') + sstr(sstr(b'host.example'))
            + struct.pack('>QQ', 0, 2 ** 64 - 1) + sstr(b'') + sstr(b'') + sstr(b'') + sstr(ca_blob) + sstr(sstr(b'ssh-ed25519') + sstr(bytes(64))))


def rsa_cert_blob(bits, ca_blob, ktype=b'ssh-rsa-cert-v01@openssh.com', seed=1):
    return cert_blob(ktype, mpint(65537) + mpint(rsa_modulus(bits, seed)), ca_blob)


def ed25519_cert_blob(ca_blob, seed=1):
    return cert_blob(b'ssh-ed25519-cert-v01@openssh.com', sstr(bytes((seed + i) % 256 for i in range(32))), ca_blob)


def sk_ed25519_blob(seed=1, application=b'ssh:'):
    """FIDO/U2F-backed Ed25519 public key (PROTOCOL.u2f): string type, string pk, string application."""
    return sstr(b'sk-ssh-ed25519@openssh.com') + sstr(bytes((seed + 3 * i) % 256 for i in range(32))) + sstr(application)


def sk_ed25519_cert_blob(ca_blob, seed=1, application=b'ssh:'):
    return cert_blob(b'sk-ssh-ed25519-cert-v01@openssh.com', sstr(bytes((seed + 3 * i) % 256 for i in range(32))) + sstr(application), ca_blob)


def kexdh_reply(blob, msg=31):
    return bytes([msg]) + sstr(blob) + sstr(bytes(32)) + sstr(sstr(b'ssh-ed25519') + sstr(bytes(64)))


def gex_group(bits, g=2):
    p = rsa_modulus(bits, seed=3)
    return bytes([31]) + mpint(p) + mpint(g)


# ---- connection wrapper ----
class Conn:
    def __init__(self, sock, idx, server):
        self.s, self.idx, self.server = sock, idx, server
        self.buf = b''
        self.tx_msgs = 0
        self.eof = False

    def log(self, *ev):
        self.server.log.append((round(time.time() - self.server.t0, 4), self.idx) + ev)

    def send(self, data, label=None):
        """One logical message; the fault (if any) for (connection, message#) is applied here."""
        k = self.tx_msgs
        self.tx_msgs += 1
        f = self.server.fault_for(self.idx, k, label)
        if f is not None:
            data, after = f.apply(data)
        else:
            after = None
        self.log('tx', label or k, len(data))
        t_send = time.time()
        try:
            seg = self.server.segment
            if seg:
                for i in range(0, len(data), seg):
                    self.s.sendall(data[i:i + seg])
                    time.sleep(0.0005)
            else:
                self.s.sendall(data)
        except OSError:
            self.eof = True
        with self.server.lock:
            self.server.send_time += time.time() - t_send     # time the peer itself spent trickling data out (not the tool's doing)
        if after == 'close':
            self.close()
            raise Done()
        if after == 'stall':
            self.stall()
            raise Done()

    def stall(self):
        """Keep the connection open without sending, until the client gives up."""
        self.log('stall')
        try:
            self.s.settimeout(self.server.stall_limit)
            while True:
                d = self.s.recv(4096)
                if not d:
                    break
        except OSError:
            pass
        self.log('eof')
        self.close()

    def fill(self, n, timeout=None):
        self.s.settimeout(timeout if timeout is not None else self.server.io_timeout)
        while len(self.buf) < n:
            try:
                d = self.s.recv(65536)
            except (socket.timeout, OSError):
                return False
            if not d:
                self.eof = True
                self.log('eof')
                return False
            self.buf += d
        return True

    def recv_line(self, timeout=None):
        self.s.settimeout(timeout if timeout is not None else self.server.io_timeout)
        while b'\n' not in self.buf:
            try:
                d = self.s.recv(65536)
            except (socket.timeout, OSError):
                return None
            if not d:
                self.eof = True
                self.log('eof')
                return None
            self.buf += d
        line, self.buf = self.buf.split(b'\n', 1)
        return line.rstrip(b'\r')

    def recv_packet(self, timeout=None):
        """RFC 4253 packet -> (type, payload-without-type, raw) or None."""
        if not self.fill(5, timeout): return None
        plen, pad = struct.unpack('>IB', self.buf[:5])
        if plen > 1 << 20 or not self.fill(4 + plen, timeout): return None
        raw, self.buf = self.buf[:4 + plen], self.buf[4 + plen:]
        payload = raw[5:4 + plen - pad]
        self.log('rx', payload[0] if payload else -1, len(raw))
        self.server.rx_raw.append((self.idx, raw))
        return (payload[0] if payload else -1, payload[1:], raw)

    def close(self):
        try:
            self.s.shutdown(socket.SHUT_RDWR)
        except OSError:
            pass
        try:
            self.s.close()
        except OSError:
            pass
        self.log('close')

    def wait_eof(self, limit=None):
        """Wait for the client to close (records whether it did before we gave up)."""
        try:
            self.s.settimeout(limit if limit is not None else self.server.stall_limit)
            while True:
                d = self.s.recv(4096)
                if not d:
                    self.log('eof')
                    break
        except OSError:
            self.log('no-eof')
        self.close()


class Done(Exception):
    pass


class Fault:
    """kind: truncate(n) then close|stall; garbage(bytes); replace(bytes); drop (send nothing, then close|stall)."""

    def __init__(self, conn, msg, kind, arg=None, then='close'):
        self.conn, self.msg, self.kind, self.arg, self.then = conn, msg, kind, arg, then

    def matches(self, idx, k, label, phase):
        c = self.conn
        ok_c = (c == idx) or (c == phase) or (c == 'any') or (isinstance(c, tuple) and c[0] == phase and c[1] == self.nth_of_phase)
        ok_m = (self.msg == k) or (self.msg == label) or (self.msg == 'any')
        return ok_c and ok_m

    def apply(self, data):
        if self.kind == 'truncate': return data[:self.arg], self.then
        if self.kind == 'replace': return self.arg, self.then
        if self.kind == 'drop': return b'', self.then
        if self.kind == 'append': return data + self.arg, self.then
        if self.kind == 'edit': return self.arg(data), self.then
        raise ValueError(self.kind)


class Server:
    """Listens on 127.0.0.1:<ephemeral>; every accepted connection runs `behaviour(conn)` in its own thread."""

    def __init__(self, behaviour, faults=(), segment=0, io_timeout=3.0, stall_limit=6.0, backlog=128, bind_addr='127.0.0.1', max_accept=None):
        self.behaviour, self.faults, self.segment = behaviour, list(faults), segment
        self.io_timeout, self.stall_limit = io_timeout, stall_limit
        self.log, self.rx_raw = [], []
        self.t0 = time.time()
        self.nconn = 0
        self.max_accept = max_accept     # stop listening after this many connections: every later connection attempt is refused
        self.send_time = 0.0
        self.phases = {}        # conn idx -> phase label set by the behaviour
        self.lock = threading.Lock()
        self.ls = socket.socket(socket.AF_INET, socket.SOCK_STREAM)
        self.ls.setsockopt(socket.SOL_SOCKET, socket.SO_REUSEADDR, 1)
        self.ls.bind((bind_addr, 0))     # '0.0.0.0': reachable as 127.0.0.1, 127.0.0.2, ... (a host name with several addresses)
        self.ls.listen(backlog)
        self.port = self.ls.getsockname()[1]
        self.threads = []
        self.stop = False
        self.th = threading.Thread(target=self.accept_loop, daemon=True)
        self.th.start()

    def fault_for(self, idx, k, label):
        ph = self.phases.get(idx)
        for f in self.faults:
            c = f.conn
            ok_c = (c == idx) or (c == 'any') or (c == ph)
            ok_m = (f.msg == k) or (f.msg == label) or (f.msg == 'any')
            if ok_c and ok_m:
                return f
        return None

    def accept_loop(self):
        self.ls.settimeout(0.2)
        while not self.stop:
            try:
                s, addr = self.ls.accept()
            except socket.timeout:
                continue
            except OSError:
                break
            with self.lock:
                idx = self.nconn
                self.nconn += 1
            if self.max_accept is not None and self.nconn >= self.max_accept:
                try:
                    self.ls.close()
                except OSError:
                    pass
                self.stop_accepting = True
            c = Conn(s, idx, self)
            c.log('accept')
            t = threading.Thread(target=self.run_conn, args=(c,), daemon=True)
            self.threads.append(t)
            t.start()
            if getattr(self, 'stop_accepting', False):
                break

    def run_conn(self, c):
        try:
            self.behaviour(c)
        except Done:
            pass
        except Exception as e:  # noqa
            c.log('behaviour-exception', repr(e))
            c.close()

    def shutdown(self):
        self.stop = True
        try:
            self.ls.close()
        except OSError:
            pass
        for t in self.threads:
            t.join(timeout=self.stall_limit + 1)

    # ---- log queries ----
    def conns(self): return self.nconn
    def events(self, idx): return [e for e in self.log if e[1] == idx]
    def rx_types(self, idx): return [e[3] for e in self.log if e[1] == idx and e[2] == 'rx']
    def saw_eof(self, idx): return any(e[2] == 'eof' for e in self.events(idx))

    def max_concurrency(self):
        evs = sorted((e[0], 1 if e[2] == 'accept' else -1) for e in self.log if e[2] in ('accept', 'close'))
        cur = mx = 0
        for _, d in evs:
            cur += d
            mx = max(mx, cur)
        return mx


class Ssh2Server:
    """Cooperative OpenSSH-like behaviour.  spec keys: banner(bytes), pre(list of bytes lines), kex/key/enc/mac/comp
    (name lists, bytes or str), hostkeys {type(bytes): blob}, gex(callable (min,pref,max)->bits|None|'garbage'|'stall'|'close'|'disconnect'|'debug-disconnect'|'debug-ignore'),
    kexinit_override(bytes payload incl. type), send_kexinit(bool)."""

    def __init__(self, spec):
        self.spec = spec

    def __call__(self, c):
        sp = self.spec
        srv = c.server
        if sp.get('garbage_from') is not None and c.idx >= sp['garbage_from']:
            srv.phases[c.idx] = 'rate'
            if sp.get('garbage_bytes', b'0123456789'):
                c.send(sp.get('garbage_bytes', b'0123456789'), 'garbage')
            c.wait_eof(2.0)
            return
        for ln in sp.get('pre', []):
            c.send(ln + b'\r\n', 'pre')
        c.send(sp.get('banner', b'SSH-2.0-OpenSSH_8.9') + sp.get('eol', b'\r\n'), 'banner')
        if sp.get('send_kexinit', True):
            payload = sp.get('kexinit_override') or kexinit(sp['kex'], sp['key'], sp['enc'], sp['mac'], sp.get('comp', ('none',)),
                                                           enc_c=sp.get('enc_c'), mac_c=sp.get('mac_c'), comp_c=sp.get('comp_c'))
            for _ in range(sp.get('debug_before_kexinit', 0)):
                c.send(frame2(bytes([4, 0]) + sstr(b'dbg') + sstr(b'')), 'debug')
            c.send(frame2(payload), 'kexinit')
        line = c.recv_line(sp.get('client_banner_timeout', 1.0))
        if line is None:
            srv.phases[c.idx] = 'rate' if c.eof else 'silent-client'
            if not c.eof:
                c.wait_eof()
            else:
                c.close()
            return
        c.log('client-banner', line)
        pk = c.recv_packet()
        if pk is None or pk[0] != 20:
            srv.phases[c.idx] = 'no-kexinit'
            c.wait_eof()
            return
        # classify by the client's KEXINIT: the tool names exactly one kex (probes) or its default list
        try:
            ckex, ckey = self.parse_lists(pk[1])
        except Exception:
            ckex, ckey = [], []
        gex_names = (b'diffie-hellman-group-exchange-sha1', b'diffie-hellman-group-exchange-sha256')
        if len(ckex) == 1 and ckex[0] in gex_names and len(ckey) != 1:
            phase = 'gex'
        elif len(ckey) == 1:
            phase = 'hostkey'
        else:
            phase = 'first'
        srv.phases[c.idx] = phase
        c.log('phase', phase, [x.decode('latin1') for x in ckex], [x.decode('latin1') for x in ckey])
        first_msg = True
        while True:
            pk = c.recv_packet()
            if pk is None:
                break
            t, body, _raw = pk
            if first_msg and len(ckey) == 1 and len(ckex) == 1 and ckex[0] in gex_names:
                # a host-key probe whose kex is a group exchange and a GEX probe against a one-key server send the same
                # KEXINIT; they differ in the request: the host-key probe uses send_init_gex()'s defaults
                is_hk = (t == 34 and struct.unpack('>III', body[:12]) == (1024, 2048, 8192)) or t == 30
                phase = 'hostkey' if is_hk else 'gex'
                srv.phases[c.idx] = phase
                c.log('phase', phase, [x.decode('latin1') for x in ckex], [x.decode('latin1') for x in ckey])
            first_msg = False
            if t == 30:    # KEXDH_INIT / ECDH_INIT
                blob = sp.get('hostkeys', {}).get(ckey[0] if ckey else b'')
                if blob is None:
                    c.close()
                    return
                for _ in range(sp.get('debug_before_reply', 0)):
                    c.send(frame2(bytes([4, 0]) + sstr(b'dbg') + sstr(b'')), 'debug')
                c.send(frame2(kexdh_reply(blob)), 'kexdh_reply')
            elif t == 34:  # GEX_REQUEST
                mn, pf, mx = struct.unpack('>III', body[:12])
                if hasattr(srv, 'gex_requests'):   # every request, also a host-key probe's (phase 'hostkey'): consumers filter by phase
                    srv.gex_requests.append((c.idx, ckex[0].decode() if ckex else '', mn, pf, mx))
                ans = sp.get('gex', lambda a, b, d: None)(mn, pf, mx)
                if ans is None or ans == 'close':
                    c.close()
                    return
                if ans == 'stall':
                    c.stall()
                    return
                if ans == 'garbage':
                    c.send(bytes(range(7, 60)), 'garbage')
                    c.wait_eof()
                    return
                if ans in ('debug-disconnect', 'debug-ignore'):   # DEBUG messages, then something that is not a group
                    for _ in range(2):
                        c.send(frame2(bytes([4, 0]) + sstr(b'dbg') + sstr(b'')), 'debug')
                    c.send(frame2((bytes([1]) + u32(11) + sstr(b'disconnected by application') + sstr(b'')) if ans == 'debug-disconnect' else (bytes([2]) + sstr(b'x' * 20))), ans)   # reason code 11 reads as a plausible length field
                    c.close()
                    return
                if isinstance(ans, str) and ans.startswith('huge'):    # a modulus far beyond anything requested (65536 bits still fits comfortably in one packet); 'huge:<bits>' picks the size
                    c.send(frame2(gex_group(int(ans[5:]) if ans[4:5] == ':' else 65536)), 'gex_group_huge')
                    c.wait_eof()
                    return
                if ans == 'disconnect':
                    c.send(frame2(bytes([1]) + u32(3) + sstr(b'no matching group') + sstr(b'')), 'disconnect')
                    c.close()
                    return
                c.send(frame2(gex_group(ans)), 'gex_group')
            elif t == 32:  # GEX_INIT
                blob = sp.get('hostkeys', {}).get(ckey[0] if ckey else b'')
                if blob is None:
                    if srv.phases.get(c.idx) == 'hostkey':
                        c.close()
                        return
                    blob = ed25519_blob()
                c.send(frame2(kexdh_reply(blob, 33)), 'gex_reply')
            else:
                pass
        if not c.eof:
            c.wait_eof()
        else:
            c.close()

    @staticmethod
    def parse_lists(body):
        p = 16
        out = []
        for _ in range(2):
            n = struct.unpack('>I', body[p:p + 4])[0]
            out.append(body[p + 4:p + 4 + n].split(b','))
            p += 4 + n
        return out[0], out[1]


def new_ssh2_server(spec, **kw):
    s = Server(Ssh2Server(spec), **kw)
    s.gex_requests = []
    return s


class Ssh1Server:
    def __init__(self, spec):
        self.spec = spec

    def __call__(self, c):
        sp = self.spec
        c.send(sp.get('banner', b'SSH-1.5-OpenSSH_3.0') + b'\r\n', 'banner')
        c.send(sp.get('packet') or frame1(pkm_payload(sp.get('cmask', 0x4c), sp.get('amask', 0x0c))), 'pkm')
        c.recv_line(1.0)
        c.wait_eof()


class RawServer:
    """Sends the given chunks (bytes, or ('sleep', s)) then closes or stalls; for pre-handshake fault scripts."""

    def __init__(self, chunks, then='close'):
        self.chunks, self.then = chunks, then

    def __call__(self, c):
        for ch in self.chunks:
            if isinstance(ch, tuple):
                time.sleep(ch[1])
            else:
                c.send(ch, 'raw')
        if self.then == 'stall':
            c.stall()
        elif self.then == 'close-now':   # orderly end of our side at once (FIN, no reset: what the client sent is drained first)
            try:
                c.s.shutdown(socket.SHUT_WR)
            except OSError:
                pass
            c.wait_eof(2.0)
        else:
            c.wait_eof(1.0)


class Ssh1OnlyBroken:
    """An SSH-1-only peer whose SSH-1 side is broken, stateless (usable by a long-lived server): to a client that introduces itself as
    SSH-2 it answers the plain-text line 'Protocol major versions differ.' and closes; to the tool's SSH-1 retry it sends a public-key
    message with a bad CRC (or nothing at all)."""

    def __init__(self, retry='badcrc'):
        self.retry = retry

    def __call__(self, c):
        c.send(b'SSH-1.99-OpenSSH_3.0\r\n', 'banner')
        line = c.recv_line(2.0) or b''
        if line.startswith(b'SSH-2'):
            c.send(b'Protocol major versions differ.\n', 'mismatch')
        elif self.retry == 'badcrc':
            pk = bytearray(frame1(pkm_payload(0x4c, 0x0c)))
            pk[-1] ^= 0xff
            c.send(bytes(pk), 'badpkm')
        try:
            c.s.shutdown(socket.SHUT_WR)
        except OSError:
            pass
        c.wait_eof(2.0)


class PerConn:
    """A different behaviour per connection index (the last one repeats): e.g. protocol-mismatch text on the first connection, an SSH-1 server on the retry."""

    def __init__(self, behaviours):
        self.behaviours = list(behaviours)

    def __call__(self, c):
        return self.behaviours[min(c.idx, len(self.behaviours) - 1)](c)


def scripted_client(port, banner, kexinit_payload, delay=0.0, tries=100):
    """For client audits (-c): connect to the tool's listener, send banner + KEXINIT, read what the tool sends."""
    last = None
    for _ in range(tries):
        try:
            s = socket.create_connection(('127.0.0.1', port), timeout=2)
            break
        except OSError as e:
            last = e
            time.sleep(0.05)
    else:
        raise last
    s.sendall(banner + b'\r\n')
    if delay:
        time.sleep(delay)
    if kexinit_payload is not None:
        s.sendall(frame2(kexinit_payload))
    got = b''
    s.settimeout(3)
    try:
        while True:
            d = s.recv(65536)
            if not d:
                break
            got += d
    except OSError:
        pass
    s.close()
    return got
