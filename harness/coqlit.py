"""Python values -> Coq literal text (fail-closed: unknown shapes raise)."""

def cstr(s):
    """Coq `string` term for a Python str (encoded as UTF-8 bytes) or bytes."""
    b = s.encode('utf-8', 'surrogateescape') if isinstance(s, str) else bytes(s)
    if all(32 <= c <= 126 for c in b):
        return '"' + b.decode('ascii').replace('"', '""') + '"'
    return '(bs [' + ';'.join(str(c) for c in b) + ']%nat)'

def cbytes(b):
    """Coq `list Z` term for bytes."""
    return '[' + ';'.join(str(c) for c in bytes(b)) + ']'

def cbool(b):
    if b is True: return 'true'
    if b is False: return 'false'
    raise TypeError(b)

def cz(n):
    if isinstance(n, bool) or not isinstance(n, int): raise TypeError(n)
    if -10**15 < n < 10**15:
        return '(%d)' % n if n < 0 else str(n)
    if n < 0:
        return '(- %s)' % cz(-n)
    if n.bit_length() <= 8192:
        return '0x%x' % n
    # very long literals overflow coqc's number parser: build from 8192-bit limbs
    return '(Z.shiftl %s 8192 + %s)' % (cz(n >> 8192), cz(n & ((1 << 8192) - 1)))

def cnat(n):
    if isinstance(n, bool) or not isinstance(n, int) or n < 0 or n > 5000: raise TypeError(n)
    return '%d%%nat' % n

def clist(xs, f):
    return '[' + '; '.join(f(x) for x in xs) + ']'

def copt(x, f):
    return 'None' if x is None else '(Some ' + f(x) + ')'

def cpair(a, b):
    return '(' + a + ', ' + b + ')'

def cstrs(xs):
    return clist(xs, cstr)
