"""Canonical forms of the tool's output: text report -> structured findings; JSON -> the same tuples.
Anything that cannot be parsed raises CanonError (reported by the checks as a correspondence break)."""
import json
import re

ANSI = re.compile(r'\x1b\[[0-9;]*m')
COLOR_LEVEL = {'31': 'fail', '33': 'warn', '32': 'good', '36': 'head', '91': 'fail', '93': 'warn', '92': 'good', '96': 'head'}
ALG_TAGS = ('kex', 'key', 'enc', 'mac', 'aut')
NOTE_RE = re.compile(r'^(.*?)\s* -- \[(fail|warn|info)\] (.*)$', re.S)
CONT_RE = re.compile(r'^\s*`- \[(fail|warn|info)\] (.*)$', re.S)
SIZE_RE = re.compile(r'^(.*?) \((\d+)-bit(?: cert/(\d+)-bit (.+?) CA)?\)$')


class CanonError(Exception):
    pass


def strip_ansi(s):
    return ANSI.sub('', s)


def line_color(line):
    m = re.match(r'^\x1b\[0;(\d+)m', line)
    return COLOR_LEVEL.get(m.group(1)) if m else None


def parse_text(out, verbose=False):
    """Returns dict: algs [ {cat,name,size,ca_size,ca_type,notes[(lvl,text)],colors[...]} ], gen {k:v}, fin [...], rec [...],
    nfo [...], heads [...], other [...].  Continuation lines are attached to the preceding algorithm."""
    res = {'algs': [], 'gen': [], 'sec': [], 'fin': [], 'rec': [], 'nfo': [], 'heads': [], 'other': [], 'lines': []}
    cur = None
    # the tool's lines may contain embedded newlines only in a few known places (header, unknown-alg warning)
    for raw in out.split('\n'):
        col = line_color(raw)
        line = strip_ansi(raw)
        res['lines'].append((col, line))
        if line == '':
            cur = None
            continue
        m = re.match(r'^\((\w{3})\) (.*)$', line, re.S)
        if m and m.group(1) in ALG_TAGS:
            cat, rest = m.group(1), m.group(2)
            mm = NOTE_RE.match(rest)
            if mm:
                shown, lvl, text = mm.group(1), mm.group(2), mm.group(3)
                note = [(lvl, text)]
            else:
                shown, note = rest.rstrip(' '), [('info', '')]
            ms = SIZE_RE.match(shown)
            name, size, ca_size, ca_type = (ms.group(1), int(ms.group(2)), int(ms.group(3)) if ms.group(3) else None, ms.group(4)) if ms else (shown, None, None, None)
            if verbose and cur is not None and cur['cat'] == cat and cur['shown'] == shown and not cur.get('closed'):
                cur['notes'] += note
                cur['colors'].append(col)
                cur['vlines'] += 1
            else:
                cur = {'cat': cat, 'name': name, 'shown': shown, 'size': size, 'ca_size': ca_size, 'ca_type': ca_type, 'notes': note, 'colors': [col], 'vlines': 1}
                res['algs'].append(cur)
            continue
        mc = CONT_RE.match(line)
        if mc and cur is not None:
            cur['notes'].append((mc.group(1), mc.group(2)))
            cur['colors'].append(col)
            continue
        cur = None
        if m and m.group(1) in ('gen', 'sec', 'fin', 'rec', 'nfo'):
            res[m.group(1)].append((col, m.group(2)))
        elif line.startswith('# '):
            res['heads'].append(line[2:])
        else:
            res['other'].append((col, line))
    return res


REC_RE = re.compile(r'^([-+!])(.*?)\s*-- (kex|key|enc|mac) algorithm to (remove|append|change)(?: \((.*)\))? $')


def parse_recs(res):
    """(rec) lines -> list of (level-from-colour or None, action, cat, name, notes)."""
    out = []
    for col, body in res['rec']:
        m = REC_RE.match(body)
        if not m:
            raise CanonError('cannot parse (rec) line %r' % body)
        sign, name, cat, verb, notes = m.groups()
        act = {'-': 'del', '+': 'add', '!': 'chg'}[sign]
        if {'remove': 'del', 'append': 'add', 'change': 'chg'}[verb] != act:
            raise CanonError('inconsistent (rec) line %r' % body)
        lvl = {'fail': 'critical', 'warn': 'warning', 'good': 'informational'}.get(col)
        out.append((lvl, act, cat, name, notes or ''))
    return out


def json_recs(js):
    out = []
    for lvl, acts in (js.get('recommendations') or {}).items():
        for act, cats in acts.items():
            for cat, lst in cats.items():
                for e in lst:
                    out.append((lvl, act, cat, e['name'], e['notes']))
    return out


def json_algs(js):
    """JSON of a standard SSH-2 audit -> [ {cat,name,notes[(lvl,text)],size,ca_size,ca_type} ]"""
    out = []
    for cat in ('kex', 'key', 'enc', 'mac'):
        for e in js.get(cat) or []:
            notes = []
            for lvl in ('fail', 'warn', 'info'):
                for t in e['notes'].get(lvl, []):
                    notes.append((lvl, t))
            out.append({'cat': cat, 'name': e['algorithm'], 'notes': notes, 'size': e.get('keysize'), 'ca_size': e.get('casize'), 'ca_type': e.get('ca_algorithm')})
    return out


def findings(algs):
    """The set of (category, algorithm, severity, note) findings of fail/warn severity."""
    return sorted({(a['cat'], a['name'], l, t) for a in algs for (l, t) in a['notes'] if l in ('fail', 'warn')})


def worst(algs):
    lv = {l for a in algs for (l, t) in a['notes']}
    return 3 if 'fail' in lv else 2 if 'warn' in lv else 0


GENERAL_FINDINGS = (('(gen) protocol SSH1 enabled', 3), ('(sec) SSH v1 enabled', 3), ('(gen) banner contains non-printable ASCII', 2))


def general_level(text):
    """Level of the findings of the general/security sections of a printed report (they carry their level as colour, not as a tag)."""
    t = strip_ansi(text)
    return max([lv for (needle, lv) in GENERAL_FINDINGS if any(l.startswith(needle) for l in t.split('\n'))] or [0])


def worst_report(text, algs=None):
    """Worst finding of a printed text report: algorithm notes and general-section findings."""
    algs = algs if algs is not None else parse_text(text)['algs']
    return max(worst(algs), general_level(text))


def load_json(out):
    try:
        return json.loads(out)
    except ValueError as e:
        raise CanonError('stdout is not one JSON document: %s: %r' % (e, out[:200]))
