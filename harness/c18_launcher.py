#!/venv/bin/python
"""C18 launcher: runs the REAL ssh-audit command line with a synthetic resolver and intercepted sockets.

stdin : JSON list of cases  {"argv": [...], "resolver": {host: [[family, socktype, ip], ...]}, "mode": "refuse"|"peer"}
stdout: JSON list of results {"gai": [[host, port, family, type], ...], "conn": [[family, ip, port], ...],
                              "status": int | "exc:<Type>", "out": str, "err": str}

Each case runs in a forked child of this (single-threaded) process; the child executes
runpy.run_path('<repo>/ssh-audit.py', run_name='__main__') with sys.argv set.  No packet ever leaves the process:
  * socket.getaddrinfo is replaced by a table lookup (entries filtered by the requested family like the real
    resolver does; unknown host -> socket.gaierror) and every call is logged;
  * socket.socket is replaced by an in-memory object whose connect() is logged and then either raises
    ConnectionRefusedError (mode refuse) or succeeds and plays a scripted SSH-2 server: banner + KEXINIT, then EOF
    (mode peer), so that the report with the target label is produced by the real output code.
"""
import io
import json
import os
import struct
import sys
import traceback

REPO = os.environ.get('VERIF_REPO', '/repo')
sys.path[0:0] = [os.path.join(REPO, 'src')]

import socket  # noqa: E402
import runpy  # noqa: E402
import ssh_audit.ssh_audit  # noqa: E402,F401  (pre-import so that the forked children start fast)


def kexinit_packet():
    def nl(names):
        b = ','.join(names).encode()
        return struct.pack('>I', len(b)) + b
    payload = bytes([20]) + bytes(16)
    payload += nl(['curve25519-sha256']) + nl(['ssh-ed25519'])
    payload += nl(['chacha20-poly1305@openssh.com']) * 2 + nl(['hmac-sha2-256-etm@openssh.com']) * 2 + nl(['none']) * 2 + nl([]) * 2
    payload += b'\x00' + struct.pack('>I', 0)
    pad = -(len(payload) + 5) % 8
    if pad < 4:
        pad += 8
    return struct.pack('>IB', len(payload) + pad + 1, pad) + payload + bytes(pad)


PEER_SCRIPT = b'SSH-2.0-OpenSSH_9.6\r\n' + kexinit_packet()


class Log:
    gai = []
    conn = []
    resolver = {}
    mode = 'refuse'


class FakeSocket:
    """Stands in for socket.socket inside the child."""

    def __init__(self, family=-1, type=-1, proto=-1, fileno=None):  # pylint: disable=redefined-builtin
        self.family = int(family)
        self.type = int(type)
        self._data = b''
        self._connected = False

    def settimeout(self, t):
        pass

    def setsockopt(self, *a):
        pass

    def connect(self, addr):
        Log.conn.append([self.family, addr[0], addr[1]])
        if Log.mode == 'refuse':
            raise ConnectionRefusedError(111, 'Connection refused')
        self._connected = True
        self._data = PEER_SCRIPT

    def connect_ex(self, addr):
        try:
            self.connect(addr)
        except OSError as e:
            return e.errno
        return 0

    def recv(self, n):
        d, self._data = self._data[:n], self._data[n:]
        return d

    def send(self, data):
        return len(data)

    def sendall(self, data):
        return None

    def shutdown(self, how):
        pass

    def close(self):
        pass

    def fileno(self):
        return -1


def fake_getaddrinfo(host, port, family=0, type=0, proto=0, flags=0):  # pylint: disable=redefined-builtin
    Log.gai.append([host, port, int(family), int(type)])
    res = []
    for fam, st, ip in Log.resolver.get(host, []):
        if family not in (0, fam):
            continue
        # entries are deliberately NOT filtered by `type`: a table may contain SOCK_DGRAM entries to exercise
        # the code's own `socktype == SOCK_STREAM` filter
        addr = (ip, port) if fam == socket.AF_INET else (ip, port, 0, 0)
        res.append((socket.AddressFamily(fam), socket.SocketKind(st), 6 if st == 1 else 17, '', addr))
    if not res:
        raise socket.gaierror(-2, 'Name or service not known')
    return res


def child(case, wfd):
    Log.gai, Log.conn = [], []
    Log.resolver = case.get('resolver', {})
    Log.mode = case.get('mode', 'refuse')
    socket.getaddrinfo = fake_getaddrinfo
    socket.socket = FakeSocket
    out, err = io.StringIO(), io.StringIO()
    sys.stdout, sys.stderr = out, err
    sys.argv = [os.path.join(REPO, 'ssh-audit.py')] + list(case['argv'])
    os.environ.pop('NO_COLOR', None)
    status = None
    try:
        runpy.run_path(os.path.join(REPO, 'ssh-audit.py'), run_name='__main__')
        status = 0
    except SystemExit as e:
        status = e.code if isinstance(e.code, int) else (0 if e.code is None else 'exit:%r' % (e.code,))
    except BaseException as e:  # pylint: disable=broad-except
        status = 'exc:' + type(e).__name__
        err.write(traceback.format_exc())
    res = {'gai': Log.gai, 'conn': Log.conn, 'status': status, 'out': out.getvalue(), 'err': err.getvalue()}
    with os.fdopen(wfd, 'w') as f:
        json.dump(res, f)
    os._exit(0)


def run_case(case):
    r, w = os.pipe()
    pid = os.fork()
    if pid == 0:
        os.close(r)
        try:
            child(case, w)
        finally:
            os._exit(97)
    os.close(w)
    with os.fdopen(r) as f:
        data = f.read()
    os.waitpid(pid, 0)
    try:
        return json.loads(data)
    except ValueError:
        return {'gai': [], 'conn': [], 'status': 'launcher-failure', 'out': '', 'err': data[-500:]}


def main():
    cases = json.load(sys.stdin)
    json.dump([run_case(c) for c in cases], sys.stdout)


if __name__ == '__main__':
    main()
