"""T1d: message codecs translated from the source (fail-closed) -> coq/gen/Codecs.v.

The `parse` and `write` methods of SSH2_Kex and SSH1_PublicKeyMessage are straight sequences of ReadBuf / WriteBuf calls followed (parse) by
constructor calls.  They are translated statement by statement into Gallina over the model's field codecs (Wire.dec_* / enc_* : the models of the
ReadBuf / WriteBuf primitives, which stay hand-written and tied by the correspondence).  What the translation fixes is everything a message codec
adds on top of the primitives: which fields, in which order, with which primitive, and where each decoded value ends up in the object - the latter by
evaluating the constructors symbolically (parameter -> private attribute -> property), so that a decoded value is attached to the property through
which the rest of the program reads it.  proofs/TieC10.v proves the hand-written Wire.parse_kexinit / write_kexinit / parse_pkm / write_pkm equal
to the generated functions for all inputs.
"""
import ast

from translate import TranslateError, need, src, func_node   # noqa: F401

READERS = {'read_list': ('dec_namelist', 0), 'read_bool': ('dec_bool', 0), 'read_int': ('dec_u32', 0), 'read_mpint1': ('dec_mpint1', 0), 'read_mpint2': ('dec_mpint2', 0),
           'read_byte': ('dec_byte', 0)}
# writer -> (model encoder, is it in the error monad)
WRITERS = {'write_list': ('enc_namelist', True), 'write_bool': ('enc_bool', False), 'write_int': ('enc_u32', True), 'write_mpint1': ('enc_mpint1', True),
           'write_mpint2': ('enc_mpint2', True)}


class Obj:
    """symbolic instance: private attribute -> symbolic value"""
    def __init__(self, cls):
        self.cls, self.attrs = cls, {}


def class_node(tree, name):
    cs = [n for n in tree.body if isinstance(n, ast.ClassDef) and n.name == name]
    need(len(cs) == 1, 'class %s' % name)
    return cs[0]


def method(cls, name):
    ms = [n for n in cls.body if isinstance(n, ast.FunctionDef) and n.name == name]
    need(len(ms) == 1, '%s.%s' % (cls.name, name))
    return ms[0]


def mangle(cls, attr):
    return attr   # private names are compared within one class only


def construct(classes, cname, args):
    """evaluate <cname>.__init__ symbolically: every `self.<attr> = <param>` binds the attribute to the argument's symbolic value"""
    cls = classes[cname]
    init = method(cls, '__init__')
    params = [a.arg for a in init.args.args][1:]
    ndef = len(init.args.defaults)
    need(len(params) - ndef <= len(args) <= len(params), '%s(): %d arguments for parameters %r' % (cname, len(args), params))
    env = dict(zip(params, args))
    for p, d in zip(params[len(params) - ndef:], init.args.defaults):
        if p not in env:
            need(isinstance(d, ast.Constant) and isinstance(d.value, int), '%s(): default of %s' % (cname, p))
            env[p] = ('const', d.value)
    o = Obj(cname)
    for st in init.body:
        if isinstance(st, ast.If):      # argument validation that raises
            need(all(isinstance(x, ast.Raise) for x in st.body) and not st.orelse, '%s.__init__: an if that does more than raise' % cname)
            continue
        if isinstance(st, ast.AnnAssign):
            tgt, val = st.target, st.value
        else:
            need(isinstance(st, ast.Assign) and len(st.targets) == 1, '%s.__init__: statement %s' % (cname, type(st).__name__))
            tgt, val = st.targets[0], st.value
        need(isinstance(tgt, ast.Attribute) and isinstance(tgt.value, ast.Name) and tgt.value.id == 'self', '%s.__init__: assignment target' % cname)
        if isinstance(val, ast.Name):
            need(val.id in env, '%s.__init__: %s is not a parameter' % (cname, val.id))
            o.attrs[tgt.attr] = env[val.id]
        else:
            need(isinstance(val, (ast.Dict, ast.List, ast.Constant)), '%s.__init__: attribute %s computed from %s' % (cname, tgt.attr, ast.unparse(val)[:60]))
            o.attrs[tgt.attr] = ('other',)
    return o


def prop_value(classes, o, prop):
    """symbolic value of o.<prop>: the property must be `return self.<attr>` or `return self.<attr>[<int>]`"""
    need(isinstance(o, Obj), 'property %s of a non-object' % prop)
    cls = classes[o.cls]
    ms = [n for n in cls.body if isinstance(n, ast.FunctionDef) and n.name == prop and any(ast.unparse(d) == 'property' for d in n.decorator_list)]
    need(len(ms) == 1, 'property %s.%s' % (o.cls, prop))
    body = [st for st in ms[0].body if not (isinstance(st, ast.Expr) and isinstance(st.value, ast.Constant))]
    need(len(body) == 1 and isinstance(body[0], ast.Return), 'property %s.%s is more than a return' % (o.cls, prop))
    v = body[0].value
    idx = None
    if isinstance(v, ast.Subscript) and isinstance(v.slice, ast.Constant) and isinstance(v.slice.value, int):
        idx, v = v.slice.value, v.value
    need(isinstance(v, ast.Attribute) and isinstance(v.value, ast.Name) and v.value.id == 'self' and v.attr in o.attrs, 'property %s.%s returns %s' % (o.cls, prop, ast.unparse(body[0].value)))
    val = o.attrs[v.attr]
    if idx is not None:
        need(isinstance(val, tuple) and val and val[0] == 'tuple' and 0 <= idx < len(val[1]), 'property %s.%s indexes a non-tuple' % (o.cls, prop))
        val = val[1][idx]
    return val


def path_value(classes, o, path):
    for p in path.split('.'):
        o = prop_value(classes, o, p)
    return o


def translate_parse(classes, cname, record, fields, fn_name, extra_ctor_args=0):
    """fields: list of (property path, model record field).  Returns the Coq definition text."""
    cls = classes[cname]
    parse = method(cls, 'parse')
    body = [st for st in parse.body if not (isinstance(st, ast.Expr) and isinstance(st.value, ast.Constant))]
    need(isinstance(body[0], ast.Assign) and ast.unparse(body[0]) == 'buf = ReadBuf(payload)', '%s.parse: starts with buf = ReadBuf(payload)' % cname)
    env = {}
    steps = []
    result = None
    for st in body[1:]:
        if isinstance(st, ast.Return):
            need(isinstance(st.value, ast.Name) and st.value.id in env and isinstance(env[st.value.id], Obj), '%s.parse: returns %s' % (cname, ast.unparse(st)))
            result = env[st.value.id]
            break
        need(isinstance(st, ast.Assign) and len(st.targets) == 1 and isinstance(st.targets[0], ast.Name), '%s.parse: statement %s' % (cname, ast.unparse(st)[:60]))
        name, v = st.targets[0].id, st.value
        if isinstance(v, ast.Call) and isinstance(v.func, ast.Attribute) and isinstance(v.func.value, ast.Name) and v.func.value.id == 'buf':
            m = v.func.attr
            var = 'v_%s' % name
            if m == 'read':
                need(len(v.args) == 1 and isinstance(v.args[0], ast.Constant) and isinstance(v.args[0].value, int), '%s.parse: read() with a non-constant length' % cname)
                steps.append('let %s := take %d p in let p := drop %d p in' % (var, v.args[0].value, v.args[0].value))
            else:
                need(m in READERS and not v.args, '%s.parse: reader %s' % (cname, m))
                steps.append('do (%s, p) <- %s p;' % (var, READERS[m][0]))
            env[name] = ('var', var)
        elif isinstance(v, ast.Tuple) and all(isinstance(e, ast.Name) and e.id in env for e in v.elts):
            env[name] = ('tuple', [env[e.id] for e in v.elts])
        elif isinstance(v, ast.Call) and isinstance(v.func, ast.Name) and (v.func.id in classes or v.func.id == 'cls'):
            cn = cname if v.func.id == 'cls' else v.func.id
            args = []
            for a in v.args:
                need(isinstance(a, ast.Name), '%s.parse: constructor argument %s' % (cname, ast.unparse(a)))
                args.append(env.get(a.id, ('free', a.id)))
            need(not v.keywords, '%s.parse: keyword arguments in a constructor call' % cname)
            env[name] = construct(classes, cn, args)
        else:
            need(False, '%s.parse: statement %s' % (cname, ast.unparse(st)[:80]))
    need(result is not None, '%s.parse: no return of the constructed object' % cname)
    inits = []
    used = set()
    for path, fld in fields:
        val = path_value(classes, result, path)
        need(isinstance(val, tuple) and val[0] == 'var', '%s.parse: property %s is not fed by one decoded field (%r)' % (cname, path, val))
        need(val[1] not in used, '%s.parse: decoded field %s feeds two properties' % (cname, val[1]))
        used.add(val[1])
        inits.append('%s := %s' % (fld, val[1]))
    decoded = {s.split()[1].strip('(,') for s in steps}
    need(used == decoded, '%s.parse: decoded fields %r, fields reaching the object %r' % (cname, sorted(decoded), sorted(used)))
    return 'Definition %s (p : list Z) : res (%s * list Z) :=\n  %s\n  Ok ({| %s |}, p).' % (fn_name, record, '\n  '.join(steps), '; '.join(inits))


def translate_write(classes, cname, record, fields, fn_name, private_paths=None):
    cls = classes[cname]
    write = method(cls, 'write')
    need([a.arg for a in write.args.args] == ['self', 'wbuf'], '%s.write signature' % cname)
    fmap = dict(fields)
    fmap.update(private_paths or {})
    binds, parts = [], []
    for i, st in enumerate(write.body):
        need(isinstance(st, ast.Expr) and isinstance(st.value, ast.Call) and isinstance(st.value.func, ast.Attribute) and isinstance(st.value.func.value, ast.Name)
             and st.value.func.value.id == 'wbuf' and len(st.value.args) == 1 and not st.value.keywords, '%s.write: statement %s' % (cname, ast.unparse(st)[:60]))
        m = st.value.func.attr
        arg = ast.unparse(st.value.args[0])
        need(arg.startswith('self.'), '%s.write: argument %s' % (cname, arg))
        path = arg[5:]
        need(path in fmap, '%s.write: %s is not a field of the message model' % (cname, arg))
        acc = '(%s m)' % fmap[path]
        if m == 'write':
            parts.append(acc)
        else:
            need(m in WRITERS, '%s.write: writer %s' % (cname, m))
            enc, monadic = WRITERS[m]
            if monadic:
                binds.append('do b%d <- %s %s;' % (i, enc, acc))
                parts.append('b%d' % i)
            else:
                parts.append('%s %s' % (enc, acc))
    written = [ast.unparse(st.value.args[0])[5:] for st in write.body]
    need(len(set(written)) == len(written), '%s.write: a field is written twice' % cname)
    need(set(fmap[w] for w in written) == set(f for _, f in fields), '%s.write: fields written %r, fields of the model %r' % (cname, written, [f for _, f in fields]))
    return 'Definition %s (m : %s) : res (list Z) :=\n  %s\n  Ok (%s).' % (fn_name, record, '\n  '.join(binds), ' ++ '.join(parts))


KEX_FIELDS = [('cookie', 'k_cookie'), ('kex_algorithms', 'k_kex'), ('key_algorithms', 'k_key'), ('client.encryption', 'k_cenc'), ('server.encryption', 'k_senc'),
              ('client.mac', 'k_cmac'), ('server.mac', 'k_smac'), ('client.compression', 'k_ccomp'), ('server.compression', 'k_scomp'),
              ('client.languages', 'k_clang'), ('server.languages', 'k_slang'), ('follows', 'k_follows'), ('unused', 'k_unused')]
PKM_FIELDS = [('cookie', 'p_cookie'), ('server_key_bits', 'p_skey_bits'), ('server_key_public_exponent', 'p_skey_e'), ('server_key_public_modulus', 'p_skey_n'),
              ('host_key_bits', 'p_hkey_bits'), ('host_key_public_exponent', 'p_hkey_e'), ('host_key_public_modulus', 'p_hkey_n'),
              ('protocol_flags', 'p_flags'), ('supported_ciphers_mask', 'p_cmask'), ('supported_authentications_mask', 'p_amask')]


def generate():
    """Returns (text of Codecs.v, list of soft failures)."""
    out = ['(* GENERATED by harness/codectrans.py from the working tree of the repository under check -- do not edit. *)',
           'From VModel Require Import Base Wire.', 'Open Scope list_scope. Open Scope Z_scope.']
    fails = []
    t_kex = ast.parse(src('ssh2_kex.py'))
    t_party = ast.parse(src('ssh2_kexparty.py'))
    t_pkm = ast.parse(src('ssh1_publickeymessage.py'))

    def soft(what, fn):
        mark = len(out)
        try:
            fn()
        except TranslateError as e:
            del out[mark:]
            out.append('(* NOT TRANSLATED (%s): %s -- the codec tie lemmas of C10 cannot be checked *)' % (what, str(e).replace('*)', '* )')[:300]))
            fails.append({'what': what, 'properties': ['C10'], 'reason': str(e)[:300]})

    def kex():
        classes = {'SSH2_Kex': class_node(t_kex, 'SSH2_Kex'), 'SSH2_KexParty': class_node(t_party, 'SSH2_KexParty')}
        out.append(translate_parse(classes, 'SSH2_Kex', 'kexinit', KEX_FIELDS, 'src_parse_kexinit'))
        # write() reads the last field through its private name
        out.append(translate_write(classes, 'SSH2_Kex', 'kexinit', KEX_FIELDS, 'src_write_kexinit', private_paths={'__unused': 'k_unused'}))
        o = construct(classes, 'SSH2_Kex', [('free', x) for x in ('outputbuffer', 'cookie', 'kex_algs', 'key_algs', 'cli', 'srv', 'follows', 'unused')])
        need(o.attrs.get('__unused') == ('free', 'unused') and prop_value(classes, o, 'unused') == ('free', 'unused'), 'SSH2_Kex: __unused is the `unused` parameter and property')
    soft('SSH2_Kex.parse / write', kex)

    def pkm():
        classes = {'SSH1_PublicKeyMessage': class_node(t_pkm, 'SSH1_PublicKeyMessage')}
        out.append(translate_parse(classes, 'SSH1_PublicKeyMessage', 'pkm', PKM_FIELDS, 'src_parse_pkm'))
        out.append(translate_write(classes, 'SSH1_PublicKeyMessage', 'pkm', PKM_FIELDS, 'src_write_pkm'))
    soft('SSH1_PublicKeyMessage.parse / write', pkm)
    return '\n'.join(out) + '\n', fails
