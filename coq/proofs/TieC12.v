(* C12: every literal / integer kernel that the hand-written model repeats from the Python source is proved equal to the copy the
   translator extracts from the current source on every run (gen/Tables.v, definitions whose names start with src_).  When the source changes there, the generated
   definition changes (or is left out when the shape is no longer recognised) and this file stops compiling: the model cannot go stale silently,
   and only this property's check is affected. *)
From Coq Require Import ZArith List String Bool Lia ZifyBool.
From VGen Require Import Tables.
From VModel Require Import Gex.
Open Scope string_scope. Open Scope list_scope.

Lemma tie_gex_names : In gex256 gex_algs /\ In gex256 rec_chg_names.
Proof. split; cbn; tauto. Qed.
Lemma tie_2048_warning : gex_warn_text = k2_WARN_2048BIT_MODULUS /\ hk_two2k_warning = k2_WARN_2048BIT_MODULUS.
Proof. split; reflexivity. Qed.

(* the decisions of GEXTest.run() as they read now (T1c translation): the early break of the exact-size loop, the condition under which the
   follow-up request (2048, 3072, 4096) is sent, and openssh_test_updated are the expressions the model's exact_loop / probe_loop use *)
Lemma tie_gex_break : forall b sm, ((sm <=? b) && (0 <? sm))%Z = src_gex_break b sm.
Proof. intros b sm. unfold src_gex_break. rewrite Z.geb_leb, Z.gtb_ltb. reflexivity. Qed.
Lemma tie_gex_second_pass : forall sm sw,
  ((sm =? gex_openssh_trigger)%Z && is_openssh sw) =
  match sw with Some s => src_gex_second_pass sm true s | None => src_gex_second_pass sm false EmptyString end.
Proof.
  intros sm [s|]; unfold src_gex_second_pass, is_openssh, Terrapin.openssh_2048, gex_openssh_trigger, only_kex, gex256;
    cbn [Terrapin.kl_kex mem assoc]; rewrite !String.eqb_refl; change (2048 =? 2048)%Z with true; cbn [andb].
  - rewrite andb_true_r. reflexivity.
  - rewrite !andb_false_r. reflexivity.
Qed.
Lemma tie_gex_updated : forall sm2, ((0 <? sm2) && negb (sm2 =? gex_openssh_trigger))%Z = src_gex_updated sm2.
Proof. intros sm2. unfold src_gex_updated, gex_openssh_trigger. rewrite Z.gtb_ltb. reflexivity. Qed.

(* the translator found the source shape it extracts gex_probe_constants from (otherwise gen/Tables.v carries fallback values and this lemma fails) *)
Lemma tie_extract_ok_gex_probe_constants : extract_ok_gex_probe_constants = true.
Proof. reflexivity. Qed.
