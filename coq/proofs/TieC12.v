(* C12: every literal / integer kernel that the hand-written model repeats from the Python source is proved equal to the copy the
   translator extracts from the current source on every run (gen/Tables.v, definitions whose names start with src_).  When the source changes there, the generated
   definition changes (or is left out when the shape is no longer recognised) and this file stops compiling: the model cannot go stale silently,
   and only this property's check is affected. *)
From Coq Require Import ZArith List String Bool Lia ZifyBool.
From VGen Require Import Tables.
From VModel Require Import Gex.
Open Scope string_scope. Open Scope list_scope.

Lemma tie_gex_names : In gex256 gex_algs /\ In gex256 rec_chg_names.
Proof. split; cbn; tauto. Qed.
Lemma tie_2048_warning : gex_warn_text = k2_WARN_2048BIT_MODULUS /\ hk_two2k_warning = k2_WARN_2048BIT_MODULUS.
Proof. split; reflexivity. Qed.
