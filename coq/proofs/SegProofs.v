(* C09: the packet reader's result does not depend on how the peer's bytes are cut into TCP segments. *)
From Coq Require Import Lia ZifyBool.
From VModel Require Import Net.
From VProofs Require Import WireProofs NetProofs AuditProofs.
Open Scope list_scope. Open Scope Z_scope.

Notation "'MK' b c e" := ({| s_buf := b; s_chunks := c; s_end := e |}) (at level 10, b at level 9, c at level 9, e at level 9).

Definition nonempty_chunks (cs : list (list Z)) : Prop := Forall (fun c => c <> []) cs.
Definition err_of (e : ending) : recv_err := match e with Close => Closed | Stall => TimedOut end.

Lemma ensure_mk buf cs e n : nonempty_chunks cs ->
  (n <= zlen (buf ++ List.concat cs) /\ exists b1 cs1, ensure_read (MK buf cs e) n = (MK b1 cs1 e, None) /\
      b1 ++ List.concat cs1 = buf ++ List.concat cs /\ n <= zlen b1 /\ nonempty_chunks cs1)
  \/ (zlen (buf ++ List.concat cs) < n /\ ensure_read (MK buf cs e) n = (MK (buf ++ List.concat cs) [] e, Some (err_of e))).
Proof.
  unfold ensure_read. cbn [s_buf s_chunks s_end]. revert buf. induction cs as [|c cs IH]; intros buf Hne; cbn [ensure_chunks List.concat].
  - rewrite app_nil_r. destruct (zlen buf >=? n) eqn:E.
    + left. split; [lia|]. exists buf, []. cbn [List.concat]. rewrite app_nil_r. repeat split; [lia|constructor].
    + right. split; [lia|]. destruct e; reflexivity.
  - inversion Hne as [|? ? Hc Hcs]; subst. destruct (zlen buf >=? n) eqn:E.
    + left. split; [rewrite zlen_app; pose proof (zlen_nonneg (c ++ List.concat cs)); lia|].
      exists buf, (c :: cs). cbn [List.concat]. repeat split; [lia|exact Hne].
    + destruct c as [|x c]; [congruence|]. destruct (IH (buf ++ x :: c) Hcs) as [[Hle [b1 [cs1 [H1 [H2 [H3 H4]]]]]]|[Hlt H1]].
      * left. rewrite <- app_assoc in Hle, H2. split; [exact Hle|]. exists b1, cs1. repeat split; assumption.
      * right. rewrite <- app_assoc in Hlt, H1. split; [exact Hlt|exact H1].
Qed.

Lemma ensure_flat buf e n :
  ensure_read (MK buf [] e) n = (MK buf [] e, if n <=? zlen buf then None else Some (err_of e)).
Proof.
  unfold ensure_read. cbn [s_buf s_chunks s_end mk ensure_chunks].
  destruct (zlen buf >=? n) eqn:E; destruct (n <=? zlen buf) eqn:E2; try lia; [reflexivity|destruct e; reflexivity].
Qed.

Lemma dec_u32_prefix a b v r : dec_u32 a = Ok (v, r) -> dec_u32 (a ++ b) = Ok (v, r ++ b).
Proof. destruct a as [|x0 [|x1 [|x2 [|x3 a]]]]; cbn [dec_u32]; try discriminate. intros H. injection H as <- <-. reflexivity. Qed.
Lemma dec_byte_prefix a b v r : dec_byte a = Ok (v, r) -> dec_byte (a ++ b) = Ok (v, r ++ b).
Proof. destruct a as [|x a]; cbn [dec_byte]; [discriminate|]. intros H. injection H as <- <-. reflexivity. Qed.

Lemma take_prefix n (a b : list Z) : 0 <= n <= zlen a -> take n (a ++ b) = take n a.
Proof.
  intros H. unfold take. rewrite zlen_app. pose proof (zlen_nonneg b).
  destruct ((n <? 0) || (zlen a <=? n)) eqn:E1.
  - assert (n = zlen a) by lia. subst n.
    destruct ((zlen a <? 0) || (zlen a + zlen b <=? zlen a)) eqn:E2.
    + assert (zlen b = 0) by lia. destruct b; [apply app_nil_r|rewrite zlen_cons in H1; pose proof (zlen_nonneg b); lia].
    + unfold zlen. rewrite Nat2Z.id. rewrite firstn_app, Nat.sub_diag, firstn_all. cbn. apply app_nil_r.
  - destruct ((n <? 0) || (zlen a + zlen b <=? n)) eqn:E2; [lia|].
    rewrite firstn_app. replace (Z.to_nat n - List.length a)%nat with 0%nat by (unfold zlen in *; lia). cbn. apply app_nil_r.
Qed.
Lemma drop_prefix n (a b : list Z) : 0 <= n <= zlen a -> drop n (a ++ b) = drop n a ++ b.
Proof.
  intros H. unfold drop. rewrite zlen_app. pose proof (zlen_nonneg b).
  destruct ((n <? 0) || (zlen a <=? n)) eqn:E1.
  - assert (n = zlen a) by lia. subst n.
    destruct ((zlen a <? 0) || (zlen a + zlen b <=? zlen a)) eqn:E2.
    + assert (zlen b = 0) by lia. destruct b; [reflexivity|rewrite zlen_cons in H1; pose proof (zlen_nonneg b); lia].
    + unfold zlen. rewrite Nat2Z.id. rewrite skipn_app, Nat.sub_diag, skipn_all. reflexivity.
  - destruct ((n <? 0) || (zlen a + zlen b <=? n)) eqn:E2; [lia|].
    rewrite skipn_app. replace (Z.to_nat n - List.length a)%nat with 0%nat by (unfold zlen in *; lia). reflexivity.
Qed.

(* ---------- SSH-2 reader ---------- *)
Theorem read_packet2_segmentation buf cs e : nonempty_chunks cs ->
  snd (read_packet2 (MK buf cs e)) = snd (read_packet2 (MK (buf ++ List.concat cs) [] e)).
Proof.
  intros Hne. unfold read_packet2. rewrite ensure_flat.
  destruct (ensure_mk buf cs e 4 Hne) as [[Hle [b1 [cs1 [-> [T1 [L1 N1]]]]]]|[Hlt ->]].
  2:{ destruct (4 <=? zlen (buf ++ List.concat cs)) eqn:E; [lia|]. reflexivity. }
  destruct (4 <=? zlen (buf ++ List.concat cs)) eqn:E; [|lia]. cbn [s_buf]. rewrite <- T1.
  destruct (dec_u32_enough _ L1) as [plen [r1 D1]]. rewrite D1, (dec_u32_prefix _ (List.concat cs1) _ _ D1).
  unfold with_buf. cbn [s_buf s_chunks s_end]. rewrite ensure_flat.
  destruct (ensure_mk r1 cs1 e 1 N1) as [[Hle2 [b2 [cs2 [-> [T2 [L2 N2]]]]]]|[Hlt2 ->]].
  2:{ destruct (1 <=? zlen (r1 ++ List.concat cs1)) eqn:E2; [lia|]. reflexivity. }
  destruct (1 <=? zlen (r1 ++ List.concat cs1)) eqn:E2; [|lia]. cbn [s_buf]. rewrite <- T2.
  destruct (dec_byte_enough _ L2) as [padlen [r2 D2]]. rewrite D2, (dec_byte_prefix _ (List.concat cs2) _ _ D2).
  cbn [s_buf s_chunks s_end].
  destruct (negb ((4 + 1 + (plen - padlen - 1) + padlen) mod 8 =? 0)); [reflexivity|].
  rewrite ensure_flat.
  destruct (ensure_mk r2 cs2 e (plen - padlen - 1) N2) as [[Hle3 [b3 [cs3 [-> [T3 [L3 N3]]]]]]|[Hlt3 ->]].
  2:{ destruct (plen - padlen - 1 <=? zlen (r2 ++ List.concat cs2)) eqn:E3; [lia|]. reflexivity. }
  destruct (plen - padlen - 1 <=? zlen (r2 ++ List.concat cs2)) eqn:E3; [|lia]. cbn [s_buf s_chunks s_end].
  destruct (plen - padlen - 1 <? 1) eqn:Ep; [reflexivity|].
  rewrite <- T3. rewrite take_prefix, drop_prefix by lia.
  destruct (take (plen - padlen - 1) b3) as [|t pl]; [reflexivity|].
  rewrite ensure_flat. cbn [s_buf s_chunks s_end].
  destruct (ensure_mk (drop (plen - padlen - 1) b3) cs3 e padlen N3) as [[Hle4 [b4 [cs4 [-> _]]]]|[Hlt4 ->]].
  - destruct (padlen <=? zlen (drop (plen - padlen - 1) b3 ++ List.concat cs3)) eqn:E4; [reflexivity|lia].
  - destruct (padlen <=? zlen (drop (plen - padlen - 1) b3 ++ List.concat cs3)) eqn:E4; [lia|reflexivity].
Qed.

(* ---------- SSH-1 reader ---------- *)
Theorem read_packet1_segmentation buf cs e : nonempty_chunks cs ->
  snd (read_packet1 (MK buf cs e)) = snd (read_packet1 (MK (buf ++ List.concat cs) [] e)).
Proof.
  intros Hne. unfold read_packet1. rewrite ensure_flat.
  destruct (ensure_mk buf cs e 4 Hne) as [[Hle [b1 [cs1 [-> [T1 [L1 N1]]]]]]|[Hlt ->]].
  2:{ destruct (4 <=? zlen (buf ++ List.concat cs)) eqn:E; [lia|]. reflexivity. }
  destruct (4 <=? zlen (buf ++ List.concat cs)) eqn:E; [|lia]. cbn [s_buf]. rewrite <- T1.
  destruct (dec_u32_enough _ L1) as [plen [r1 D1]]. rewrite D1, (dec_u32_prefix _ (List.concat cs1) _ _ D1).
  unfold with_buf. cbn [s_buf s_chunks s_end]. rewrite ensure_flat.
  set (padlen := 8 - plen mod 8).
  assert (Hpad: 1 <= padlen <= 8) by (unfold padlen; pose proof (Z.mod_pos_bound plen 8 ltac:(lia)); lia).
  destruct (ensure_mk r1 cs1 e padlen N1) as [[Hle2 [b2 [cs2 [-> [T2 [L2 N2]]]]]]|[Hlt2 ->]].
  2:{ destruct (padlen <=? zlen (r1 ++ List.concat cs1)) eqn:E2; [lia|]. reflexivity. }
  destruct (padlen <=? zlen (r1 ++ List.concat cs1)) eqn:E2; [|lia]. cbn [s_buf s_chunks s_end]. rewrite <- T2.
  rewrite take_prefix, drop_prefix by lia.
  destruct (negb ((padlen + plen) mod 8 =? 0)); [reflexivity|].
  rewrite ensure_flat.
  destruct (ensure_mk (drop padlen b2) cs2 e plen N2) as [[Hle3 [b3 [cs3 [-> [T3 [L3 N3]]]]]]|[Hlt3 ->]].
  2:{ destruct (plen <=? zlen (drop padlen b2 ++ List.concat cs2)) eqn:E3; [lia|]. reflexivity. }
  destruct (plen <=? zlen (drop padlen b2 ++ List.concat cs2)) eqn:E3; [|lia]. cbn [s_buf s_chunks s_end].
  destruct (plen <? 5) eqn:Ep; [reflexivity|].
  rewrite <- T3. rewrite take_prefix, drop_prefix by lia.
  assert (Hd: 4 <= zlen (drop (plen - 4) b3)).
  { unfold drop. destruct ((plen - 4 <? 0) || (zlen b3 <=? plen - 4)) eqn:Ed; [lia|]. unfold zlen in *. rewrite skipn_length. lia. }
  destruct (dec_u32_enough _ Hd) as [crc [rest D3]]. rewrite D3, (dec_u32_prefix _ (List.concat cs3) _ _ D3).
  destruct (take (plen - 4) b3) as [|t pl]; [reflexivity|].
  destruct (crc =? crc_calc _); reflexivity.
Qed.

(* corollary: cutting the same byte stream in two different ways gives the same packet *)
Corollary read_packet2_any_two_cuts cs1 cs2 e : nonempty_chunks cs1 -> nonempty_chunks cs2 -> List.concat cs1 = List.concat cs2 ->
  snd (read_packet2 (MK [] cs1 e)) = snd (read_packet2 (MK [] cs2 e)).
Proof. intros H1 H2 E. rewrite (read_packet2_segmentation [] cs1 e H1), (read_packet2_segmentation [] cs2 e H2). cbn [app]. rewrite E. reflexivity. Qed.
