(* C08: every literal / integer kernel that the hand-written model repeats from the Python source is proved equal to the copy the
   translator extracts from the current source on every run (gen/Tables.v, definitions whose names start with src_).  When the source changes there, the generated
   definition changes (or is left out when the shape is no longer recognised) and this file stops compiling: the model cannot go stale silently,
   and only this property's check is affected. *)
From Coq Require Import ZArith List String Bool Lia ZifyBool.
From VGen Require Import Tables.
From VModel Require Import Multi.
Open Scope string_scope. Open Scope list_scope.

Lemma tie_multi_delimiter :
  delimiter = String.append (String.concat "" (repeat src_multi_delim_char src_multi_delim_count)) nl.
Proof. reflexivity. Qed.
Lemma tie_multi_json :
  multi_stdout true [(0%Z, "A"); (0%Z, "B")] =
  String.append src_multi_json_open (String.append "A" (String.append src_multi_json_sep (String.append "B" (String.append src_multi_json_close nl)))).
Proof. reflexivity. Qed.

(* main(): `if ranked_return_codes.index(worker_ret) > ranked_return_codes.index(ret): ret = worker_ret`, translated from the current source (T1c).
   For statuses that are in the ranked list (index() raises ValueError otherwise) the model's merge is that statement. *)
Lemma rank_go_zindex st : forall l i, In st l ->
  Z.of_nat ((fix go (l : list Z) (i : nat) : nat := match l with [] => 0%nat | x :: r => if (x =? st)%Z then i else go r (S i) end) l i)
  = (Z.of_nat i + src_zindex st l)%Z.
Proof.
  induction l as [|x r IH]; intros i H; [destruct H|].
  cbn [src_zindex]. rewrite (Z.eqb_sym st x). destruct (x =? st)%Z eqn:E.
  - lia.
  - destruct H as [H|H]; [subst; rewrite Z.eqb_refl in E; discriminate|]. rewrite IH by exact H. lia.
Qed.
Lemma tie_rank_update : forall ret w, In ret ranked_return_codes -> In w ranked_return_codes -> merge ret w = src_rank_update ret w.
Proof.
  intros ret w Hr Hw. unfold merge, src_rank_update, rank. cbv zeta.
  pose proof (rank_go_zindex ret ranked_return_codes 0%nat Hr) as A.
  pose proof (rank_go_zindex w ranked_return_codes 0%nat Hw) as B.
  destruct (Nat.ltb _ _) eqn:E1; destruct (src_zindex w ranked_return_codes >? src_zindex ret ranked_return_codes)%Z eqn:E2; try reflexivity.
  - apply Nat.ltb_lt in E1. lia.
  - apply Nat.ltb_ge in E1. lia.
Qed.

(* the run's status as the fold of the rank comparison of the current source over the workers' statuses *)
From VProofs Require Import MultiProofs.
Lemma src_final_status : forall results : list (Z * string),
  (forall r, In r results -> In (fst r) ranked_return_codes) ->
  final_status results = fold_left (fun ret r => src_rank_update ret (fst r)) results exit_GOOD.
Proof.
  intros results. unfold final_status.
  assert (G: forall ret, In ret ranked_return_codes -> (forall r, In r results -> In (fst r) ranked_return_codes) ->
             fold_left (fun ret r => merge ret (fst r)) results ret = fold_left (fun ret r => src_rank_update ret (fst r)) results ret).
  { induction results as [|x xs IH]; intros ret Hr Hall; [reflexivity|]. cbn [fold_left].
    assert (Hx: In (fst x) ranked_return_codes) by (apply Hall; left; reflexivity).
    rewrite <- (tie_rank_update ret (fst x) Hr Hx). apply IH.
    - unfold merge. destruct (Nat.ltb (rank ret) (rank (fst x))); assumption.
    - intros r Hin. apply Hall. right. exact Hin. }
  intros Hall. apply G; [|exact Hall]. cbn. tauto.
Qed.

(* the translator found the source shape it extracts ranked_return_codes from (otherwise gen/Tables.v carries fallback values and this lemma fails) *)
Lemma tie_extract_ok_ranked_return_codes : extract_ok_ranked_return_codes = true.
Proof. reflexivity. Qed.
