From Coq Require Import Lia ZifyBool.
From VModel Require Import Report.
Open Scope string_scope. Open Scope list_scope. Open Scope Z_scope.

(* ---------- C02: the status fold ---------- *)
Lemma exit_codes_distinct : exit_FAILURE <> exit_WARNING /\ exit_FAILURE <> exit_GOOD /\ exit_WARNING <> exit_GOOD
  /\ exit_CONNECTION_ERROR <> exit_GOOD /\ exit_CONNECTION_ERROR <> exit_WARNING /\ exit_CONNECTION_ERROR <> exit_FAILURE.
Proof. vm_compute. repeat split; discriminate. Qed.
Lemma exit_codes_documented : exit_GOOD = 0 /\ exit_CONNECTION_ERROR = 1 /\ exit_WARNING = 2 /\ exit_FAILURE = 3.
Proof. vm_compute. repeat split; reflexivity. Qed.

Lemma status_fold_fail_sticky ls : status_fold exit_FAILURE ls = exit_FAILURE.
Proof.
  unfold status_fold. induction ls as [|l ls IH]; cbn [fold_left]; [reflexivity|].
  destruct l; cbn [status_step]; exact IH.
Qed.
Lemma status_fold_warn ls : status_fold exit_WARNING ls = if existsb (level_eqb LFail) ls then exit_FAILURE else exit_WARNING.
Proof.
  unfold status_fold. induction ls as [|l ls IH]; cbn [fold_left existsb]; [reflexivity|].
  destruct l; cbn [status_step level_eqb orb].
  - apply status_fold_fail_sticky.
  - destruct (exit_WARNING =? exit_FAILURE) eqn:E; [pose proof exit_codes_distinct; lia|exact IH].
  - exact IH.
Qed.
Lemma status_fold_good ls :
  status_fold exit_GOOD ls = if existsb (level_eqb LFail) ls then exit_FAILURE
                             else if existsb (level_eqb LWarn) ls then exit_WARNING else exit_GOOD.
Proof.
  unfold status_fold. induction ls as [|l ls IH]; cbn [fold_left existsb]; [reflexivity|].
  destruct l; cbn [status_step level_eqb orb].
  - apply status_fold_fail_sticky.
  - destruct (exit_GOOD =? exit_FAILURE) eqn:E; [pose proof exit_codes_distinct; lia|].
    fold (status_fold exit_WARNING ls). rewrite status_fold_warn. reflexivity.
  - exact IH.
Qed.
Lemma existsb_level_In l ls : existsb (level_eqb l) ls = true <-> In l ls.
Proof.
  rewrite existsb_exists. split.
  - intros [x [Hx E]]. destruct l, x; try discriminate; exact Hx.
  - intros H. exists l. split; [exact H|destruct l; reflexivity].
Qed.

(* the statement of C02, first sentence, for every sequence of notes in every order *)
Theorem status_fold_spec ls :
  (status_fold exit_GOOD ls = exit_FAILURE <-> In LFail ls) /\
  (status_fold exit_GOOD ls = exit_WARNING <-> ~ In LFail ls /\ In LWarn ls) /\
  (status_fold exit_GOOD ls = exit_GOOD <-> ~ In LFail ls /\ ~ In LWarn ls).
Proof.
  rewrite status_fold_good. pose proof exit_codes_distinct as D.
  pose proof (existsb_level_In LFail ls) as HF. pose proof (existsb_level_In LWarn ls) as HW.
  destruct (existsb (level_eqb LFail) ls); destruct (existsb (level_eqb LWarn) ls);
    repeat split; intros; try tauto; try congruence;
    try (exfalso; intuition congruence); intuition (try congruence).
Qed.

(* every levelled finding of the report: the general section's (SSH-1 protocol banner, non-printable banner) and the algorithm notes *)
Definition report_levels (p : peer) (r : report) : list level := pr_general p ++ levels_of (rp_items r).

Lemma report_levels_in p r l :
  In l (report_levels p r) <-> In l (pr_general p) \/ exists it, In it (rp_items r) /\ In l (map fst (snd it)).
Proof. unfold report_levels, levels_of. rewrite in_app_iff, in_flat_map. reflexivity. Qed.

Theorem report_status_is_worst (p : peer) (d0 : db) :
  let r := report_of p d0 in
  (rp_status r = exit_FAILURE <-> In LFail (report_levels p r)) /\
  (rp_status r = exit_WARNING <-> ~ In LFail (report_levels p r) /\ In LWarn (report_levels p r)) /\
  (rp_status r = exit_GOOD <-> ~ In LFail (report_levels p r) /\ ~ In LWarn (report_levels p r)).
Proof.
  cbv zeta. unfold report_levels. cbn [rp_status rp_items report_of].
  exact (status_fold_spec _).
Qed.

(* in terms of items: a failure is a failed general finding or an item with a failure note, and so on *)
Corollary report_status_failure_iff (p : peer) (d0 : db) :
  let r := report_of p d0 in
  rp_status r = exit_FAILURE <-> In LFail (pr_general p) \/ exists it, In it (rp_items r) /\ In LFail (map fst (snd it)).
Proof. cbv zeta. destruct (report_status_is_worst p d0) as [HF _]. cbv zeta in HF. rewrite HF. apply report_levels_in. Qed.

(* policy audits: exit status is GOOD exactly when passed, FAILURE exactly when failed *)
Definition policy_exit (passed : bool) : Z := if passed then exit_GOOD else exit_FAILURE.
Theorem policy_status passed :
  (policy_exit passed = exit_GOOD <-> passed = true) /\ (policy_exit passed = exit_FAILURE <-> passed = false).
Proof. pose proof exit_codes_distinct. destruct passed; cbn [policy_exit]; split; split; intros; try reflexivity; try congruence; intuition congruence. Qed.

(* ---------- C03: what is shown for an algorithm depends only on its database entry ---------- *)
Theorem texts_depend_only_on_entry d1 d2 c n :
  db_get d1 c (lookup_name c n) = db_get d2 c (lookup_name c n) ->
  alg_texts d1 c n = alg_texts d2 c n /\ json_notes d1 c n = json_notes d2 c n.
Proof. intros H. unfold alg_texts, json_notes. rewrite H. split; reflexivity. Qed.

Theorem item_is_pointwise d p c n s t :
  In (c, n, s, t) (items_of d p) ->
  alg_texts d c n = Some t /\ s = display (shown_name c n (pr_hostkeys p) (pr_dh p)) /\ In n (match assoc c (cat_lists (pr_k p)) with Some l => l | None => [] end).
Proof.
  unfold items_of. intros H. apply in_flat_map in H. destruct H as [[c0 l] [Hc H]].
  apply in_flat_map in H. destruct H as [n0 [Hn H]]. cbn [fst snd] in H.
  destruct (alg_texts d c0 n0) as [t0|] eqn:E; [|destruct H]. destruct H as [H|[]]. injection H as <- <- <- <-.
  split; [exact E|]. split; [reflexivity|].
  unfold cat_lists in *. cbn [In] in Hc. destruct Hc as [Hc|[Hc|[Hc|[Hc|[]]]]]; injection Hc as <- <-; cbn; exact Hn.
Qed.

(* every advertised non-blank name produces exactly one item per occurrence, in order: items_of is a map/filter *)
Theorem items_in_advertised_order d p :
  map (fun it => match it with (c, n, _, _) => (c, n) end) (items_of d p) =
  flat_map (fun cl => flat_map (fun n => match alg_texts d (fst cl) n with Some _ => [(fst cl, n)] | None => [] end) (snd cl)) (cat_lists (pr_k p)).
Proof.
  unfold items_of. induction (cat_lists (pr_k p)) as [|cl cls IH]; [reflexivity|].
  cbn [flat_map]. rewrite map_app, IH. f_equal.
  induction (snd cl) as [|n ns IHn]; [reflexivity|]. cbn [flat_map]. rewrite map_app, IHn. f_equal.
  destruct (alg_texts d (fst cl) n); reflexivity.
Qed.

Lemma alg_texts_blank d c n : alg_texts d c n = None <-> str_is_blank (lookup_name c n) = true.
Proof.
  unfold alg_texts. destruct (str_is_blank (lookup_name c n)); [split; reflexivity|].
  destruct (db_get d c (lookup_name c n)); split; discriminate.
Qed.

(* unknown names: always flagged, never good; status at least WARNING *)
Theorem unknown_flagged d c n :
  str_is_blank (lookup_name c n) = false -> db_get d c (lookup_name c n) = None ->
  alg_texts d c n = Some [(LWarn, unknown_text)] /\ j_fail (json_notes d c n) = [k2_FAIL_UNKNOWN].
Proof. intros Hb Hn. unfold alg_texts, json_notes. rewrite Hb, Hn. split; reflexivity. Qed.

(* text and JSON views carry the same notes for every name the database knows *)
Theorem text_json_agree d c n e :
  str_is_blank (lookup_name c n) = false -> db_get d c (lookup_name c n) = Some e ->
  exists t, alg_texts d c n = Some t /\
    (forall s, In (LFail, s) t <-> In s (j_fail (json_notes d c n))) /\
    (forall s, In (LWarn, s) t <-> In s (j_warn (json_notes d c n))) /\
    (forall s, s <> "" -> (In (LInfo, s) t <-> In s (j_info (json_notes d c n)))).
Proof.
  intros Hb He. unfold alg_texts, json_notes. rewrite Hb, He. cbn [j_fail j_warn j_info].
  set (since := match since_text (versions e) with Some s => if String.eqb s "" then [] else [s] | None => [] end).
  assert (Hs: (match since_text (versions e) with Some s => if String.eqb s "" then [] else [(LInfo, s)] | None => [] end)
              = map (fun s => (LInfo, s)) since).
  { unfold since. destruct (since_text (versions e)) as [s|]; [destruct (String.eqb s "")|]; reflexivity. }
  rewrite Hs.
  set (t := map (fun s => (LFail, s)) (fails e) ++ map (fun s => (LWarn, s)) (warns e) ++ map (fun s => (LInfo, s)) since ++ map (fun s => (LInfo, s)) (infos e)).
  assert (Hin: forall l s, In (l, s) t <-> (l = LFail /\ In s (fails e)) \/ (l = LWarn /\ In s (warns e)) \/ (l = LInfo /\ (In s since \/ In s (infos e)))).
  { intros l s. unfold t. rewrite !in_app_iff, !in_map_iff. split.
    - intros [[x [E H]]|[[x [E H]]|[[x [E H]]|[x [E H]]]]]; injection E as <- <-; auto.
    - intros [[-> H]|[[-> H]|[-> [H|H]]]]; eauto 6. }
  exists (match t with [] => [(LInfo, "")] | _ => t end). split; [reflexivity|].
  assert (Ht: forall l s, s <> "" \/ l <> LInfo -> (In (l, s) (match t with [] => [(LInfo, "")] | _ => t end) <-> In (l, s) t)).
  { intros l s Hne. destruct t as [|x r]; [|reflexivity]. cbn [In]. split; [|tauto].
    intros [E|[]]. injection E as <- <-. destruct Hne; congruence. }
  split; [|split].
  - intros s. rewrite Ht by (right; discriminate). rewrite Hin. split; [intros [[_ H]|[[E _]|[E _]]]; [exact H|discriminate|discriminate]|auto].
  - intros s. rewrite Ht by (right; discriminate). rewrite Hin. split; [intros [[E _]|[[_ H]|[E _]]]; [discriminate|exact H|discriminate]|auto].
  - intros s Hne. rewrite Ht by (left; exact Hne). rewrite Hin, in_app_iff. split.
    + intros [[E _]|[[E _]|[_ H]]]; [discriminate|discriminate|tauto].
    + intros H. right. right. tauto.
Qed.

(* the status never counts a skipped (blank) name and an unknown name is at least a warning *)
Theorem unknown_makes_status_nonzero p d0 c n :
  let r := report_of p d0 in
  In (c, n) (map (fun it => match it with (c, n, _, _) => (c, n) end) (rp_items r)) ->
  db_get (rp_db r) c (lookup_name c n) = None ->
  rp_status r <> exit_GOOD.
Proof.
  cbv zeta. intros Hin Hn Hst. destruct (report_status_is_worst p d0) as [_ [_ HG]]. cbv zeta in HG.
  rewrite HG in Hst. destruct Hst as [_ HW]. apply HW. apply report_levels_in. right.
  apply in_map_iff in Hin. destruct Hin as [[[[c0 n0] s] t] [E Hit]]. injection E as -> ->.
  exists (c, n, s, t). split; [exact Hit|]. cbn [snd]. cbn [rp_items rp_db report_of] in *.
  apply item_is_pointwise in Hit. destruct Hit as [Ht _].
  unfold alg_texts in Ht. destruct (str_is_blank (lookup_name c n)); [discriminate|]. rewrite Hn in Ht.
  injection Ht as <-. cbn. tauto.
Qed.

Lemma status_is_function_of_items (p : peer) (d0 : db) :
  rp_status (report_of p d0) = status_fold exit_GOOD (pr_general p ++ levels_of (rp_items (report_of p d0))).
Proof. reflexivity. Qed.

(* ---------- the displayed name (fix 331ebe3): no control character reaches the text report; printable names are shown unchanged ---------- *)
Definition is_control (c : ascii) : bool := Nat.ltb (nat_of_ascii c) 32 || Nat.eqb (nat_of_ascii c) 127.
Lemma display_char_not_control c : is_control (display_char c) = false.
Proof.
  unfold display_char, is_control. destruct (Nat.ltb (nat_of_ascii c) 32 || Nat.eqb (nat_of_ascii c) 127) eqn:E; [reflexivity|exact E].
Qed.
Lemma chars_of_chars l : chars (of_chars l) = l.
Proof. induction l as [|c l IH]; cbn [of_chars chars]; [reflexivity|rewrite IH; reflexivity]. Qed.
Lemma of_chars_chars s : of_chars (chars s) = s.
Proof. induction s as [|c s IH]; cbn [of_chars chars]; [reflexivity|rewrite IH; reflexivity]. Qed.
Theorem display_no_control s : forallb (fun c => negb (is_control c)) (chars (display s)) = true.
Proof.
  unfold display. rewrite chars_of_chars. induction (chars s) as [|c l IH]; [reflexivity|].
  cbn [map forallb]. rewrite display_char_not_control, IH. reflexivity.
Qed.
Theorem display_printable s : forallb (fun c => negb (is_control c)) (chars s) = true -> display s = s.
Proof.
  unfold display. intros H. rewrite <- (of_chars_chars s) at 2. f_equal.
  induction (chars s) as [|c l IH]; [reflexivity|]. cbn [forallb] in H. apply andb_true_iff in H. destruct H as [Hc Hl].
  cbn [map]. rewrite (IH Hl). f_equal. unfold display_char. unfold is_control in Hc. apply negb_true_iff in Hc. rewrite Hc. reflexivity.
Qed.
(* in particular no line feed: a shown name cannot start a new report line *)
Theorem display_no_newline s : ~ In (ascii_of_nat 10) (chars (display s)) /\ ~ In (ascii_of_nat 13) (chars (display s)) /\ ~ In (ascii_of_nat 27) (chars (display s)).
Proof.
  pose proof (display_no_control s) as H. rewrite forallb_forall in H.
  repeat split; intros Hin; apply H in Hin; discriminate.
Qed.
