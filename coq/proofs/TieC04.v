(* C04: every literal / integer kernel that the hand-written model repeats from the Python source is proved equal to the copy the
   translator extracts from the current source on every run (gen/Tables.v, definitions whose names start with src_).  When the source changes there, the generated
   definition changes (or is left out when the shape is no longer recognised) and this file stops compiling: the model cannot go stale silently,
   and only this property's check is affected. *)
From Coq Require Import ZArith List String Bool Lia ZifyBool.
From VGen Require Import Tables.
From VModel Require Import Terrapin.
Open Scope string_scope. Open Scope list_scope.

Lemma tie_terrapin_markers : [marker_c; marker_s] = src_pp_markers.
Proof. reflexivity. Qed.
Lemma tie_advisory : advisory_prefix = src_advisory_prefix /\ advisory_suffix = src_advisory_suffix.
Proof. split; reflexivity. Qed.

(* the name tests and the direction selection of post_process_findings(), translated from the current source (T1c): each of the three
   _get_*_enabled helpers filters ONE list with ONE test; the model's predicates and list selection are those, for every name and every peer *)
Lemma mem2 (n a b : string) : mem n [a; b] = String.eqb n a || String.eqb n b.
Proof. cbn [mem]. destruct (String.eqb n a); [reflexivity|]. destruct (String.eqb n b); reflexivity. Qed.
Lemma tie_is_chacha : forall n, is_chacha n = src_is_chacha_ciphers n /\ is_chacha n = src_is_chacha_ciphers_db n.
Proof. intros n. split; reflexivity. Qed.
Lemma tie_is_cbc : forall n, is_cbc n = src_is_cbc_ciphers n /\ is_cbc n = src_is_cbc_ciphers_db n.
Proof.
  intros n. unfold is_cbc, src_is_cbc_ciphers, src_is_cbc_ciphers_db. rewrite mem2.
  split; rewrite <- !orb_assoc; reflexivity.
Qed.
Lemma tie_is_etm : forall n, is_etm n = src_is_etm_macs n /\ is_etm n = src_is_etm_macs_db n.
Proof. intros n. split; reflexivity. Qed.
Lemma tie_directions : forall ca k,
  tp_ciphers ca k = src_chacha_ciphers_list ca (kl_enc_c k) (kl_enc k) (kl_mac_c k) (kl_mac k) /\
  tp_ciphers ca k = src_cbc_ciphers_list ca (kl_enc_c k) (kl_enc k) (kl_mac_c k) (kl_mac k) /\
  tp_macs ca k = src_etm_macs_list ca (kl_enc_c k) (kl_enc k) (kl_mac_c k) (kl_mac k).
Proof. intros ca k. repeat split; reflexivity. Qed.

(* the rule, restated over the name tests and the direction lists the translator derives from the current source: the warning is carried exactly by the names that
   pass the source's own tests in the source's own choice of lists *)
From VProofs Require Import TerrapinProofs.
Definition src_ciphers (ca : bool) (k : kexlists) : list string := src_cbc_ciphers_list ca (kl_enc_c k) (kl_enc k) (kl_mac_c k) (kl_mac k).
Definition src_macs (ca : bool) (k : kexlists) : list string := src_etm_macs_list ca (kl_enc_c k) (kl_enc k) (kl_mac_c k) (kl_mac k).
Lemma src_terrapin_rule : forall ca bs k dh rn d c n e0,
  terrapin_free d -> db_get d c n = Some e0 ->
  (carries (p_db (post_process ca bs k dh rn d)) c n <->
   has_marker ca k = false /\
   ((c = "enc" /\ src_is_chacha_ciphers n = true /\ In n (src_ciphers ca k)) \/
    (c = "enc" /\ src_is_cbc_ciphers n = true /\ In n (src_ciphers ca k) /\ exists m, In m (src_macs ca k) /\ src_is_etm_macs m = true) \/
    (c = "mac" /\ src_is_etm_macs n = true /\ In n (src_macs ca k) /\ exists x, In x (src_ciphers ca k) /\ src_is_cbc_ciphers x = true))).
Proof.
  intros ca bs k dh rn d c n e0 Hf Hg.
  pose proof (terrapin_rule ca bs k dh rn d c n e0 Hf Hg) as R.
  assert (Ec: src_ciphers ca k = tp_ciphers ca k) by (symmetry; apply (tie_directions ca k)).
  assert (Em: src_macs ca k = tp_macs ca k) by (symmetry; apply (tie_directions ca k)).
  rewrite Ec, Em.
  assert (A: forall x, src_is_chacha_ciphers x = is_chacha x) by (intros x; symmetry; apply (tie_is_chacha x)).
  assert (B: forall x, src_is_cbc_ciphers x = is_cbc x) by (intros x; symmetry; apply (tie_is_cbc x)).
  assert (C: forall x, src_is_etm_macs x = is_etm x) by (intros x; symmetry; apply (tie_is_etm x)).
  rewrite A, B, C.
  split.
  - intros H. apply R in H. destruct H as [Hm H]. split; [exact Hm|].
    destruct H as [H|[H|H]]; [left; exact H| right; left | right; right].
    + destruct H as [H1 [H2 [H3 [m [H4 H5]]]]]. repeat split; try assumption. exists m. rewrite C. tauto.
    + destruct H as [H1 [H2 [H3 [x [H4 H5]]]]]. repeat split; try assumption. exists x. rewrite B. tauto.
  - intros [Hm H]. apply R. split; [exact Hm|].
    destruct H as [H|[H|H]]; [left; exact H| right; left | right; right].
    + destruct H as [H1 [H2 [H3 [m [H4 H5]]]]]. repeat split; try assumption. exists m. rewrite C in H5. tauto.
    + destruct H as [H1 [H2 [H3 [x [H4 H5]]]]]. repeat split; try assumption. exists x. rewrite B in H5. tauto.
Qed.

(* the translator found the source shape it extracts terrapin_texts from (otherwise gen/Tables.v carries fallback values and this lemma fails) *)
Lemma tie_extract_ok_terrapin_texts : extract_ok_terrapin_texts = true.
Proof. reflexivity. Qed.

(* which marker counts for which role: the test of the current source (T1c translation) is the model's has_marker *)
Lemma tie_has_marker : forall ca k, has_marker ca k = src_has_marker ca (kl_kex k).
Proof. intros [|] k; unfold has_marker, src_has_marker, marker_c, marker_s; cbn [andb orb negb]; [rewrite orb_false_r|]; reflexivity. Qed.
