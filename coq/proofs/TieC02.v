(* C02: the status update of the report code, translated statement by statement from the current source of output_algorithm()
   (gen/Tables.v: src_status_step), is the model's status_step - for every status value and every level.  Editing the update in the source
   (dropping the "failure is sticky" guard, swapping the constants, another level text) changes the generated definition and this file stops compiling;
   when the statement is no longer recognised the definition is left out, with the same effect. *)
From Coq Require Import ZArith List String Bool Lia ZifyBool.
From VGen Require Import Tables.
From VModel Require Import Rating.
Open Scope string_scope. Open Scope list_scope. Open Scope Z_scope.

(* the level texts the code iterates over: `for idx, level in enumerate(['fail', 'warn', 'info'])` *)
(* level_text: see model/Rating.v *)

Lemma tie_status_step : forall st l, status_step st l = src_status_step st (level_text l).
Proof.
  intros st [| |]; unfold status_step, src_status_step, level_text; cbn [String.eqb Ascii.eqb Bool.eqb andb]; cbv zeta.
  - reflexivity.
  - destruct (st =? exit_FAILURE); reflexivity.
  - reflexivity.
Qed.
(* a level text other than the three leaves the status alone (the code has no else branch) *)
Lemma tie_status_step_other : forall st s, s <> "fail" -> s <> "warn" -> src_status_step st s = st.
Proof.
  intros st s H1 H2. unfold src_status_step. cbv zeta.
  destruct (String.eqb s "fail") eqn:E1; [apply String.eqb_eq in E1; contradiction|].
  destruct (String.eqb s "warn") eqn:E2; [apply String.eqb_eq in E2; contradiction|]. reflexivity.
Qed.

(* audit(): `program_retval = exitcodes.GOOD if evaluate_policy(...) else exitcodes.FAILURE`, translated from the current source; the translator also checks
   that evaluate_policy() ends in a single `return passed` at the level of the function body and that `passed` is the verdict of Policy.evaluate *)
From VProofs Require Import RatingProofs.
Lemma tie_policy_exit : forall passed, policy_exit passed = src_policy_exit passed.
Proof. reflexivity. Qed.

(* the worst-finding theorem, restated for the fold of the status update as it reads in the current source over the level texts of the notes *)
Lemma src_status_fold : forall ls st, status_fold st ls = fold_left (fun s l => src_status_step s (level_text l)) ls st.
Proof.
  induction ls as [|l ls IH]; intros st; [reflexivity|]. unfold status_fold in *. cbn [fold_left]. rewrite tie_status_step. apply IH.
Qed.
Lemma src_status_fold_spec : forall ls,
  let f := fold_left (fun s l => src_status_step s (level_text l)) ls exit_GOOD in
  (f = exit_FAILURE <-> In LFail ls) /\ (f = exit_WARNING <-> ~ In LFail ls /\ In LWarn ls) /\ (f = exit_GOOD <-> ~ In LFail ls /\ ~ In LWarn ls).
Proof. intros ls. cbv zeta. rewrite <- src_status_fold. apply status_fold_spec. Qed.
