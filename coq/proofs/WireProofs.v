From Coq Require Import Lia ZifyBool.
From VModel Require Import Wire.
Open Scope list_scope. Open Scope Z_scope.

Definition wfb (l : list Z) : Prop := Forall (fun b => 0 <= b < 256) l.

Lemma wf_bytes_wfb l : wf_bytes l = true <-> wfb l.
Proof.
  unfold wf_bytes, wfb. rewrite forallb_forall, Forall_forall. unfold byte_ok.
  split; intros H x Hx; specialize (H x Hx); lia.
Qed.

Lemma zlen_nonneg {A} (l : list A) : 0 <= zlen l.
Proof. unfold zlen. lia. Qed.
Lemma zlen_app {A} (a b : list A) : zlen (a ++ b) = zlen a + zlen b.
Proof. unfold zlen. rewrite app_length. lia. Qed.
Lemma zlen_cons {A} (x : A) l : zlen (x :: l) = zlen l + 1.
Proof. unfold zlen. cbn [List.length]. lia. Qed.
Lemma zlen_nil {A} : zlen (@nil A) = 0.
Proof. reflexivity. Qed.

(* ---- be_bytes ---- *)
Lemma be_bytes_acc_length k v acc : List.length (be_bytes_acc k v acc) = (k + List.length acc)%nat.
Proof. revert v acc; induction k as [|k IH]; intros v acc; cbn [be_bytes_acc]; [reflexivity|].
  rewrite IH. cbn [List.length]. lia. Qed.
Lemma be_bytes_length k v : List.length (be_bytes k v) = k.
Proof. unfold be_bytes. rewrite be_bytes_acc_length. cbn. lia. Qed.
Lemma be_bytes_acc_app k v acc : be_bytes_acc k v acc = be_bytes k v ++ acc.
Proof.
  unfold be_bytes. revert v acc. induction k as [|k IH]; intros v acc; cbn [be_bytes_acc]; [reflexivity|].
  rewrite IH. rewrite (IH _ [_]). rewrite <- app_assoc. reflexivity.
Qed.
Lemma be_bytes_S k v : be_bytes (S k) v = be_bytes k (v / 256) ++ [v mod 256].
Proof.
  unfold be_bytes at 1. cbn [be_bytes_acc]. rewrite be_bytes_acc_app.
  rewrite Z.shiftr_div_pow2 by lia. change (2 ^ 8) with 256.
  change 255 with (Z.ones 8). rewrite Z.land_ones by lia. change (2 ^ 8) with 256. reflexivity.
Qed.
Lemma be_bytes_0 v : be_bytes 0 v = [].
Proof. reflexivity. Qed.

Lemma val_app_gen a b : val (a ++ b) = val a * 256 ^ zlen b + val b.
Proof.
  induction a as [|x a IH]; cbn [val app]; [lia|].
  rewrite IH, zlen_app. rewrite Z.pow_add_r by apply zlen_nonneg. ring.
Qed.
Lemma val_app l b : val (l ++ [b]) = val l * 256 + b.
Proof. rewrite val_app_gen. cbn [val]. change (zlen [b]) with 1. change (zlen (@nil Z)) with 0. lia. Qed.

Lemma val_be_bytes k v : val (be_bytes k v) = v mod 256 ^ Z.of_nat k.
Proof.
  revert v; induction k as [|k IH]; intros v.
  - cbn. rewrite Z.mod_1_r. reflexivity.
  - rewrite be_bytes_S, val_app, IH, Nat2Z.inj_succ, Z.pow_succ_r by lia.
    assert (H: 0 < 256 ^ Z.of_nat k) by (apply Z.pow_pos_nonneg; lia).
    rewrite Z.rem_mul_r by lia. lia.
Qed.
Lemma be_bytes_range k v : wfb (be_bytes k v).
Proof.
  revert v; induction k as [|k IH]; intros v; [constructor|].
  rewrite be_bytes_S. apply Forall_app; split; [apply IH|]. constructor; [|constructor].
  apply Z.mod_pos_bound; lia.
Qed.
Lemma val_range l : wfb l -> 0 <= val l < 256 ^ zlen l.
Proof.
  induction 1 as [|b l Hb _ IH]; cbn [val]; [change (256 ^ zlen (@nil Z)) with 1; lia|].
  rewrite zlen_cons. rewrite Z.pow_add_r by (try apply zlen_nonneg; lia). change (256 ^ 1) with 256.
  set (P := 256 ^ zlen l) in *. nia.
Qed.

(* ---- fixed-width integers ---- *)
Lemma be_bytes_4 v : be_bytes 4 v = [v / 256 / 256 / 256 mod 256; v / 256 / 256 mod 256; v / 256 mod 256; v mod 256].
Proof. rewrite !be_bytes_S. reflexivity. Qed.

Lemma u32_roundtrip v r bs : enc_u32 v = Ok bs -> dec_u32 (bs ++ r) = Ok (v, r).
Proof.
  unfold enc_u32, u32_ok. destruct ((0 <=? v) && (v <? 4294967296)) eqn:E; [|discriminate].
  intros H; injection H as <-. rewrite be_bytes_4. cbn [app dec_u32]. f_equal. f_equal.
  unfold u32_of. Z.div_mod_to_equations. lia.
Qed.
Lemma enc_u32_wf v bs : enc_u32 v = Ok bs -> wfb bs /\ zlen bs = 4.
Proof.
  unfold enc_u32. destruct (u32_ok v); [|discriminate]. intros H; injection H as <-.
  split; [apply be_bytes_range|]. unfold zlen. rewrite be_bytes_length. reflexivity.
Qed.
Lemma byte_roundtrip v r bs : enc_byte v = Ok bs -> dec_byte (bs ++ r) = Ok (v, r).
Proof. unfold enc_byte. destruct (byte_ok v); [|discriminate]. intros H; injection H as <-. reflexivity. Qed.
Lemma bool_roundtrip b r : dec_bool (enc_bool b ++ r) = Ok (b, r).
Proof. destruct b; reflexivity. Qed.

(* ---- strings ---- *)
Lemma take_app_exact (s r : list Z) : take (zlen s) (s ++ r) = s.
Proof.
  unfold take. destruct ((zlen s <? 0) || (zlen (s ++ r) <=? zlen s)) eqn:E.
  - pose proof (zlen_nonneg s). rewrite zlen_app in E. pose proof (zlen_nonneg r).
    assert (Hr: zlen r = 0) by lia. destruct r; [apply app_nil_r|rewrite zlen_cons in Hr; pose proof (zlen_nonneg r); lia].
  - unfold zlen. rewrite Nat2Z.id. rewrite firstn_app, Nat.sub_diag, firstn_all. cbn. apply app_nil_r.
Qed.
Lemma drop_app_exact (s r : list Z) : drop (zlen s) (s ++ r) = r.
Proof.
  unfold drop. destruct ((zlen s <? 0) || (zlen (s ++ r) <=? zlen s)) eqn:E.
  - pose proof (zlen_nonneg s). rewrite zlen_app in E. pose proof (zlen_nonneg r).
    assert (Hr: zlen r = 0) by lia. destruct r; [reflexivity|rewrite zlen_cons in Hr; pose proof (zlen_nonneg r); lia].
  - unfold zlen. rewrite Nat2Z.id. rewrite skipn_app, Nat.sub_diag, skipn_all. reflexivity.
Qed.
Lemma string_roundtrip s r bs : enc_string s = Ok bs -> dec_string (bs ++ r) = Ok (s, r).
Proof.
  unfold enc_string, bind. destruct (enc_u32 (zlen s)) as [h|] eqn:E; [|discriminate].
  intros H; injection H as <-. unfold dec_string, bind. rewrite <- app_assoc.
  rewrite (u32_roundtrip _ _ _ E). rewrite take_app_exact, drop_app_exact. reflexivity.
Qed.

(* ---- name-lists ---- *)
Definition no_sep (sep : Z) (x : list Z) : Prop := Forall (fun c => c <> sep) x.
Lemma split_aux_prefix sep x rest cur :
  no_sep sep x -> split_bytes_aux sep (x ++ rest) cur = split_bytes_aux sep rest (rev x ++ cur).
Proof.
  revert cur. induction x as [|c x IH]; intros cur H; [reflexivity|].
  inversion H as [|? ? Hc Hx]; subst. cbn [app split_bytes_aux].
  destruct (c =? sep) eqn:E; [lia|]. rewrite IH by assumption. cbn [rev]. rewrite <- app_assoc. reflexivity.
Qed.
Lemma split_join sep l : l <> [] -> Forall (no_sep sep) l -> split_bytes sep (join_bytes sep l) = l.
Proof.
  unfold split_bytes. induction l as [|x l IH]; [congruence|]. intros _ H.
  inversion H as [|? ? Hx Hl]; subst. destruct l as [|y l].
  - cbn [join_bytes]. rewrite <- (app_nil_r x) at 1. rewrite split_aux_prefix by assumption.
    cbn [split_bytes_aux]. rewrite app_nil_r, rev_involutive. reflexivity.
  - change (join_bytes sep (x :: y :: l)) with (x ++ sep :: join_bytes sep (y :: l)).
    rewrite split_aux_prefix by assumption. cbn [split_bytes_aux]. rewrite Z.eqb_refl.
    rewrite app_nil_r, rev_involutive. f_equal. apply IH; [discriminate|assumption].
Qed.
Lemma namelist_roundtrip l r bs :
  l <> [] -> Forall (no_sep 44) l -> enc_namelist l = Ok bs -> dec_namelist (bs ++ r) = Ok (l, r).
Proof.
  intros Hne Hl H. unfold enc_namelist in H. unfold dec_namelist, bind.
  rewrite (string_roundtrip _ r _ H). rewrite split_join by assumption. reflexivity.
Qed.
(* the converse direction: re-encoding what was decoded gives the same bytes *)
Lemma split_aux_nonempty sep s cur : split_bytes_aux sep s cur <> [].
Proof. revert cur. induction s as [|c s IH]; intros cur; cbn [split_bytes_aux]; [discriminate|].
  destruct (c =? sep); [discriminate|apply IH]. Qed.
Lemma join_split_aux sep s cur :
  join_bytes sep (split_bytes_aux sep s cur) = rev cur ++ s.
Proof.
  revert cur. induction s as [|c s IH]; intros cur; cbn [split_bytes_aux].
  - cbn [join_bytes]. rewrite app_nil_r. reflexivity.
  - destruct (c =? sep) eqn:E.
    + assert (c = sep) by lia. subst c.
      destruct (split_bytes_aux sep s []) as [|y ys] eqn:Es.
      * exfalso. exact (split_aux_nonempty _ _ _ Es).
      * change (join_bytes sep (rev cur :: y :: ys)) with (rev cur ++ sep :: join_bytes sep (y :: ys)).
        rewrite <- Es, IH. reflexivity.
    + rewrite IH. cbn [rev]. rewrite <- app_assoc. reflexivity.
Qed.
Lemma join_split sep s : join_bytes sep (split_bytes sep s) = s.
Proof. unfold split_bytes. rewrite join_split_aux. reflexivity. Qed.

(* ---- mpint, SSH-2 ---- *)
Lemma lor_shiftl_add r w : 0 <= w < 4294967296 -> Z.lor (Z.shiftl r 32) w = r * 4294967296 + w.
Proof.
  intros Hw. rewrite Z.shiftl_mul_pow2 by lia. change (2 ^ 32) with 4294967296.
  assert (Hland: Z.land (r * 4294967296) w = 0).
  { apply Z.bits_inj'. intros i Hi. rewrite Z.land_spec, Z.bits_0.
    destruct (Z_lt_le_dec i 32) as [Hlt|Hge].
    + change 4294967296 with (2 ^ 32). rewrite Z.mul_pow2_bits_low by lia. reflexivity.
    + replace (Z.testbit w i) with false; [apply andb_false_r|].
      symmetry. destruct (Z.eq_dec w 0) as [->|Hn]; [apply Z.bits_0|].
      apply Z.bits_above_log2; [lia|]. assert (Z.log2 w < 32); [|lia].
      apply Z.log2_lt_pow2; lia. }
  rewrite (Z.add_nocarry_lxor _ _ Hland), (Z.lxor_lor _ _ Hland). reflexivity.
Qed.

Lemma u32_of_val a b c d : u32_of a b c d = val [a; b; c; d].
Proof. unfold u32_of. cbn [val]. unfold zlen. cbn [List.length]. change (Z.of_nat 3) with 3. change (Z.of_nat 2) with 2.
  change (Z.of_nat 1) with 1. change (Z.of_nat 0) with 0. lia. Qed.
Lemma u32_of_range a b c d : wfb [a; b; c; d] -> 0 <= u32_of a b c d < 4294967296.
Proof. intros H. rewrite u32_of_val. apply val_range in H. exact H. Qed.

(* induction in steps of four *)
Lemma list_ind4 (P : list Z -> Prop) :
  P [] -> (forall a b c d l, P l -> P (a :: b :: c :: d :: l)) ->
  forall l, (List.length l mod 4 = 0)%nat -> P l.
Proof.
  intros H0 H4 l. remember (List.length l) as n eqn:Hn. revert l Hn.
  induction n as [n IH] using lt_wf_ind. intros l Hn Hm.
  destruct l as [|a [|b [|c [|d l]]]]; cbn [List.length] in Hn; subst n; try exact H0; try (cbn in Hm; discriminate).
  apply H4. apply (IH (List.length l)); [lia|reflexivity|].
  replace (S (S (S (S (List.length l))))) with (List.length l + 1 * 4)%nat in Hm by lia.
  rewrite Nat.mod_add in Hm by lia. exact Hm.
Qed.

Lemma wfb_split4 a b c d l : wfb (a :: b :: c :: d :: l) -> wfb [a; b; c; d] /\ wfb l.
Proof. intros H. change (a :: b :: c :: d :: l) with ([a; b; c; d] ++ l) in H. apply Forall_app in H. exact H. Qed.

Lemma parse_words_unsigned l : (List.length l mod 4 = 0)%nat -> wfb l ->
  forall r, parse_words l r false = r * 256 ^ zlen l + val l.
Proof.
  intros Hl. pattern l. revert l Hl. apply list_ind4.
  - intros _ r. cbn. lia.
  - intros a b c d l IH Hwf r. cbn [parse_words].
    destruct (wfb_split4 _ _ _ _ _ Hwf) as [Hw4 Hwl].
    rewrite lor_shiftl_add by (apply u32_of_range; assumption).
    rewrite IH by assumption. rewrite u32_of_val.
    change (a :: b :: c :: d :: l) with ([a; b; c; d] ++ l). rewrite val_app_gen, zlen_app.
    rewrite Z.pow_add_r by (try apply zlen_nonneg). change (zlen [a; b; c; d]) with 4.
    change (256 ^ 4) with 4294967296. ring.
Qed.

Lemma parse_words_signed a b c d l : (List.length l mod 4 = 0)%nat -> wfb (a :: b :: c :: d :: l) ->
  parse_words (a :: b :: c :: d :: l) 0 true =
  val (a :: b :: c :: d :: l) - (if 128 <=? a then 256 ^ zlen (a :: b :: c :: d :: l) else 0).
Proof.
  intros Hl Hwf. cbn [parse_words]. rewrite Z.shiftl_0_l, Z.lor_0_l.
  destruct (wfb_split4 _ _ _ _ _ Hwf) as [Hw4 Hwl].
  rewrite parse_words_unsigned by assumption.
  change (a :: b :: c :: d :: l) with ([a; b; c; d] ++ l). rewrite val_app_gen, zlen_app.
  rewrite Z.pow_add_r by (try apply zlen_nonneg). change (zlen [a; b; c; d]) with 4. change (256 ^ 4) with 4294967296.
  rewrite <- u32_of_val. pose proof (u32_of_range a b c d Hw4) as Hr.
  assert (Ha: 0 <= a < 256) by (inversion Hw4; assumption).
  assert (Hb: 0 <= b < 256 /\ 0 <= c < 256 /\ 0 <= d < 256).
  { inversion Hw4 as [|? ? _ T1]; subst. inversion T1 as [|? ? ? T2]; subst. inversion T2 as [|? ? ? T3]; subst.
    inversion T3; subst. auto. }
  unfold i32_of, u32_of in *. destruct (128 <=? a) eqn:E1; destruct (2147483648 <=? ((a * 256 + b) * 256 + c) * 256 + d) eqn:E2; lia.
Qed.

Lemma val_repeat_0 k : val (repeat 0 k) = 0.
Proof. induction k as [|k IH]; cbn [repeat val]; lia. Qed.
Lemma val_repeat_255 k : val (repeat 255 k) = 256 ^ Z.of_nat k - 1.
Proof.
  induction k as [|k IH]; [reflexivity|]. cbn [repeat val]. rewrite IH.
  unfold zlen. rewrite repeat_length. rewrite Nat2Z.inj_succ, Z.pow_succ_r by lia. lia.
Qed.
Lemma wfb_repeat b k : 0 <= b < 256 -> wfb (repeat b k).
Proof. intros H. induction k; cbn [repeat]; constructor; assumption. Qed.

Lemma length_mod4_pad (v : list Z) (pad : Z) :
  let m := zlen v mod 4 in
  Nat.modulo (List.length (if m =? 0 then v else repeat pad (Z.to_nat (4 - m)) ++ v)) 4 = 0%nat.
Proof.
  cbv zeta. unfold zlen. set (n := List.length v).
  destruct (Z.of_nat n mod 4 =? 0) eqn:E.
  - apply Nat2Z.inj. rewrite Nat2Z.inj_mod. apply Z.eqb_eq in E. exact E.
  - subst n. rewrite app_length, repeat_length. apply Nat2Z.inj. rewrite Nat2Z.inj_mod, Nat2Z.inj_add. set (n := List.length v) in *.
    rewrite Z2Nat.id by (pose proof (Z.mod_pos_bound (Z.of_nat n) 4); lia).
    change (Z.of_nat 4) with 4. change (Z.of_nat 0) with 0.
    pose proof (Z.mod_pos_bound (Z.of_nat n) 4 ltac:(lia)).
    pose proof (Z.div_mod (Z.of_nat n) 4 ltac:(lia)).
    replace (4 - Z.of_nat n mod 4 + Z.of_nat n) with ((Z.of_nat n / 4 + 1) * 4) by lia.
    apply Z.mod_mul. lia.
Qed.

(* the word loop computes the two's complement value (this is the lemma the pre-fix code violated) *)
Lemma parse_mpint_signed v b t : v = b :: t -> wfb v -> 128 <= b ->
  parse_mpint v 255 true = val v - 256 ^ zlen v.
Proof.
  intros -> Hwf Hb. unfold parse_mpint. pose proof (length_mod4_pad (b :: t) 255) as Hm. cbv zeta in Hm.
  set (m := zlen (b :: t) mod 4) in *. destruct (m =? 0) eqn:E.
  - destruct t as [|c [|d [|e t]]]; try (cbn in Hm; discriminate).
    rewrite parse_words_signed; [|cbn [List.length] in Hm |assumption].
    + destruct (128 <=? b) eqn:E1; [reflexivity|lia].
    + replace (S (S (S (S (List.length t))))) with (List.length t + 1 * 4)%nat in Hm by lia.
      rewrite Nat.mod_add in Hm by lia. exact Hm.
  - assert (Hk: 1 <= 4 - m <= 3) by (pose proof (Z.mod_pos_bound (zlen (b :: t)) 4 ltac:(lia)); unfold m; lia).
    destruct (Z.to_nat (4 - m)) as [|k] eqn:Ek; [lia|].
    cbn [repeat app] in *.
    remember (repeat 255 k ++ b :: t) as w eqn:Hw.
    assert (Hwfw: wfb (255 :: w)).
    { constructor; [lia|]. subst w. apply Forall_app. split; [apply wfb_repeat; lia|assumption]. }
    destruct w as [|c [|d [|e w]]]; try (cbn in Hm; discriminate).
    rewrite parse_words_signed; [|cbn [List.length] in Hm|assumption].
    + change (128 <=? 255) with true. cbv iota.
      change (255 :: c :: d :: e :: w) with ([255] ++ (c :: d :: e :: w)). rewrite Hw.
      rewrite val_app_gen. rewrite !zlen_app. rewrite (val_app_gen (repeat 255 k)). rewrite val_repeat_255.
      cbn [val]. change (256 ^ zlen (@nil Z)) with 1. change (zlen [255]) with 1.
      assert (Hzk: zlen (repeat 255 k) = Z.of_nat k) by (unfold zlen; rewrite repeat_length; reflexivity).
      rewrite Hzk.
      rewrite (Z.pow_add_r 256 1 _) by (pose proof (zlen_nonneg (b :: t)); lia).
      rewrite (Z.pow_add_r 256 (Z.of_nat k) _) by (try apply zlen_nonneg; lia).
      change (256 ^ 1) with 256.
      set (P := 256 ^ zlen (b :: t)). set (Q := 256 ^ Z.of_nat k). lia.
    + replace (S (S (S (S (List.length w))))) with (List.length w + 1 * 4)%nat in Hm by lia.
      rewrite Nat.mod_add in Hm by lia. exact Hm.
Qed.

Lemma parse_mpint_unsigned v : wfb v -> parse_mpint v 0 false = val v.
Proof.
  intros Hwf. unfold parse_mpint. pose proof (length_mod4_pad v 0) as Hm. cbv zeta in Hm.
  set (m := zlen v mod 4) in *. destruct (m =? 0) eqn:E.
  - rewrite parse_words_unsigned by assumption. lia.
  - rewrite parse_words_unsigned; [|assumption|apply Forall_app; split; [apply wfb_repeat; lia|assumption]].
    rewrite val_app_gen, val_repeat_0. lia.
Qed.

Lemma dec_mpint2_value v r bs : wfb v -> enc_string v = Ok bs -> dec_mpint2 (bs ++ r) = Ok (mpint2_value v, r).
Proof.
  intros Hwf H. unfold dec_mpint2, bind. rewrite (string_roundtrip _ r _ H).
  unfold mpint2_value. destruct v as [|b t]; [reflexivity|].
  destruct (128 <=? b) eqn:E.
  - rewrite (parse_mpint_signed _ b t eq_refl Hwf) by lia. reflexivity.
  - rewrite parse_mpint_unsigned by assumption. reflexivity.
Qed.

(* ---- create_mpint (signed) is the minimal two's complement encoding ---- *)
Definition mp_len (n : Z) : Z := bitlen n / 8 + (if n =? 0 then 0 else 1).
Lemma bitlen_bound n : n <> 0 -> Z.abs n < 2 ^ bitlen n /\ 0 < bitlen n.
Proof. intros Hn. unfold bitlen. destruct (n =? 0) eqn:E; [lia|].
  assert (Ha: 0 < Z.abs n) by lia. pose proof (Z.log2_spec _ Ha) as [_ H2].
  pose proof (Z.log2_nonneg (Z.abs n)). rewrite <- Z.add_1_r in H2. split; lia. Qed.
Lemma mp_len_bound n : n <> 0 -> 1 <= mp_len n /\ Z.abs n < 2 ^ (8 * mp_len n - 1).
Proof. intros Hn. destruct (bitlen_bound n Hn) as [Hb Hp]. unfold mp_len.
  destruct (n =? 0) eqn:E; [lia|].
  pose proof (Z.div_mod (bitlen n) 8 ltac:(lia)).
  pose proof (Z.mod_pos_bound (bitlen n) 8 ltac:(lia)).
  split; [pose proof (Z.div_pos (bitlen n) 8); lia|].
  eapply Z.lt_le_trans; [exact Hb|]. apply Z.pow_le_mono_r; lia. Qed.

Lemma strip_ff80_cases (b : Z) (t : list Z) :
  (exists r, b = 255 /\ t = 128 :: r) \/
  match b :: t with 255 :: 128 :: r => 128 :: r | _ => b :: t end = b :: t.
Proof.
  destruct (Z.eq_dec b 255) as [->|Hne].
  - destruct t as [|c r]; [right; reflexivity|].
    destruct (Z.eq_dec c 128) as [->|Hc]; [left; eauto|].
    right. destruct c as [|p|p]; try reflexivity.
    repeat (destruct p as [p|p|]; try reflexivity); lia.
  - right. destruct b as [|p|p]; try reflexivity.
    repeat (destruct p as [p|p|]; try reflexivity); lia.
Qed.

Lemma create_mpint_signed_wf n : wfb (create_mpint n true (bitlen n)).
Proof.
  unfold create_mpint. fold (mp_len n). pose proof (be_bytes_range (Z.to_nat (mp_len n)) n) as H.
  destruct (be_bytes (Z.to_nat (mp_len n)) n) as [|b t]; [constructor|].
  destruct (strip_ff80_cases b t) as [[r [-> ->]]|Hnot]; [|rewrite Hnot; exact H].
  inversion H; assumption.
Qed.

Lemma mpint2_value_create n : mpint2_value (create_mpint n true (bitlen n)) = n.
Proof.
  destruct (Z.eq_dec n 0) as [->|Hn]; [reflexivity|].
  destruct (mp_len_bound n Hn) as [HL Hb]. unfold create_mpint. fold (mp_len n).
  set (L := Z.to_nat (mp_len n)). assert (HLn: Z.of_nat L = mp_len n) by (unfold L; lia).
  pose proof (val_be_bytes L n) as Hv. pose proof (be_bytes_length L n) as Hlen.
  pose proof (be_bytes_range L n) as Hr. rewrite HLn in Hv.
  assert (H256: 256 ^ mp_len n = 2 * 2 ^ (8 * mp_len n - 1)).
  { change 256 with (2 ^ 8). rewrite <- Z.pow_mul_r by lia.
    replace (8 * mp_len n) with (Z.succ (8 * mp_len n - 1)) at 1 by lia.
    rewrite Z.pow_succ_r by lia. reflexivity. }
  assert (Hpos: 0 < 2 ^ (8 * mp_len n - 1)) by (apply Z.pow_pos_nonneg; lia).
  destruct (be_bytes L n) as [|b t] eqn:Ed; [cbn in Hlen; lia|].
  inversion Hr as [|? ? Hb0 Ht]; subst. pose proof (val_range t Ht) as Hvt.
  cbn [val] in Hv. cbn [List.length] in Hlen.
  assert (Hlt: zlen t = mp_len n - 1) by (unfold zlen; lia).
  assert (Hsplit: 256 ^ mp_len n = 256 * 256 ^ zlen t).
  { rewrite Hlt. replace (mp_len n) with (Z.succ (mp_len n - 1)) at 1 by lia.
    rewrite Z.pow_succ_r by lia. reflexivity. }
  assert (Hp2: 0 < 256 ^ zlen t) by (apply Z.pow_pos_nonneg; [lia|apply zlen_nonneg]).
  destruct (Z_lt_le_dec 0 n) as [Hpn|Hnn].
  - assert (Hm: n mod 256 ^ mp_len n = n) by (apply Z.mod_small; lia).
    assert (Hb128: b < 128) by nia.
    destruct (strip_ff80_cases b t) as [[r [-> ->]]|Hnot]; [lia|].
    rewrite Hnot. unfold mpint2_value. destruct (128 <=? b) eqn:E; [lia|]. cbn [val]. lia.
  - assert (Hm: n mod 256 ^ mp_len n = n + 256 ^ mp_len n).
    { symmetry. apply Z.mod_unique with (q := -1); lia. }
    assert (Hb128: 128 <= b) by nia.
    destruct (strip_ff80_cases b t) as [[r [-> ->]]|Hnot].
    + unfold mpint2_value. change (128 <=? 128) with true. cbv iota.
      cbn [val] in *. rewrite !zlen_cons in *.
      rewrite !Z.pow_add_r in * by (try apply zlen_nonneg; lia). lia.
    + rewrite Hnot. unfold mpint2_value. destruct (128 <=? b) eqn:E; [|lia]. cbn [val].
      rewrite zlen_cons. rewrite Z.pow_add_r by (try apply zlen_nonneg; lia). lia.
Qed.

Theorem mpint2_roundtrip n r bs : enc_mpint2 n = Ok bs -> dec_mpint2 (bs ++ r) = Ok (n, r).
Proof.
  intros H. unfold enc_mpint2 in H.
  rewrite (dec_mpint2_value _ r _ (create_mpint_signed_wf n) H). rewrite mpint2_value_create. reflexivity.
Qed.

(* minimality (RFC 4251 s5): no redundant leading 0x00 / 0xff byte *)
Lemma create_mpint_signed_length n : zlen (create_mpint n true (bitlen n)) <= mp_len n.
Proof.
  unfold create_mpint. fold (mp_len n). pose proof (be_bytes_length (Z.to_nat (mp_len n)) n) as Hlen.
  assert (0 <= mp_len n).
  { unfold mp_len, bitlen. destruct (n =? 0); [cbn; lia|]. pose proof (Z.log2_nonneg (Z.abs n)).
    pose proof (Z.div_pos (Z.log2 (Z.abs n) + 1) 8). lia. }
  destruct (be_bytes (Z.to_nat (mp_len n)) n) as [|b t]; [unfold zlen; cbn; lia|].
  destruct (strip_ff80_cases b t) as [[r [-> ->]]|Hnot].
  - unfold zlen in *. cbn [List.length] in *. lia.
  - rewrite Hnot. unfold zlen. lia.
Qed.

(* recorded finding C10/mpint1-negative: the SSH-1 format has no sign *)
Lemma mpint1_negative_refuted :
  exists n bs, n < 0 /\ enc_mpint1 n = Ok bs /\ dec_mpint1 bs <> Ok (n, []).
Proof. exists (-5), [0; 3; 251]. split; [lia|]. split; [vm_compute; reflexivity|]. vm_compute. discriminate. Qed.

(* non-vacuity: the hypotheses of the round-trip theorems are met by concrete values *)
Example mpint2_example : enc_mpint2 (-6442450944) = Ok [0; 0; 0; 5; 254; 128; 0; 0; 0]
  /\ dec_mpint2 [0; 0; 0; 5; 254; 128; 0; 0; 0] = Ok (-6442450944, []).
Proof. split; vm_compute; reflexivity. Qed.
Example namelist_example : enc_namelist [[97; 98]; []; [99]] = Ok [0; 0; 0; 5; 97; 98; 44; 44; 99].
Proof. vm_compute. reflexivity. Qed.

(* ---- mpint, SSH-1 (unsigned, bit count prefix) ---- *)
Lemma strip_zeros_val l : val (strip_zeros l) = val l.
Proof. induction l as [|b l IH]; [reflexivity|]. cbn [strip_zeros]. destruct b; try reflexivity. rewrite IH. cbn [val]. lia. Qed.
Lemma strip_zeros_wf l : wfb l -> wfb (strip_zeros l).
Proof. induction 1 as [|b l Hb Hl IH]; [constructor|]. cbn [strip_zeros]. destruct b; try (constructor; assumption). exact IH. Qed.
Lemma strip_zeros_head l : strip_zeros l = [] \/ exists b t, strip_zeros l = b :: t /\ b <> 0.
Proof. induction l as [|b l IH]; [left; reflexivity|]. cbn [strip_zeros]. destruct b; [exact IH|right; eexists; eexists; split; [reflexivity|discriminate]..]. Qed.
Lemma val_lower b t : wfb (b :: t) -> b <> 0 -> 256 ^ zlen t <= val (b :: t).
Proof.
  intros H Hb. inversion H as [|? ? Hb0 Ht]; subst. pose proof (val_range t Ht). cbn [val].
  assert (0 < 256 ^ zlen t) by (apply Z.pow_pos_nonneg; [lia|apply zlen_nonneg]). nia.
Qed.
Lemma pow256_unique n k1 k2 : 0 <= k1 -> 0 <= k2 -> 256 ^ (k1 - 1) <= n < 256 ^ k1 -> 256 ^ (k2 - 1) <= n < 256 ^ k2 -> 1 <= k1 -> 1 <= k2 -> k1 = k2.
Proof.
  intros H1 H2 A B C D. destruct (Z.lt_trichotomy k1 k2) as [L|[E|L]]; [exfalso|exact E|exfalso].
  - assert (256 ^ k1 <= 256 ^ (k2 - 1)) by (apply Z.pow_le_mono_r; lia). lia.
  - assert (256 ^ k2 <= 256 ^ (k1 - 1)) by (apply Z.pow_le_mono_r; lia). lia.
Qed.

Lemma dec_u16_be v r : 0 <= v < 65536 -> dec_u16 (be_bytes 2 v ++ r) = Ok (v, r).
Proof.
  intros H. rewrite !be_bytes_S. cbn [be_bytes_acc be_bytes app dec_u16]. unfold be_bytes. cbn [be_bytes_acc app dec_u16].
  f_equal. f_equal. Z.div_mod_to_equations. lia.
Qed.

Lemma take_0 (l : list Z) : take 0 l = [].
Proof. unfold take. destruct ((0 <? 0) || (zlen l <=? 0)) eqn:E; [|reflexivity]. destruct l; [reflexivity|rewrite zlen_cons in E; pose proof (zlen_nonneg l); lia]. Qed.
Lemma drop_0 (l : list Z) : drop 0 l = l.
Proof. unfold drop. destruct ((0 <? 0) || (zlen l <=? 0)) eqn:E; [|reflexivity]. destruct l; [reflexivity|rewrite zlen_cons in E; pose proof (zlen_nonneg l); lia]. Qed.

Theorem mpint1_roundtrip n r bs : 0 <= n -> enc_mpint1 n = Ok bs -> dec_mpint1 (bs ++ r) = Ok (n, r).
Proof.
  intros Hn H. unfold enc_mpint1 in H. destruct (u16_ok (bitlen n)) eqn:Eu; [|discriminate].
  assert (Hbs: bs = be_bytes 2 (bitlen n) ++ create_mpint n false (bitlen n)) by congruence. clear H. subst bs.
  unfold u16_ok in Eu. unfold dec_mpint1, bind. rewrite <- app_assoc. rewrite dec_u16_be by lia.
  destruct (Z.eq_dec n 0) as [->|Hnz].
  - change (bitlen 0) with 0. change (create_mpint 0 false 0) with (@nil Z). cbn [app]. change ((0 + 7) / 8) with 0.
    rewrite take_0, drop_0. reflexivity.
  - destruct (bitlen_bound n Hnz) as [Hb Hp]. rewrite Z.abs_eq in Hb by lia.
    assert (Hlow: 2 ^ (bitlen n - 1) <= n).
    { unfold bitlen. destruct (n =? 0) eqn:E; [lia|]. rewrite Z.abs_eq by lia. replace (Z.log2 n + 1 - 1) with (Z.log2 n) by lia.
      apply Z.log2_spec. lia. }
    unfold create_mpint. destruct (n =? 0) eqn:E0; [lia|].
    set (L := Z.to_nat (bitlen n / 8 + 1)). set (d := be_bytes L n). set (s := strip_zeros d).
    assert (HLz: Z.of_nat L = bitlen n / 8 + 1) by (unfold L; pose proof (Z.div_pos (bitlen n) 8); lia).
    assert (Hvd: val d = n).
    { unfold d. rewrite val_be_bytes, HLz. apply Z.mod_small. split; [lia|].
      eapply Z.lt_le_trans; [exact Hb|]. change 256 with (2 ^ 8). rewrite <- Z.pow_mul_r by (pose proof (Z.div_pos (bitlen n) 8); lia).
      apply Z.pow_le_mono_r; [lia|]. pose proof (Z.div_mod (bitlen n) 8 ltac:(lia)). pose proof (Z.mod_pos_bound (bitlen n) 8 ltac:(lia)). lia. }
    assert (Hws: wfb s) by (apply strip_zeros_wf, be_bytes_range).
    assert (Hvs: val s = n) by (unfold s; rewrite strip_zeros_val; exact Hvd).
    assert (Hlen: zlen s = (bitlen n + 7) / 8).
    { destruct (strip_zeros_head d) as [E|[b [t [E Hb0]]]]; fold s in E.
      - rewrite E in Hvs. cbn in Hvs. lia.
      - rewrite E in *. pose proof (val_lower b t Hws Hb0) as Hl. pose proof (val_range _ Hws) as Hr. rewrite zlen_cons in *.
        set (k := (bitlen n + 7) / 8).
        assert (Hk: 8 * (k - 1) < bitlen n <= 8 * k).
        { unfold k. pose proof (Z.div_mod (bitlen n + 7) 8 ltac:(lia)). pose proof (Z.mod_pos_bound (bitlen n + 7) 8 ltac:(lia)). lia. }
        pose proof (zlen_nonneg t) as Ht.
        apply (pow256_unique n (zlen t + 1) k); [lia|lia| | |lia|lia].
        + replace (zlen t + 1 - 1) with (zlen t) by lia. lia.
        + split.
          * eapply Z.le_trans; [|exact Hlow]. change 256 with (2 ^ 8). rewrite <- Z.pow_mul_r by lia. apply Z.pow_le_mono_r; lia.
          * eapply Z.lt_le_trans; [exact Hb|]. change 256 with (2 ^ 8). rewrite <- Z.pow_mul_r by lia. apply Z.pow_le_mono_r; lia. }
    rewrite <- Hlen. rewrite take_app_exact, drop_app_exact. rewrite parse_mpint_unsigned by exact Hws. rewrite Hvs. reflexivity.
Qed.
