From Coq Require Import Lia ZifyBool.
From VModel Require Import Wire.
Open Scope list_scope. Open Scope Z_scope.

Lemma be_bytes_acc_length k v acc : List.length (be_bytes_acc k v acc) = (k + List.length acc)%nat.
Proof. revert v acc; induction k as [|k IH]; intros v acc; cbn [be_bytes_acc]; [reflexivity|].
  rewrite IH. cbn [List.length]. lia. Qed.
Lemma be_bytes_length k v : List.length (be_bytes k v) = k.
Proof. unfold be_bytes. rewrite be_bytes_acc_length. cbn. lia. Qed.
