From VModel Require Import PolicyPeer.
From VProofs Require Import TablesProofs.
Open Scope string_scope. Open Scope list_scope. Open Scope Z_scope.

Lemma policy_peer_failures_nil : policy_peer_failures = [].
Proof. vm_compute. reflexivity. Qed.
Lemma policy_sizes_failing_nil : policy_sizes_failing = [].
Proof. vm_compute. reflexivity. Qed.

Lemma policy_peer_no_failure_thm :
  forall p, In p builtin_policies -> rp_status (report_of (peer_of_policy p) ssh2_db) <> exit_FAILURE.
Proof.
  intros p Hp E. pose proof policy_peer_failures_nil as H. unfold policy_peer_failures in H.
  pose proof (flat_map_nil _ _ H p Hp) as H1. cbn beta in H1. rewrite E, Z.eqb_refl in H1. discriminate.
Qed.
