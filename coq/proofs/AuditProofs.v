From Coq Require Import Lia ZifyBool.
From VModel Require Import AuditSM.
From VProofs Require Import WireProofs NetProofs RatingProofs.
Open Scope string_scope. Open Scope list_scope. Open Scope Z_scope.

(* ---------- the packet reader never raises, whatever arrives and however it is segmented ---------- *)
Lemma ensure_chunks_enough buf cs e size s' :
  ensure_chunks buf cs e size = (s', None) -> size <= zlen (s_buf s').
Proof.
  revert buf. induction cs as [|c cs IH]; intros buf H; cbn [ensure_chunks] in H.
  - destruct (zlen buf >=? size) eqn:E; [injection H as <-; cbn [s_buf]; lia|discriminate].
  - destruct (zlen buf >=? size) eqn:E; [injection H as <-; cbn [s_buf]; lia|].
    destruct c as [|x c]; [discriminate|]. apply IH in H. exact H.
Qed.
Lemma ensure_read_enough s size s' : ensure_read s size = (s', None) -> size <= zlen (s_buf s').
Proof. unfold ensure_read. apply ensure_chunks_enough. Qed.

Lemma dec_u32_enough buf : 4 <= zlen buf -> exists v r, dec_u32 buf = Ok (v, r).
Proof.
  intros H. destruct buf as [|a [|b [|c [|d r]]]]; unfold zlen in H; cbn [List.length] in H; try lia.
  cbn [dec_u32]. eauto.
Qed.
Lemma dec_byte_enough buf : 1 <= zlen buf -> exists v r, dec_byte buf = Ok (v, r).
Proof. intros H. destruct buf as [|a r]; [unfold zlen in H; cbn in H; lia|cbn; eauto]. Qed.

Lemma insufficient_not_raise s h e x : snd (insufficient s h e) <> PktRaise x.
Proof. unfold insufficient. destruct e; cbn [snd]; discriminate. Qed.

Lemma take_nonempty n l : 1 <= n -> n <= zlen l -> take n l <> [].
Proof.
  intros H1 H2. unfold take. destruct ((n <? 0) || (zlen l <=? n)) eqn:E.
  - destruct l; [unfold zlen in H2; cbn in H2; lia|discriminate].
  - destruct l as [|x l]; [unfold zlen in H2; cbn in H2; lia|].
    destruct (Z.to_nat n) eqn:En; [lia|discriminate].
Qed.

Theorem read_packet2_never_raises s x : snd (read_packet2 s) <> PktRaise x.
Proof.
  unfold read_packet2.
  destruct (ensure_read s 4) as [s1 [e1|]] eqn:E1; [apply insufficient_not_raise|].
  apply ensure_read_enough in E1. destruct (dec_u32_enough _ E1) as [plen [b ->]].
  destruct (ensure_read (with_buf s1 b) 1) as [s2 [e2|]] eqn:E2; [apply insufficient_not_raise|].
  apply ensure_read_enough in E2. destruct (dec_byte_enough _ E2) as [padlen [b2 ->]].
  destruct (negb ((4 + 1 + (plen - padlen - 1) + padlen) mod 8 =? 0)); [cbn [snd]; discriminate|].
  destruct (ensure_read (with_buf s2 b2) (plen - padlen - 1)) as [s3 [e3|]] eqn:E3; [apply insufficient_not_raise|].
  apply ensure_read_enough in E3.
  destruct (plen - padlen - 1 <? 1) eqn:Ep; [cbn [snd]; discriminate|].
  destruct (take (plen - padlen - 1) (s_buf s3)) as [|t pl] eqn:Et.
  - exfalso. apply (take_nonempty (plen - padlen - 1) (s_buf s3)); [lia|exact E3|exact Et].
  - destruct (ensure_read _ padlen) as [s4 [e4|]]; [apply insufficient_not_raise|cbn [snd]; discriminate].
Qed.

Theorem read_packet1_never_raises s x : snd (read_packet1 s) <> PktRaise x.
Proof.
  unfold read_packet1.
  destruct (ensure_read s 4) as [s1 [e1|]] eqn:E1; [apply insufficient_not_raise|].
  apply ensure_read_enough in E1. destruct (dec_u32_enough _ E1) as [plen [b ->]].
  destruct (ensure_read (with_buf s1 b) (8 - plen mod 8)) as [s2 [e2|]] eqn:E2; [apply insufficient_not_raise|].
  destruct (negb ((8 - plen mod 8 + plen) mod 8 =? 0)); [cbn [snd]; discriminate|].
  destruct (ensure_read _ plen) as [s3 [e3|]] eqn:E3; [apply insufficient_not_raise|].
  apply ensure_read_enough in E3.
  destruct (plen <? 5) eqn:Ep; [cbn [snd]; discriminate|].
  (* at least plen >= 5 bytes are buffered: 4 of them remain for the CRC after the payload *)
  assert (Hd: 4 <= zlen (drop (plen - 4) (s_buf s3))).
  { unfold drop. destruct ((plen - 4 <? 0) || (zlen (s_buf s3) <=? plen - 4)) eqn:E; [lia|].
    unfold zlen in *. rewrite skipn_length. lia. }
  destruct (dec_u32_enough _ Hd) as [crc [rest ->]].
  destruct (take (plen - 4) (s_buf s3)) as [|t pl] eqn:Et.
  - exfalso. apply (take_nonempty (plen - 4) (s_buf s3)); [lia|lia|exact Et].
  - destruct (crc =? crc_calc _); cbn [snd]; discriminate.
Qed.

(* ---------- documented exit: the initial handshake of every peer ends through 0, 1, 2 or 3 ---------- *)
Lemma classify_never_uncaught sshv a p : (forall x, p <> PktRaise x) -> forall e, classify sshv a p <> ApUncaught e.
Proof.
  intros Hp e. unfold classify. destruct p as [t payload|er| |x]; try discriminate.
  - destruct (sshv =? 1).
    + destruct (negb (t =? proto_SMSG_PUBLIC_KEY)); [discriminate|]. destruct (parse_pkm payload) as [[m r]|]; discriminate.
    + destruct (negb (t =? proto_MSG_KEXINIT)); [discriminate|]. destruct (parse_kexinit payload) as [[k r]|]; discriminate.
  - destruct (zs_eqb er protocol_mismatch_text && (sshv =? 2) && a); discriminate.
  - exfalso. exact (Hp x eq_refl).
Qed.

Definition documented (st : Z) : Prop := st = 0 \/ st = 1 \/ st = 2 \/ st = 3.
Definition read_packet (sshv : Z) (s : sock) : pkt := if sshv =? 1 then snd (read_packet1 s) else snd (read_packet2 s).
Lemma read_packet_never_raises sshv s x : read_packet sshv s <> PktRaise x.
Proof. unfold read_packet. destruct (sshv =? 1); [apply read_packet1_never_raises|apply read_packet2_never_raises]. Qed.

Definition handshake_of (sshv : Z) (connect_ok banner_ok : bool) (s : sock) : handshake :=
  if negb connect_ok then HsConnectFail else if negb banner_ok then HsNoBanner else HsPacket (read_packet sshv s).

Theorem documented_exit sshv a c0 b0 s0 c1 b1 s1 st :
  documented st ->
  exists st', audit_exit sshv a (handshake_of sshv c0 b0 s0) (handshake_of 1 c1 b1 s1) st = Exit st' /\ documented st'.
Proof.
  intros Hst. pose proof exit_codes_documented as [_ [H1 _]].
  assert (D1: documented exit_CONNECTION_ERROR) by (right; left; exact H1).
  unfold audit_exit, handshake_of.
  destruct (negb c0); [eauto|]. destruct (negb b0); [eauto|].
  pose proof (classify_never_uncaught sshv a (read_packet sshv s0) (read_packet_never_raises sshv s0)) as Hc.
  destruct (classify sshv a (read_packet sshv s0)) as [| |k|m|e]; eauto; [|exfalso; exact (Hc e eq_refl)].
  destruct (negb c1); [eauto|]. destruct (negb b1); [eauto|].
  pose proof (classify_never_uncaught 1 a (read_packet 1 s1) (read_packet_never_raises 1 s1)) as Hc1.
  destruct (classify 1 a (read_packet 1 s1)) as [| |k|m|e]; eauto. exfalso; exact (Hc1 e eq_refl).
Qed.

(* the status of a report is always 0, 2 or 3 *)
Lemma report_status_documented p d0 : documented (rp_status (report_of p d0)).
Proof.
  cbn [rp_status report_of]. rewrite status_fold_good. pose proof exit_codes_documented as [H0 [_ [H2 H3]]].
  destruct (existsb _ _); [right; right; right; exact H3|]. destruct (existsb _ _); [right; right; left; exact H2|left; exact H0].
Qed.

(* a handshake that did not produce the peer's algorithm lists exits 1 (no report exists in that branch) *)
Theorem bad_handshake_exit1 sshv a hs hs1 st :
  (forall k, match hs with HsPacket p => classify sshv a p <> ApKex k | _ => True end) ->
  (forall m, match hs with HsPacket p => classify sshv a p <> ApPkm m | _ => True end) ->
  (forall k, match hs1 with HsPacket p => classify 1 a p <> ApKex k | _ => True end) ->
  (forall m, match hs1 with HsPacket p => classify 1 a p <> ApPkm m | _ => True end) ->
  (forall e, audit_exit sshv a hs hs1 st <> Uncaught e) ->
  audit_exit sshv a hs hs1 st = Exit exit_CONNECTION_ERROR.
Proof.
  intros Hk Hm Hk1 Hm1 Hu. unfold audit_exit in *. destruct hs as [| |p]; try reflexivity.
  destruct (classify sshv a p) as [| |k|m|e]; try reflexivity.
  - destruct hs1 as [| |p1]; try reflexivity. destruct (classify 1 a p1) as [| |k|m|e]; try reflexivity.
    + exfalso. exact (Hk1 k eq_refl).
    + exfalso. exact (Hm1 m eq_refl).
    + exfalso. exact (Hu e eq_refl).
  - exfalso. exact (Hk k eq_refl).
  - exfalso. exact (Hm m eq_refl).
  - exfalso. exact (Hu e eq_refl).
Qed.

(* ---------- C19: connection bounds ---------- *)
Definition is_hk (c : conn) : bool := match c with CHostKey _ _ => true | _ => false end.
Definition hk_type (c : conn) : string := match c with CHostKey t _ => t | _ => "" end.

Lemma hk_loop_types types adv parsed env c :
  In c (hk_loop types adv parsed env) ->
  exists t s, c = CHostKey t s /\ In t (map (fun x => match x with (t, _, _) => t end) types) /\ mem t adv = true /\ mem t parsed = false.
Proof.
  revert parsed. induction types as [|[[t a] b] types IH]; intros parsed H; cbn [hk_loop] in H; [destruct H|].
  destruct (mem t parsed) eqn:Ep.
  - destruct (IH _ H) as [t' [s [-> [Hin R]]]]. exists t', s. split; [reflexivity|]. split; [right; exact Hin|exact R].
  - destruct (negb (mem t adv)) eqn:Ea.
    + destruct (IH _ H) as [t' [s [-> [Hin R]]]]. exists t', s. split; [reflexivity|]. split; [right; exact Hin|exact R].
    + assert (Hadv: mem t adv = true) by (destruct (mem t adv); [reflexivity|discriminate]).
      assert (Hhere: forall s, exists t' s', CHostKey t s = CHostKey t' s' /\ In t' (map (fun x => match x with (t, _, _) => t end) ((t, a, b) :: types)) /\ mem t' adv = true /\ mem t' parsed = false).
      { intros s. exists t, s. split; [reflexivity|]. split; [left; reflexivity|auto]. }
      destruct (env t).
      * destruct H.
      * destruct H as [<-|[]]. apply Hhere.
      * destruct H as [<-|[]]. apply Hhere.
      * destruct H as [<-|H]; [apply Hhere|]. destruct (IH _ H) as [t' [s [-> [Hin R]]]]. exists t', s. split; [reflexivity|]. split; [right; exact Hin|exact R].
      * destruct H as [<-|H]; [apply Hhere|]. destruct (IH _ H) as [t' [s [-> [Hin [R1 R2]]]]]. exists t', s. split; [reflexivity|]. split; [right; exact Hin|]. split; [exact R1|].
        destruct (mem t rsa_family).
        -- clear - R2. induction rsa_family as [|x l IHl]; cbn [app mem] in *; [exact R2|]. destruct (String.eqb t' x); [discriminate|auto].
        -- cbn [mem] in R2. destruct (String.eqb t' t); [discriminate|exact R2].
Qed.

(* at most one connection per host-key type of the probe table that the server advertises *)
Lemma hk_loop_length types adv parsed env :
  (List.length (hk_loop types adv parsed env) <= List.length (filter (fun x => match x with (t, _, _) => mem t adv end) types))%nat.
Proof.
  revert parsed. induction types as [|[[t a] b] types IH]; intros parsed; cbn [hk_loop filter]; [cbn; lia|].
  destruct (mem t parsed).
  - specialize (IH parsed). destruct (mem t adv); cbn [List.length]; lia.
  - destruct (mem t adv) eqn:Ea; cbn [negb].
    + destruct (env t); cbn [List.length]; try lia; [specialize (IH parsed)|specialize (IH (if mem t rsa_family then rsa_family ++ parsed else t :: parsed))]; lia.
    + apply IH.
Qed.
Theorem hostkey_conns_bound kex key env :
  (List.length (hostkey_conns kex key env) <= List.length (filter (fun x => match x with (t, _, _) => mem t key end) host_key_types))%nat.
Proof. unfold hostkey_conns. destruct (hk_kex kex); [apply hk_loop_length|apply Nat.le_0_l]. Qed.

Lemma ans_conn_length alg req a : (List.length (ans_conn alg req a) <= 1)%nat.
Proof. destruct a; cbn; lia. Qed.
Lemma gex_sizes_loop_length alg ans sizes sm rf :
  (List.length (fst (fst (gex_sizes_loop alg ans sizes sm rf))) <= List.length sizes)%nat.
Proof.
  revert sm rf. induction sizes as [|b r IH]; intros sm rf; cbn [gex_sizes_loop]; [cbn; lia|].
  destruct ((0 <? sm) && (sm <=? b)); [cbn; lia|].
  specialize (IH (ans_size (ans (b, b, b))) (ans_reconn_failed (ans (b, b, b)))).
  destruct (gex_sizes_loop alg ans r _ _) as [[cs sm'] rf']. cbn [fst] in *. rewrite app_length.
  pose proof (ans_conn_length alg (b, b, b) (ans (b, b, b))). cbn [List.length]. lia.
Qed.
(* a fixed handful per offered group-exchange algorithm, whatever the server answers *)
Theorem gex_alg_bound alg ans openssh :
  (List.length (fst (fst (gex_alg alg ans openssh))) <= 2 + List.length gex_probe_sizes)%nat.
Proof.
  unfold gex_alg. pose proof (ans_conn_length alg gex_first_probe (ans gex_first_probe)) as H0.
  destruct (ans_reconn_failed (ans gex_first_probe)); [cbn [fst]; lia|].
  pose proof (gex_sizes_loop_length alg ans gex_probe_sizes (ans_size (ans gex_first_probe)) false) as H1.
  destruct (gex_sizes_loop alg ans gex_probe_sizes _ false) as [[cs sm] rf]. cbn [fst] in *.
  rewrite !app_length. pose proof (ans_conn_length alg gex_second_pass (ans gex_second_pass)) as H2.
  destruct ((sm =? gex_openssh_trigger) && openssh); cbn [List.length]; lia.
Qed.
Lemma gex_probe_count : (2 + List.length gex_probe_sizes = 9)%nat.
Proof. vm_compute. reflexivity. Qed.

Theorem gex_all_bound algs offered ans openssh :
  (List.length (gex_all algs offered ans openssh) <= (2 + List.length gex_probe_sizes) * List.length (filter (fun a => mem a offered) algs))%nat.
Proof.
  induction algs as [|a r IH]; cbn [gex_all filter]; [cbn; lia|].
  destruct (mem a offered); [|exact IH].
  pose proof (gex_alg_bound a (ans a) openssh) as H. destruct (gex_alg a (ans a) openssh) as [[cs sm] rf]. cbn [fst] in H.
  rewrite app_length. cbn [List.length]. destruct rf; cbn [List.length]; lia.
Qed.

(* the rate check: attempts never exceed the cap, for every clock budget and every server behaviour *)
Lemma open_new_bound fuel att opened pend :
  att <= rate_max_connections -> fst (open_new fuel att opened pend) <= rate_max_connections /\ att <= fst (open_new fuel att opened pend).
Proof.
  revert att pend. induction fuel as [|f IH]; intros att pend H; cbn [open_new]; [cbn; lia|].
  destruct ((pend <? rate_concurrent_sockets) && (pend + opened <? rate_max_connections) && (att <? rate_max_connections)) eqn:E; [|cbn; lia].
  destruct (IH (att + 1) (pend + 1) ltac:(lia)) as [A B]. split; [exact A|lia].
Qed.
Theorem rate_loop_bound ticks att opened pend env :
  att <= rate_max_connections -> rate_loop ticks att opened pend env <= rate_max_connections.
Proof.
  revert att opened pend. induction ticks as [|t IH]; intros att opened pend H; cbn [rate_loop]; [exact H|].
  destruct (rate_max_connections <=? opened); [exact H|].
  destruct ((rate_max_connections <=? att) && (pend =? 0)); [exact H|].
  pose proof (open_new_bound (Z.to_nat rate_concurrent_sockets) att opened pend H) as [A _].
  destruct (open_new _ att opened pend) as [att' pend']. cbn [fst] in A. apply IH. exact A.
Qed.
Theorem rate_conns_bound skip kex ticks env : 0 <= rate_conns skip kex ticks env <= rate_max_connections.
Proof.
  unfold rate_conns. assert (P: 0 <= rate_max_connections) by (vm_compute; discriminate).
  destruct (skip || negb (has_dh kex)); [lia|]. split; [|apply rate_loop_bound; exact P].
  assert (G: forall t a o p, 0 <= a -> 0 <= rate_loop t a o p env).
  { induction t as [|t IH]; intros a o p Ha; cbn [rate_loop]; [exact Ha|].
    destruct (rate_max_connections <=? o); [exact Ha|]. destruct ((rate_max_connections <=? a) && (p =? 0)); [exact Ha|].
    assert (Q: forall f a p, 0 <= a -> 0 <= fst (open_new f a o p)).
    { induction f as [|f IHf]; intros a0 p0 H0; cbn [open_new]; [exact H0|].
      destruct ((p0 <? rate_concurrent_sockets) && (p0 + o <? rate_max_connections) && (a0 <? rate_max_connections)); [apply IHf; lia|exact H0]. }
    specialize (Q (Z.to_nat rate_concurrent_sockets) a p Ha). destruct (open_new _ a o p) as [a' p']. apply IH. exact Q. }
  apply G. lia.
Qed.
Theorem rate_skipped kex ticks env : rate_conns true kex ticks env = 0.
Proof. reflexivity. Qed.
Theorem rate_needs_dh kex ticks env : has_dh kex = false -> rate_conns false kex ticks env = 0.
Proof. intros H. unfold rate_conns. rewrite H. reflexivity. Qed.

(* the whole audit: 1 + one per probed host-key type + nine per offered GEX algorithm + at most the rate cap *)
Theorem audit_conns_bound ca skip k pe :
  let key := kex_names (k_key k) in let kex := kex_names (k_kex k) in
  Z.of_nat (List.length (fst (audit_conns ca skip k pe))) + snd (audit_conns ca skip k pe) <=
  1 + Z.of_nat (List.length (filter (fun x => match x with (t, _, _) => mem t key end) host_key_types))
    + 9 * Z.of_nat (List.length (filter (fun a => mem a kex) gex_algs)) + (if skip then 0 else rate_max_connections).
Proof.
  cbv zeta. unfold audit_conns. assert (P: 0 <= rate_max_connections) by (vm_compute; discriminate).
  destruct ca; cbn [fst snd List.length].
  - destruct skip; lia.
  - rewrite app_length.
    pose proof (hostkey_conns_bound (kex_names (k_kex k)) (kex_names (k_key k)) (pe_hk pe)) as H1.
    pose proof (gex_all_bound gex_algs (kex_names (k_kex k)) (pe_gex pe) (pe_openssh pe)) as H2. rewrite gex_probe_count in H2.
    pose proof (rate_conns_bound skip (kex_names (k_kex k)) (pe_ticks pe) (pe_rate_env pe)) as H3.
    destruct skip; [rewrite rate_skipped in *|]; lia.
Qed.

(* key-exchange computation requests only inside probe connections, at most one per connection:
   the first connection and the rate-check connections never carry one (by construction of `conn`) *)
Definition sends_kex_init (c : conn) : bool := match c with CHostKey _ b => b | CGex _ _ b => b | CFirst | CRate => false end.
Theorem kex_init_only_in_probes ca skip k pe c :
  In c (fst (audit_conns ca skip k pe)) -> sends_kex_init c = true -> exists t, (exists b, c = CHostKey t b) \/ (exists r b, c = CGex t r b).
Proof. intros _ H. destruct c as [|t b|a r b|]; cbn in H; try discriminate; [exists t; left; eauto|exists a; right; eauto]. Qed.

Lemma host_key_types_nodup : nodup_str (map (fun x => match x with (t, _, _) => t end) host_key_types) = true.
Proof. vm_compute. reflexivity. Qed.
