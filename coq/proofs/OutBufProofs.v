From Coq Require Import Lia.
From VModel Require Import OutBuf.
Open Scope string_scope. Open Scope list_scope.

(* subsequence *)
Inductive Sub {A} : list A -> list A -> Prop :=
  | Sub_nil : forall l, Sub [] l
  | Sub_skip : forall x a b, Sub a b -> Sub a (x :: b)
  | Sub_keep : forall x a b, Sub a b -> Sub (x :: a) (x :: b).

Lemma Sub_refl {A} (l : list A) : Sub l l.
Proof. induction l; constructor; assumption. Qed.
Lemma Sub_app {A} (a b c d : list A) : Sub a b -> Sub c d -> Sub (a ++ c) (b ++ d).
Proof.
  intros H1 H2. induction H1 as [l|x a b H IH|x a b H IH]; cbn [app].
  - induction l as [|y l IHl]; cbn [app]; [exact H2|apply Sub_skip; exact IHl].
  - apply Sub_skip. exact IH.
  - apply Sub_keep. exact IH.
Qed.
Lemma Sub_nil_r {A} (a : list A) : Sub a [] -> a = [].
Proof. inversion 1; reflexivity. Qed.

Definition with_level (c : cfg) (l : nat) : cfg := {| c_batch := c_batch c; c_verbose := c_verbose c; c_colors := c_colors c; c_level := l; c_json := c_json c |}.

Lemma passes_mono c l1 l2 lv always : (l1 <= l2)%nat -> passes (with_level c l2) lv always = true -> passes (with_level c l1) lv always = true.
Proof.
  unfold passes. cbn [c_level c_json with_level]. intros H. destruct always; cbn [orb]; [reflexivity|]. destruct (c_json c); cbn [orb]; [reflexivity|].
  destruct (lvl_num lv) as [k|]; [|reflexivity]. intros Hk. apply Nat.leb_le in Hk. apply Nat.leb_le. lia.
Qed.

Lemma colourise_level c l lv s : colourise (with_level c l) lv s = colourise c lv s.
Proof. reflexivity. Qed.

Lemma emits_sub c l1 l2 lns : (l1 <= l2)%nat -> Sub (emits (with_level c l2) lns) (emits (with_level c l1) lns).
Proof.
  intros H. unfold emits. induction lns as [|[[lv s] al] lns IH]; cbn [flat_map]; [constructor|].
  apply Sub_app; [|exact IH]. unfold emit.
  destruct (passes (with_level c l2) lv al) eqn:E2.
  - rewrite (passes_mono c l1 l2 lv al H E2). rewrite !colourise_level. apply Sub_refl.
  - constructor.
Qed.

Section Sorted.
Variable sortf : list string -> list string.
Hypothesis sort_sub : forall a b, Sub a b -> Sub (sortf a) (sortf b).
Hypothesis sort_nil : sortf [] = [].

Definition write_free (prog : list op) : Prop := forall o, In o prog -> match o with OLine _ | OSection _ _ _ => True | _ => False end.

Lemma head_lines_sub c l1 l2 t : (l1 <= l2)%nat -> Sub (head_lines (with_level c l2) t) (head_lines (with_level c l1) t).
Proof. intros H. unfold head_lines. cbn [c_batch with_level]. destruct (c_batch c); [constructor|]. apply Sub_refl. Qed.
Lemma sep_lines_sub c l1 l2 : (l1 <= l2)%nat -> Sub (sep_lines (with_level c l2)) (sep_lines (with_level c l1)).
Proof.
  intros H. unfold sep_lines. cbn [c_batch with_level]. destruct (c_batch c); [constructor|].
  pose proof (emits_sub c l1 l2 [(OInfo, "", false)] H) as E. unfold emits in E. cbn [flat_map] in E. rewrite !app_nil_r in E. exact E.
Qed.

(* raising the minimum level only removes lines: the buffered report at the higher level is a subsequence
   of the report at the lower level, for EVERY write-free program of buffer operations *)
Theorem level_only_removes c l1 l2 prog : (l1 <= l2)%nat -> write_free prog ->
  forall b1 b2 p, Sub b2 b1 ->
  Sub (fst (fold_left (step sortf (with_level c l2)) prog (b2, p))) (fst (fold_left (step sortf (with_level c l1)) prog (b1, p))).
Proof.
  intros Hl. induction prog as [|o prog IH]; intros Hwf b1 b2 p Hb; cbn [fold_left]; [exact Hb|].
  assert (Hwf': write_free prog) by (intros o' Ho'; apply Hwf; right; exact Ho').
  pose proof (Hwf o (or_introl eq_refl)) as Ho. destruct o as [ln|body title srt|s|]; try destruct Ho.
  - cbn [step]. apply IH; [exact Hwf'|]. apply Sub_app; [exact Hb|apply emits_sub; exact Hl].
  - cbn [step]. pose proof (emits_sub c l1 l2 body Hl) as Hs.
    destruct (emits (with_level c l2) body) as [|x2 r2] eqn:E2.
    + destruct (emits (with_level c l1) body) as [|x1 r1] eqn:E1; apply IH; try exact Hwf'; [exact Hb|].
      rewrite <- (app_nil_r b2). apply Sub_app; [exact Hb|constructor].
    + destruct (emits (with_level c l1) body) as [|x1 r1] eqn:E1; [apply Sub_nil_r in Hs; discriminate|].
      apply IH; [exact Hwf'|]. apply Sub_app; [exact Hb|]. apply Sub_app; [apply head_lines_sub; exact Hl|].
      apply Sub_app; [|apply sep_lines_sub; exact Hl]. destruct srt; [apply sort_sub|]; exact Hs.
Qed.

Corollary level_only_removes_report c l1 l2 prog : (l1 <= l2)%nat -> write_free prog ->
  Sub (fst (run sortf (with_level c l2) prog)) (fst (run sortf (with_level c l1) prog)).
Proof. intros Hl Hwf. unfold run. apply level_only_removes; [exact Hl|exact Hwf|constructor]. Qed.

(* a line of level >= the minimum level is never removed *)
Theorem findings_at_or_above_level_preserved c l lns lv s al :
  In (lv, s, al) lns -> passes (with_level c l) lv al = true -> In (colourise c lv s) (emits (with_level c l) lns).
Proof.
  intros Hin Hp. unfold emits. apply in_flat_map. exists (lv, s, al). split; [exact Hin|].
  unfold emit. rewrite Hp. left. reflexivity.
Qed.
End Sorted.

(* recorded finding C15/blank-line-from-immediate-write: with an immediate write, raising the level ADDS a blank line *)
Lemma immediate_write_refuted :
  exists c prog, stdout_lines isort (with_level c 1) prog = [""] /\ stdout_lines isort (with_level c 0) prog = ["Starting audit"].
Proof.
  exists {| c_batch := true; c_verbose := true; c_colors := false; c_level := 0; c_json := false |}, [OVNow "Starting audit"].
  split; vm_compute; reflexivity.
Qed.

(* the executable sort used by the correspondence satisfies the hypotheses' easy half *)
Lemma isort_nil : isort [] = [].
Proof. reflexivity. Qed.

(* ---- the executable sort (insertion sort on String.leb) satisfies the sort hypothesis ---- *)
Lemma ascii_cmp_trans a b c r : Ascii.compare a b = r -> Ascii.compare b c = r -> r <> Eq -> Ascii.compare a c = r.
Proof.
  unfold Ascii.compare. intros H1 H2 Hr. destruct r; [congruence| |].
  - apply N.compare_lt_iff in H1. apply N.compare_lt_iff in H2. apply N.compare_lt_iff. eapply N.lt_trans; eassumption.
  - apply N.compare_gt_iff in H1. apply N.compare_gt_iff in H2. apply N.compare_gt_iff. eapply N.lt_trans; eassumption.
Qed.
Lemma str_cmp_refl s : String.compare s s = Eq.
Proof. induction s as [|a s IH]; cbn [String.compare]; [reflexivity|].
  unfold Ascii.compare. rewrite N.compare_refl. exact IH. Qed.

Lemma str_cmp_gt_trans : forall a b c, String.compare a b = Gt -> String.compare b c = Gt -> String.compare a c = Gt.
Proof.
  induction a as [|x a IH]; intros b c H1 H2.
  - destruct b; cbn in H1; discriminate.
  - destruct b as [|y b]; [destruct c; cbn in H2; discriminate|].
    destruct c as [|z c]; [reflexivity|]. cbn [String.compare] in *.
    destruct (Ascii.compare x y) eqn:Exy; try discriminate.
    + apply Ascii.compare_eq_iff in Exy. subst y.
      destruct (Ascii.compare x z) eqn:Exz; try discriminate; [eapply IH; eassumption|reflexivity].
    + destruct (Ascii.compare y z) eqn:Eyz; try discriminate.
      * apply Ascii.compare_eq_iff in Eyz. subst z. rewrite Exy. reflexivity.
      * rewrite (ascii_cmp_trans x y z Gt Exy Eyz) by discriminate. reflexivity.
Qed.
Lemma leb_false_gt a b : String.leb a b = false <-> String.compare a b = Gt.
Proof. unfold String.leb. destruct (String.compare a b); split; congruence. Qed.
Lemma leb_trans a b c : String.leb a b = true -> String.leb b c = true -> String.leb a c = true.
Proof.
  intros H1 H2. destruct (String.leb a c) eqn:E; [reflexivity|exfalso].
  apply leb_false_gt in E.
  (* a > c and b <= c  =>  a > b  (contradiction) *)
  assert (Hcb: String.compare c b = Gt \/ c = b).
  { unfold String.leb in H2. rewrite String.compare_antisym in H2.
    destruct (String.compare c b) eqn:Ecb; [right; apply String.compare_eq_iff; exact Ecb|cbn in H2; discriminate|left; reflexivity]. }
  destruct Hcb as [Hcb | Hcb]; [|subst c].
  - pose proof (str_cmp_gt_trans a c b E Hcb) as Hab. apply leb_false_gt in Hab. congruence.
  - apply leb_false_gt in E. congruence.
Qed.

Inductive SortedS : list string -> Prop :=
  | SS_nil : SortedS []
  | SS_cons : forall x l, (forall y, In y l -> String.leb x y = true) -> SortedS l -> SortedS (x :: l).

Lemma insert_In x l y : In y (insert_str x l) <-> y = x \/ In y l.
Proof.
  induction l as [|z l IH]; cbn [insert_str In]; [intuition congruence|].
  destruct (String.leb x z); cbn [In]; [intuition congruence|]. rewrite IH. intuition congruence.
Qed.
Lemma insert_sorted x l : SortedS l -> SortedS (insert_str x l).
Proof.
  induction 1 as [|z l Hz Hs IH]; cbn [insert_str].
  - constructor; [intros y []|constructor].
  - destruct (String.leb x z) eqn:E.
    + constructor; [|constructor; assumption]. intros y [->|Hy]; [exact E|]. eapply leb_trans; [exact E|apply Hz; exact Hy].
    + constructor; [|exact IH]. intros y Hy. apply insert_In in Hy. destruct Hy as [->|Hy]; [|apply Hz; exact Hy].
      destruct (String.leb_total x z) as [H|H]; [congruence|exact H].
Qed.
Lemma isort_sorted l : SortedS (isort l).
Proof. induction l as [|x l IH]; cbn [isort fold_right]; [constructor|apply insert_sorted; exact IH]. Qed.

Lemma Sub_In {A} (a b : list A) x : Sub a b -> In x a -> In x b.
Proof. induction 1; cbn [In]; intros H'; [destruct H'|right; auto|destruct H'; [left; assumption|right; auto]]. Qed.

Lemma insert_skip x l : Sub l (insert_str x l).
Proof. induction l as [|z l IH]; cbn [insert_str]; [constructor|]. destruct (String.leb x z); [apply Sub_skip, Sub_refl|apply Sub_keep, IH]. Qed.

Lemma insert_sub x s t : SortedS t -> Sub s t -> Sub (insert_str x s) (insert_str x t).
Proof.
  intros Hst Hsub. induction Hsub as [t|z s t Hsub IH|z s t Hsub IH].
  - cbn [insert_str]. induction t as [|z t IHt]; cbn [insert_str]; [apply Sub_refl|].
    destruct (String.leb x z); [apply Sub_keep, Sub_nil|apply Sub_skip, IHt]. inversion Hst; assumption.
  - inversion Hst as [|? ? Hz Hs]; subst. cbn [insert_str]. destruct (String.leb x z) eqn:E.
    + (* x <= z <= everything in t, hence in s: insert x s = x :: s *)
      assert (Hxs: insert_str x s = x :: s).
      { destruct s as [|w s']; [reflexivity|]. cbn [insert_str].
        assert (String.leb x w = true).
        { eapply leb_trans; [exact E|]. apply Hz. eapply Sub_In; [exact Hsub|left; reflexivity]. }
        rewrite H. reflexivity. }
      rewrite Hxs. apply Sub_keep, Sub_skip. exact Hsub.
    + apply Sub_skip. apply IH. exact Hs.
  - inversion Hst as [|? ? Hz Hs]; subst. cbn [insert_str]. destruct (String.leb x z).
    + apply Sub_keep, Sub_keep. exact Hsub.
    + apply Sub_keep. apply IH. exact Hs.
Qed.

Lemma Sub_insert_r x s t : Sub s t -> Sub s (insert_str x t).
Proof.
  intros Hst. induction Hst as [t|z s t Hst IHs|z s t Hst IHs]; cbn [insert_str]; [constructor| |].
  - destruct (String.leb x z); [apply Sub_skip, Sub_skip; exact Hst|apply Sub_skip; exact IHs].
  - destruct (String.leb x z); [apply Sub_skip, Sub_keep; exact Hst|apply Sub_keep; exact IHs].
Qed.

Theorem isort_sub a b : Sub a b -> Sub (isort a) (isort b).
Proof.
  induction 1 as [l|x a b H IH|x a b H IH].
  - constructor.
  - change (isort (x :: b)) with (insert_str x (isort b)). apply Sub_insert_r. exact IH.
  - change (isort (x :: a)) with (insert_str x (isort a)). change (isort (x :: b)) with (insert_str x (isort b)).
    apply insert_sub; [apply isort_sorted|exact IH].
Qed.

Corollary level_only_removes_isort c l1 l2 prog : (l1 <= l2)%nat -> write_free prog ->
  Sub (fst (run isort (with_level c l2) prog)) (fst (run isort (with_level c l1) prog)).
Proof. intros. apply level_only_removes_report; [exact isort_sub|assumption|assumption]. Qed.
