(* C07: the isolation theorem is about a protocol - every worker thread works on its own deep copy of the master database, created on first use and deleted in the
   `finally` of the audit of each target, and on its own deep copy of the configuration (hence of the policy and its error list).  The statements that implement the
   protocol are matched literally against the current source by the translator on every run (get_db / thread_exit of both database classes, the `finally` block and the
   configuration copy of target_worker_thread, no other statement rebinding MASTER_DB / DB_PER_THREAD); when one of them changes, src_thread_protocol is left out of
   gen/Tables.v and this file stops compiling.  The dynamic side - real SSH2_KexDB objects driven through Multi.run_trace - is the C07 correspondence. *)
From Coq Require Import List String.
From VGen Require Import Tables.
Open Scope string_scope. Open Scope list_scope.

Lemma tie_thread_protocol : List.length src_thread_protocol = 6%nat.
Proof. reflexivity. Qed.
