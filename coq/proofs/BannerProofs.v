(* C16 - proofs about coq/model/BannerM.v *)
From VModel Require Import BannerM.
From Coq Require Import Lia.
Open Scope list_scope. Open Scope string_scope.

(* ---------- strings ---------- *)
Lemma app_assoc_s : forall a b c : string, (a ++ b) ++ c = a ++ (b ++ c).
Proof. induction a; intros; cbn [append]; [reflexivity | now rewrite IHa]. Qed.
Lemma app_nil_s : forall a : string, a ++ "" = a.
Proof. induction a; cbn [append]; [reflexivity | now rewrite IHa]. Qed.
Lemma length_app_s : forall a b : string, String.length (a ++ b) = String.length a + String.length b.
Proof. induction a; intros; cbn [append String.length]; [reflexivity | now rewrite IHa]. Qed.

Lemma span_all : forall p a b, all_str p a = true -> head_not p b = true -> span p (a ++ b) = (a, b).
Proof.
  induction a as [|c a IH]; intros b Ha Hb; cbn [append].
  - destruct b as [|c b]; cbn [span]; [reflexivity|]. cbn [head_not] in Hb. destruct (p c); [discriminate | reflexivity].
  - cbn [all_str] in Ha. apply andb_true_iff in Ha as [Hc Ha]. cbn [span]. rewrite Hc, (IH b Ha Hb). reflexivity.
Qed.
Lemma span_all_nil : forall p a, all_str p a = true -> span p a = (a, "").
Proof. intros. rewrite <- (app_nil_s a) at 1. now apply span_all. Qed.
Lemma span_none : forall p s, head_not p s = true -> span p s = ("", s).
Proof. intros. now apply (span_all p "" s). Qed.
Lemma span_fst_all : forall p s, all_str p (fst (span p s)) = true.
Proof.
  induction s as [|c s IH]; cbn [span]; [reflexivity|].
  destruct (p c) eqn:E; [|reflexivity]. destruct (span p s); cbn [fst all_str] in *. now rewrite E, IH.
Qed.
Lemma span_snd_head : forall p s, head_not p (snd (span p s)) = true.
Proof.
  induction s as [|c s IH]; cbn [span]; [reflexivity|].
  destruct (p c) eqn:E; [|cbn [snd head_not]; now rewrite E]. destruct (span p s); exact IH.
Qed.
Lemma span_app_eq : forall p s, fst (span p s) ++ snd (span p s) = s.
Proof.
  induction s as [|c s IH]; cbn [span]; [reflexivity|].
  destruct (p c); [|reflexivity]. destruct (span p s); cbn [fst snd append] in *. now rewrite IH.
Qed.
Lemma strip_prefix_app : forall p s, strip_prefix p (p ++ s) = Some s.
Proof. induction p; intros; cbn [append strip_prefix]; [now destruct s | now rewrite Ascii.eqb_refl]. Qed.
Lemma strip_prefix_eq : forall p s r, strip_prefix p s = Some r -> s = p ++ r.
Proof.
  induction p as [|a p IH]; intros s r H.
  - destruct s; cbn in H; now inversion H.
  - destruct s as [|b s]; cbn [strip_prefix] in H; [discriminate|].
    destruct (Ascii.eqb a b) eqn:E; [|discriminate]. apply Ascii.eqb_eq in E. subst b. cbn [append]. now rewrite (IH s r H).
Qed.
Lemma sdrop_app : forall a b, sdrop (String.length a) (a ++ b) = b.
Proof. induction a; intros; cbn [String.length append sdrop]; [now destruct b | apply IHa]. Qed.
Lemma all_str_app : forall p a b, all_str p (a ++ b) = all_str p a && all_str p b.
Proof. induction a; intros; cbn [append all_str]; [reflexivity | now rewrite IHa, andb_assoc]. Qed.
Lemma all_str_imp : forall (p q : ascii -> bool) s, (forall c, p c = true -> q c = true) -> all_str p s = true -> all_str q s = true.
Proof.
  induction s; intros Hpq H; cbn [all_str] in *; [reflexivity|].
  apply andb_true_iff in H as [H1 H2]. now rewrite (Hpq _ H1), IHs.
Qed.

(* ---------- character classes ---------- *)
Lemma digit_not_space : forall c, is_digit c = true -> is_space c = false.
Proof.
  intros c H. unfold is_space. destruct (Ascii.eqb c " ") eqn:E; [|reflexivity].
  apply Ascii.eqb_eq in E. subst c. discriminate H.
Qed.
Lemma digit_not_dot : forall c, is_digit c = true -> is_dot c = false.
Proof.
  intros c H. unfold is_dot. destruct (Ascii.eqb c ".") eqn:E; [|reflexivity].
  apply Ascii.eqb_eq in E. subst c. discriminate H.
Qed.
Lemma digit_not_sep : forall c, is_digit c = true -> is_sep c = false.
Proof.
  intros c H. unfold is_sep. rewrite (digit_not_dot c H).
  destruct (Ascii.eqb c "_") eqn:E1; [apply Ascii.eqb_eq in E1; subst c; discriminate H|].
  destruct (Ascii.eqb c "-") eqn:E2; [apply Ascii.eqb_eq in E2; subst c; discriminate H|]. reflexivity.
Qed.
Lemma first_digit_head_not_space : forall s, all_str is_digit s = true -> head_not is_space s = true.
Proof. destruct s; cbn; [reflexivity|]. intro H. apply andb_true_iff in H as [H _]. now rewrite (digit_not_space _ H). Qed.

(* ---------- protocol token ---------- *)
Lemma proto_norm : forall maj min rest,
  is_digit maj = true -> all_str is_digit min = true -> min <> "" -> head_not is_digit rest = true ->
  proto ("SSH-" ++ String maj ("." ++ min ++ rest)) = Some (maj, min, rest).
Proof.
  intros maj min rest Hm Hd Hne Hr. unfold proto.
  rewrite strip_prefix_app. cbn [append]. rewrite Hm. cbn [Ascii.eqb Bool.eqb andb].
  rewrite (span_none is_space (min ++ rest)).
  - cbn [snd]. rewrite (span_all is_digit min rest Hd Hr). destruct min; [congruence | reflexivity].
  - destruct min as [|c m]; [congruence|]. cbn [append head_not]. cbn [all_str] in Hd.
    apply andb_true_iff in Hd as [Hc _]. now rewrite (digit_not_space c Hc).
Qed.

Lemma proto_inv : forall s d ds r, proto s = Some (d, ds, r) ->
  is_digit d = true /\ all_str is_digit ds = true /\ ds <> "" /\ head_not is_digit r = true
  /\ exists sp, all_str is_space sp = true /\ s = "SSH-" ++ String d ("." ++ sp ++ ds ++ r).
Proof.
  intros s d ds r H. unfold proto in H.
  destruct (strip_prefix "SSH-" s) as [t|] eqn:E; [|discriminate].
  apply strip_prefix_eq in E. destruct t as [|d' [|dot t]]; try discriminate.
  destruct (is_digit d') eqn:Hd; [|discriminate]. destruct (Ascii.eqb dot ".") eqn:Hdot; [|discriminate].
  cbn [andb] in H. apply Ascii.eqb_eq in Hdot. subst dot.
  pose proof (span_fst_all is_space t) as Hsp. pose proof (span_app_eq is_space t) as Ht.
  destruct (span is_space t) as [sp t1]. cbn [fst snd] in *.
  pose proof (span_fst_all is_digit t1) as Hds. pose proof (span_app_eq is_digit t1) as Ht1.
  pose proof (span_snd_head is_digit t1) as Hr.
  destruct (span is_digit t1) as [ds' r']. cbn [fst snd] in *.
  destruct ds' as [|c ds']; [discriminate|]. inversion H; subst d' ds r'. clear H.
  repeat split; try assumption; try discriminate.
  exists sp. split; [assumption|]. subst s t t1. reflexivity.
Qed.

(* ---------- the chain ---------- *)
Lemma chain_stop : forall f c r, Ascii.eqb c "-" = false -> chain f (String c r) = None.
Proof. intros. destruct f; cbn [chain]; now rewrite H. Qed.

Lemma chain_not_absorbed : forall f t, absorbs t = false -> chain (S f) (String "-" t) = Some ([], String "-" t).
Proof.
  intros f t H. cbn [chain]. cbn [Ascii.eqb Bool.eqb]. unfold absorbs in H.
  destruct (proto t) as [[[d ds] r2]|]; [|reflexivity].
  destruct r2 as [|c r2]; [discriminate|]. now rewrite (chain_stop f c r2 H).
Qed.

(* ---------- words / comments ---------- *)
Lemma split_sp_word : forall w r, all_str not_space w = true -> split_sp (w ++ String " " r) = w :: split_sp r.
Proof.
  induction w as [|c w IH]; intros r H; cbn [append].
  - reflexivity.
  - cbn [all_str] in H. apply andb_true_iff in H as [Hc Hw]. cbn [split_sp].
    unfold not_space in Hc. apply negb_true_iff in Hc. rewrite Hc, (IH r Hw). reflexivity.
Qed.
Lemma split_sp_single : forall w, all_str not_space w = true -> split_sp w = [w].
Proof.
  induction w as [|c w IH]; intro H; [reflexivity|].
  cbn [all_str] in H. apply andb_true_iff in H as [Hc Hw]. cbn [split_sp].
  unfold not_space in Hc. apply negb_true_iff in Hc. rewrite Hc, (IH Hw). reflexivity.
Qed.
Lemma words_space : forall r, words (String " " r) = words r.
Proof. reflexivity. Qed.
Lemma words_spaces : forall n r, words (spaces n ++ r) = words r.
Proof. induction n; intro r; cbn [spaces append]; [reflexivity | rewrite words_space; apply IHn]. Qed.
Lemma words_spaces_only : forall n, words (spaces n) = [].
Proof. intro n. rewrite <- (app_nil_s (spaces n)), words_spaces. reflexivity. Qed.
Lemma nonempty_true : forall w, w <> "" -> nonempty w = true.
Proof. destruct w; [congruence | reflexivity]. Qed.
Lemma words_word : forall w t, word_ok w -> head_not not_space t = true -> words (w ++ t) = w :: words t.
Proof.
  intros w t [Hw Hne] Ht. destruct t as [|c t].
  - rewrite app_nil_s. unfold words. rewrite (split_sp_single w Hw). cbn [filter]. now rewrite (nonempty_true w Hne).
  - cbn [head_not] in Ht. unfold not_space in Ht. rewrite negb_involutive in Ht. unfold is_space in Ht.
    apply Ascii.eqb_eq in Ht. subst c. unfold words. rewrite (split_sp_word w t Hw). cbn [filter].
    now rewrite (nonempty_true w Hne).
Qed.
Lemma spaces_head : forall n, head_not not_space (spaces n) = true.
Proof. destruct n; reflexivity. Qed.
Lemma tail_head : forall gw k, head_not not_space (tail gw k) = true.
Proof. destruct gw as [|[n w] r]; intro k; cbn [tail]; [apply spaces_head | reflexivity]. Qed.
Lemma words_tail : forall gw k, Forall (fun x => word_ok (snd x)) gw -> words (tail gw k) = map snd gw.
Proof.
  induction gw as [|[n w] r IH]; intros k H; cbn [tail map snd].
  - apply words_spaces_only.
  - inversion H; subst. rewrite words_spaces, (words_word w (tail r k) H2 (tail_head r k)), (IH k H3). reflexivity.
Qed.
Lemma norm_comments_tail : forall gw k, Forall (fun x => word_ok (snd x)) gw -> norm_comments (tail gw k) = comments_of gw.
Proof.
  intros gw k H. unfold norm_comments. rewrite (words_tail gw k H). destruct gw; reflexivity.
Qed.

(* ---------- the rest group ---------- *)
Lemma nospace_head : forall sw, all_str not_space sw = true -> head_not is_space sw = true.
Proof. destruct sw; cbn; [reflexivity|]. intro H. apply andb_true_iff in H as [H _]. exact H. Qed.
Lemma all_space_spaces : forall n, all_str is_space (spaces n) = true.
Proof. induction n; cbn; [reflexivity | exact IHn]. Qed.

Lemma rpart_line : forall c sw gw k,
  all_str not_space sw = true -> (sw = "" -> gw = []) -> Forall (fun x => word_ok (snd x)) gw ->
  rpart (String c (sw ++ tail gw k)) = (Some sw, comments_of gw).
Proof.
  intros c sw gw k Hsw Hemp Hgw. cbn [rpart].
  destruct sw as [|a sw].
  - rewrite (Hemp eq_refl). cbn [append tail]. rewrite (span_all_nil is_space (spaces k) (all_space_spaces k)).
    reflexivity.
  - rewrite (span_none is_space (String a sw ++ tail gw k)).
    + cbn [snd]. rewrite (span_all not_space (String a sw) (tail gw k) Hsw).
      * now rewrite (norm_comments_tail gw k Hgw).
      * pose proof (tail_head gw k) as H. destruct (tail gw k); [reflexivity|]. cbn [head_not] in *. exact H.
    + cbn [append head_not]. cbn [all_str] in Hsw. apply andb_true_iff in Hsw as [Ha _]. exact Ha.
Qed.

(* ---------- canonical minor ---------- *)
Lemma strip0_head : forall s c r, strip0 s = String c r -> Ascii.eqb c "0" = false.
Proof.
  induction s as [|a s IH]; intros c r H; cbn [strip0] in H; [discriminate|].
  destruct (Ascii.eqb a "0") eqn:E; [now apply (IH c r) | inversion H; now subst].
Qed.
Lemma canon_idem : forall s, canon (canon s) = canon s.
Proof.
  intro s. destruct (strip0 s) as [|c r] eqn:E.
  - assert (H : canon s = "0") by (unfold canon; now rewrite E). rewrite H. reflexivity.
  - assert (H : canon s = String c r) by (unfold canon; now rewrite E). rewrite H.
    unfold canon. cbn [strip0]. now rewrite (strip0_head s c r E).
Qed.
Lemma strip0_digits : forall s, all_str is_digit s = true -> all_str is_digit (strip0 s) = true.
Proof.
  induction s as [|a s IH]; intro H; cbn [strip0]; [reflexivity|].
  destruct (Ascii.eqb a "0"); [|exact H]. cbn [all_str] in H. apply andb_true_iff in H as [_ H]. now apply IH.
Qed.
Lemma canon_digits : forall s, all_str is_digit s = true -> all_str is_digit (canon s) = true /\ canon s <> "".
Proof.
  intros s H. unfold canon. pose proof (strip0_digits s H) as H1.
  destruct (strip0 s); [split; [reflexivity | discriminate] | split; [exact H1 | discriminate]].
Qed.

(* ---------- C16 (a): every line of the grammar is accepted and decomposed ---------- *)
Lemma line_unfold : forall maj min sw gw k,
  line maj min sw gw k = "SSH-" ++ String maj ("." ++ min ++ String "-" (sw ++ tail gw k)).
Proof. reflexivity. Qed.

Theorem accepts_grammar_partial : forall maj min sw gw k,
  wf_line maj min sw gw -> absorbs (sw ++ tail gw k) = false ->
  parse_ascii (line maj min sw gw k) = Some (mkP maj (canon min) (Some sw) (comments_of gw)).
Proof.
  intros maj min sw gw k (Hmaj & Hmin & Hne & Hsw & Hemp & Hgw) Habs.
  rewrite line_unfold. unfold parse_ascii.
  rewrite (proto_norm maj min (String "-" (sw ++ tail gw k)) Hmaj Hmin Hne eq_refl).
  cbn [String.length]. rewrite (chain_not_absorbed _ _ Habs). cbn [tok_min fst snd].
  rewrite (rpart_line "-" sw gw k Hsw Hemp Hgw). reflexivity.
Qed.

(* a software token that does not begin with "SSH-" is never absorbed *)
Lemma strip_prefix_none_app : forall p sw t,
  all_str not_space p = true -> head_not not_space t = true -> strip_prefix p sw = None -> strip_prefix p (sw ++ t) = None.
Proof.
  induction p as [|a p IH]; intros sw t Hp Ht H.
  - destruct sw; discriminate H.
  - cbn [all_str] in Hp. apply andb_true_iff in Hp as [Ha Hp].
    destruct sw as [|b sw]; cbn [append].
    + destruct t as [|c t]; [reflexivity|]. cbn [strip_prefix]. cbn [head_not] in Ht.
      destruct (Ascii.eqb a c) eqn:E; [|reflexivity]. apply Ascii.eqb_eq in E. subst c. rewrite Ha in Ht. discriminate.
    + cbn [strip_prefix] in *. destruct (Ascii.eqb a b); [now apply IH | reflexivity].
Qed.
Lemma not_ssh_not_absorbed : forall sw gw k, strip_prefix "SSH-" sw = None -> absorbs (sw ++ tail gw k) = false.
Proof.
  intros sw gw k H. unfold absorbs, proto.
  now rewrite (strip_prefix_none_app "SSH-" sw (tail gw k) eq_refl (tail_head gw k) H).
Qed.
Theorem accepts_grammar_plain : forall maj min sw gw k,
  wf_line maj min sw gw -> strip_prefix "SSH-" sw = None ->
  parse_ascii (line maj min sw gw k) = Some (mkP maj (canon min) (Some sw) (comments_of gw)).
Proof. intros. apply accepts_grammar_partial; [assumption | now apply not_ssh_not_absorbed]. Qed.

(* full strength is refuted: the statement without the side condition *)
Theorem accepts_grammar_refuted : exists maj min sw gw k,
  wf_line maj min sw gw /\ parse_ascii (line maj min sw gw k) <> Some (mkP maj (canon min) (Some sw) (comments_of gw)).
Proof.
  exists "2"%char, "0", "SSH-1.5-x", [], 0. split.
  - unfold wf_line. repeat split; try reflexivity; try discriminate. constructor.
  - vm_compute. discriminate.
Qed.
(* the blank-tolerant protocol expression also absorbs "SSH-d." followed by a numeric comment *)
Theorem accepts_grammar_refuted_space : exists maj min sw gw k,
  wf_line maj min sw gw /\ absorbs sw = false
  /\ parse_ascii (line maj min sw gw k) <> Some (mkP maj (canon min) (Some sw) (comments_of gw)).
Proof.
  exists "2"%char, "0", "SSH-1.", [(0, "5")], 0. split; [|split].
  - unfold wf_line. repeat split; try reflexivity; try discriminate. repeat constructor. discriminate.
  - reflexivity.
  - vm_compute. discriminate.
Qed.

(* lines without software *)
Theorem accepts_bare : forall maj min, is_digit maj = true -> all_str is_digit min = true -> min <> "" ->
  parse_ascii ("SSH-" ++ String maj ("." ++ min)) = Some (mkP maj (canon min) None None).
Proof.
  intros maj min Hmaj Hmin Hne. unfold parse_ascii.
  rewrite <- (app_nil_s min) at 1. rewrite (proto_norm maj min "" Hmaj Hmin Hne eq_refl). reflexivity.
Qed.

(* ---------- invariants of what parse_ascii returns ---------- *)
Definition tok_ok (t : tok) : Prop := is_digit (fst t) = true /\ all_str is_digit (snd t) = true /\ snd t <> "".

Lemma chain_inv : forall f s l e, chain f s = Some (l, e) ->
  Forall tok_ok l /\ (e = "" \/ exists t, e = String "-" t).
Proof.
  induction f as [|f IH]; intros s l e H; destruct s as [|c r]; cbn [chain] in H.
  - inversion H. split; [constructor | now left].
  - destruct (Ascii.eqb c "-") eqn:E; [|discriminate]. apply Ascii.eqb_eq in E. subst c.
    inversion H. split; [constructor | right; now exists r].
  - inversion H. split; [constructor | now left].
  - destruct (Ascii.eqb c "-") eqn:E; [|discriminate]. apply Ascii.eqb_eq in E. subst c.
    destruct (proto r) as [[[d ds] r2]|] eqn:Ep.
    + destruct (chain f r2) as [[l' e']|] eqn:Ec.
      * inversion H; subst. destruct (IH r2 l' e Ec) as [Hl He]. split; [|exact He].
        constructor; [|exact Hl]. destruct (proto_inv r d ds r2 Ep) as (H1 & H2 & H3 & _). now repeat split.
      * inversion H. split; [constructor | right; now exists r].
    + inversion H. split; [constructor | right; now exists r].
Qed.
Lemma tok_min_ok : forall l m, tok_ok m -> Forall tok_ok l -> tok_ok (tok_min m l).
Proof.
  induction l as [|t l IH]; intros m Hm Hl; cbn [tok_min]; [exact Hm|].
  inversion Hl; subst. apply IH; [|assumption]. now destruct (tok_ltb t m).
Qed.

Lemma split_sp_nospace : forall s, Forall (fun w => all_str not_space w = true) (split_sp s).
Proof.
  induction s as [|c s IH]; cbn [split_sp]; [repeat constructor|].
  destruct (is_space c) eqn:E; [constructor; [reflexivity | exact IH]|].
  destruct (split_sp s) as [|w ws]; [repeat constructor; cbn; unfold not_space; now rewrite E|].
  inversion IH; subst. constructor; [|assumption]. cbn [all_str]. unfold not_space at 1. now rewrite E, H1.
Qed.
Lemma words_ok : forall s, Forall word_ok (words s).
Proof.
  intro s. unfold words. pose proof (split_sp_nospace s) as H. induction H as [|w l Hw Hl IH]; cbn [filter]; [constructor|].
  destruct w as [|c w]; cbn [nonempty]; [exact IH|]. constructor; [|exact IH]. split; [exact Hw | discriminate].
Qed.

Definition comments_ws (ws : list string) : option string := match ws with [] => None | _ => Some (join " " ws) end.
Definition sw_cm_ok (sw cm : option string) : Prop :=
  match sw with
  | None => cm = None
  | Some s => all_str not_space s = true /\ exists ws, Forall word_ok ws /\ cm = comments_ws ws /\ (s = "" -> ws = [])
  end.
Lemma head_both : forall t, head_not is_space t = true -> head_not not_space t = true -> t = "".
Proof.
  destruct t as [|c t]; [reflexivity|]. cbn [head_not]. unfold not_space. intros H1 H2.
  rewrite H1 in H2. discriminate.
Qed.
Lemma rpart_inv : forall e, sw_cm_ok (fst (rpart e)) (snd (rpart e)).
Proof.
  destruct e as [|c t]; cbn [rpart]; [reflexivity|].
  pose proof (span_snd_head is_space t) as H1. set (t1 := snd (span is_space t)) in *.
  pose proof (span_fst_all not_space t1) as H2. pose proof (span_snd_head not_space t1) as H3.
  pose proof (span_app_eq not_space t1) as H4.
  destruct (span not_space t1) as [sw t2]. cbn [fst snd] in *. split; [exact H2|].
  exists (words t2). split; [apply words_ok|]. split; [unfold norm_comments, comments_ws; now destruct (words t2)|].
  intro Hs. subst sw. cbn [append] in H4. subst t2. now rewrite (head_both t1 H1 H3).
Qed.

Lemma parse_ascii_inv : forall s b, parse_ascii s = Some b ->
  is_digit (p_major b) = true
  /\ (exists ds, all_str is_digit ds = true /\ p_minor b = canon ds)
  /\ sw_cm_ok (p_software b) (p_comments b).
Proof.
  intros s b H. unfold parse_ascii in H.
  destruct (proto s) as [[[d ds] r]|] eqn:Ep; [|discriminate].
  destruct (chain (String.length r) r) as [[l e]|] eqn:Ec; [|discriminate].
  destruct (proto_inv s d ds r Ep) as (Hd & Hds & Hne & _).
  destruct (chain_inv _ _ _ _ Ec) as [Hl _].
  assert (Hm : tok_ok (tok_min (d, ds) l)) by (apply tok_min_ok; [now repeat split | exact Hl]).
  pose proof (rpart_inv e) as Hr. destruct (rpart e) as [sw cm]. inversion H; subst b. cbn [p_major p_minor p_software p_comments fst snd] in *.
  destruct Hm as (M1 & M2 & _). split; [exact M1|]. split; [|exact Hr]. now exists (snd (tok_min (d, ds) l)).
Qed.

(* ---------- C16 (b): rendering and parsing again ---------- *)
Lemma join_cons2 : forall sep a b r, join sep (a :: b :: r) = a ++ sep ++ join sep (b :: r).
Proof. reflexivity. Qed.
Lemma join_tail : forall ws, ws <> [] -> " " ++ join " " ws = tail (map (fun w => (0, w)) ws) 0.
Proof.
  induction ws as [|w ws IH]; intro H; [congruence|].
  destruct ws as [|w2 ws].
  - cbn [join map tail spaces append]. now rewrite app_nil_s.
  - rewrite join_cons2. assert (IH' := IH ltac:(discriminate)).
    change (tail (map (fun w => (0, w)) (w :: w2 :: ws)) 0) with (spaces 1 ++ w ++ tail (map (fun w => (0, w)) (w2 :: ws)) 0).
    rewrite <- IH'. reflexivity.
Qed.
Lemma join_nonempty : forall ws, Forall word_ok ws -> ws <> [] -> nonempty (join " " ws) = true.
Proof.
  intros ws H Hne. destruct ws as [|w ws]; [congruence|]. inversion H; subst. destruct H2 as [_ Hw].
  destruct w as [|c w]; [congruence|]. destruct ws; reflexivity.
Qed.
Lemma map_snd_pair0 : forall ws : list string, map snd (map (fun w => (0, w)) ws) = ws.
Proof. induction ws; cbn [map snd]; [reflexivity | now rewrite IHws]. Qed.

Theorem parse_show_parse_partial : forall s b,
  parse_ascii s = Some b -> absorbs (shown_rest b) = false -> parse_ascii (show b) = Some b.
Proof.
  intros s b H Habs. destruct (parse_ascii_inv s b H) as (Hmaj & (ds & Hds & Hmin) & Hsc).
  destruct b as [maj mn sw cm]. cbn [p_major p_minor p_software p_comments] in *.
  destruct (canon_digits ds Hds) as [Hcd Hcne]. rewrite <- Hmin in Hcd, Hcne.
  assert (Hcan : canon mn = mn) by (rewrite Hmin; apply canon_idem).
  destruct sw as [sw|].
  - destruct Hsc as (Hsw & ws & Hws & Hcm & Hemp).
    set (gw := map (fun w => (0, w)) ws).
    assert (Htail : match cm with Some c => if nonempty c then " " ++ c else "" | None => "" end = tail gw 0).
    { subst cm. destruct ws as [|w ws']; [reflexivity|]. cbn [comments_ws].
      rewrite (join_nonempty (w :: ws') Hws) by discriminate. apply join_tail. discriminate. }
    assert (Hshow : show (mkP maj mn (Some sw) cm) = line maj mn sw gw 0).
    { unfold show, line. cbn [p_major p_minor p_software p_comments]. rewrite Htail. cbn [append]. reflexivity. }
    unfold shown_rest in Habs. cbn [p_software p_comments] in Habs. rewrite Htail in Habs.
    rewrite Hshow, (accepts_grammar_partial maj mn sw gw 0).
    + rewrite Hcan. f_equal. f_equal. subst cm gw. destruct ws; [reflexivity|]. cbn [comments_of comments_ws map].
      now rewrite map_snd_pair0.
    + unfold wf_line. repeat split; try assumption.
      * intro Hs. unfold gw. now rewrite (Hemp Hs).
      * unfold gw. clear -Hws. induction Hws; cbn [map]; constructor; assumption.
    + exact Habs.
  - cbn in Hsc. subst cm. unfold show. cbn [p_major p_minor p_software p_comments].
    change ("SSH-" ++ String maj ("." ++ mn) ++ "" ++ "") with ("SSH-" ++ String maj ("." ++ mn ++ "")).
    unfold parse_ascii. rewrite (proto_norm maj mn "" Hmaj Hcd Hcne eq_refl). cbn. now rewrite Hcan.
Qed.

Theorem parse_show_parse_refuted : exists s b, parse_ascii s = Some b /\ parse_ascii (show b) <> Some b.
Proof.
  exists "SSH-2.5- SSH-2.64". eexists. split; [vm_compute; reflexivity|]. vm_compute. discriminate.
Qed.

(* ---------- C16 (c): the printable-ASCII filter ---------- *)
Open Scope Z_scope.
Lemma printable_range : forall z, printable z = true <-> in_range z.
Proof. intro z. unfold printable, in_range. rewrite andb_true_iff, !Z.leb_le. tauto. Qed.
Lemma pchar_code : forall z, printable z = true -> Z.of_nat (code (pchar z)) = z.
Proof.
  intros z H. unfold pchar. rewrite H. apply printable_range in H. unfold in_range in H. unfold code.
  rewrite nat_ascii_embedding by lia. lia.
Qed.
Lemma pchar_printable : forall z, printable_char (pchar z) = true.
Proof.
  intro z. unfold pchar. destruct (printable z) eqn:H; [|reflexivity].
  apply printable_range in H. unfold in_range in H. unfold printable_char, code.
  rewrite nat_ascii_embedding by lia. apply andb_true_iff. split; apply Nat.leb_le; lia.
Qed.
Theorem to_print_ascii_printable : forall l, all_str printable_char (to_print_ascii l) = true.
Proof.
  induction l as [|z l IH]; [reflexivity|]. unfold to_print_ascii in *. cbn [map of_chars all_str].
  now rewrite pchar_printable, IH.
Qed.
Theorem to_print_ascii_length : forall l, String.length (to_print_ascii l) = List.length l.
Proof. induction l; [reflexivity|]. unfold to_print_ascii in *. cbn [map of_chars String.length List.length]. now rewrite IHl. Qed.
Theorem to_print_ascii_pointwise : forall a z b,
  to_print_ascii (a ++ z :: b)%list = (to_print_ascii a ++ String (if printable z then ascii_of_nat (Z.to_nat z) else "?"%char) (to_print_ascii b))%string.
Proof.
  induction a as [|x a IH]; intros z b; [reflexivity|].
  unfold to_print_ascii in *. cbn [List.app map of_chars append]. now rewrite IH.
Qed.
Theorem is_print_ascii_iff : forall l, is_print_ascii l = true <-> Forall in_range l.
Proof.
  intro l. unfold is_print_ascii. rewrite forallb_forall, Forall_forall.
  split; intros H x Hx; apply printable_range; auto.
Qed.
Theorem to_print_ascii_id : forall l, is_print_ascii l = true -> cps (to_print_ascii l) = l.
Proof.
  induction l as [|z l IH]; intro H; [reflexivity|].
  cbn [is_print_ascii forallb] in H. apply andb_true_iff in H as [Hz Hl].
  unfold to_print_ascii, cps in *. cbn [map of_chars chars]. rewrite (pchar_code z Hz). f_equal. now apply IH.
Qed.
Lemma pchar_of_code : forall c, printable_char c = true ->
  printable (Z.of_nat (code c)) = true /\ pchar (Z.of_nat (code c)) = c.
Proof.
  intros c Hc. unfold printable_char in Hc. apply andb_true_iff in Hc as [C1 C2]. apply Nat.leb_le in C1, C2.
  assert (Hp : printable (Z.of_nat (code c)) = true) by (apply printable_range; unfold in_range; lia).
  split; [exact Hp|]. unfold pchar. rewrite Hp, Nat2Z.id. unfold code. apply ascii_nat_embedding.
Qed.
Lemma to_print_ascii_cps : forall s, all_str printable_char s = true -> to_print_ascii (cps s) = s /\ is_print_ascii (cps s) = true.
Proof.
  induction s as [|c s IH]; intro H; [split; reflexivity|].
  cbn [all_str] in H. apply andb_true_iff in H as [Hc Hs]. destruct (IH Hs) as [I1 I2].
  destruct (pchar_of_code c Hc) as [Hp Hq].
  unfold to_print_ascii, cps, is_print_ascii in *. cbn [chars map of_chars forallb]. now rewrite Hp, Hq, I1, I2.
Qed.
Close Scope Z_scope.

(* preservation of a character class through the parser: everything reported is made of
   characters of the input line, plus "0" (canonical minor) and " " (joined comments) *)
Section Preserve.
  Variable P : ascii -> bool.
  Hypothesis P0 : P "0" = true.
  Hypothesis Psp : P " " = true.
  Let A := all_str P.

  Lemma span_P : forall p s, A s = true -> A (fst (span p s)) = true /\ A (snd (span p s)) = true.
  Proof. intros p s H. unfold A in *. rewrite <- (span_app_eq p s), all_str_app in H. now apply andb_true_iff in H. Qed.
  Lemma proto_P : forall s d ds r, proto s = Some (d, ds, r) -> A s = true -> P d = true /\ A ds = true /\ A r = true.
  Proof.
    intros s d ds r H Hs. destruct (proto_inv s d ds r H) as (_ & _ & _ & _ & sp & _ & E). subst s. unfold A in *.
    rewrite all_str_app in Hs. apply andb_true_iff in Hs as [_ Hs]. cbn [all_str append] in Hs.
    apply andb_true_iff in Hs as [Hd Hs]. apply andb_true_iff in Hs as [_ Hs].
    rewrite !all_str_app in Hs. apply andb_true_iff in Hs as [_ Hs]. apply andb_true_iff in Hs as [H1 H2]. auto.
  Qed.
  Definition tok_P (t : tok) : Prop := P (fst t) = true /\ A (snd t) = true.
  Lemma chain_P : forall f s l e, chain f s = Some (l, e) -> A s = true -> Forall tok_P l /\ A e = true.
  Proof.
    induction f as [|f IH]; intros s l e H Hs; destruct s as [|c r]; cbn [chain] in H.
    - inversion H. split; [constructor | reflexivity].
    - destruct (Ascii.eqb c "-"); [|discriminate]. inversion H; subst. split; [constructor | exact Hs].
    - inversion H. split; [constructor | reflexivity].
    - destruct (Ascii.eqb c "-"); [|discriminate].
      destruct (proto r) as [[[d ds] r2]|] eqn:Ep; [|inversion H; subst; split; [constructor | exact Hs]].
      assert (Hr : A r = true) by (unfold A in *; cbn [all_str] in Hs; now apply andb_true_iff in Hs).
      destruct (proto_P r d ds r2 Ep Hr) as (Q1 & Q2 & Q3).
      destruct (chain f r2) as [[l' e']|] eqn:Ec; [|inversion H; subst; split; [constructor | exact Hs]].
      inversion H; subst. destruct (IH r2 l' e Ec Q3) as [Hl He]. split; [|exact He]. constructor; [now split | exact Hl].
  Qed.
  Lemma tok_min_P : forall l m, tok_P m -> Forall tok_P l -> tok_P (tok_min m l).
  Proof.
    induction l as [|t l IH]; intros m Hm Hl; cbn [tok_min]; [exact Hm|].
    inversion Hl; subst. apply IH; [|assumption]. now destruct (tok_ltb t m).
  Qed.
  Lemma strip0_P : forall s, A s = true -> A (strip0 s) = true.
  Proof.
    induction s as [|a s IH]; intro H; cbn [strip0]; [reflexivity|]. destruct (Ascii.eqb a "0"); [|exact H].
    unfold A in *. cbn [all_str] in H. apply andb_true_iff in H as [_ H]. now apply IH.
  Qed.
  Lemma canon_P : forall s, A s = true -> A (canon s) = true.
  Proof.
    intros s H. unfold canon. pose proof (strip0_P s H) as H1. destruct (strip0 s); [|exact H1].
    unfold A. cbn [all_str]. now rewrite P0.
  Qed.
  Lemma split_sp_P : forall s, A s = true -> Forall (fun w => A w = true) (split_sp s).
  Proof.
    induction s as [|c s IH]; intro H; cbn [split_sp]; [repeat constructor|].
    unfold A in H. cbn [all_str] in H. apply andb_true_iff in H as [Hc Hs]. specialize (IH Hs).
    destruct (is_space c); [constructor; [reflexivity | exact IH]|].
    destruct (split_sp s) as [|w ws]; [repeat constructor; unfold A; cbn [all_str]; now rewrite Hc|].
    inversion IH; subst. constructor; [|assumption]. unfold A in *. cbn [all_str]. now rewrite Hc, H1.
  Qed.
  Lemma join_P : forall ws, Forall (fun w => A w = true) ws -> A (join " " ws) = true.
  Proof.
    induction ws as [|w ws IH]; intro H; [reflexivity|]. inversion H; subst.
    destruct ws as [|w2 ws]; [exact H2|]. rewrite join_cons2. unfold A in *. rewrite !all_str_app, H2, (IH H3).
    cbn [all_str]. now rewrite Psp.
  Qed.
  Definition opt_P (o : option string) : Prop := match o with Some s => A s = true | None => True end.
  Lemma norm_comments_P : forall t, A t = true -> opt_P (norm_comments t).
  Proof.
    intros t H. unfold norm_comments. pose proof (split_sp_P t H) as Hs.
    assert (Hw : Forall (fun w => A w = true) (words t)).
    { unfold words. induction Hs; cbn [filter]; [constructor|]. destruct (nonempty x); [constructor|]; assumption. }
    destruct (words t) eqn:E; [exact I|]. cbn [opt_P]. now apply join_P.
  Qed.
  Lemma rpart_P : forall e, A e = true -> opt_P (fst (rpart e)) /\ opt_P (snd (rpart e)).
  Proof.
    destruct e as [|c t]; intro H; cbn [rpart]; [split; exact I|].
    assert (Ht : A t = true) by (unfold A in *; cbn [all_str] in H; now apply andb_true_iff in H).
    destruct (span_P is_space t Ht) as [_ H1]. destruct (span_P not_space _ H1) as [H2 H3].
    destruct (span not_space (snd (span is_space t))) as [sw t2]. cbn [fst snd] in *. split; [exact H2 | now apply norm_comments_P].
  Qed.
  Lemma parse_ascii_P : forall s b, parse_ascii s = Some b -> A s = true ->
    P (p_major b) = true /\ A (p_minor b) = true /\ opt_P (p_software b) /\ opt_P (p_comments b).
  Proof.
    intros s b H Hs. unfold parse_ascii in H.
    destruct (proto s) as [[[d ds] r]|] eqn:Ep; [|discriminate].
    destruct (proto_P s d ds r Ep Hs) as (Q1 & Q2 & Q3).
    destruct (chain (String.length r) r) as [[l e]|] eqn:Ec; [|discriminate].
    destruct (chain_P _ _ _ _ Ec Q3) as [Hl He].
    assert (Hm : tok_P (tok_min (d, ds) l)) by (apply tok_min_P; [now split | exact Hl]).
    destruct (rpart_P e He) as [R1 R2]. destruct (rpart e) as [sw cm]. inversion H; subst b.
    cbn [p_major p_minor p_software p_comments fst snd] in *. destruct Hm as [M1 M2].
    repeat split; try assumption. now apply canon_P.
  Qed.
  Lemma show_P : P "S" = true -> P "H" = true -> P "-" = true -> P "." = true -> forall b,
    P (p_major b) = true -> A (p_minor b) = true -> opt_P (p_software b) -> opt_P (p_comments b) -> A (show b) = true.
  Proof.
    intros HS HH Hdash Hdot [maj mn sw cm] H1 H2 H3 H4. cbn [p_major p_minor p_software p_comments] in *.
    assert (Hsw : A (match sw with Some s => "-" ++ s | None => "" end) = true).
    { destruct sw as [s|]; [|reflexivity]. cbn [opt_P] in H3. unfold A in *. cbn [append all_str]. now rewrite Hdash, H3. }
    assert (Hcm : A (match cm with Some c => if nonempty c then " " ++ c else "" | None => "" end) = true).
    { destruct cm as [c|]; [|reflexivity]. destruct (nonempty c); [|reflexivity].
      cbn [opt_P] in H4. unfold A in *. cbn [append all_str]. now rewrite Psp, H4. }
    unfold show, A in *. cbn [append] in Hsw, Hcm. cbn [p_major p_minor p_software p_comments append all_str].
    rewrite HS, HH, Hdash, Hdot, H1. cbn [andb]. rewrite !all_str_app. now rewrite H2, Hsw, Hcm.
  Qed.
End Preserve.

Theorem shown_printable : forall l p v, parse l = Some (p, v) ->
  v = is_print_ascii l /\ all_str printable_char (show p) = true.
Proof.
  intros l p v H. unfold parse in H. destruct (parse_ascii (to_print_ascii l)) as [q|] eqn:E; [|discriminate].
  inversion H; subst. split; [reflexivity|].
  destruct (parse_ascii_P printable_char eq_refl eq_refl _ _ E (to_print_ascii_printable l)) as (H1 & H2 & H3 & H4).
  now apply (show_P printable_char eq_refl).
Qed.

(* the code-point level parser on a printable line is the string level parser *)
Theorem parse_printable : forall s, all_str printable_char s = true ->
  parse (cps s) = match parse_ascii s with Some p => Some (p, true) | None => None end.
Proof. intros s H. destruct (to_print_ascii_cps s H) as [H1 H2]. unfold parse. now rewrite H1, H2. Qed.

Theorem roundtrip_codepoints : forall l p v, parse l = Some (p, v) -> absorbs (shown_rest p) = false ->
  parse (cps (show p)) = Some (p, true).
Proof.
  intros l p v H Habs. destruct (shown_printable l p v H) as [_ Hp]. rewrite (parse_printable _ Hp).
  unfold parse in H. destruct (parse_ascii (to_print_ascii l)) as [q|] eqn:E; [|discriminate]. inversion H; subst.
  now rewrite (parse_show_parse_partial _ _ E Habs).
Qed.

(* ---------- C16 (d): header / banner separation ---------- *)
Open Scope Z_scope.
Lemma parse_not_blank : forall l x, parse l = Some x -> blank l = false.
Proof.
  intros l x H. unfold parse in H. destruct (parse_ascii (to_print_ascii l)) as [p|] eqn:E; [|discriminate].
  unfold parse_ascii in E. destruct (proto (to_print_ascii l)) as [[[d ds] r]|] eqn:Ep; [|discriminate].
  destruct (proto_inv _ _ _ _ Ep) as (_ & _ & _ & _ & sp & _ & Es).
  destruct l as [|z l]; [discriminate Es|]. unfold to_print_ascii in Es. cbn [map of_chars append] in Es.
  inversion Es as [Hz]. cbn [blank forallb]. apply andb_false_iff. left.
  unfold pchar in Hz. destruct (printable z) eqn:Hp; [|discriminate Hz].
  apply printable_range in Hp. unfold in_range in Hp.
  assert (z <> 32) by (intro; subst z; discriminate Hz).
  unfold is_uws, is_bws. repeat (apply orb_false_iff; split); try (apply Z.eqb_neq; lia); apply andb_false_iff; lia.
Qed.
Close Scope Z_scope.

Theorem header_separation : forall hs b rest x,
  (forall h, In h hs -> blank h = false -> parse h = None) -> parse b = Some x ->
  banner_loop (hs ++ b :: rest)%list = (Some x, filter nonblank hs).
Proof.
  induction hs as [|h hs IH]; intros b rest x Hh Hb; cbn [List.app banner_loop filter].
  - now rewrite (parse_not_blank b x Hb), Hb.
  - unfold nonblank at 1. destruct (blank h) eqn:Eb; cbn [negb].
    + apply IH; [|exact Hb]. intros h' Hin. apply Hh. now right.
    + rewrite (Hh h (or_introl eq_refl) Eb). rewrite (IH b rest x); [reflexivity | | exact Hb].
      intros h' Hin. apply Hh. now right.
Qed.
Theorem no_banner_all_header : forall hs,
  (forall h, In h hs -> blank h = false -> parse h = None) -> banner_loop hs = (None, filter nonblank hs).
Proof.
  induction hs as [|h hs IH]; intro Hh; cbn [banner_loop filter]; [reflexivity|].
  unfold nonblank at 1. destruct (blank h) eqn:Eb; cbn [negb].
  - apply IH. intros h' Hin. apply Hh. now right.
  - rewrite (Hh h (or_introl eq_refl) Eb), IH; [reflexivity|]. intros h' Hin. apply Hh. now right.
Qed.
(* nothing that is reported as header text parses as a banner, and nothing before the banner is lost *)
Theorem header_never_banner : forall ls b hd, banner_loop ls = (b, hd) -> Forall (fun h => parse h = None /\ blank h = false) hd.
Proof.
  induction ls as [|l ls IH]; intros b hd H; cbn [banner_loop] in H.
  - inversion H. constructor.
  - destruct (blank l) eqn:Eb; [now apply (IH b)|].
    destruct (parse l) eqn:Ep; [inversion H; constructor|].
    destruct (banner_loop ls) as [b' h'] eqn:El. specialize (IH b' h' eq_refl). inversion H; subst. constructor; [now split | exact IH].
Qed.

(* lines on the wire: CR LF or LF terminated, cut into recv() segments at line ends *)
Open Scope Z_scope.
Lemma raw_lines_line : forall l r, ~ In 10 l -> raw_lines (l ++ 10 :: r)%list = (l ++ [10])%list :: raw_lines r.
Proof.
  induction l as [|c l IH]; intros r H; cbn [List.app raw_lines].
  - reflexivity.
  - assert (c <> 10) by (intro; subst; apply H; now left). apply Z.eqb_neq in H0. rewrite H0.
    rewrite IH; [reflexivity|]. intro Hin. apply H. now right.
Qed.
Lemma rstrip_snoc : forall l w, is_bws w = true -> rstrip (l ++ [w])%list = rstrip l.
Proof. intros l w H. unfold rstrip. rewrite rev_app_distr. cbn [rev List.app dropw]. now rewrite H. Qed.
Lemma rstrip_eol : forall l e, rstrip (l ++ eol e)%list = rstrip l.
Proof.
  intros l [|]; cbn [eol].
  - change [13; 10] with ([13] ++ [10])%list. rewrite app_assoc, !rstrip_snoc; reflexivity.
  - now rewrite rstrip_snoc.
Qed.
Definition no_lf (ls : list (list Z * bool)) : Prop := Forall (fun x => ~ In 10 (fst x)) ls.
Lemma lines_of_encoded : forall ls junk, no_lf ls ->
  lines_of_chunk (encode_lines ls ++ junk)%list = (map (fun x => rstrip (fst x)) ls ++ lines_of_chunk junk)%list.
Proof.
  induction ls as [|[l e] ls IH]; intros junk H; [reflexivity|].
  inversion H; subst. cbn [fst] in *. cbn [encode_lines map List.app].
  assert (E : ((l ++ eol e ++ encode_lines ls) ++ junk = (if e then l ++ [13] else l) ++ 10 :: (encode_lines ls ++ junk))%list).
  { destruct e; cbn [eol]; rewrite <- !app_assoc; reflexivity. }
  rewrite E. unfold lines_of_chunk in *. rewrite raw_lines_line.
  - cbn [map]. rewrite (IH junk H3). f_equal. destruct e.
    + rewrite <- app_assoc. apply (rstrip_eol l true).
    + apply (rstrip_eol l false).
  - destruct e; [|exact H2]. intro Hin. apply in_app_or in Hin as [Hin|[Hin|[]]]; [now apply H2 | discriminate Hin].
Qed.
(* the complete lines and the pending rest together are the lines of the data *)
Lemma raw_lines_split : forall x y,
  raw_lines (x ++ y)%list = (fst (split_complete x) ++ raw_lines (snd (split_complete x) ++ y))%list.
Proof.
  induction x as [|c x IH]; intro y; [reflexivity|]. cbn [List.app raw_lines split_complete].
  rewrite (IH y). destruct (split_complete x) as [ls p]. cbn [fst snd].
  destruct (c =? 10) eqn:E; cbn [fst snd List.app].
  - reflexivity.
  - destruct ls as [|l ls]; cbn [fst snd List.app raw_lines]; [now rewrite E | reflexivity].
Qed.
Close Scope Z_scope.
Lemma banner_loop_app : forall a b,
  banner_loop (a ++ b)%list =
  match banner_loop a with
  | (Some x, h) => (Some x, h)
  | (None, h) => let (y, h2) := banner_loop b in (y, (h ++ h2)%list)
  end.
Proof.
  induction a as [|l a IH]; intro b; cbn [List.app banner_loop].
  - now destruct (banner_loop b).
  - destruct (blank l); [apply IH|]. destruct (parse l); [reflexivity|]. rewrite (IH b).
    destruct (banner_loop a) as [[x|] h]; [reflexivity|]. now destruct (banner_loop b).
Qed.
Lemma gb_loop_whole : forall chunks pend,
  gb_loop pend chunks = banner_loop (lines_of_chunk (pend ++ List.concat chunks)%list).
Proof.
  induction chunks as [|c r IH]; intro pend; cbn [gb_loop List.concat].
  - now rewrite app_nil_r.
  - rewrite app_assoc. unfold lines_of_chunk. rewrite (raw_lines_split (pend ++ c) (List.concat r)).
    destruct (split_complete (pend ++ c)%list) as [ls p]. cbn [fst snd]. rewrite map_app, banner_loop_app.
    destruct (banner_loop (map rstrip ls)) as [[x|] h]; [reflexivity|]. now rewrite (IH p).
Qed.

(* segmentation independence: however the byte stream is cut into recv() results, the banner and the
   header text are those of the uncut stream *)
Theorem segmentation_independent : forall chunks,
  get_banner chunks = banner_loop (lines_of_chunk (List.concat chunks)).
Proof. intro chunks. unfold get_banner. now rewrite gb_loop_whole. Qed.
Theorem segmentation_irrelevant : forall c1 c2, List.concat c1 = List.concat c2 -> get_banner c1 = get_banner c2.
Proof. intros c1 c2 H. now rewrite !segmentation_independent, H. Qed.

(* the banner line is found wherever it is in the stream, whatever the segmentation,
   the line terminators, and whatever follows it *)
Theorem stream_banner : forall chunks ls hs b e rest later x,
  List.concat chunks = (encode_lines ls ++ later)%list -> no_lf ls -> ls = (hs ++ (b, e) :: rest)%list ->
  (forall h, In h hs -> blank (rstrip (fst h)) = false -> parse (rstrip (fst h)) = None) ->
  parse (rstrip b) = Some x ->
  get_banner chunks = (Some x, filter nonblank (map (fun h => rstrip (fst h)) hs)).
Proof.
  intros chunks ls hs b e rest later x Hc Hlf Hls Hh Hb.
  rewrite segmentation_independent, Hc, (lines_of_encoded ls later Hlf), Hls, map_app. cbn [map fst].
  rewrite <- app_assoc. cbn [List.app]. apply header_separation; [|exact Hb].
  intros h Hin. apply in_map_iff in Hin as [h0 [E Hin]]. subst h. now apply Hh.
Qed.

(* ---------- C16 (e): product and version extraction ---------- *)
Lemma trim_dots_id : forall s, last_digit s = true -> trim_dots s = s.
Proof.
  induction s as [|c s IH]; intro H; [discriminate|]. cbn [trim_dots]. destruct s as [|c2 s].
  - cbn [last_digit] in H. cbn [trim_dots]. now rewrite (digit_not_dot c H).
  - change (last_digit (String c (String c2 s))) with (last_digit (String c2 s)) in H. rewrite (IH H). reflexivity.
Qed.
Lemma ver_split_ok : forall v p, ver_ok v -> patch_ok p -> ver_split (v ++ p) = Some (v, p).
Proof.
  intros v p (Hv & Hl & Hn) Hp. unfold ver_split.
  rewrite (span_all is_vd v p Hv Hp). cbn [fst]. rewrite (trim_dots_id v Hl).
  apply Nat.leb_le in Hn. now rewrite Hn, sdrop_app.
Qed.
Lemma fam_ok : forall pre v p, ver_ok v -> patch_ok p -> fam pre (pre ++ v ++ p) = Some (v, p).
Proof. intros. unfold fam. rewrite strip_prefix_app. now apply ver_split_ok. Qed.
Lemma fam_none : forall pre s, strip_prefix pre s = None -> fam pre s = None.
Proof. intros pre s H. unfold fam. now rewrite H. Qed.

Definition sep_ok (sep : string) : Prop := all_str is_sep sep = true /\ sep <> "".
Lemma openssh_ok : forall sep v p, sep_ok sep -> ver_ok v -> first_ok is_digit v = true -> patch_ok p ->
  openssh_split ("OpenSSH" ++ sep ++ v ++ p) = Some (v, p).
Proof.
  intros sep v p [Hs Hne] Hv Hf Hp. unfold openssh_split. rewrite strip_prefix_app.
  rewrite (span_all is_sep sep (v ++ p) Hs).
  - cbn [fst]. destruct sep as [|c sep]; [congruence|]. cbn [String.length sep_try].
    change (S (String.length sep)) with (String.length (String c sep)). rewrite sdrop_app.
    now rewrite (ver_split_ok v p Hv Hp).
  - destruct v as [|c v]; [discriminate Hf|]. cbn [first_ok] in Hf. cbn [append head_not]. now rewrite (digit_not_sep c Hf).
Qed.

Theorem product_dropbear : forall v p, ver_ok v -> patch_ok p ->
  sw_parse_str ("dropbear_" ++ v ++ p) = Some (mkS None "Dropbear SSH" v (fix_patch p)).
Proof. intros. unfold sw_parse_str. now rewrite fam_ok. Qed.
Theorem product_openssh : forall sep v p, sep_ok sep -> ver_ok v -> first_ok is_digit v = true -> patch_ok p ->
  sw_parse_str ("OpenSSH" ++ sep ++ v ++ p) = Some (mkS None "OpenSSH" v (fix_patch p)).
Proof.
  intros. unfold sw_parse_str. rewrite (fam_none "dropbear_") by reflexivity. now rewrite openssh_ok.
Qed.
Lemma openssh_none : forall s, strip_prefix "OpenSSH" s = None -> openssh_split s = None.
Proof. intros s H. unfold openssh_split. now rewrite H. Qed.
Theorem product_libssh_dash : forall v p, ver_ok v -> patch_ok p ->
  sw_parse_str ("libssh-" ++ v ++ p) = Some (mkS None "libssh" v (fix_patch p)).
Proof.
  intros. unfold sw_parse_str. rewrite (fam_none "dropbear_") by reflexivity.
  rewrite openssh_none by reflexivity. now rewrite fam_ok.
Qed.
Theorem product_libssh_underscore : forall v p, ver_ok v -> patch_ok p ->
  sw_parse_str ("libssh_" ++ v ++ p) = Some (mkS None "libssh" v (fix_patch p)).
Proof.
  intros. unfold sw_parse_str. rewrite (fam_none "dropbear_") by reflexivity.
  rewrite openssh_none by reflexivity. rewrite (fam_none "libssh-") by reflexivity. now rewrite fam_ok.
Qed.
Theorem product_romsshell : forall v p, ver_ok v -> patch_ok p ->
  sw_parse_str ("RomSShell_" ++ v ++ p) = Some (mkS (Some "Allegro Software") "RomSShell" v (fix_patch p)).
Proof.
  intros. unfold sw_parse_str. rewrite (fam_none "dropbear_") by reflexivity.
  rewrite openssh_none by reflexivity. rewrite (fam_none "libssh-") by reflexivity.
  rewrite (fam_none "libssh_") by reflexivity. now rewrite fam_ok.
Qed.
Theorem product_mpssh : forall v p, ver_ok v -> patch_ok p ->
  sw_parse_str ("mpSSH_" ++ v ++ p) = Some (mkS (Some "HP") "iLO (Integrated Lights-Out) sshd" v None).
Proof.
  intros. unfold sw_parse_str. rewrite (fam_none "dropbear_") by reflexivity.
  rewrite openssh_none by reflexivity. rewrite (fam_none "libssh-") by reflexivity.
  rewrite (fam_none "libssh_") by reflexivity. rewrite (fam_none "RomSShell_") by reflexivity. now rewrite fam_ok.
Qed.
Theorem product_cisco : forall v p, ver_ok v -> patch_ok p ->
  sw_parse_str ("Cisco-" ++ v ++ p) = Some (mkS (Some "Cisco") "IOS/PIX sshd" v None).
Proof.
  intros. unfold sw_parse_str. rewrite (fam_none "dropbear_") by reflexivity.
  rewrite openssh_none by reflexivity. rewrite (fam_none "libssh-") by reflexivity.
  rewrite (fam_none "libssh_") by reflexivity. rewrite (fam_none "RomSShell_") by reflexivity.
  rewrite (fam_none "mpSSH_") by reflexivity. now rewrite fam_ok.
Qed.
Ltac skip_versioned :=
  unfold sw_parse_str; rewrite (fam_none "dropbear_") by reflexivity;
  rewrite openssh_none by reflexivity; rewrite (fam_none "libssh-") by reflexivity;
  rewrite (fam_none "libssh_") by reflexivity; rewrite (fam_none "RomSShell_") by reflexivity;
  rewrite (fam_none "mpSSH_") by reflexivity; rewrite (fam_none "Cisco-") by reflexivity.
Theorem product_tinyssh : forall v, sw_parse_str ("tinyssh_" ++ v) = Some (mkS None "TinySSH" v None).
Proof. intro v. skip_versioned. now rewrite strip_prefix_app. Qed.
Theorem product_putty : forall v, sw_parse_str ("PuTTY_Release_" ++ v) = Some (mkS None "PuTTY" v None).
Proof.
  intro v. skip_versioned. replace (strip_prefix "tinyssh_" ("PuTTY_Release_" ++ v)) with (@None string) by reflexivity.
  now rewrite strip_prefix_app.
Qed.
Theorem product_lancom : forall v, sw_parse_str ("lancom" ++ v) = Some (mkS (Some "LANcom") "LCOS sshd" v None).
Proof.
  intro v. skip_versioned. replace (strip_prefix "tinyssh_" ("lancom" ++ v)) with (@None string) by reflexivity.
  replace (strip_prefix "PuTTY_Release_" ("lancom" ++ v)) with (@None string) by reflexivity.
  now rewrite strip_prefix_app.
Qed.
(* the boundary of the version expression: a one-character version is not recognised *)
Theorem product_single_digit_unrecognised : forall d p, is_digit d = true -> patch_ok p ->
  ver_split (String d p) = None.
Proof.
  intros d p Hd Hp. unfold ver_split. change (String d p) with (String d "" ++ p).
  rewrite (span_all is_vd (String d "") p); [|cbn; unfold is_vd; now rewrite Hd|exact Hp].
  cbn [fst trim_dots]. now rewrite (digit_not_dot d Hd).
Qed.
(* through the banner: software text None is the text "None", which no family matches *)
Theorem product_none : forall maj mn cm, sw_parse (mkP maj mn None cm) = None.
Proof. reflexivity. Qed.

(* ---------- the fuel of `chain` is immaterial once it covers the text ---------- *)
Lemma proto_rest_shorter : forall s d ds r, proto s = Some (d, ds, r) -> (String.length r <= String.length s)%nat.
Proof.
  intros s d ds r H. destruct (proto_inv s d ds r H) as (_ & _ & _ & _ & sp & _ & E). subst s.
  cbn [append String.length]. rewrite !length_app_s. lia.
Qed.
Theorem chain_fuel : forall f g s, (String.length s <= f)%nat -> (String.length s <= g)%nat -> chain f s = chain g s.
Proof.
  induction f as [|f IH]; intros g s Hf Hg; destruct s as [|c r].
  - destruct g; reflexivity.
  - cbn [String.length] in Hf. lia.
  - destruct g; reflexivity.
  - cbn [String.length] in Hf, Hg. destruct g as [|g]; [lia|]. cbn [chain].
    destruct (Ascii.eqb c "-"); [|reflexivity].
    destruct (proto r) as [[[d ds] r2]|] eqn:Ep; [|reflexivity].
    pose proof (proto_rest_shorter r d ds r2 Ep). rewrite (IH g r2); [reflexivity | lia | lia].
Qed.
