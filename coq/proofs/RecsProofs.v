From Coq Require Import Lia ZifyBool.
From VModel Require Import Report.
From VProofs Require Import TerrapinProofs.
Open Scope string_scope. Open Scope list_scope. Open Scope Z_scope.

(* ---------- one category ---------- *)
Lemma rec_category_In sw us fs cat entries adv a n pts :
  In (a, n, pts) (rec_category sw us fs cat entries adv) ->
  exists e, In (n, e) entries /\ pts = (match a with Add => 0 | _ => faults_of e end) /\
    (match versions e with Some v0 :: _ => version_matches sw us fs v0 = true | _ => True end) /\
    match a with
    | Add => us = false /\ ~ In n adv /\ faults_of e = 0 /\ never_add cat n = false /\ (exists v0 r, versions e = Some v0 :: r)
    | Chg => In n adv /\ 0 < faults_of e /\ In n rec_chg_names
    | Del => In n adv /\ 0 < faults_of e /\ ~ In n rec_chg_names
    end.
Proof.
  unfold rec_category. intros H.
  assert (H0: In (a, n, pts) (flat_map (fun ne : string * desc => let (n0, e) := ne in
      if negb match versions e with Some v0 :: _ => version_matches sw us fs v0 | _ => true end then []
      else if negb (mem n0 adv)
           then if (0 <? faults_of e) || never_add cat n0 || match versions e with Some _ :: _ => false | _ => true end then [] else [(Add, n0, 0)]
           else if faults_of e =? 0 then [] else if mem n0 rec_chg_names then [(Chg, n0, faults_of e)] else [(Del, n0, faults_of e)]) entries)
      /\ (us = true -> a <> Add)).
  { destruct us.
    - apply filter_In in H. destruct H as [H1 H2]. split; [exact H1|]. intros _ ->. cbn in H2. discriminate.
    - split; [exact H|discriminate]. }
  destruct H0 as [H0 Hus]. apply in_flat_map in H0. destruct H0 as [[n0 e] [Hin Hx]].
  assert (Hf: 0 <= faults_of e) by (unfold faults_of; lia).
  destruct (negb match versions e with Some v0 :: _ => version_matches sw us fs v0 | _ => true end) eqn:Ev; [destruct Hx|].
  assert (Hv: match versions e with Some v0 :: _ => version_matches sw us fs v0 = true | _ => True end).
  { destruct (versions e) as [|[v0|] r]; try exact I. destruct (version_matches sw us fs v0); [reflexivity|discriminate]. }
  destruct (negb (mem n0 adv)) eqn:Em.
  - destruct ((0 <? faults_of e) || never_add cat n0 || match versions e with Some _ :: _ => false | _ => true end) eqn:Eo; [destruct Hx|].
    destruct Hx as [Hx|[]]. injection Hx as <- <- <-. exists e. split; [exact Hin|]. split; [reflexivity|]. split; [exact Hv|].
    apply orb_false_iff in Eo. destruct Eo as [Eo E3]. apply orb_false_iff in Eo. destruct Eo as [E1 E2].
    split; [destruct us; [exfalso; apply Hus; reflexivity|reflexivity]|].
    split; [intros Hc; apply mem_In in Hc; rewrite Hc in Em; discriminate|].
    split; [lia|]. split; [exact E2|]. destruct (versions e) as [|[v0|] r]; try discriminate. eauto.
  - assert (Hadv: In n0 adv) by (apply mem_In; destruct (mem n0 adv); [reflexivity|discriminate]).
    destruct (faults_of e =? 0) eqn:Ef; [destruct Hx|].
    destruct (mem n0 rec_chg_names) eqn:Ec; destruct Hx as [Hx|[]]; injection Hx as <- <- <-; exists e;
      (split; [exact Hin|]); (split; [reflexivity|]); (split; [exact Hv|]); (split; [exact Hadv|]); (split; [lia|]).
    + apply mem_In. exact Ec.
    + intros Hc. apply mem_In in Hc. congruence.
Qed.

(* ---------- the whole recommendation list ---------- *)
Definition adv_of (k : kexlists) (cat : string) : list string :=
  if String.eqb cat "kex" then kl_kex k else if String.eqb cat "key" then kl_key k
  else if String.eqb cat "enc" then kl_enc k else if String.eqb cat "mac" then kl_mac k else [].

Lemma recommendations_In sw d k suppress r :
  In r (recommendations sw d k suppress) ->
  exists s pts, sw = Some s /\
    In (r_action r, r_name r, pts) (rec_category sw (negb (mem (sw_product s) rec_vproducts)) true (r_cat r) (db_cat d (r_cat r)) (adv_of k (r_cat r)))
    /\ r_level r = level_of_points pts /\ ~ In (r_name r) suppress
    /\ In (r_cat r) ["kex"; "key"; "enc"; "mac"]
    /\ r_notes r = (match r_action r with Chg => chg_notes | _ => "" end).
Proof.
  intros H. pose proof (recs_never_suppressed _ _ _ _ _ H) as Hs.
  unfold recommendations in H. destruct sw as [s|]; [|destruct H].
  apply in_flat_map in H. destruct H as [[cat adv] [Hc H]].
  apply in_flat_map in H. destruct H as [act [_ H]].
  apply in_flat_map in H. destruct H as [[[a n] pts] [Hin H]].
  destruct (action_eqb a act && negb (mem n suppress)) eqn:E; [|destruct H].
  destruct H as [<-|[]]. cbn [r_action r_name r_cat r_level r_notes] in *.
  exists s, pts. split; [reflexivity|].
  assert (Hadv: adv = adv_of k cat /\ In cat ["kex"; "key"; "enc"; "mac"]).
  { cbn [In] in Hc. destruct Hc as [Hc|[Hc|[Hc|[Hc|[]]]]]; injection Hc as <- <-; (split; [reflexivity|cbn; tauto]). }
  destruct Hadv as [-> Hcat]. split; [exact Hin|]. split; [reflexivity|]. split; [exact Hs|]. split; [exact Hcat|reflexivity].
Qed.

(* every removal/change recommendation names an advertised algorithm that carries a failure or warning *)
Theorem del_chg_sound sw d k suppress r :
  In r (recommendations sw d k suppress) -> r_action r <> Add ->
  In (r_name r) (adv_of k (r_cat r)) /\
  exists e, In (r_name r, e) (db_cat d (r_cat r)) /\ 0 < faults_of e.
Proof.
  intros H Ha. destruct (recommendations_In _ _ _ _ _ H) as [s [pts [-> [Hin _]]]].
  apply rec_category_In in Hin. destruct Hin as [e [He [_ [_ Hx]]]].
  destruct (r_action r); [congruence| |]; destruct Hx as [A [B _]]; (split; [exact A|]); exists e; auto.
Qed.

(* additions: not advertised, fault-free, not a certificate/security-key/pseudo algorithm, known in the identified version, known software *)
Theorem add_sound sw d k suppress r :
  In r (recommendations sw d k suppress) -> r_action r = Add ->
  exists s e v0 vr, sw = Some s /\ mem (sw_product s) rec_vproducts = true /\
    ~ In (r_name r) (adv_of k (r_cat r)) /\ In (r_name r, e) (db_cat d (r_cat r)) /\ faults_of e = 0 /\
    never_add (r_cat r) (r_name r) = false /\ versions e = Some v0 :: vr /\
    version_matches sw false true v0 = true /\ r_level r = Informational.
Proof.
  intros H Ha. destruct (recommendations_In _ _ _ _ _ H) as [s [pts [-> [Hin [Hl _]]]]].
  apply rec_category_In in Hin. destruct Hin as [e [He [Hp [Hv Hx]]]]. rewrite Ha in *.
  destruct Hx as [Hus [A [B [C [v0 [vr D]]]]]]. rewrite D in Hv. rewrite Hus in Hv.
  exists s, e, v0, vr. split; [reflexivity|]. split; [destruct (mem (sw_product s) rec_vproducts); [reflexivity|discriminate]|].
  repeat (split; [assumption|]). rewrite Hl, Hp. reflexivity.
Qed.

(* nothing is recommended both ways *)
Theorem add_del_disjoint sw d k suppress r1 r2 :
  In r1 (recommendations sw d k suppress) -> In r2 (recommendations sw d k suppress) ->
  r_cat r1 = r_cat r2 -> r_name r1 = r_name r2 -> r_action r1 = Add -> r_action r2 <> Add -> False.
Proof.
  intros H1 H2 Hc Hn Ha1 Ha2.
  destruct (add_sound _ _ _ _ _ H1 Ha1) as [s [e [v0 [vr [_ [_ [Hnot _]]]]]]].
  destruct (del_chg_sound _ _ _ _ _ H2 Ha2) as [Hin _]. rewrite Hc, Hn in Hnot. tauto.
Qed.

(* unrecognised software gets no additions *)
Theorem unknown_software_no_add sw d k suppress r :
  In r (recommendations sw d k suppress) -> r_action r = Add ->
  exists s, sw = Some s /\ In (sw_product s) rec_vproducts.
Proof.
  intros H Ha. destruct (add_sound _ _ _ _ _ H Ha) as [s [_ [_ [_ [-> [Hm _]]]]]]. exists s. split; [reflexivity|apply mem_In; exact Hm].
Qed.
Theorem no_software_no_recommendations d k suppress : recommendations None d k suppress = [].
Proof. reflexivity. Qed.

(* the recommendation is critical exactly when the algorithm has a failure -- given no entry has >= 10 warnings *)
Definition few_warnings (d : db) : Prop :=
  forall c n e, In (n, e) (db_cat d c) -> Z.of_nat (List.length (nth 2 e [])) < 10.
Theorem critical_iff_fail sw d k suppress r :
  few_warnings d -> In r (recommendations sw d k suppress) -> r_action r <> Add ->
  exists e, In (r_name r, e) (db_cat d (r_cat r)) /\
    (r_level r = Critical <-> nth 1 e [] <> []) /\ (r_level r = Warning <-> nth 1 e [] = []) /\ r_level r <> Informational.
Proof.
  intros Hfw H Ha. destruct (recommendations_In _ _ _ _ _ H) as [s [pts [-> [Hin [Hl _]]]]].
  apply rec_category_In in Hin. destruct Hin as [e [He [Hp [_ Hx]]]].
  assert (Hpos: 0 < faults_of e /\ pts = faults_of e).
  { destruct (r_action r); [congruence| |]; destruct Hx as [_ [B _]]; auto. }
  destruct Hpos as [Hpos ->]. exists e. split; [exact He|].
  specialize (Hfw _ _ _ He). unfold faults_of in *. rewrite Hl. unfold level_of_points.
  destruct (nth 1 e []) as [|x l] eqn:E1; cbn [List.length] in *.
  - destruct (10 <=? 10 * Z.of_nat 0 + Z.of_nat (List.length (nth 2 e []))) eqn:E10; [lia|].
    destruct (1 <=? 10 * Z.of_nat 0 + Z.of_nat (List.length (nth 2 e []))) eqn:E11; [|lia].
    split; [split; [discriminate|congruence]|]. split; [split; reflexivity|discriminate].
  - destruct (10 <=? 10 * Z.of_nat (S (List.length l)) + Z.of_nat (List.length (nth 2 e []))) eqn:E10; [|lia].
    split; [split; [discriminate|reflexivity]|]. split; [split; [discriminate|discriminate]|discriminate].
Qed.

(* completeness: an advertised algorithm with faults that the database knows in the identified version is recommended
   for removal or change unless it is on the suppression list *)
Theorem del_chg_complete s d k suppress cat n e :
  In cat ["kex"; "key"; "enc"; "mac"] -> In (n, e) (db_cat d cat) -> In n (adv_of k cat) -> 0 < faults_of e ->
  (match versions e with Some v0 :: _ => version_matches (Some s) (negb (mem (sw_product s) rec_vproducts)) true v0 = true | _ => True end) ->
  ~ In n suppress ->
  exists r, In r (recommendations (Some s) d k suppress) /\ r_cat r = cat /\ r_name r = n /\ r_action r <> Add /\ r_level r = level_of_points (faults_of e).
Proof.
  intros Hcat He Hadv Hf Hv Hsup.
  set (act := if mem n rec_chg_names then Chg else Del).
  exists {| r_level := level_of_points (faults_of e); r_action := act; r_cat := cat; r_name := n;
            r_notes := match act with Chg => chg_notes | _ => "" end |}.
  split; [|cbn; repeat split; unfold act; destruct (mem n rec_chg_names); discriminate].
  unfold recommendations. apply in_flat_map. exists (cat, adv_of k cat). split.
  { cbn [In] in Hcat |- *. destruct Hcat as [<-|[<-|[<-|[<-|[]]]]]; cbn; tauto. }
  apply in_flat_map. exists act. split; [unfold act; destruct (mem n rec_chg_names); cbn; tauto|].
  apply in_flat_map. exists (act, n, faults_of e). split.
  - unfold rec_category.
    assert (Hin: In (act, n, faults_of e) (flat_map (fun ne : string * desc => let (n0, e0) := ne in
        if negb match versions e0 with Some v0 :: _ => version_matches (Some s) (negb (mem (sw_product s) rec_vproducts)) true v0 | _ => true end then []
        else if negb (mem n0 (adv_of k cat))
             then if (0 <? faults_of e0) || never_add cat n0 || match versions e0 with Some _ :: _ => false | _ => true end then [] else [(Add, n0, 0)]
             else if faults_of e0 =? 0 then [] else if mem n0 rec_chg_names then [(Chg, n0, faults_of e0)] else [(Del, n0, faults_of e0)]) (db_cat d cat))).
    { apply in_flat_map. exists (n, e). split; [exact He|].
      replace (negb match versions e with Some v0 :: _ => version_matches (Some s) (negb (mem (sw_product s) rec_vproducts)) true v0 | _ => true end) with false.
      2:{ destruct (versions e) as [|[v0|] vr]; try reflexivity. rewrite Hv. reflexivity. }
      apply mem_In in Hadv. rewrite Hadv. cbn [negb].
      destruct (faults_of e =? 0) eqn:E0; [lia|]. unfold act. destruct (mem n rec_chg_names); left; reflexivity. }
    destruct (negb (mem (sw_product s) rec_vproducts)); [|exact Hin].
    apply filter_In. split; [exact Hin|]. unfold act. destruct (mem n rec_chg_names); reflexivity.
  - assert (Hr: action_eqb act act = true) by (unfold act; destruct (mem n rec_chg_names); reflexivity). rewrite Hr.
    assert (mem n suppress = false).
    { destruct (mem n suppress) eqn:E; [apply mem_In in E; tauto|reflexivity]. }
    rewrite H. cbn [negb andb]. left. reflexivity.
Qed.
