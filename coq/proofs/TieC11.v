(* C11: every literal / integer kernel that the hand-written model repeats from the Python source is proved equal to the copy the
   translator extracts from the current source on every run (gen/Tables.v, definitions whose names start with src_).  When the source changes there, the generated
   definition changes (or is left out when the shape is no longer recognised) and this file stops compiling: the model cannot go stale silently,
   and only this property's check is affected. *)
From Coq Require Import ZArith List String Bool Lia ZifyBool.
From VGen Require Import Tables.
From VModel Require Import HostKey.
Open Scope list_scope. Open Scope Z_scope.

Lemma tie_adjust_key_size : forall size, adjust_key_size size = src_adjust_key_size size.
Proof.
  intros size. unfold adjust_key_size, src_adjust_key_size. cbv zeta.
  rewrite Zodd_mod. unfold Zeq_bool.
  pose proof (Z.mod_pos_bound (Z.shiftr (size * 8) 3) 2 ltac:(lia)) as Hb.
  destruct (Z.shiftr (size * 8) 3 mod 2 ?= 1) eqn:C; destruct (Z.shiftr (size * 8) 3 mod 2 =? 0) eqn:E; cbn [negb];
    try reflexivity; try (apply Z.compare_eq in C; lia); try (rewrite Z.compare_lt_iff in C; lia); try (rewrite Z.compare_gt_iff in C; lia).
Qed.
