(* C11: every literal / integer kernel that the hand-written model repeats from the Python source is proved equal to the copy the
   translator extracts from the current source on every run (gen/Tables.v, definitions whose names start with src_).  When the source changes there, the generated
   definition changes (or is left out when the shape is no longer recognised) and this file stops compiling: the model cannot go stale silently,
   and only this property's check is affected. *)
From Coq Require Import ZArith List String Bool Lia ZifyBool.
From VGen Require Import Tables.
From VModel Require Import HostKey.
Open Scope list_scope. Open Scope Z_scope.

Lemma tie_adjust_key_size : forall size, adjust_key_size size = src_adjust_key_size size.
Proof.
  intros size. unfold adjust_key_size, src_adjust_key_size. cbv zeta.
  rewrite Zodd_mod. unfold Zeq_bool.
  pose proof (Z.mod_pos_bound (Z.shiftr (size * 8) 3) 2 ltac:(lia)) as Hb.
  destruct (Z.shiftr (size * 8) 3 mod 2 ?= 1) eqn:C; destruct (Z.shiftr (size * 8) 3 mod 2 =? 0) eqn:E; cbn [negb];
    try reflexivity; try (apply Z.compare_eq in C; lia); try (rewrite Z.compare_lt_iff in C; lia); try (rewrite Z.compare_gt_iff in C; lia).
Qed.

(* HostKeyTest.perform_test(): the whole size-rating block (`if hostkey_modulus_size > 0 or ca_modulus_size > 0:` with its thresholds, the
   certificate / non-certificate split, the ssh-dss exception, the CA notes and the NIST-curve CA failure), translated statement by statement from the
   current source (T1c), yields the model's size_notes for every key type, role flag, size and CA type. *)
From VModel Require Import Rating.
Lemma mem_nil s : mem s [] = false. Proof. reflexivity. Qed.
Lemma mem_one s x : mem s [x] = String.eqb s x. Proof. cbn [mem]. destruct (String.eqb s x); reflexivity. Qed.
Lemma tie_hostkey_notes : forall name cert hs cat cs, size_notes name cert hs cat cs = src_hostkey_notes name cert hs cat cs.
Proof.
  intros name cert hs cat cs.
  unfold size_notes, src_hostkey_notes, is_ecc_host, is_ecc, note_small, note_nsa_ca, t_ecdsa_prefix,
         hk_min_good_rsa, hk_min_warn_rsa, hk_min_good_ecc, hk_min_warn_ecc.
  cbv zeta. rewrite !Z.gtb_ltb.
  generalize (z_to_string hs) (z_to_string cs). intros zh zc.
  destruct (starts_with "ssh-ed25519" name || starts_with "ssh-ed448" name || starts_with "ecdsa-sha2-nistp" name);
  destruct (starts_with "ssh-ed25519" cat); destruct (starts_with "ecdsa-sha2-nistp" cat);
  destruct cert; destruct (String.eqb name "ssh-dss"); cbn [orb andb negb Bool.eqb];
  repeat match goal with
         | |- context [?a <? ?b] => destruct (a <? b); cbn [orb andb negb]
         end; reflexivity.
Qed.

(* the threshold and monotonicity theorems, restated for the function the translator derives from the current source *)
From VProofs Require Import HostKeyProofs.
Lemma src_rsa_thresholds_host : forall name s, mem name rsa_family = true -> 0 < s ->
  src_hostkey_notes name false s "" 0 =
  (if s <? 2048 then [note_small "" s] else [], if (2048 <=? s) && (s <? 3072) then [hk_two2k_warning] else []).
Proof. intros name s H1 H2. rewrite <- tie_hostkey_notes. apply rsa_thresholds_host; assumption. Qed.
Lemma src_rsa_thresholds_cert : forall name hs cat cs, rsa_cert_type name -> mem cat rsa_family = true -> 0 < hs -> 0 < cs ->
  src_hostkey_notes name true hs cat cs =
  ((if hs <? 2048 then [note_small "hostkey " hs] else []) ++ (if cs <? 2048 then [note_small "CA key " cs] else []),
   if ((2048 <=? hs) && (hs <? 3072)) || ((2048 <=? cs) && (cs <? 3072)) then [hk_two2k_warning] else []).
Proof. intros. rewrite <- tie_hostkey_notes. apply rsa_thresholds_cert; assumption. Qed.
Lemma src_rating_monotone_host : forall name s s', mem name rsa_family = true -> 0 < s -> s <= s' ->
  severity (src_hostkey_notes name false s' "" 0) <= severity (src_hostkey_notes name false s "" 0).
Proof. intros. rewrite <- !tie_hostkey_notes. apply rating_monotone_host; assumption. Qed.
Lemma src_rating_monotone_cert : forall name cat hs hs' cs cs', rsa_cert_type name -> mem cat rsa_family = true ->
  0 < hs -> hs <= hs' -> 0 < cs -> cs <= cs' ->
  severity (src_hostkey_notes name true hs' cat cs') <= severity (src_hostkey_notes name true hs cat cs).
Proof. intros. rewrite <- !tie_hostkey_notes. apply rating_monotone_cert; assumption. Qed.

(* the translator found the source shape it extracts hostkey_probe_constants from (otherwise gen/Tables.v carries fallback values and this lemma fails) *)
Lemma tie_extract_ok_hostkey_probe_constants : extract_ok_hostkey_probe_constants = true.
Proof. reflexivity. Qed.
