(* C05: what the hand-written model of the policy file format repeats from the Python source is proved equal to the copy the translator extracts from the
   current source on every run (gen/Tables.v).  When the source changes there this file stops compiling, and only this property's check is affected. *)
From Coq Require Import ZArith List String Bool.
From VGen Require Import Tables.
From VModel Require Import PolicyIO.
Open Scope string_scope. Open Scope list_scope.

(* Policy.__init__: the invalid-key test as it reads now (T1c translation), and the two key groups *)
Lemma tie_policy_key_invalid : forall key,
  (negb (mem key valid_keys) && negb (starts_with "hostkey_size_" key) && negb (starts_with "cakey_size_" key) && negb (starts_with "dh_modulus_size_" key)) = src_policy_key_invalid key.
Proof. reflexivity. Qed.
Lemma tie_policy_key_groups : list_keys = src_policy_list_keys /\ ["name"; "banner"] = src_policy_quoted_keys.
Proof. split; reflexivity. Qed.
