From Coq Require Import Lia ZifyBool.
From VModel Require Import Multi.
Open Scope string_scope. Open Scope list_scope.

Section Iso.
Variable D : Type.
Variable master : D.
Notation world := (world D).
Notation wget := (wget D).
Notation wdel := (wdel D).
Notation wset := (wset D).
Notation get_db := (get_db D master).
Notation run_trace := (run_trace D master).
Notation event := (event D).

Lemma wget_wdel_same (w : world) t : wget (wdel w t) t = None.
Proof. induction w as [|[t' d] w IH]; cbn [Multi.wdel Multi.wget]; [reflexivity|].
  destruct (Nat.eqb t t') eqn:E; [exact IH|]. cbn [Multi.wget]. rewrite E. exact IH. Qed.
Lemma wget_wdel_other (w : world) t t0 : t0 <> t -> wget (wdel w t) t0 = wget w t0.
Proof.
  intros H. induction w as [|[t' d] w IH]; cbn [Multi.wdel Multi.wget]; [reflexivity|].
  destruct (Nat.eqb t t') eqn:E.
  - apply Nat.eqb_eq in E. subst t'. destruct (Nat.eqb t0 t) eqn:E0; [apply Nat.eqb_eq in E0; congruence|exact IH].
  - cbn [Multi.wget]. destruct (Nat.eqb t0 t'); [reflexivity|exact IH].
Qed.
Lemma wget_wset_same (w : world) t d : wget (wset w t d) t = Some d.
Proof. unfold Multi.wset. cbn [Multi.wget]. rewrite Nat.eqb_refl. reflexivity. Qed.
Lemma wget_wset_other (w : world) t t0 d : t0 <> t -> wget (wset w t d) t0 = wget w t0.
Proof. intros H. unfold Multi.wset. cbn [Multi.wget]. destruct (Nat.eqb t0 t) eqn:E; [apply Nat.eqb_eq in E; congruence|]. apply wget_wdel_other. exact H. Qed.

Definition db_of (w : world) (t : nat) : D := match wget w t with Some d => d | None => master end.
Lemma get_db_value (w : world) t : snd (get_db w t) = db_of w t.
Proof. unfold Multi.get_db, db_of. destruct (wget w t); reflexivity. Qed.
Lemma get_db_world_same (w : world) t : wget (fst (get_db w t)) t = Some (db_of w t).
Proof. unfold Multi.get_db, db_of. destruct (wget w t) eqn:E; cbn [fst]; [exact E|apply wget_wset_same]. Qed.
Lemma get_db_world_other (w : world) t t0 : t0 <> t -> wget (fst (get_db w t)) t0 = wget w t0.
Proof. intros H. unfold Multi.get_db. destruct (wget w t); cbn [fst]; [reflexivity|apply wget_wset_other; exact H]. Qed.

(* the relation between the shared world and the world of a lone run of target g *)
Definition related (g : nat) (cur : list (nat * nat)) (w w' : world) : Prop :=
  (forall t, In (t, g) cur -> db_of w' t = db_of w t) /\
  (forall t, (forall g0, ~ In (t, g0) cur) -> wget w t = None) /\
  (forall t, ~ In (t, g) cur -> wget w' t = None).
(* cur is functional in the thread, and a target runs on at most one thread *)
Definition cur_ok (cur : list (nat * nat)) : Prop :=
  (forall t g1 g2, In (t, g1) cur -> In (t, g2) cur -> g1 = g2) /\ (forall t1 t2 g, In (t1, g) cur -> In (t2, g) cur -> t1 = t2).
Definition used_ok (cur : list (nat * nat)) (used : list nat) : Prop := forall t g, In (t, g) cur -> In g used.

Lemma renders_cons_other g g' d l : g' <> g -> renders_of D g ((g', d) :: l) = renders_of D g l.
Proof. intros H. unfold renders_of. cbn [filter fst]. destruct (Nat.eqb g' g) eqn:E; [apply Nat.eqb_eq in E; congruence|reflexivity]. Qed.
Lemma renders_cons_same g d l : renders_of D g ((g, d) :: l) = d :: renders_of D g l.
Proof. unfold renders_of. cbn [filter fst map snd]. rewrite Nat.eqb_refl. reflexivity. Qed.

Lemma in_filter_cur t (cur : list (nat * nat)) p : In p (filter (fun p => negb (Nat.eqb (fst p) t)) cur) <-> In p cur /\ fst p <> t.
Proof. rewrite filter_In. split; intros [A B]; (split; [exact A|]).
  - intros E. rewrite E, Nat.eqb_refl in B. discriminate.
  - destruct (Nat.eqb (fst p) t) eqn:E; [apply Nat.eqb_eq in E; congruence|reflexivity]. Qed.

Lemma gd_other (w w1 : world) d1 t t0 : get_db w t = (w1, d1) -> t0 <> t -> wget w1 t0 = wget w t0.
Proof. intros G H. pose proof (get_db_world_other w t t0 H) as A. rewrite G in A. exact A. Qed.
Lemma gd_same (w w1 : world) d1 t : get_db w t = (w1, d1) -> wget w1 t = Some d1 /\ d1 = db_of w t.
Proof. intros G. pose proof (get_db_world_same w t) as A. pose proof (get_db_value w t) as B. rewrite G in A, B. cbn [fst snd] in A, B. subst d1. split; [exact A|reflexivity]. Qed.

Lemma isolation_gen g (tr : list event) : forall cur used (w w' : world),
  wf D cur used tr -> cur_ok cur -> used_ok cur used -> related g cur w w' ->
  renders_of D g (run_trace w tr) = renders_of D g (run_trace w' (project D g tr)).
Proof.
  induction tr as [|e tr IH]; intros cur used w w' Hwf Hok Hused Hrel; [reflexivity|].
  destruct Hrel as [Hr1 [Hr2 Hr3]]. destruct Hok as [Hf1 Hf2].
  inversion Hwf as [|? ? t g0 r Hfree Hnew Hw|? ? t g0 f r Hin Hw|? ? t g0 r Hin Hw|? ? t g0 r Hin Hw]; subst.
  - (* start *)
    unfold project. cbn [filter ev_target]. fold (project D g tr).
    assert (Hok': cur_ok ((t, g0) :: cur)).
    { split.
      - intros t0 g1 g2 H1 H2. destruct H1 as [E1|H1]; destruct H2 as [E2|H2].
        + congruence.
        + injection E1 as <- <-. exfalso. exact (Hfree _ H2 eq_refl).
        + injection E2 as <- <-. exfalso. exact (Hfree _ H1 eq_refl).
        + exact (Hf1 _ _ _ H1 H2).
      - intros t1 t2 g1 H1 H2. destruct H1 as [E1|H1]; destruct H2 as [E2|H2].
        + congruence.
        + injection E1 as <- <-. exfalso. apply Hnew. exact (Hused _ _ H2).
        + injection E2 as <- <-. exfalso. apply Hnew. exact (Hused _ _ H1).
        + exact (Hf2 _ _ _ H1 H2). }
    assert (Hused': used_ok ((t, g0) :: cur) (g0 :: used)).
    { intros t0 g1 [E|H]; [injection E as <- <-; left; reflexivity|right; exact (Hused _ _ H)]. }
    assert (Htidle: wget w t = None) by (apply Hr2; intros g1 H; exact (Hfree _ H eq_refl)).
    assert (Htidle': wget w' t = None) by (apply Hr3; intros H; exact (Hfree _ H eq_refl)).
    assert (Hrel': related g ((t, g0) :: cur) w w').
    { split; [|split].
      - intros t0 [E|H]; [injection E as <- _; unfold db_of; rewrite Htidle, Htidle'; reflexivity|exact (Hr1 _ H)].
      - intros t0 H. apply Hr2. intros g1 H1. apply (H g1). right. exact H1.
      - intros t0 H. apply Hr3. intros H1. apply H. right. exact H1. }
    destruct (Nat.eqb g0 g); cbn [Multi.run_trace]; exact (IH _ _ _ _ Hw Hok' Hused' Hrel').
  - (* edit *)
    unfold project. cbn [filter ev_target]. fold (project D g tr).
    destruct (Nat.eqb g0 g) eqn:Eg.
    + apply Nat.eqb_eq in Eg. subst g0. cbn [Multi.run_trace].
      destruct (get_db w t) as [w1 d1] eqn:G1. destruct (get_db w' t) as [w1' d1'] eqn:G1'.
      destruct (gd_same _ _ _ _ G1) as [_ E1]. destruct (gd_same _ _ _ _ G1') as [_ E1'].
      assert (Hd: d1' = d1) by (rewrite E1, E1'; exact (Hr1 _ Hin)). clear E1 E1'. subst d1'.
      apply (IH cur used); try assumption; [split; assumption|].
      split; [|split].
      * intros t0 H0. assert (t0 = t) by exact (Hf2 _ _ _ H0 Hin). subst t0. unfold db_of. rewrite !wget_wset_same. reflexivity.
      * intros t0 H0. assert (t0 <> t) by (intros ->; exact (H0 _ Hin)).
        rewrite wget_wset_other by assumption. rewrite (gd_other _ _ _ _ _ G1 H). exact (Hr2 _ H0).
      * intros t0 H0. assert (t0 <> t) by (intros ->; exact (H0 Hin)).
        rewrite wget_wset_other by assumption. rewrite (gd_other _ _ _ _ _ G1' H). exact (Hr3 _ H0).
    + cbn [Multi.run_trace]. apply Nat.eqb_neq in Eg.
      destruct (get_db w t) as [w1 d1] eqn:G1.
      apply (IH cur used); try assumption; [split; assumption|].
      split; [|split].
      * intros t0 H0. assert (t0 <> t) by (intros ->; apply Eg; exact (Hf1 _ _ _ Hin H0)).
        unfold db_of. rewrite wget_wset_other by assumption. rewrite (gd_other _ _ _ _ _ G1 H). exact (Hr1 _ H0).
      * intros t0 H0. assert (t0 <> t) by (intros ->; exact (H0 _ Hin)).
        rewrite wget_wset_other by assumption. rewrite (gd_other _ _ _ _ _ G1 H). exact (Hr2 _ H0).
      * exact Hr3.
  - (* render *)
    unfold project. cbn [filter ev_target]. fold (project D g tr).
    destruct (Nat.eqb g0 g) eqn:Eg.
    + apply Nat.eqb_eq in Eg. subst g0. cbn [Multi.run_trace].
      destruct (get_db w t) as [w1 d1] eqn:G1. destruct (get_db w' t) as [w1' d1'] eqn:G1'.
      destruct (gd_same _ _ _ _ G1) as [S1 E1]. destruct (gd_same _ _ _ _ G1') as [S1' E1'].
      assert (Hd: d1' = d1) by (rewrite E1, E1'; exact (Hr1 _ Hin)). clear E1 E1'. subst d1'.
      rewrite !renders_cons_same. f_equal.
      apply (IH cur used); try assumption; [split; assumption|].
      split; [|split].
      * intros t0 H0. assert (t0 = t) by exact (Hf2 _ _ _ H0 Hin). subst t0. unfold db_of. rewrite S1, S1'. reflexivity.
      * intros t0 H0. assert (t0 <> t) by (intros ->; exact (H0 _ Hin)). rewrite (gd_other _ _ _ _ _ G1 H). exact (Hr2 _ H0).
      * intros t0 H0. assert (t0 <> t) by (intros ->; exact (H0 Hin)). rewrite (gd_other _ _ _ _ _ G1' H). exact (Hr3 _ H0).
    + cbn [Multi.run_trace]. apply Nat.eqb_neq in Eg.
      destruct (get_db w t) as [w1 d1] eqn:G1. rewrite renders_cons_other by exact Eg.
      apply (IH cur used); try assumption; [split; assumption|].
      split; [|split].
      * intros t0 H0. assert (t0 <> t) by (intros ->; apply Eg; exact (Hf1 _ _ _ Hin H0)).
        unfold db_of. rewrite (gd_other _ _ _ _ _ G1 H). exact (Hr1 _ H0).
      * intros t0 H0. assert (t0 <> t) by (intros ->; exact (H0 _ Hin)). rewrite (gd_other _ _ _ _ _ G1 H). exact (Hr2 _ H0).
      * exact Hr3.
  - (* finish *)
    unfold project. cbn [filter ev_target]. fold (project D g tr).
    set (cur' := filter (fun p => negb (Nat.eqb (fst p) t)) cur) in *.
    assert (Hok': cur_ok cur').
    { split; [intros t0 g1 g2 H1 H2|intros t1 t2 g1 H1 H2]; apply in_filter_cur in H1; apply in_filter_cur in H2; destruct H1, H2; eauto. }
    assert (Hused': used_ok cur' used) by (intros t0 g1 H; apply in_filter_cur in H; destruct H; eauto).
    assert (Hidle2: forall t0, (forall g1, ~ In (t0, g1) cur') -> wget (wdel w t) t0 = None).
    { intros t0 H0. destruct (Nat.eq_dec t0 t) as [->|Hne]; [apply wget_wdel_same|].
      rewrite wget_wdel_other by exact Hne. apply Hr2. intros g1 H1. apply (H0 g1). apply in_filter_cur. split; [exact H1|exact Hne]. }
    destruct (Nat.eqb g0 g) eqn:Eg.
    + apply Nat.eqb_eq in Eg. subst g0. cbn [Multi.run_trace].
      assert (Hnone: forall t0, ~ In (t0, g) cur').
      { intros t0 H. apply in_filter_cur in H. destruct H as [H Hne]. cbn [fst] in Hne. apply Hne. exact (Hf2 _ _ _ H Hin). }
      apply (IH cur' used); try assumption.
      split; [|split].
      * intros t0 H. exfalso. exact (Hnone _ H).
      * exact Hidle2.
      * intros t0 _. destruct (Nat.eq_dec t0 t) as [->|Hne]; [apply wget_wdel_same|].
        rewrite wget_wdel_other by exact Hne. apply Hr3. intros H. apply Hne. exact (Hf2 _ _ _ H Hin).
    + cbn [Multi.run_trace]. apply Nat.eqb_neq in Eg.
      apply (IH cur' used); try assumption.
      split; [|split].
      * intros t0 H0. apply in_filter_cur in H0. destruct H0 as [H0 Hne]. cbn [fst] in Hne.
        unfold db_of. rewrite wget_wdel_other by exact Hne. exact (Hr1 _ H0).
      * exact Hidle2.
      * intros t0 H0. apply Hr3. intros H. apply H0. apply in_filter_cur. split; [exact H|]. cbn [fst]. intros ->. apply Eg. exact (Hf1 _ _ _ Hin H).
Qed.

(* C07: under EVERY well-formed schedule of any number of targets on any number of (re-used) worker threads,
   each target's reports are produced from exactly the database a lone run of that target produces them from *)
Theorem isolation (tr : list event) g :
  wf D [] [] tr -> renders_of D g (run_trace [] tr) = renders_of D g (run_trace [] (project D g tr)).
Proof.
  intros H. apply (isolation_gen g tr [] [] [] []); [exact H| | |].
  - split; intros; contradiction.
  - intros t g0 [].
  - split; [intros t []|split; intros; reflexivity].
Qed.
End Iso.

(* ---------- C08: collecting the results ---------- *)
From Coq Require Import Permutation.
Open Scope Z_scope.

Lemma rank_merge ret w : rank (merge ret w) = Nat.max (rank ret) (rank w).
Proof. unfold merge. destruct (Nat.ltb (rank ret) (rank w)) eqn:E; [apply Nat.ltb_lt in E|apply Nat.ltb_ge in E]; lia. Qed.

Lemma fold_merge_rank (l : list (Z * string)) init :
  rank (fold_left (fun ret r => merge ret (fst r)) l init) = fold_left Nat.max (map (fun r => rank (fst r)) l) (rank init).
Proof. revert init. induction l as [|r l IH]; intros init; cbn [fold_left map]; [reflexivity|]. rewrite IH, rank_merge. reflexivity. Qed.

Lemma fold_max_ge l a : (a <= fold_left Nat.max l a)%nat /\ (forall x, In x l -> (x <= fold_left Nat.max l a)%nat).
Proof.
  revert a. induction l as [|y l IH]; intros a; cbn [fold_left]; [split; [lia|intros x []]|].
  destruct (IH (Nat.max a y)) as [A B]. split; [lia|]. intros x [<-|H]; [lia|exact (B x H)].
Qed.
Lemma fold_max_attained l a : fold_left Nat.max l a = a \/ In (fold_left Nat.max l a) l.
Proof.
  revert a. induction l as [|y l IH]; intros a; cbn [fold_left]; [left; reflexivity|].
  destruct (IH (Nat.max a y)) as [H|H]; [|right; right; exact H].
  rewrite H. destruct (Nat.max_spec a y) as [[_ E]|[_ E]]; rewrite E; [right; left; reflexivity|left; reflexivity].
Qed.
Lemma fold_max_perm l1 l2 a : Permutation l1 l2 -> fold_left Nat.max l1 a = fold_left Nat.max l2 a.
Proof.
  intros H. revert a. induction H as [|x l1 l2 H IH|x y l|l1 l2 l3 H1 IH1 H2 IH2]; intros a; cbn [fold_left].
  - reflexivity.
  - apply IH.
  - f_equal. lia.
  - rewrite IH1. apply IH2.
Qed.

Lemma fold_merge_in (l : list (Z * string)) init :
  fold_left (fun ret r => merge ret (fst r)) l init = init \/ In (fold_left (fun ret r => merge ret (fst r)) l init) (map fst l).
Proof.
  revert init. induction l as [|r l IH]; intros init; cbn [fold_left map]; [left; reflexivity|].
  destruct (IH (merge init (fst r))) as [H|H]; [|right; right; exact H].
  rewrite H. unfold merge. destruct (Nat.ltb (rank init) (rank (fst r))); [right; left; reflexivity|left; reflexivity].
Qed.

(* the run's status ranks at least as high as every target's, and is GOOD or one of the targets' statuses *)
Theorem exit_is_max_rank (results : list (Z * string)) :
  (forall r, In r results -> (rank (fst r) <= rank (final_status results))%nat) /\
  (final_status results = exit_GOOD \/ In (final_status results) (map fst results)).
Proof.
  unfold final_status. split.
  - intros r Hr. rewrite fold_merge_rank. apply (proj2 (fold_max_ge _ _)). apply in_map_iff. exists r. auto.
  - apply fold_merge_in.
Qed.

Lemma rank_injective a b : In a ranked_return_codes -> In b ranked_return_codes -> rank a = rank b -> a = b.
Proof.
  unfold ranked_return_codes. cbn [In].
  intros [<-|[<-|[<-|[<-|[<-|[]]]]]] [<-|[<-|[<-|[<-|[<-|[]]]]]] H; vm_compute in H; try reflexivity; discriminate.
Qed.
Lemma good_ranked : In exit_GOOD ranked_return_codes.
Proof. vm_compute. tauto. Qed.

(* completion order does not matter *)
Theorem final_status_order_independent (r1 r2 : list (Z * string)) :
  Permutation r1 r2 -> (forall r, In r r1 -> In (fst r) ranked_return_codes) -> final_status r1 = final_status r2.
Proof.
  intros HP Hin.
  assert (Hin2: forall r, In r r2 -> In (fst r) ranked_return_codes) by (intros r Hr; apply Hin; eapply Permutation_in; [apply Permutation_sym; exact HP|exact Hr]).
  assert (Hs: forall l, (forall r, In r l -> In (fst r) ranked_return_codes) -> In (final_status l) ranked_return_codes).
  { intros l Hl. destruct (proj2 (exit_is_max_rank l)) as [->|H]; [exact good_ranked|].
    apply in_map_iff in H. destruct H as [r [E Hr]]. rewrite <- E. exact (Hl r Hr). }
  apply rank_injective; [exact (Hs r1 Hin)|exact (Hs r2 Hin2)|].
  unfold final_status. rewrite !fold_merge_rank. apply fold_max_perm. apply Permutation_map. exact HP.
Qed.

(* one block per target, delimiters only between blocks; JSON: "[" b1 ", " b2 ... "]" *)
Theorem one_block_each (json : bool) (results : list (Z * string)) : List.length (map snd results) = List.length results.
Proof. apply map_length. Qed.
Theorem json_array_shape (results : list (Z * string)) :
  multi_stdout true results = "[" +++ join ", " (map snd results) +++ "]" +++ nl.
Proof.
  unfold multi_stdout. f_equal. f_equal. induction (map snd results) as [|b r IH]; [reflexivity|].
  destruct r as [|b2 r]; [reflexivity|]. cbn [print_blocks join] in *. rewrite IH.
  clear. induction b as [|c b IHb]; cbn [String.append]; [reflexivity|]. f_equal. exact IHb.
Qed.

Lemma rank_order : map rank [exit_GOOD; exit_WARNING; exit_FAILURE; exit_CONNECTION_ERROR; exit_UNKNOWN_ERROR] = [0; 1; 2; 3; 4]%nat.
Proof. vm_compute. reflexivity. Qed.
