(* C10 / C09: the SSH-2 packet reader leaves the connection exactly at the first byte after the packet it returned, however
   the byte stream is cut into TCP segments; hence a sequence of framed packets is read back packet by packet under every
   segmentation (the second packet on a connection is as well-framed as the first). *)
From Coq Require Import Lia ZifyBool.
From VModel Require Import Net.
From VProofs Require Import WireProofs NetProofs AuditProofs SegProofs.
Open Scope list_scope. Open Scope Z_scope.

(* what is still to be read from a connection: buffered bytes, then the segments that have not arrived yet *)
Definition resid (s : sock) : list Z := s_buf s ++ List.concat (s_chunks s).
Definition norm (r : sock * pkt) : list Z * pkt := (resid (fst r), snd r).

Ltac fin := unfold norm, resid; cbn [fst snd s_buf s_chunks s_end with_buf List.concat]; rewrite ?app_nil_r; try reflexivity.

Lemma dec_u32_suffix a v r : dec_u32 a = Ok (v, r) -> exists h, a = h ++ r.
Proof. destruct a as [|x0 [|x1 [|x2 [|x3 a]]]]; cbn [dec_u32]; try discriminate. intros H. injection H as _ <-. exists [x0; x1; x2; x3]. reflexivity. Qed.

(* bytes are bytes: the stream the peer sends consists of values 0..255 (wfb); the model's lists could hold any integer *)
Ltac fin2 := split; [fin | try (match goal with x : ending |- _ => destruct x end); cbn [fst snd s_buf s_chunks s_end with_buf insufficient err_of]; (split; [try assumption; try constructor | reflexivity])].

Lemma read_packet2_seg_full buf cs e : nonempty_chunks cs -> wfb (buf ++ List.concat cs) ->
  norm (read_packet2 (MK buf cs e)) = norm (read_packet2 (MK (buf ++ List.concat cs) [] e))
  /\ (nonempty_chunks (s_chunks (fst (read_packet2 (MK buf cs e)))) /\ s_end (fst (read_packet2 (MK buf cs e))) = e).
Proof.
  intros Hne Hwf. unfold read_packet2. rewrite ensure_flat.
  destruct (ensure_mk buf cs e 4 Hne) as [[Hle [b1 [cs1 [-> [T1 [L1 N1]]]]]]|[Hlt ->]].
  2:{ destruct (4 <=? zlen (buf ++ List.concat cs)) eqn:E; [lia|]. fin2. }
  destruct (4 <=? zlen (buf ++ List.concat cs)) eqn:E; [|lia]. cbn [s_buf]. rewrite <- T1.
  destruct (dec_u32_enough _ L1) as [plen [r1 D1]]. rewrite D1, (dec_u32_prefix _ (List.concat cs1) _ _ D1).
  unfold with_buf. cbn [s_buf s_chunks s_end]. rewrite ensure_flat.
  destruct (ensure_mk r1 cs1 e 1 N1) as [[Hle2 [b2 [cs2 [-> [T2 [L2 N2]]]]]]|[Hlt2 ->]].
  2:{ destruct (1 <=? zlen (r1 ++ List.concat cs1)) eqn:E2; [lia|]. fin2. }
  destruct (1 <=? zlen (r1 ++ List.concat cs1)) eqn:E2; [|lia]. cbn [s_buf]. rewrite <- T2.
  destruct (dec_byte_enough _ L2) as [padlen [r2 D2]]. rewrite D2, (dec_byte_prefix _ (List.concat cs2) _ _ D2).
  cbn [s_buf s_chunks s_end].
  destruct (negb ((4 + 1 + (plen - padlen - 1) + padlen) mod 8 =? 0)); [fin2|].
  rewrite ensure_flat.
  destruct (ensure_mk r2 cs2 e (plen - padlen - 1) N2) as [[Hle3 [b3 [cs3 [-> [T3 [L3 N3]]]]]]|[Hlt3 ->]].
  2:{ destruct (plen - padlen - 1 <=? zlen (r2 ++ List.concat cs2)) eqn:E3; [lia|]. fin2. }
  destruct (plen - padlen - 1 <=? zlen (r2 ++ List.concat cs2)) eqn:E3; [|lia]. cbn [s_buf s_chunks s_end].
  destruct (plen - padlen - 1 <? 1) eqn:Ep; [fin2; rewrite T3; reflexivity|].
  rewrite <- T3. rewrite take_prefix, drop_prefix by lia.
  destruct (take (plen - padlen - 1) b3) as [|t pl]; [fin2|].
  rewrite ensure_flat. cbn [s_buf s_chunks s_end].
  destruct (ensure_mk (drop (plen - padlen - 1) b3) cs3 e padlen N3) as [[Hle4 [b4 [cs4 [-> [T4 [L4 N4]]]]]]|[Hlt4 ->]].
  - destruct (padlen <=? zlen (drop (plen - padlen - 1) b3 ++ List.concat cs3)) eqn:E4; [|lia].
    fin2. rewrite <- T4.
    assert (Hp : 0 <= padlen).
    { destruct (dec_u32_suffix _ _ _ D1) as [h Eh]. rewrite <- T1, Eh, <- app_assoc in Hwf.
      apply Forall_app in Hwf. destruct Hwf as [_ Hwf]. rewrite <- T2 in Hwf.
      destruct b2 as [|x b2]; [discriminate|]. cbn [dec_byte] in D2. injection D2 as <- _.
      cbn [app] in Hwf. inversion Hwf as [|? ? Hx _]. lia. }
    rewrite drop_prefix by lia. reflexivity.
  - destruct (padlen <=? zlen (drop (plen - padlen - 1) b3 ++ List.concat cs3)) eqn:E4; [lia|fin2].
Qed.

Theorem read_packet2_segmentation_state buf cs e : nonempty_chunks cs -> wfb (buf ++ List.concat cs) ->
  norm (read_packet2 (MK buf cs e)) = norm (read_packet2 (MK (buf ++ List.concat cs) [] e)).
Proof. intros H1 H2. exact (proj1 (read_packet2_seg_full buf cs e H1 H2)). Qed.

(* ---- a sequence of packets on one connection ---- *)
Fixpoint read_many (n : nat) (s : sock) : list pkt :=
  match n with O => [] | S k => let (s', p) := read_packet2 s in p :: read_many k s' end.

Definition framed (p : Z * list Z) (d : list Z) : Prop := frame (fst p :: snd p) = Ok d.


(* every framed packet of a stream is returned in turn, whatever follows the last one and however the stream is cut into segments *)
Theorem read_stream : forall ps ds, Forall2 framed ps ds ->
  forall buf cs e tail, nonempty_chunks cs -> wfb (buf ++ List.concat cs) -> buf ++ List.concat cs = List.concat ds ++ tail ->
  read_many (List.length ps) (MK buf cs e) = map (fun p => PktOk (fst p) (snd p)) ps.
Proof.
  induction 1 as [|p d ps ds Hf HF IH]; intros buf cs e tail Hne Hwf Hs; cbn [read_many List.length map]; [reflexivity|].
  destruct (read_packet2_seg_full buf cs e Hne Hwf) as [Hn [Hc He]].
  destruct (read_packet2 (MK buf cs e)) as [s' pk] eqn:R. cbn [fst snd] in Hn, Hc, He.
  rewrite Hs in Hn, Hwf. cbn [List.concat] in Hn, Hwf. rewrite <- app_assoc in Hn, Hwf.
  pose proof (read_frame (fst p) (snd p) d (List.concat ds ++ tail) [] e Hf) as RF. unfold mk in RF. rewrite RF in Hn.
  unfold norm, resid in Hn. cbn [fst snd s_buf s_chunks List.concat] in Hn. rewrite app_nil_r in Hn.
  injection Hn as Hres Hpk. subst pk. f_equal.
  destruct s' as [b' cs' e']. cbn [s_buf s_chunks s_end] in Hres, Hc, He. subst e'.
  apply IH with (tail := tail); [exact Hc| |exact Hres].
  rewrite Hres. apply Forall_app in Hwf. exact (proj2 Hwf).
Qed.

(* in particular with nothing buffered: the peer's stream is any segmentation of frame p1 ++ frame p2 ++ ... ++ tail *)
Corollary read_stream_fresh : forall ps ds cs e tail, Forall2 framed ps ds -> nonempty_chunks cs -> wfb (List.concat cs) ->
  List.concat cs = List.concat ds ++ tail ->
  read_many (List.length ps) (MK [] cs e) = map (fun p => PktOk (fst p) (snd p)) ps.
Proof. intros ps ds cs e tail HF Hne Hwf Hs. exact (read_stream ps ds HF [] cs e tail Hne Hwf Hs). Qed.

(* the hypotheses are satisfiable: two framed packets cut into three segments that straddle both packet boundaries *)
Example read_stream_nonvacuous :
  read_many 2 (MK [] [[0;0;0;12;5;20;1;2]; [3;4;5;0;0;0;0;0; 0;0;0;12;9]; [21;7;0;0;0;0;0;0;0;0;0; 99]] Close) = [PktOk 20 [1;2;3;4;5]; PktOk 21 [7]].
Proof. vm_compute. reflexivity. Qed.
