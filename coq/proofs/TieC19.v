(* C19: which follow-up phases an audit runs is decided by one block of audit() (between the parsed KEXINIT and the report).  The translator rewrites the calls
   that start a phase into entries of a log and translates the rest as it stands (T1c, gen/Tables.v: src_audit_phases).  The statements of the property about
   WHICH traffic an audit may cause are theorems about that function, i.e. about the block as it reads in the current source: *)
From Coq Require Import ZArith List String Bool Lia.
From VGen Require Import Tables.
From VModel Require Import AuditSM.
Open Scope string_scope. Open Scope list_scope.

(* the denial-of-service test and the connection-rate flood run only when explicitly configured *)
Lemma dos_only_on_request : forall dheat flood ca gt skip,
  (In "dheat" (src_audit_phases dheat flood ca gt skip) -> dheat = true) /\
  (In "rate-flood" (src_audit_phases dheat flood ca gt skip) -> flood = true).
Proof.
  intros dheat flood ca gt skip. unfold src_audit_phases.
  destruct dheat; destruct flood; destruct ca; destruct (String.eqb gt ""); destruct skip; cbn; split; intros H;
    repeat (destruct H as [H|H]; try discriminate H); try reflexivity; try contradiction.
Qed.
(* a standard audit (neither configured, no granular test): host-key probes, group-exchange probes, then the rate check unless skipped; a client audit probes nothing *)
Lemma standard_audit_phases : forall ca skip,
  src_audit_phases false false ca "" skip =
  if ca then [] else ["hostkey"; "gex"] ++ (if skip then [] else ["rate-check"]).
Proof. intros [|] [|]; reflexivity. Qed.
Lemma skip_means_no_rate_check : forall dheat flood ca gt, ~ In "rate-check" (src_audit_phases dheat flood ca gt true).
Proof.
  intros dheat flood ca gt. unfold src_audit_phases.
  destruct dheat; destruct flood; destruct ca; destruct (String.eqb gt ""); cbn; intros H;
    repeat (destruct H as [H|H]; try discriminate H); try contradiction.
Qed.
(* the model's connection log has exactly those phases: client audits have the first connection only, --skip-rate-test leaves no rate-check connection *)
Lemma model_phases_agree : forall ca skip k pe,
  (In "hostkey" (src_audit_phases false false ca "" skip) \/ fst (audit_conns ca skip k pe) = [CFirst]) /\
  (In "rate-check" (src_audit_phases false false ca "" skip) \/ snd (audit_conns ca skip k pe) = 0%Z).
Proof.
  intros ca skip k pe. rewrite standard_audit_phases. unfold audit_conns, rate_conns.
  destruct ca; destruct skip; cbn [fst snd orb]; split; try (right; reflexivity); left; cbn; tauto.
Qed.

(* the translator found the source shape it extracts rate_check_arguments from (otherwise gen/Tables.v carries fallback values and this lemma fails) *)
Lemma tie_extract_ok_rate_check_arguments : extract_ok_rate_check_arguments = true.
Proof. reflexivity. Qed.

(* the translator found the source shape it extracts send_kexinit_defaults from (otherwise gen/Tables.v carries fallback values and this lemma fails) *)
Lemma tie_extract_ok_send_kexinit_defaults : extract_ok_send_kexinit_defaults = true.
Proof. reflexivity. Qed.

(* the connection-rate check of a standard audit (non-interactive, within its time budget): the stop conditions of the loop and the condition under which one more
   socket is opened, as they read in the current source (T1c translation), are the ones the model's rate_loop / open_new use *)
Open Scope Z_scope.
Lemma tie_rate_stop_opened : forall opened, (rate_max_connections <=? opened) = src_rate_stop_time_or_opened false false opened rate_max_connections.
Proof. intros. unfold src_rate_stop_time_or_opened. cbn [Bool.eqb andb orb]. rewrite Z.geb_leb. reflexivity. Qed.
Lemma tie_rate_stop_attempts : forall attempted pending,
  ((rate_max_connections <=? attempted) && (pending =? 0)) = src_rate_stop_attempts false attempted rate_max_connections pending.
Proof. intros. unfold src_rate_stop_attempts. cbn [Bool.eqb andb]. rewrite Z.geb_leb. reflexivity. Qed.
Lemma tie_rate_open_more : forall pending opened attempted,
  ((pending <? rate_concurrent_sockets) && (pending + opened <? rate_max_connections) && (attempted <? rate_max_connections))
  = src_rate_open_more false pending rate_concurrent_sockets opened attempted rate_max_connections.
Proof. reflexivity. Qed.
(* the time budget ends the loop whatever the counters say *)
Lemma rate_time_up_stops : forall opened maxc, src_rate_stop_time_or_opened false true opened maxc = true.
Proof. reflexivity. Qed.
