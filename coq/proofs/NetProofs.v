From Coq Require Import Lia ZifyBool.
From VModel Require Import Net.
From VProofs Require Import WireProofs.
Open Scope list_scope. Open Scope Z_scope.

Lemma pad_len_spec n : 4 <= pad_len n <= 11 /\ (n + pad_len n + 5) mod 8 = 0.
Proof.
  unfold pad_len. pose proof (Z.mod_pos_bound (- (n + 5)) 8 ltac:(lia)) as Hb.
  pose proof (Z.div_mod (- (n + 5)) 8 ltac:(lia)) as Hd.
  set (p := (- (n + 5)) mod 8) in *. set (q := (- (n + 5)) / 8) in *.
  destruct (p <? 4) eqn:E.
  - split; [lia|]. replace (n + (p + 8) + 5) with ((- q + 1) * 8) by lia. apply Z.mod_mul. lia.
  - split; [lia|]. replace (n + p + 5) with ((- q) * 8) by lia. apply Z.mod_mul. lia.
Qed.

Lemma zlen_repeat {A} (x : A) k : zlen (repeat x k) = Z.of_nat k.
Proof. unfold zlen. rewrite repeat_length. reflexivity. Qed.

(* RFC 4253 section 6: what send_packet emits, for every payload *)
Theorem frame_wf payload data :
  frame payload = Ok data ->
  let pad := pad_len (zlen payload) in
  data = be_bytes 4 (zlen payload + pad + 1) ++ [pad] ++ payload ++ repeat 0 (Z.to_nat pad)
  /\ zlen data = 4 + (zlen payload + pad + 1)
  /\ zlen data mod 8 = 0
  /\ 4 <= pad <= 255
  /\ val (firstn 4 data) = zlen data - 4.
Proof.
  unfold frame, bind. cbv zeta. set (pad := pad_len (zlen payload)).
  destruct (enc_u32 (zlen payload + pad + 1)) as [h|] eqn:E; [|discriminate].
  intros H; injection H as <-.
  destruct (pad_len_spec (zlen payload)) as [Hp Hm]. fold pad in Hp, Hm.
  pose proof (zlen_nonneg payload) as Hn.
  assert (Hh: h = be_bytes 4 (zlen payload + pad + 1)).
  { unfold enc_u32 in E. destruct (u32_ok _); [injection E as <-; reflexivity|discriminate]. }
  assert (Hlen: zlen (h ++ [pad] ++ payload ++ repeat 0 (Z.to_nat pad)) = 4 + (zlen payload + pad + 1)).
  { rewrite !zlen_app, zlen_repeat. destruct (enc_u32_wf _ _ E) as [_ ->]. change (zlen [pad]) with 1. lia. }
  cbn [app] in Hlen |- *.
  split; [rewrite Hh; reflexivity|]. split; [exact Hlen|]. split.
  - rewrite Hlen. replace (4 + (zlen payload + pad + 1)) with (zlen payload + pad + 5 + 0 * 8) by lia.
    rewrite Z.mod_add by lia. exact Hm.
  - split; [lia|]. rewrite Hlen.
    assert (Hf: firstn 4 (h ++ pad :: payload ++ repeat 0 (Z.to_nat pad)) = h).
    { rewrite firstn_app. assert (Hl: List.length h = 4%nat) by (rewrite Hh; apply be_bytes_length).
      rewrite Hl, Nat.sub_diag. rewrite firstn_all2 by lia. rewrite firstn_O. apply app_nil_r. }
    rewrite Hf, Hh, val_be_bytes. unfold enc_u32, u32_ok in E.
    destruct ((0 <=? zlen payload + pad + 1) && (zlen payload + pad + 1 <? 4294967296)) eqn:Eb; [|discriminate].
    change (256 ^ Z.of_nat 4) with 4294967296. rewrite Z.mod_small by lia. lia.
Qed.

Definition mk (buf : list Z) (cs : list (list Z)) (e : ending) : sock := {| s_buf := buf; s_chunks := cs; s_end := e |}.

Lemma ensure_enough buf cs e size : size <= zlen buf -> ensure_chunks buf cs e size = (mk buf cs e, None).
Proof. intros H. destruct cs as [|c cs]; cbn [ensure_chunks]; destruct (zlen buf >=? size) eqn:E; try reflexivity; lia. Qed.

Lemma zlen_cons_ge1 {A} (x : A) l : 1 <= zlen (x :: l).
Proof. rewrite zlen_cons. pose proof (zlen_nonneg l). lia. Qed.

Lemma take_app_ge (a b : list Z) : take (zlen a) (a ++ b) = a.
Proof. apply take_app_exact. Qed.

(* the tool's own reader returns exactly the framed payload, whatever follows in the buffer *)
Theorem read_frame t pl data rest cs e :
  frame (t :: pl) = Ok data ->
  read_packet2 (mk (data ++ rest) cs e) = (mk rest cs e, PktOk t pl).
Proof.
  intros Hf. pose proof (frame_wf _ _ Hf) as Hw. cbv zeta in Hw.
  remember (t :: pl) as payload eqn:Hpl. set (pad := pad_len (zlen payload)) in *.
  destruct Hw as [Hd [Hlen [Hmod [Hpad _]]]].
  pose proof (zlen_nonneg payload) as Hn.
  assert (E: enc_u32 (zlen payload + pad + 1) = Ok (be_bytes 4 (zlen payload + pad + 1))).
  { unfold frame, bind in Hf. cbv zeta in Hf. fold pad in Hf.
    destruct (enc_u32 (zlen payload + pad + 1)) as [h|] eqn:E; [|discriminate].
    unfold enc_u32 in E. destruct (u32_ok _); [symmetry; exact E|discriminate]. }
  clear Hf. rewrite Hd in Hlen, Hmod. rewrite Hd. clear Hd data.
  unfold read_packet2, ensure_read. cbn [s_buf s_chunks s_end mk].
  rewrite ensure_enough by (rewrite zlen_app; pose proof (zlen_nonneg rest); lia).
  cbn [s_buf mk]. rewrite <- !app_assoc.
  rewrite (u32_roundtrip _ _ _ E).
  unfold with_buf. cbn [s_buf s_chunks s_end mk].
  rewrite ensure_enough by (apply zlen_cons_ge1).
  cbn [s_buf mk app dec_byte s_chunks s_end].
  replace (zlen payload + pad + 1 - pad - 1) with (zlen payload) by lia.
  replace ((4 + 1 + zlen payload + pad) mod 8) with 0.
  2:{ symmetry. rewrite <- Hmod, Hlen. f_equal. lia. }
  cbn [Z.eqb negb].
  rewrite ensure_enough by (rewrite zlen_app; pose proof (zlen_nonneg (repeat 0 (Z.to_nat pad) ++ rest)); lia).
  cbn [s_buf mk s_chunks s_end].
  assert (Hp1: (zlen payload <? 1) = false) by (rewrite Hpl, zlen_cons; pose proof (zlen_nonneg pl); lia).
  rewrite Hp1. rewrite take_app_exact, drop_app_exact.
  rewrite Hpl at 1. cbv iota.
  rewrite ensure_enough by (rewrite zlen_app, zlen_repeat; pose proof (zlen_nonneg rest); lia).
  cbn [s_buf mk s_chunks s_end].
  assert (Hz: pad = zlen (repeat 0 (Z.to_nat pad))) by (rewrite zlen_repeat; lia).
  rewrite Hz at 1. rewrite drop_app_exact. reflexivity.
Qed.
